(* JsonPrint.v — what the J5 encoder prints, and a strict reader for it.
   Go strings are byte lists (list N, every element < 256).

   * utf8_len       utf8.DecodeRuneInString's verdict on the head of a byte string
   * escape         appendString of internal/codec/stdlib.copy.go (copied from protojson)
   * print_Z        strconv.FormatInt / FormatUint (base 10)
   * parse_Z        strconv.ParseInt(s, 10, _) without the range check
   * jvalue, print    JSON trees (ordered members, number literals kept as text) and
                    the compact printer
   * strict_parse   a strict RFC 8259 recogniser/parser (whitespace allowed, number
                    grammar enforced, raw control characters and invalid UTF-8 in
                    strings rejected, no trailing non-whitespace)
   Definitions first, then their lemmas (escape_spec, parse_str_print, parse_print,
   parse_print_Z, print_Z_valid_number). *)
From Coq Require Import String List Arith NArith ZArith Bool Lia ZifyN ZifyNat ZifyBool.
From J5V.lib Require Import Radix Outcome Json.
Import ListNotations.
Local Open Scope N_scope.
Local Open Scope bool_scope.

(* ------------------------------------------------------------------ UTF-8 *)
(* width of the well-formed UTF-8 sequence at the head of [s]; None is
   utf8.DecodeRuneInString's (RuneError, 1) (or the empty string) *)
Definition utf8_len (s : list N) : option nat :=
  match s with
  | [] => None
  | b0 :: r =>
    if b0 <? 128 then Some 1%nat
    else if b0 <? 194 then None
    else if b0 <? 224 then
      match r with
      | b1 :: _ => if cont b1 then Some 2%nat else None
      | _ => None
      end
    else if b0 <? 240 then
      match r with
      | b1 :: b2 :: _ =>
          let lo := if b0 =? 224 then 160 else 128 in
          let hi := if b0 =? 237 then 159 else 191 in
          if (lo <=? b1) && (b1 <=? hi) && cont b2 then Some 3%nat else None
      | _ => None
      end
    else if b0 <? 245 then
      match r with
      | b1 :: b2 :: b3 :: _ =>
          let lo := if b0 =? 240 then 144 else 128 in
          let hi := if b0 =? 244 then 143 else 191 in
          if (lo <=? b1) && (b1 <=? hi) && cont b2 && cont b3 then Some 4%nat else None
      | _ => None
      end
    else None
  end.

Fixpoint valid_utf8_fuel (fuel : nat) (s : list N) : bool :=
  match s with
  | [] => true
  | _ =>
    match fuel with
    | O => false
    | S f => match utf8_len s with
             | Some n => valid_utf8_fuel f (skipn n s)
             | None => false
             end
    end
  end.
Definition valid_utf8 (s : list N) : bool := valid_utf8_fuel (length s) s.

(* ------------------------------------------------------------------ appendString *)
Definition hex_lower (d : N) : N := if d <? 10 then 48 + d else 87 + d.

(* one ASCII byte (b < 128) *)
Definition esc_ascii (b : N) : list N :=
  if b =? 34 then [92; 34]
  else if b =? 92 then [92; 92]
  else if b <? 32 then
    if b =? 8 then [92; 98]
    else if b =? 12 then [92; 102]
    else if b =? 10 then [92; 110]
    else if b =? 13 then [92; 114]
    else if b =? 9 then [92; 116]
    else [92; 117; 48; 48; hex_lower (b / 16); hex_lower (b mod 16)]
  else [b].

(* the loop of appendString, rune by rune (the indexNeedEscapeInString fast path
   copies runs of runs that need no escape; same result) *)
Fixpoint esc_body (fuel : nat) (s : list N) : outcome (list N) :=
  match s with
  | [] => Ok []
  | b :: r =>
    match fuel with
    | O => OutOfFuel
    | S f =>
      if b <? 128 then omap (app (esc_ascii b)) (esc_body f r)
      else match utf8_len s with
           | Some n => omap (app (firstn n s)) (esc_body f (skipn n s))
           | None => Err "invalid UTF-8"
           end
    end
  end.

Definition escape (s : list N) : outcome (list N) :=
  omap (fun b => 34 :: b ++ [34]) (esc_body (length s) s).

(* byte-wise form, equal to esc_body on valid UTF-8 (proved) *)
Definition esc_byte (b : N) : list N := if b <? 128 then esc_ascii b else [b].
Definition esc_bytes (s : list N) : list N := flat_map esc_byte s.

(* ------------------------------------------------------------------ integers *)
Definition digits_of (n : N) : list N :=
  if n =? 0 then [48]
  else rev (map (fun d => 48 + d) (to_digits_le 10 (N.to_nat (N.size n)) n)).

Definition print_Z (z : Z) : list N :=
  match z with
  | Z0 => [48]
  | Zpos p => digits_of (Npos p)
  | Zneg p => 45 :: digits_of (Npos p)
  end.

Definition parse_N (s : list N) : option N :=
  match s with
  | [] => None
  | _ => if forallb is_digit s then Some (of_digits_be 10 0 (map (fun c => c - 48) s)) else None
  end.

(* strconv.ParseInt(s, 10, 64) up to the range check: optional sign, >= 1 digit *)
Definition parse_Z (s : list N) : option Z :=
  match s with
  | c :: r =>
      if c =? 45 then option_map (fun n => (- Z.of_N n)%Z) (parse_N r)
      else if c =? 43 then option_map Z.of_N (parse_N r)
      else option_map Z.of_N (parse_N s)
  | [] => None
  end.

(* ------------------------------------------------------------------ JSON trees *)
Fixpoint join (sep : N) (l : list (list N)) : list N :=
  match l with
  | [] => []
  | [x] => x
  | x :: r => x ++ sep :: join sep r
  end.

Definition print_str (s : list N) : list N := 34 :: esc_bytes s ++ [34].

Fixpoint print (j : jvalue) : list N :=
  match j with
  | JNull => [110; 117; 108; 108]
  | JBool true => [116; 114; 117; 101]
  | JBool false => [102; 97; 108; 115; 101]
  | JNum lit => lit
  | JStr s => print_str s
  | JArr l => 91 :: join 44 (map print l) ++ [93]
  | JObj l => 123 :: join 44 (map (fun kv => print_str (fst kv) ++ 58 :: print (snd kv)) l) ++ [125]
  end.

(* ------------------------------------------------------------------ strict reader *)
Definition cons_fst {A} (xs : list N) (o : option (list N * A)) : option (list N * A) :=
  match o with
  | Some (s, r) => Some (xs ++ s, r)
  | None => None
  end.

(* after the opening quote: decoded bytes and the text after the closing quote.
   Lone surrogate escapes become U+FFFD (as encoding/jvalue does). *)
Fixpoint parse_str (fuel : nat) (s : list N) : option (list N * list N) :=
  match fuel with
  | O => None
  | S f =>
    match s with
    | [] => None
    | b :: r =>
      if b =? 34 then Some ([], r)
      else if b =? 92 then
        match r with
        | [] => None
        | e :: r0 =>
          if e =? 34 then cons_fst [34] (parse_str f r0)
          else if e =? 92 then cons_fst [92] (parse_str f r0)
          else if e =? 47 then cons_fst [47] (parse_str f r0)
          else if e =? 98 then cons_fst [8] (parse_str f r0)
          else if e =? 102 then cons_fst [12] (parse_str f r0)
          else if e =? 110 then cons_fst [10] (parse_str f r0)
          else if e =? 114 then cons_fst [13] (parse_str f r0)
          else if e =? 116 then cons_fst [9] (parse_str f r0)
          else if e =? 117 then
            match r0 with
            | a :: b1 :: c :: d :: r1 =>
              match hex4 a b1 c d with
              | None => None
              | Some u =>
                if (55296 <=? u) && (u <? 56320) then
                  match r1 with
                  | 92 :: 117 :: a2 :: b2 :: c2 :: d2 :: r2 =>
                    match hex4 a2 b2 c2 d2 with
                    | Some v =>
                        if (56320 <=? v) && (v <? 57344)
                        then cons_fst (encode_rune (65536 + (u - 55296) * 1024 + (v - 56320))) (parse_str f r2)
                        else cons_fst [239; 191; 189] (parse_str f r1)
                    | None => cons_fst [239; 191; 189] (parse_str f r1)
                    end
                  | _ => cons_fst [239; 191; 189] (parse_str f r1)
                  end
                else if (56320 <=? u) && (u <? 57344) then cons_fst [239; 191; 189] (parse_str f r1)
                else cons_fst (encode_rune u) (parse_str f r1)
              end
            | _ => None
            end
          else None
        end
      else if b <? 32 then None
      else if b <? 128 then cons_fst [b] (parse_str f r)
      else match utf8_len s with
           | Some n => cons_fst (firstn n s) (parse_str f (skipn n s))
           | None => None
           end
    end
  end.

(* number grammar: -? (0 | [1-9][0-9]* ) (. [0-9]+)? ([eE] [+-]? [0-9]+)? *)
Fixpoint span_digits (s : list N) : list N * list N :=
  match s with
  | c :: r => if is_digit c then let (d, t) := span_digits r in (c :: d, t) else ([], s)
  | [] => ([], [])
  end.

Definition num_exp (s : list N) : bool :=
  match s with
  | [] => true
  | c :: r =>
    if (c =? 101) || (c =? 69) then
      let r' := match r with
                | sg :: t => if (sg =? 43) || (sg =? 45) then t else r
                | [] => r
                end in
      match span_digits r' with
      | (_ :: _, []) => true
      | _ => false
      end
    else false
  end.

Definition num_frac (s : list N) : bool :=
  match s with
  | c :: r =>
      if c =? 46 then
        match span_digits r with
        | (_ :: _, t) => num_exp t
        | _ => false
        end
      else num_exp s
  | [] => true
  end.

Definition valid_number (lit : list N) : bool :=
  let body := match lit with
              | c :: r => if c =? 45 then r else lit
              | [] => lit
              end in
  match body with
  | c :: r => if c =? 48 then num_frac r
              else if is_digit c then num_frac (snd (span_digits r)) else false
  | [] => false
  end.

Definition is_num_char (c : N) : bool :=
  is_digit c || (c =? 45) || (c =? 43) || (c =? 46) || (c =? 101) || (c =? 69).

Fixpoint span_num (s : list N) : list N * list N :=
  match s with
  | c :: r => if is_num_char c then let (d, t) := span_num r in (c :: d, t) else ([], s)
  | [] => ([], [])
  end.

Fixpoint sp_value (fuel : nat) (s : list N) {struct fuel} : option (jvalue * list N) :=
  match fuel with
  | O => None
  | S f =>
    match skip_ws s with
    | [] => None
    | c :: r =>
      if c =? 123 then
        match skip_ws r with
        | [] => None
        | c1 :: r' =>
          if c1 =? 125 then Some (JObj [], r')
          else match sp_members f (c1 :: r') with
               | Some (l, r2) => Some (JObj l, r2)
               | None => None
               end
        end
      else if c =? 91 then
        match skip_ws r with
        | [] => None
        | c1 :: r' =>
          if c1 =? 93 then Some (JArr [], r')
          else match sp_elems f (c1 :: r') with
               | Some (l, r2) => Some (JArr l, r2)
               | None => None
               end
        end
      else if c =? 34 then
        match parse_str (S (length r)) r with
        | Some (str, r') => Some (JStr str, r')
        | None => None
        end
      else if c =? 116 then
        match strip_prefix [114; 117; 101] r with Some r' => Some (JBool true, r') | None => None end
      else if c =? 102 then
        match strip_prefix [97; 108; 115; 101] r with Some r' => Some (JBool false, r') | None => None end
      else if c =? 110 then
        match strip_prefix [117; 108; 108] r with Some r' => Some (JNull, r') | None => None end
      else
        let (lit, r') := span_num (c :: r) in
        if valid_number lit then Some (JNum lit, r') else None
    end
  end
(* "key" : value ( , "key" : value )* }   — [s] already stripped of leading whitespace *)
with sp_members (fuel : nat) (s : list N) {struct fuel} : option (list (list N * jvalue) * list N) :=
  match fuel with
  | O => None
  | S f =>
    match s with
    | [] => None
    | q :: r =>
      if q =? 34 then
        match parse_str (S (length r)) r with
        | Some (k, r1) =>
          match skip_ws r1 with
          | [] => None
          | c2 :: r2 =>
            if c2 =? 58 then
              match sp_value f r2 with
              | Some (v, r3) =>
                match skip_ws r3 with
                | [] => None
                | c4 :: r4 =>
                  if c4 =? 125 then Some ([(k, v)], r4)
                  else if c4 =? 44 then
                    match sp_members f (skip_ws r4) with
                    | Some (l, r5) => Some ((k, v) :: l, r5)
                    | None => None
                    end
                  else None
                end
              | None => None
              end
            else None
          end
        | None => None
        end
      else None
    end
  end
(* value ( , value )* ] *)
with sp_elems (fuel : nat) (s : list N) {struct fuel} : option (list jvalue * list N) :=
  match fuel with
  | O => None
  | S f =>
    match sp_value f s with
    | Some (v, r1) =>
      match skip_ws r1 with
      | [] => None
      | c2 :: r2 =>
        if c2 =? 93 then Some ([v], r2)
        else if c2 =? 44 then
          match sp_elems f r2 with
          | Some (l, r3) => Some (v :: l, r3)
          | None => None
          end
        else None
      end
    | None => None
    end
  end.

Definition strict_parse (s : list N) : option jvalue :=
  match sp_value (S (length s)) s with
  | Some (j, r) => match skip_ws r with [] => Some j | _ => None end
  | None => None
  end.

(* ================================================================== lemmas *)
Arguments Nat.sub : simpl never.

(* finite exhaustive check lifted to a universally quantified statement *)
Fixpoint below_aux (fuel : nat) (i : N) : list N :=
  match fuel with
  | O => []
  | S f => i :: below_aux f (N.succ i)
  end.
Definition below (n : N) : list N := below_aux (N.to_nat n) 0.

Lemma below_aux_in f : forall i x, i <= x < i + N.of_nat f -> In x (below_aux f i).
Proof.
  induction f as [|f IH]; intros i x H; [lia|]. cbn [below_aux].
  destruct (N.eq_dec i x) as [->|Hne]; [left; reflexivity|]. right. apply IH. lia.
Qed.

Lemma forall_below (P : N -> bool) n :
  forallb P (below n) = true -> forall x, x < n -> P x = true.
Proof.
  intros H x Hx. rewrite forallb_forall in H. apply H.
  unfold below. apply below_aux_in. lia.
Qed.

Lemma utf8_len_range s n : utf8_len s = Some n -> (1 <= n <= 4)%nat /\ (n <= length s)%nat.
Proof.
  unfold utf8_len. destruct s as [|b0 r]; [discriminate|].
  destruct (b0 <? 128); [intros [= <-]; cbn; lia|].
  destruct (b0 <? 194); [discriminate|].
  destruct (b0 <? 224).
  { destruct r as [|b1 r]; [discriminate|]. destruct (cont b1); [|discriminate]. intros [= <-]; cbn; lia. }
  destruct (b0 <? 240).
  { destruct r as [|b1 [|b2 r]]; try discriminate.
    match goal with |- (if ?c then _ else _) = _ -> _ => destruct c end; [|discriminate]. intros [= <-]; cbn; lia. }
  destruct (b0 <? 245); [|discriminate].
  destruct r as [|b1 [|b2 [|b3 r]]]; try discriminate.
  match goal with |- (if ?c then _ else _) = _ -> _ => destruct c end; [|discriminate]. intros [= <-]; cbn; lia.
Qed.

Lemma utf8_len_ascii b r : b < 128 -> utf8_len (b :: r) = Some 1%nat.
Proof. intros H. unfold utf8_len. replace (b <? 128) with true by lia. reflexivity. Qed.

Lemma utf8_len_high b r n : utf8_len (b :: r) = Some n -> 128 <= b ->
  Forall (fun x => 128 <= x) (firstn n (b :: r)).
Proof.
  unfold utf8_len. intros H Hb. rename b into b0.
  destruct (b0 <? 128) eqn:E0; [lia|].
  destruct (b0 <? 194); [discriminate|].
  destruct (b0 <? 224).
  { destruct r as [|b1 r]; [discriminate|]. destruct (cont b1) eqn:E1; [|discriminate]. injection H as <-.
    unfold cont in E1. cbn [firstn]. repeat constructor; lia. }
  destruct (b0 <? 240).
  { destruct r as [|b1 [|b2 r]]; try discriminate.
    match type of H with (if ?c then _ else _) = _ => destruct c eqn:E1 end; [|discriminate]. injection H as <-.
    unfold cont in E1. cbn [firstn]. repeat constructor; try lia.
    destruct (b0 =? 224); lia. }
  destruct (b0 <? 245); [|discriminate].
  destruct r as [|b1 [|b2 [|b3 r]]]; try discriminate.
  match type of H with (if ?c then _ else _) = _ => destruct c eqn:E1 end; [|discriminate]. injection H as <-.
  unfold cont in E1. cbn [firstn]. repeat constructor; try lia.
  destruct (b0 =? 240); lia.
Qed.

(* utf8_len looks at no more than the bytes it accepts *)
Lemma utf8_len_prefix s n t : utf8_len s = Some n -> utf8_len (firstn n s ++ t) = Some n.
Proof.
  unfold utf8_len. destruct s as [|b0 r]; [discriminate|].
  destruct (b0 <? 128) eqn:E0.
  { intros [= <-]. cbn [firstn app]. rewrite E0. reflexivity. }
  destruct (b0 <? 194) eqn:E1; [discriminate|].
  destruct (b0 <? 224) eqn:E2.
  { destruct r as [|b1 r]; [discriminate|]. destruct (cont b1) eqn:C1; [|discriminate]. intros [= <-].
    cbn [firstn app]. rewrite E0, E1, E2, C1. reflexivity. }
  destruct (b0 <? 240) eqn:E3.
  { destruct r as [|b1 [|b2 r]]; try discriminate.
    match goal with |- (if ?c then _ else _) = _ -> _ => destruct c eqn:C1 end; [|discriminate]. intros [= <-].
    cbn [firstn app]. rewrite E0, E1, E2, E3, C1. reflexivity. }
  destruct (b0 <? 245) eqn:E4; [|discriminate].
  destruct r as [|b1 [|b2 [|b3 r]]]; try discriminate.
  match goal with |- (if ?c then _ else _) = _ -> _ => destruct c eqn:C1 end; [|discriminate]. intros [= <-].
  cbn [firstn app]. rewrite E0, E1, E2, E3, E4, C1. reflexivity.
Qed.

Inductive utf8_ok : list N -> Prop :=
| utf8_ok_nil : utf8_ok []
| utf8_ok_step s n : utf8_len s = Some n -> utf8_ok (skipn n s) -> utf8_ok s.

Lemma valid_fuel_ok f : forall s, valid_utf8_fuel f s = true -> utf8_ok s.
Proof.
  induction f as [|f IH]; intros s H.
  - destruct s; [constructor|discriminate].
  - destruct s as [|b r]; [constructor|]. cbn [valid_utf8_fuel] in H.
    destruct (utf8_len (b :: r)) as [n|] eqn:E; [|discriminate].
    econstructor; eauto.
Qed.

Lemma ok_valid_fuel s : utf8_ok s -> forall f, (length s <= f)%nat -> valid_utf8_fuel f s = true.
Proof.
  induction 1 as [|s n Hn Hok IH]; intros f Hf.
  - destruct f; reflexivity.
  - destruct s as [|b r]; [discriminate|]. destruct f as [|f]; [cbn in Hf; lia|].
    cbn [valid_utf8_fuel]. rewrite Hn. apply IH.
    pose proof (utf8_len_range _ _ Hn) as [Hr Hl]. rewrite skipn_length. cbn [length] in *. lia.
Qed.

Lemma valid_utf8_iff s : valid_utf8 s = true <-> utf8_ok s.
Proof.
  split; [apply valid_fuel_ok|]. intros H. apply ok_valid_fuel; auto.
Qed.

Lemma utf8_ok_app s t : utf8_ok s -> utf8_ok t -> utf8_ok (s ++ t).
Proof.
  induction 1 as [|s n Hn Hok IH]; intros Ht; [exact Ht|].
  pose proof (utf8_len_range _ _ Hn) as [Hr Hl].
  apply utf8_ok_step with (n := n).
  - rewrite <- (firstn_skipn n s) at 1. rewrite <- app_assoc. apply utf8_len_prefix. exact Hn.
  - rewrite skipn_app. replace (n - length s)%nat with 0%nat by lia. cbn [skipn]. apply IH. exact Ht.
Qed.

Lemma utf8_ok_ascii s : Forall (fun b => b < 128) s -> utf8_ok s.
Proof.
  induction 1 as [|b r Hb Hr IH]; [constructor|].
  apply utf8_ok_step with (n := 1%nat); [apply utf8_len_ascii; exact Hb|exact IH].
Qed.

Lemma esc_bytes_app s t : esc_bytes (s ++ t) = esc_bytes s ++ esc_bytes t.
Proof. unfold esc_bytes. apply flat_map_app. Qed.

Lemma esc_bytes_high l : Forall (fun x => 128 <= x) l -> esc_bytes l = l.
Proof.
  induction 1 as [|b r Hb Hr IH]; [reflexivity|].
  unfold esc_bytes in *. cbn [flat_map]. rewrite IH. unfold esc_byte.
  replace (b <? 128) with false by lia. reflexivity.
Qed.

Lemma esc_body_ok s : utf8_ok s -> forall f, (length s <= f)%nat -> esc_body f s = Ok (esc_bytes s).
Proof.
  induction 1 as [|s n Hn Hok IH]; intros f Hf.
  - destruct f; reflexivity.
  - destruct s as [|b r]; [discriminate|]. destruct f as [|f]; [cbn in Hf; lia|].
    pose proof (utf8_len_range _ _ Hn) as [Hr Hl].
    cbn [esc_body]. destruct (b <? 128) eqn:Eb.
    + rewrite utf8_len_ascii in Hn by lia. injection Hn as <-. cbn [skipn] in *.
      rewrite IH by (cbn [length] in Hf; lia). cbn [omap obind].
      unfold esc_bytes at 2. cbn [flat_map]. unfold esc_byte at 1. rewrite Eb. reflexivity.
    + rewrite Hn. rewrite IH by (rewrite skipn_length; cbn [length] in *; lia).
      cbn [omap obind]. f_equal.
      assert (E : esc_bytes (b :: r) = esc_bytes (firstn n (b :: r) ++ skipn n (b :: r)))
        by (rewrite firstn_skipn; reflexivity).
      rewrite E, esc_bytes_app.
      rewrite (esc_bytes_high (firstn n (b :: r))); [reflexivity|]. apply utf8_len_high; [exact Hn|lia].
Qed.

Lemma esc_body_bad f : forall s, (length s <= f)%nat -> valid_utf8_fuel f s = false ->
  esc_body f s = Err "invalid UTF-8".
Proof.
  induction f as [|f IH]; intros s Hf Hv.
  - destruct s; [discriminate|cbn in Hf; lia].
  - destruct s as [|b r]; [discriminate|]. cbn [valid_utf8_fuel] in Hv. cbn [esc_body].
    destruct (b <? 128) eqn:Eb.
    + rewrite utf8_len_ascii in Hv by lia. cbn [skipn] in Hv.
      rewrite IH; [reflexivity| cbn [length] in Hf; lia | exact Hv].
    + destruct (utf8_len (b :: r)) as [n|] eqn:Hn; [|reflexivity].
      pose proof (utf8_len_range _ _ Hn) as [Hr Hl].
      rewrite IH; [reflexivity| rewrite skipn_length; cbn [length] in *; lia | exact Hv].
Qed.

Theorem escape_spec s :
  escape s = if valid_utf8 s then Ok (print_str s) else Err "invalid UTF-8".
Proof.
  unfold escape, print_str. destruct (valid_utf8 s) eqn:E.
  - rewrite esc_body_ok; [reflexivity| apply valid_utf8_iff; exact E | lia].
  - rewrite esc_body_bad; [reflexivity| lia | exact E].
Qed.

(* ---------------------------------------------------------------- reading a printed string back *)
Lemma hex_ctl : forall b, b < 32 -> hex4 48 48 (hex_lower (b / 16)) (hex_lower (b mod 16)) = Some b.
Proof.
  intros b Hb.
  pose (P := fun b => match hex4 48 48 (hex_lower (b / 16)) (hex_lower (b mod 16)) with
                        | Some x => x =? b | None => false end).
  assert (H : P b = true).
  { apply (forall_below P 32); [vm_compute; reflexivity|exact Hb]. }
  unfold P in H. destruct (hex4 _ _ _ _) as [x|]; [|discriminate]. f_equal. lia.
Qed.

Lemma parse_str_ascii b f t : b < 128 ->
  parse_str (S f) (esc_ascii b ++ t) = cons_fst [b] (parse_str f t).
Proof.
  intros Hb. unfold esc_ascii.
  destruct (b =? 34) eqn:E34.
  { assert (b = 34) by lia. subst b. reflexivity. }
  destruct (b =? 92) eqn:E92.
  { assert (b = 92) by lia. subst b. reflexivity. }
  destruct (b <? 32) eqn:E32.
  - destruct (b =? 8) eqn:E8. { assert (b = 8) by lia. subst b. reflexivity. }
    destruct (b =? 12) eqn:E12. { assert (b = 12) by lia. subst b. reflexivity. }
    destruct (b =? 10) eqn:E10. { assert (b = 10) by lia. subst b. reflexivity. }
    destruct (b =? 13) eqn:E13. { assert (b = 13) by lia. subst b. reflexivity. }
    destruct (b =? 9) eqn:E9. { assert (b = 9) by lia. subst b. reflexivity. }
    cbn [app parse_str]. change (92 =? 34) with false. change (92 =? 92) with true. cbv iota.
    change (117 =? 34) with false. change (117 =? 92) with false. change (117 =? 47) with false.
    change (117 =? 98) with false. change (117 =? 102) with false. change (117 =? 110) with false.
    change (117 =? 114) with false. change (117 =? 116) with false. change (117 =? 117) with true. cbv iota.
    rewrite hex_ctl by lia.
    replace ((55296 <=? b) && (b <? 56320)) with false by lia.
    replace ((56320 <=? b) && (b <? 57344)) with false by lia.
    unfold encode_rune. replace (b <? 128) with true by lia. reflexivity.
  - cbn [app parse_str]. rewrite E34, E92, E32. replace (b <? 128) with true by lia. reflexivity.
Qed.

Lemma parse_str_print s : utf8_ok s -> forall f rest, (length s < f)%nat ->
  parse_str f (esc_bytes s ++ 34 :: rest) = Some (s, rest).
Proof.
  induction 1 as [|s n Hn Hok IH]; intros f rest Hf.
  - destruct f; [lia|]. reflexivity.
  - destruct s as [|b r]; [discriminate|]. destruct f as [|f]; [lia|].
    pose proof (utf8_len_range _ _ Hn) as [Hr Hl].
    destruct (b <? 128) eqn:Eb.
    + rewrite utf8_len_ascii in Hn by lia. injection Hn as <-. cbn [skipn] in *.
      unfold esc_bytes. cbn [flat_map]. unfold esc_byte at 1. rewrite Eb. rewrite <- app_assoc.
      rewrite parse_str_ascii by lia. fold (esc_bytes r).
      rewrite IH by (cbn [length] in Hf; lia). reflexivity.
    + assert (E : esc_bytes (b :: r) = esc_bytes (firstn n (b :: r) ++ skipn n (b :: r)))
        by (rewrite firstn_skipn; reflexivity).
      rewrite E, esc_bytes_app.
      rewrite (esc_bytes_high (firstn n (b :: r))) by (apply utf8_len_high; [exact Hn|lia]).
      rewrite <- app_assoc.
      set (t := esc_bytes (skipn n (b :: r)) ++ 34 :: rest).
      assert (Hl2 : utf8_len (firstn n (b :: r) ++ t) = Some n) by (apply utf8_len_prefix; exact Hn).
      destruct n as [|n']; [lia|].
      assert (Hp : firstn (S n') (b :: r) = b :: firstn n' r) by reflexivity.
      rewrite Hp in Hl2 |- *. cbn [app] in Hl2 |- *. cbn [parse_str].
      replace (b =? 34) with false by lia. replace (b =? 92) with false by lia.
      replace (b <? 32) with false by lia. rewrite Eb. rewrite Hl2.
      assert (Hlen : length (b :: firstn n' r) = S n') by (cbn [length]; rewrite firstn_length; cbn [length] in *; lia).
      change (b :: firstn n' r ++ t) with ((b :: firstn n' r) ++ t).
      rewrite firstn_app, skipn_app, Hlen. replace (S n' - S n')%nat with 0%nat by lia.
      cbn [firstn skipn]. rewrite app_nil_r.
      rewrite firstn_firstn, Nat.min_id.
      rewrite skipn_all2 by (cbn [length] in Hlen; lia). cbn [app].
      unfold t. rewrite IH by (rewrite skipn_length; cbn [length] in *; lia).
      cbn [cons_fst]. rewrite <- Hp, firstn_skipn. reflexivity.
Qed.

(* ---------------------------------------------------------------- trees *)
Fixpoint wfb (j : jvalue) : bool :=
  match j with
  | JNull | JBool _ => true
  | JNum lit => valid_number lit
  | JStr s => valid_utf8 s
  | JArr l => forallb wfb l
  | JObj l => forallb (fun kv => valid_utf8 (fst kv) && wfb (snd kv)) l
  end.

Section json_ind2.
  Variable P : jvalue -> Prop.
  Hypothesis Hnull : P JNull.
  Hypothesis Hbool : forall b, P (JBool b).
  Hypothesis Hnum : forall lit, P (JNum lit).
  Hypothesis Hstr : forall s, P (JStr s).
  Hypothesis Harr : forall l, Forall P l -> P (JArr l).
  Hypothesis Hobj : forall l, Forall (fun kv => P (snd kv)) l -> P (JObj l).
  Fixpoint json_ind2 (j : jvalue) : P j :=
    match j with
    | JNull => Hnull
    | JBool b => Hbool b
    | JNum lit => Hnum lit
    | JStr s => Hstr s
    | JArr l => Harr l ((fix go (l : list jvalue) : Forall P l :=
                           match l with
                           | [] => Forall_nil _
                           | x :: r => Forall_cons x (json_ind2 x) (go r)
                           end) l)
    | JObj l => Hobj l ((fix go (l : list (list N * jvalue)) : Forall (fun kv => P (snd kv)) l :=
                           match l with
                           | [] => Forall_nil _
                           | x :: r => Forall_cons x (json_ind2 (snd x)) (go r)
                           end) l)
    end.
End json_ind2.

Definition rest_ok (rest : list N) : Prop :=
  match rest with
  | [] => True
  | c :: _ => c = 44 \/ c = 93 \/ c = 125
  end.

Lemma esc_byte_len b : (1 <= length (esc_byte b))%nat.
Proof.
  unfold esc_byte, esc_ascii.
  repeat match goal with |- context [if ?c then _ else _] => destruct c end; cbn; lia.
Qed.

Lemma esc_bytes_len s : (length s <= length (esc_bytes s))%nat.
Proof.
  induction s as [|b r IH]; [cbn; lia|]. unfold esc_bytes in *. cbn [flat_map length].
  rewrite app_length. pose proof (esc_byte_len b). lia.
Qed.

(* --- numbers *)
Lemma span_digits_spec s : forall d t, span_digits s = (d, t) ->
  s = d ++ t /\ forallb is_digit d = true.
Proof.
  induction s as [|c r IH]; intros d t H; cbn [span_digits] in H.
  - injection H as <- <-. split; reflexivity.
  - destruct (is_digit c) eqn:E.
    + destruct (span_digits r) as [d' t'] eqn:E2. injection H as <- <-.
      destruct (IH d' t' eq_refl) as [-> Hd]. split; [reflexivity|]. cbn [forallb]. rewrite E, Hd. reflexivity.
    + injection H as <- <-. split; reflexivity.
Qed.

Lemma digit_numchar c : is_digit c = true -> is_num_char c = true.
Proof. unfold is_num_char. intros ->. reflexivity. Qed.

Lemma digits_numchars d : forallb is_digit d = true -> forallb is_num_char d = true.
Proof.
  induction d as [|c r IH]; [reflexivity|]. cbn [forallb]. intros H.
  apply andb_true_iff in H as [H1 H2]. rewrite digit_numchar, IH by assumption. reflexivity.
Qed.

Lemma num_exp_chars s : num_exp s = true -> forallb is_num_char s = true.
Proof.
  unfold num_exp. destruct s as [|c r]; [reflexivity|].
  destruct ((c =? 101) || (c =? 69)) eqn:E; [|discriminate].
  intros H. cbn [forallb]. assert (Hc : is_num_char c = true) by (unfold is_num_char; lia). rewrite Hc. cbn [andb].
  destruct r as [|sg t].
  - cbn in H. discriminate.
  - destruct ((sg =? 43) || (sg =? 45)) eqn:Es.
    + destruct (span_digits t) as [d t'] eqn:Ed. destruct d as [|d0 d']; [discriminate|].
      destruct t'; [|discriminate]. apply span_digits_spec in Ed as [-> Hd]. rewrite app_nil_r.
      cbn [forallb]. assert (Hs : is_num_char sg = true) by (unfold is_num_char; lia). rewrite Hs.
      apply digits_numchars in Hd. exact Hd.
    + destruct (span_digits (sg :: t)) as [d t'] eqn:Ed. destruct d as [|d0 d']; [discriminate|].
      destruct t'; [|discriminate]. apply span_digits_spec in Ed as [Heq Hd]. rewrite app_nil_r in Heq.
      rewrite Heq. apply digits_numchars. exact Hd.
Qed.

Lemma num_frac_chars s : num_frac s = true -> forallb is_num_char s = true.
Proof.
  unfold num_frac. destruct s as [|c r]; [reflexivity|].
  destruct (c =? 46) eqn:E.
  - destruct (span_digits r) as [d t] eqn:Ed. destruct d as [|d0 d']; [discriminate|].
    intros H. apply span_digits_spec in Ed as [-> Hd]. cbn [forallb].
    assert (Hc : is_num_char c = true) by (unfold is_num_char; lia). rewrite Hc. cbn [andb].
    rewrite forallb_app. rewrite (digits_numchars _ Hd). apply num_exp_chars. exact H.
  - apply num_exp_chars.
Qed.

Lemma valid_number_chars lit : valid_number lit = true ->
  forallb is_num_char lit = true /\
  exists c r, lit = c :: r /\ (c = 45 \/ is_digit c = true).
Proof.
  unfold valid_number. destruct lit as [|c r]; [discriminate|].
  assert (Hbody : forall c r, (if c =? 48 then num_frac r
              else if is_digit c then num_frac (snd (span_digits r)) else false) = true ->
              forallb is_num_char (c :: r) = true /\ is_digit c = true).
  { clear. intros c r H. destruct (c =? 48) eqn:E0.
    - assert (Hd : is_digit c = true) by (unfold is_digit; lia). split; [|exact Hd].
      cbn [forallb]. rewrite (digit_numchar _ Hd). apply num_frac_chars. exact H.
    - destruct (is_digit c) eqn:Hd; [|discriminate]. split; [|reflexivity].
      cbn [forallb]. rewrite (digit_numchar _ Hd). cbn [andb].
      destruct (span_digits r) as [d t] eqn:Ed. cbn [snd] in H.
      apply span_digits_spec in Ed as [-> Hdd]. rewrite forallb_app, (digits_numchars _ Hdd).
      apply num_frac_chars. exact H. }
  destruct (c =? 45) eqn:E.
  - destruct r as [|c' r']; [discriminate|]. intros H. apply Hbody in H as [H1 H2]. split.
    + cbn [forallb]. assert (Hc : is_num_char c = true) by (unfold is_num_char; lia). rewrite Hc. exact H1.
    + exists c, (c' :: r'). split; [reflexivity|left; lia].
  - intros H. apply Hbody in H as [H1 H2]. split; [exact H1|]. exists c, r. split; [reflexivity|right; exact H2].
Qed.

Lemma span_num_app lit rest : forallb is_num_char lit = true -> rest_ok rest ->
  span_num (lit ++ rest) = (lit, rest).
Proof.
  intros Hl Hr. induction lit as [|c r IH].
  - cbn [app]. destruct rest as [|c r]; [reflexivity|]. cbn [span_num].
    cbn in Hr. assert (is_num_char c = false) by (unfold is_num_char, is_digit; lia).
    rewrite H. reflexivity.
  - cbn [forallb] in Hl. apply andb_true_iff in Hl as [H1 H2]. cbn [app span_num]. rewrite H1, IH by exact H2.
    reflexivity.
Qed.

Definition member_text (kv : list N * jvalue) : list N := print_str (fst kv) ++ 58 :: print (snd kv).

Lemma print_obj l : print (JObj l) = 123 :: join 44 (map member_text l) ++ [125].
Proof. reflexivity. Qed.
Lemma print_arr l : print (JArr l) = 91 :: join 44 (map print l) ++ [93].
Proof. reflexivity. Qed.

(* first character of a printed value: never whitespace, and tells the reader which arm to take *)
Definition head_class (j : jvalue) (c : N) : Prop :=
  match j with
  | JNull => c = 110 | JBool true => c = 116 | JBool false => c = 102
  | JNum _ => c = 45 \/ is_digit c = true
  | JStr _ => c = 34 | JArr _ => c = 91 | JObj _ => c = 123
  end.

Lemma print_head j : wfb j = true -> exists c t, print j = c :: t /\ head_class j c.
Proof.
  destruct j as [|b|lit|s|l|l]; intros H.
  - eexists _, _; split; reflexivity.
  - destruct b; eexists _, _; split; reflexivity.
  - cbn [wfb] in H. apply valid_number_chars in H as [_ (c & r & -> & Hc)].
    exists c, r. split; [reflexivity|exact Hc].
  - eexists _, _; split; reflexivity.
  - rewrite print_arr. eexists _, _; split; reflexivity.
  - rewrite print_obj. eexists _, _; split; reflexivity.
Qed.

Lemma head_not_ws j c : head_class j c -> is_space c = false.
Proof.
  destruct j as [|[]|lit|s|l|l]; cbn [head_class]; unfold is_space, is_digit; lia.
Qed.

Lemma join_len_cons x r : r <> [] ->
  length (join 44 (x :: r)) = (length x + 1 + length (join 44 r))%nat.
Proof.
  destruct r as [|y r']; [congruence|]. intros _. cbn [join]. rewrite app_length. cbn [length]. lia.
Qed.

Lemma join_cons x y r : join 44 (x :: y :: r) = x ++ 44 :: join 44 (y :: r).
Proof. reflexivity. Qed.

Definition P_val (j : jvalue) : Prop :=
  wfb j = true -> forall f rest, rest_ok rest -> (length (print j) <= f)%nat ->
  sp_value f (print j ++ rest) = Some (j, rest).

Lemma sp_elems_print l : l <> [] -> Forall P_val l -> forallb wfb l = true ->
  forall f rest, (length (join 44 (map print l)) + 1 <= f)%nat ->
  sp_elems f (join 44 (map print l) ++ 93 :: rest) = Some (l, rest).
Proof.
  induction l as [|x r IH]; [congruence|]. intros _ HP Hwf f rest Hf.
  inversion HP as [|? ? Hx Hr]; subst. cbn [forallb] in Hwf. apply andb_true_iff in Hwf as [Hwx Hwr].
  destruct f as [|f]; [lia|]. cbn [sp_elems].
  destruct r as [|y r'].
  - cbn [map join] in *. rewrite (Hx Hwx f (93 :: rest)); [|cbn; auto|lia].
    cbn [skip_ws]. change (is_space 93) with false. cbv iota. change (93 =? 93) with true. reflexivity.
  - cbn [map] in *. rewrite join_cons in *. rewrite <- app_assoc. cbn [app].
    rewrite app_length in Hf. cbn [length] in Hf.
    rewrite (Hx Hwx f (44 :: join 44 (print y :: map print r') ++ 93 :: rest)); [|cbn; auto|lia].
    cbn [skip_ws]. change (is_space 44) with false. cbv iota. change (44 =? 93) with false. change (44 =? 44) with true.
    cbv iota. rewrite (IH ltac:(congruence) Hr Hwr f rest) by lia. reflexivity.
Qed.

Lemma sp_members_print l : l <> [] -> Forall (fun kv => P_val (snd kv)) l ->
  forallb (fun kv => valid_utf8 (fst kv) && wfb (snd kv)) l = true ->
  forall f rest, (length (join 44 (map member_text l)) + 1 <= f)%nat ->
  sp_members f (join 44 (map member_text l) ++ 125 :: rest) = Some (l, rest).
Proof.
  induction l as [|[k v] r IH]; [congruence|]. intros _ HP Hwf f rest Hf.
  inversion HP as [|? ? Hx Hr]; subst. cbn [forallb fst snd] in Hwf, Hx.
  apply andb_true_iff in Hwf as [Hwx Hwr]. apply andb_true_iff in Hwx as [Hk Hv].
  apply valid_utf8_iff in Hk.
  destruct f as [|f]; [lia|]. cbn [sp_members].
  assert (Hmem : forall tail, member_text (k, v) ++ tail =
            34 :: esc_bytes k ++ 34 :: 58 :: print v ++ tail).
  { intros tail. unfold member_text, print_str. cbn [fst snd app]. rewrite <- !app_assoc. reflexivity. }
  assert (Hlen : (length (member_text (k, v)) = 3 + length (esc_bytes k) + length (print v))%nat).
  { unfold member_text, print_str. cbn [fst snd length]. rewrite !app_length. cbn [length]. rewrite app_length. cbn [length]. lia. }
  destruct r as [|y r'].
  - cbn [map join] in *. rewrite Hmem. change (34 =? 34) with true. cbv iota.
    rewrite parse_str_print; [|exact Hk|].
    2:{ rewrite app_length. pose proof (esc_bytes_len k). cbn [length]. lia. }
    cbn [skip_ws]. change (is_space 58) with false. cbv iota. change (58 =? 58) with true. cbv iota.
    rewrite (Hx Hv f (125 :: rest)); [|cbn; auto|lia].
    cbn [skip_ws]. change (is_space 125) with false. cbv iota. change (125 =? 125) with true. reflexivity.
  - cbn [map] in *. rewrite join_cons in *. rewrite <- app_assoc. cbn [app]. rewrite Hmem.
    change (34 =? 34) with true. cbv iota.
    rewrite parse_str_print; [|exact Hk|].
    2:{ rewrite app_length. pose proof (esc_bytes_len k). cbn [length]. lia. }
    cbn [skip_ws]. change (is_space 58) with false. cbv iota. change (58 =? 58) with true. cbv iota.
    rewrite app_length in Hf. cbn [length] in Hf.
    rewrite (Hx Hv f (44 :: join 44 (member_text y :: map member_text r') ++ 125 :: rest)); [|cbn; auto|lia].
    cbn [skip_ws]. change (is_space 44) with false. cbv iota. change (44 =? 125) with false. change (44 =? 44) with true.
    cbv iota.
    assert (Hsk : skip_ws (join 44 (member_text y :: map member_text r') ++ 125 :: rest) =
                  join 44 (member_text y :: map member_text r') ++ 125 :: rest).
    { destruct r' as [|z r'']; cbn [map join]; unfold member_text at 1, print_str; cbn [app skip_ws];
        change (is_space 34) with false; reflexivity. }
    rewrite Hsk. rewrite (IH ltac:(congruence) Hr Hwr f rest) by lia. reflexivity.
Qed.

Lemma skip_ws_head c t : is_space c = false -> skip_ws (c :: t) = c :: t.
Proof. intros H. cbn [skip_ws]. rewrite H. reflexivity. Qed.

Theorem sp_value_print : forall j, P_val j.
Proof.
  apply json_ind2; unfold P_val.
  - intros _ f rest Hr Hf. destruct f; [cbn in Hf; lia|]. reflexivity.
  - intros b _ f rest Hr Hf. destruct f; [destruct b; cbn in Hf; lia|]. destruct b; reflexivity.
  - intros lit Hw f rest Hr Hf. cbn [wfb] in Hw. pose proof (valid_number_chars _ Hw) as [Hch (c & r & -> & Hc)].
    destruct f; [cbn in Hf; lia|]. cbn [print app sp_value].
    assert (Hws : is_space c = false) by (unfold is_space, is_digit in *; lia).
    rewrite skip_ws_head by exact Hws.
    replace (c =? 123) with false by (unfold is_digit in *; lia).
    replace (c =? 91) with false by (unfold is_digit in *; lia).
    replace (c =? 34) with false by (unfold is_digit in *; lia).
    replace (c =? 116) with false by (unfold is_digit in *; lia).
    replace (c =? 102) with false by (unfold is_digit in *; lia).
    replace (c =? 110) with false by (unfold is_digit in *; lia).
    change (c :: r ++ rest) with ((c :: r) ++ rest). rewrite span_num_app by assumption.
    rewrite Hw. reflexivity.
  - intros s Hw f rest Hr Hf. cbn [wfb] in Hw. apply valid_utf8_iff in Hw.
    destruct f; [cbn in Hf; lia|]. cbn [print]. unfold print_str. cbn [app sp_value skip_ws].
    change (is_space 34) with false. cbv iota. change (34 =? 123) with false. change (34 =? 91) with false.
    change (34 =? 34) with true. cbv iota. rewrite <- app_assoc. cbn [app].
    rewrite parse_str_print; [reflexivity|exact Hw|].
    rewrite app_length. pose proof (esc_bytes_len s). cbn [length]. lia.
  - intros l HP Hw f rest Hr Hf. cbn [wfb] in Hw. rewrite print_arr in *.
    destruct f; [cbn in Hf; lia|]. cbn [app sp_value skip_ws]. change (is_space 91) with false. cbv iota.
    change (91 =? 123) with false. change (91 =? 91) with true. cbv iota.
    destruct l as [|x r].
    + cbn [map join app skip_ws]. change (is_space 93) with false. cbv iota. change (93 =? 93) with true. reflexivity.
    + rewrite <- app_assoc. cbn [app].
      assert (Hx : wfb x = true) by (cbn [forallb] in Hw; apply andb_true_iff in Hw as [H _]; exact H).
      destruct (print_head x Hx) as (c & t & Hp & Hc).
      assert (Hj : exists t', join 44 (map print (x :: r)) = c :: t').
      { cbn [map]. destruct r as [|y r']; cbn [map join]; rewrite Hp; eexists; reflexivity. }
      destruct Hj as [t' Hj]. 
      pose proof (sp_elems_print (x :: r) ltac:(congruence) HP Hw f rest) as Hpe.
      rewrite Hj in *. cbn [app]. rewrite skip_ws_head by (eapply head_not_ws; exact Hc).
      assert (Hne : (c =? 93) = false).
      { destruct x as [|[]|lit|s|l'|l']; cbn [head_class] in Hc; unfold is_digit in Hc; lia. }
      rewrite Hne. cbn [app] in Hpe. rewrite Hpe; [reflexivity|].
      cbn [length] in Hf. rewrite app_length in Hf. cbn [length] in Hf. cbn [length]. lia.
  - intros l HP Hw f rest Hr Hf. cbn [wfb] in Hw. rewrite print_obj in *.
    destruct f; [cbn in Hf; lia|]. cbn [app sp_value skip_ws]. change (is_space 123) with false. cbv iota.
    change (123 =? 123) with true. cbv iota.
    destruct l as [|x r].
    + cbn [map join app skip_ws]. change (is_space 125) with false. cbv iota. change (125 =? 125) with true. reflexivity.
    + rewrite <- app_assoc. cbn [app].
      assert (Hj : exists t', join 44 (map member_text (x :: r)) = 34 :: t').
      { cbn [map]. destruct r as [|y r']; cbn [map join]; unfold member_text at 1, print_str; cbn [app]; eexists; reflexivity. }
      destruct Hj as [t' Hj].
      pose proof (sp_members_print (x :: r) ltac:(congruence) HP Hw f rest) as Hpe.
      rewrite Hj in *. cbn [app]. cbn [skip_ws]. change (is_space 34) with false. cbv iota.
      change (34 =? 125) with false. cbv iota. cbn [app] in Hpe. rewrite Hpe; [reflexivity|].
      cbn [length] in Hf. rewrite app_length in Hf. cbn [length] in Hf. cbn [length]. lia.
Qed.

Theorem parse_print j : wfb j = true -> strict_parse (print j) = Some j.
Proof.
  intros H. unfold strict_parse.
  pose proof (sp_value_print j H (S (length (print j))) [] I ltac:(lia)) as Hp.
  rewrite app_nil_r in Hp. rewrite Hp. reflexivity.
Qed.

(* ---------------------------------------------------------------- integers *)
Lemma size_bound n : n < 10 ^ N.of_nat (N.to_nat (N.size n)).
Proof.
  rewrite N2Nat.id. pose proof (N.size_gt n) as H.
  assert (2 ^ N.size n <= 10 ^ N.size n) by (apply N.pow_le_mono_l; lia). lia.
Qed.

Definition dec_digits (n : N) : list N := to_digits_le 10 (N.to_nat (N.size n)) n.

Lemma digits_of_pos n : n <> 0 -> digits_of n = rev (map (fun d => 48 + d) (dec_digits n)).
Proof. intros H. unfold digits_of. replace (n =? 0) with false by lia. reflexivity. Qed.

Lemma dec_digits_lt n : Forall (fun d => d < 10) (dec_digits n).
Proof. apply to_digits_bound. lia. Qed.

Lemma dec_digits_val n : of_digits_le 10 (dec_digits n) = n.
Proof. apply of_to_le; [lia|apply size_bound]. Qed.

Lemma is_digit_map ds : Forall (fun d => d < 10) ds -> forallb is_digit (map (fun d => 48 + d) ds) = true.
Proof.
  induction 1 as [|d r Hd Hr IH]; [reflexivity|]. cbn [map forallb]. rewrite IH.
  unfold is_digit. lia.
Qed.

Lemma unmap_digits ds : map (fun c => c - 48) (map (fun d => 48 + d) ds) = ds.
Proof.
  induction ds as [|d r IH]; [reflexivity|]. cbn [map]. rewrite IH. f_equal. lia.
Qed.

Lemma forallb_rev {A} (f : A -> bool) l : forallb f (rev l) = forallb f l.
Proof.
  induction l as [|x r IH]; [reflexivity|]. cbn [rev forallb]. rewrite forallb_app, IH. cbn [forallb]. 
  destruct (f x), (forallb f r); reflexivity.
Qed.

Lemma digits_of_digits n : forallb is_digit (digits_of n) = true.
Proof.
  unfold digits_of. destruct (n =? 0); [reflexivity|].
  rewrite forallb_rev. apply is_digit_map. apply to_digits_bound. lia.
Qed.

Lemma digits_of_nonempty n : digits_of n <> [].
Proof.
  unfold digits_of. destruct (n =? 0) eqn:E; [discriminate|].
  intros H. apply (f_equal (@length N)) in H. rewrite rev_length, map_length in H. cbn [length] in H.
  destruct (N.to_nat (N.size n)) eqn:Es.
  - pose proof (size_bound n) as Hb. rewrite Es in Hb. cbn in Hb. lia.
  - cbn [to_digits_le] in H. rewrite E in H. cbn [length] in H. lia.
Qed.

Theorem parse_N_digits n : parse_N (digits_of n) = Some n.
Proof.
  unfold parse_N. pose proof (digits_of_nonempty n) as Hne. pose proof (digits_of_digits n) as Hd.
  destruct (digits_of n) as [|c r] eqn:E; [congruence|]. rewrite Hd. f_equal. rewrite <- E. clear.
  unfold digits_of. destruct (n =? 0) eqn:E0.
  - cbn. lia.
  - rewrite <- map_rev, unmap_digits. rewrite of_digits_be_rev_le.
    fold (dec_digits n). rewrite dec_digits_val. lia.
Qed.

Lemma digits_of_head_not_sign n : exists c r, digits_of n = c :: r /\ is_digit c = true.
Proof.
  pose proof (digits_of_nonempty n) as Hne. pose proof (digits_of_digits n) as Hd.
  destruct (digits_of n) as [|c r]; [congruence|]. cbn [forallb] in Hd. apply andb_true_iff in Hd as [H _].
  exists c, r. split; [reflexivity|exact H].
Qed.

Theorem parse_print_Z z : parse_Z (print_Z z) = Some z.
Proof.
  destruct z as [|p|p]; cbn [print_Z].
  - reflexivity.
  - destruct (digits_of_head_not_sign (Npos p)) as (c & r & E & Hc).
    unfold parse_Z. rewrite E.
    replace (c =? 45) with false by (unfold is_digit in Hc; lia).
    replace (c =? 43) with false by (unfold is_digit in Hc; lia).
    rewrite <- E, parse_N_digits. reflexivity.
  - unfold parse_Z. change (45 =? 45) with true. cbv iota. rewrite parse_N_digits. reflexivity.
Qed.

Lemma span_digits_all r : forallb is_digit r = true -> span_digits r = (r, []).
Proof.
  induction r as [|c r IH]; [reflexivity|]. cbn [forallb span_digits]. intros H.
  apply andb_true_iff in H as [H1 H2]. rewrite H1, IH by exact H2. reflexivity.
Qed.

Lemma digits_of_head_nz n : n <> 0 -> exists c r, digits_of n = c :: r /\ 49 <= c <= 57.
Proof.
  intros Hn. rewrite digits_of_pos by exact Hn. 
  pose proof (to_digits_last_nz 10 (N.to_nat (N.size n)) n ltac:(lia) (size_bound n)) as Hlast.
  pose proof (dec_digits_lt n) as Hlt. unfold dec_digits in *.
  set (ds := to_digits_le 10 (N.to_nat (N.size n)) n) in *.
  destruct (rev ds) as [|d rd] eqn:Er.
  - exfalso. assert (ds = []) by (rewrite <- (rev_involutive ds), Er; reflexivity).
    pose proof (of_to_le 10 (N.to_nat (N.size n)) n ltac:(lia) (size_bound n)) as Hv.
    fold ds in Hv. rewrite H in Hv. cbn in Hv. lia.
  - assert (Hds : ds = rev rd ++ [d]) by (rewrite <- (rev_involutive ds), Er; reflexivity).
    rewrite <- map_rev, Er. cbn [map]. eexists _, _. split; [reflexivity|].
    specialize (Hlast d). rewrite Hds, last_last in Hlast. specialize (Hlast eq_refl).
    rewrite Hds in Hlt. apply Forall_app in Hlt as [_ Hd]. inversion Hd; subst. lia.
Qed.

Theorem print_Z_valid_number z : valid_number (print_Z z) = true.
Proof.
  assert (Hn : forall n, valid_number (digits_of n) = true).
  { intros n. destruct (N.eq_dec n 0) as [->|Hn]; [reflexivity|].
    destruct (digits_of_head_nz n Hn) as (c & r & E & Hc).
    pose proof (digits_of_digits n) as Hd. rewrite E in *. cbn [forallb] in Hd.
    apply andb_true_iff in Hd as [Hd1 Hd2].
    unfold valid_number. replace (c =? 45) with false by lia. replace (c =? 48) with false by lia.
    rewrite Hd1, span_digits_all by exact Hd2. reflexivity. }
  destruct z as [|p|p]; cbn [print_Z]; [reflexivity|apply Hn|].
  specialize (Hn (Npos p)). destruct (digits_of_head_not_sign (Npos p)) as (c & r & E & Hc).
  rewrite E in *. unfold valid_number in *. change (45 =? 45) with true. cbv iota.
  replace (c =? 45) with false in Hn by (unfold is_digit in Hc; lia). exact Hn.
Qed.

Lemma digits_ascii l : forallb is_digit l = true -> Forall (fun b => b < 128) l.
Proof.
  induction l as [|c r IH]; [constructor|]. cbn [forallb]. intros H. apply andb_true_iff in H as [H1 H2].
  constructor; [unfold is_digit in H1; lia|apply IH; exact H2].
Qed.

Lemma print_Z_ascii z : Forall (fun b => b < 128) (print_Z z).
Proof.
  destruct z as [|p|p]; cbn [print_Z].
  - repeat constructor.
  - apply digits_ascii, digits_of_digits.
  - constructor; [lia|]. apply digits_ascii, digits_of_digits.
Qed.

(* a printed integer is plain ASCII without characters that need escaping *)
Lemma plain_esc l : Forall (fun b => 32 <= b < 128 /\ b <> 34 /\ b <> 92) l -> esc_bytes l = l.
Proof.
  induction 1 as [|b r Hb Hr IH]; [reflexivity|]. unfold esc_bytes in *. cbn [flat_map]. rewrite IH.
  unfold esc_byte, esc_ascii. replace (b <? 128) with true by lia. replace (b =? 34) with false by lia.
  replace (b =? 92) with false by lia. replace (b <? 32) with false by lia. reflexivity.
Qed.

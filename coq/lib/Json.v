(* Json.v — JSON as the J5 decoder sees it (owner: dec; shared with enc).
   Go strings are byte lists ([list N], every element < 256).

   * jvalue          JSON trees: ordered member lists, duplicates preserved,
                     number literals kept as source text
   * token           what encoding/json.Decoder.Token returns with UseNumber:
                     null, bool, json.Number (literal text), string (unquoted,
                     invalid UTF-8 and lone surrogates coerced to U+FFFD) and
                     the four delimiters; ':' and ',' are consumed silently
   * lex             the Decoder.Token state machine run to its first failure:
                     [lex bs = (tokens, more_at_end)].  [more_at_end] is what
                     Decoder.More() answers at the point where no further token
                     can be produced (the next non-space byte exists and is not
                     ']' or '}'), the only thing besides the tokens that a
                     Token()/More() client can observe.
   * split_value     the tokens of one complete value at the head of a token
                     list, with its nesting depth (Decoder.Decode(&RawMessage))
   * parse_value / tokens_of   token list <-> tree
   No proofs in this file. *)
From Coq Require Import List NArith Bool.
Import ListNotations.
Local Open Scope N_scope.
Local Open Scope bool_scope.

Definition bytes := list N.

Inductive jvalue :=
| JNull
| JBool (b : bool)
| JNum (lit : bytes)
| JStr (s : bytes)
| JArr (items : list jvalue)
| JObj (members : list (bytes * jvalue)).

Inductive token :=
| TNull
| TBool (b : bool)
| TNum (lit : bytes)
| TStr (s : bytes)
| TOpenObj | TCloseObj | TOpenArr | TCloseArr.

Definition is_close (t : token) : bool :=
  match t with TCloseObj | TCloseArr => true | _ => false end.
Definition is_delim (t : token) : bool :=
  match t with TOpenObj | TCloseObj | TOpenArr | TCloseArr => true | _ => false end.

Fixpoint bytes_eqb (a b : bytes) : bool :=
  match a, b with
  | [], [] => true
  | x :: r, y :: s => (x =? y) && bytes_eqb r s
  | _, _ => false
  end.

Definition token_eqb (a b : token) : bool :=
  match a, b with
  | TNull, TNull => true
  | TBool x, TBool y => Bool.eqb x y
  | TNum x, TNum y => bytes_eqb x y
  | TStr x, TStr y => bytes_eqb x y
  | TOpenObj, TOpenObj | TCloseObj, TCloseObj | TOpenArr, TOpenArr | TCloseArr, TCloseArr => true
  | _, _ => false
  end.

Fixpoint tokens_eqb (a b : list token) : bool :=
  match a, b with
  | [], [] => true
  | x :: r, y :: s => token_eqb x y && tokens_eqb r s
  | _, _ => false
  end.

(* ------------------------------------------------------------ characters *)
Definition is_space (c : N) : bool := (c =? 32) || (c =? 9) || (c =? 13) || (c =? 10).
Definition is_digit (c : N) : bool := (48 <=? c) && (c <=? 57).
Definition is_digit19 (c : N) : bool := (49 <=? c) && (c <=? 57).

Fixpoint skip_ws (s : bytes) : bytes :=
  match s with
  | c :: r => if is_space c then skip_ws r else s
  | [] => []
  end.

Definition hex_val (c : N) : option N :=
  if (48 <=? c) && (c <=? 57) then Some (c - 48)
  else if (97 <=? c) && (c <=? 102) then Some (c - 97 + 10)
  else if (65 <=? c) && (c <=? 70) then Some (c - 65 + 10)
  else None.

Definition hex4 (a b c d : N) : option N :=
  match hex_val a, hex_val b, hex_val c, hex_val d with
  | Some x, Some y, Some z, Some w => Some (((x * 16 + y) * 16 + z) * 16 + w)
  | _, _, _, _ => None
  end.

(* utf8.EncodeRune for a scalar value (callers never pass surrogates) *)
Definition encode_rune (r : N) : bytes :=
  if r <? 128 then [r]
  else if r <? 2048 then [192 + r / 64; 128 + r mod 64]
  else if r <? 65536 then [224 + r / 4096; 128 + (r / 64) mod 64; 128 + r mod 64]
  else [240 + r / 262144; 128 + (r / 4096) mod 64; 128 + (r / 64) mod 64; 128 + r mod 64].

Definition replacement : bytes := [239; 191; 189].   (* U+FFFD *)

Definition cont (b : N) : bool := (128 <=? b) && (b <=? 191).
Definition is_surrogate (r : N) : bool := (55296 <=? r) && (r <? 57344).
Definition is_high (r : N) : bool := (55296 <=? r) && (r <? 56320).
Definition is_low (r : N) : bool := (56320 <=? r) && (r <? 57344).

(* ----------------------------------------------------- string literals
   [scan_string s] reads the body of a string literal (the opening quote
   already consumed) up to and including the closing quote, validating as the
   scanner does (no raw byte < 0x20, only the JSON escapes, four hex digits
   after \u) and unquoting as encoding/json.unquote does. *)
Fixpoint scan_string (s : bytes) : option (bytes * bytes) :=
  match s with
  | [] => None
  | c :: r =>
    if c =? 34 then Some ([], r)
    else if c <? 32 then None
    else if c =? 92 then
      match r with
      | [] => None
      | e :: r1 =>
        let simple (b : N) :=
          match scan_string r1 with Some (o, rest) => Some (b :: o, rest) | None => None end in
        if e =? 34 then simple 34
        else if e =? 92 then simple 92
        else if e =? 47 then simple 47
        else if e =? 98 then simple 8
        else if e =? 102 then simple 12
        else if e =? 110 then simple 10
        else if e =? 114 then simple 13
        else if e =? 116 then simple 9
        else if e =? 117 then
          match r1 with
          | h1 :: h2 :: h3 :: h4 :: r2 =>
            match hex4 h1 h2 h3 h4 with
            | None => None
            | Some rr =>
              if is_surrogate rr then
                (* a valid pair is consumed as one rune; otherwise U+FFFD and
                   the following escape is processed on its own *)
                let lone (_ : unit) :=
                  match scan_string r2 with
                  | Some (o, rest) => Some (replacement ++ o, rest)
                  | None => None
                  end in
                match r2 with
                | e1 :: e2 :: g1 :: g2 :: g3 :: g4 :: r3 =>
                  if (e1 =? 92) && (e2 =? 117) then           (* a following \u escape *)
                    match hex4 g1 g2 g3 g4 with
                    | Some rr1 =>
                      if is_high rr && is_low rr1 then
                        match scan_string r3 with
                        | Some (o, rest) =>
                            Some (encode_rune (65536 + (rr - 55296) * 1024 + (rr1 - 56320)) ++ o, rest)
                        | None => None
                        end
                      else lone tt
                    | None => lone tt
                    end
                  else lone tt
                | _ => lone tt
                end
              else
                match scan_string r2 with
                | Some (o, rest) => Some (encode_rune rr ++ o, rest)
                | None => None
                end
            end
          | _ => None
          end
        else None
      end
    else if c <? 128 then
      match scan_string r with Some (o, rest) => Some (c :: o, rest) | None => None end
    else
      (* utf8.DecodeRune: a well-formed sequence is copied, anything else is
         one byte replaced by U+FFFD *)
      let bad_ (_ : unit) := match scan_string r with Some (o, rest) => Some (replacement ++ o, rest) | None => None end in
      if c <? 194 then bad_ tt
      else if c <? 224 then
        match r with
        | b1 :: r2 =>
          if cont b1 then
            match scan_string r2 with Some (o, rest) => Some (c :: b1 :: o, rest) | None => None end
          else bad_ tt
        | _ => bad_ tt
        end
      else if c <? 240 then
        match r with
        | b1 :: b2 :: r3 =>
          let lo := if c =? 224 then 160 else 128 in
          let hi := if c =? 237 then 159 else 191 in
          if (lo <=? b1) && (b1 <=? hi) && cont b2 then
            match scan_string r3 with Some (o, rest) => Some (c :: b1 :: b2 :: o, rest) | None => None end
          else bad_ tt
        | _ => bad_ tt
        end
      else if c <? 245 then
        match r with
        | b1 :: b2 :: b3 :: r4 =>
          let lo := if c =? 240 then 144 else 128 in
          let hi := if c =? 244 then 143 else 191 in
          if (lo <=? b1) && (b1 <=? hi) && cont b2 && cont b3 then
            match scan_string r4 with Some (o, rest) => Some (c :: b1 :: b2 :: b3 :: o, rest) | None => None end
          else bad_ tt
        | _ => bad_ tt
        end
      else bad_ tt
  end.

(* ----------------------------------------------------- number literals
   optional minus; 0 or a non-zero digit followed by digits; optional fraction
   (dot, one or more digits); optional exponent (e or E, optional sign, one or
   more digits).  Maximal munch; a started fraction or exponent without digits
   is an error. *)
Fixpoint take_digits (s : bytes) : bytes * bytes :=
  match s with
  | c :: r => if is_digit c then let '(d, rest) := take_digits r in (c :: d, rest) else ([], s)
  | [] => ([], [])
  end.

Definition scan_exp (s : bytes) : option (bytes * bytes) :=
  match s with
  | c :: r =>
    if (c =? 101) || (c =? 69) then
      let '(sign, r1) :=
        match r with
        | g :: r' => if (g =? 43) || (g =? 45) then ([g], r') else ([], r)
        | [] => ([], r)
        end in
      match take_digits r1 with
      | ([], _) => None
      | (d, rest) => Some (c :: sign ++ d, rest)
      end
    else Some ([], s)
  | [] => Some ([], [])
  end.

Definition scan_frac (s : bytes) : option (bytes * bytes) :=
  match s with
  | c :: r =>
    if c =? 46 then
      match take_digits r with
      | ([], _) => None
      | (d, rest) => Some (c :: d, rest)
      end
    else Some ([], s)
  | [] => Some ([], [])
  end.

Definition scan_int (s : bytes) : option (bytes * bytes) :=
  match s with
  | c :: r =>
    if c =? 48 then Some ([c], r)
    else if is_digit19 c then let '(d, rest) := take_digits r in Some (c :: d, rest)
    else None
  | [] => None
  end.

Definition scan_number (s : bytes) : option (bytes * bytes) :=
  let '(sign, s1) := match s with c :: r => if c =? 45 then ([c], r) else ([], s) | [] => ([], s) end in
  match scan_int s1 with
  | None => None
  | Some (i, s2) =>
    match scan_frac s2 with
    | None => None
    | Some (f, s3) =>
      match scan_exp s3 with
      | None => None
      | Some (e, s4) => Some (sign ++ i ++ f ++ e, s4)
      end
    end
  end.

Fixpoint strip_prefix (p s : bytes) : option bytes :=
  match p, s with
  | [], _ => Some s
  | x :: p', y :: s' => if x =? y then strip_prefix p' s' else None
  | _ :: _, [] => None
  end.

(* one scalar literal at the head of [s] (first byte is not '[' or '{') *)
Definition scan_literal (s : bytes) : option (token * bytes) :=
  match s with
  | [] => None
  | c :: r =>
    if c =? 34 then
      match scan_string r with Some (o, rest) => Some (TStr o, rest) | None => None end
    else if c =? 116 then
      match strip_prefix [114; 117; 101] r with Some rest => Some (TBool true, rest) | None => None end
    else if c =? 102 then
      match strip_prefix [97; 108; 115; 101] r with Some rest => Some (TBool false, rest) | None => None end
    else if c =? 110 then
      match strip_prefix [117; 108; 108] r with Some rest => Some (TNull, rest) | None => None end
    else if (c =? 45) || is_digit c then
      match scan_number s with Some (l, rest) => Some (TNum l, rest) | None => None end
    else None
  end.

(* ----------------------------------------------------- Decoder.Token *)
Inductive tstate :=
| StTop | StArrStart | StArrValue | StArrComma
| StObjStart | StObjKey | StObjColon | StObjValue | StObjComma.

Definition value_allowed (st : tstate) : bool :=
  match st with StTop | StArrStart | StArrValue | StObjValue => true | _ => false end.

Definition value_end (st : tstate) : tstate :=
  match st with
  | StArrStart | StArrValue => StArrComma
  | StObjValue => StObjComma
  | s => s
  end.

Inductive token_result :=
| TokFail (more : bool)
| TokOk (t : token) (st : tstate) (stack : list tstate) (rest : bytes).

(* the part of Token() after a possible ':' / ',' has been consumed *)
Definition token_at (more : bool) (st : tstate) (stack : list tstate) (s : bytes) : token_result :=
  match s with
  | [] => TokFail more
  | c :: r =>
    if c =? 91 then                                   (* [ *)
      if value_allowed st then TokOk TOpenArr StArrStart (st :: stack) r else TokFail more
    else if c =? 123 then                             (* { *)
      if value_allowed st then TokOk TOpenObj StObjStart (st :: stack) r else TokFail more
    else if c =? 93 then                              (* ] *)
      match st, stack with
      | StArrStart, up :: stack' | StArrComma, up :: stack' => TokOk TCloseArr (value_end up) stack' r
      | _, _ => TokFail more
      end
    else if c =? 125 then                             (* } *)
      match st, stack with
      | StObjStart, up :: stack' | StObjComma, up :: stack' => TokOk TCloseObj (value_end up) stack' r
      | _, _ => TokFail more
      end
    else if (c =? 58) || (c =? 44) then TokFail more  (* a second separator *)
    else
      match st with
      | StObjStart | StObjKey =>
        if c =? 34 then
          match scan_string r with
          | Some (o, rest) => TokOk (TStr o) StObjColon stack rest
          | None => TokFail more
          end
        else TokFail more
      | _ =>
        if value_allowed st then
          match scan_literal s with
          | Some (t, rest) => TokOk t (value_end st) stack rest
          | None => TokFail more
          end
        else TokFail more
      end
  end.

(* one call of Decoder.Token() *)
Definition token_call (st : tstate) (stack : list tstate) (s : bytes) : token_result :=
  match skip_ws s with
  | [] => TokFail false
  | c :: r =>
    let more := negb (c =? 93) && negb (c =? 125) in
    if c =? 58 then
      match st with
      | StObjColon => token_at more StObjValue stack (skip_ws r)
      | _ => TokFail more
      end
    else if c =? 44 then
      match st with
      | StArrComma => token_at more StArrValue stack (skip_ws r)
      | StObjComma => token_at more StObjKey stack (skip_ws r)
      | _ => TokFail more
      end
    else token_at more st stack (c :: r)
  end.

Fixpoint lex_go (fuel : nat) (st : tstate) (stack : list tstate) (s : bytes) : list token * bool :=
  match fuel with
  | O => ([], false)
  | S f =>
    match token_call st stack s with
    | TokFail more => ([], more)
    | TokOk t st' stack' rest =>
        let '(ts, more) := lex_go f st' stack' rest in (t :: ts, more)
    end
  end.

(* every token consumes at least one byte, so [length bs + 1] iterations suffice *)
Definition lex (bs : bytes) : list token * bool := lex_go (S (length bs)) StTop [] bs.

(* Decoder.More() for a client positioned before [ts] *)
Definition more (ts : list token) (more_at_end : bool) : bool :=
  match ts with
  | [] => more_at_end
  | t :: _ => negb (is_close t)
  end.

(* ----------------------------------------------------- one whole value *)
(* tokens of the first complete value of [ts], the rest, and the maximal
   nesting depth reached (a scalar has depth 0) *)
Fixpoint split_go (ts : list token) (depth maxd : N) (acc : list token) : option (list token * list token * N) :=
  match ts with
  | [] => None
  | t :: r =>
    match t with
    | TOpenObj | TOpenArr =>
        let d := depth + 1 in split_go r d (N.max maxd d) (t :: acc)
    | TCloseObj | TCloseArr =>
        if depth =? 0 then None
        else if depth =? 1 then Some (rev (t :: acc), r, maxd)
        else split_go r (depth - 1) maxd (t :: acc)
    | _ =>
        if depth =? 0 then Some ([t], r, maxd) else split_go r depth maxd (t :: acc)
    end
  end.
Definition split_value (ts : list token) : option (list token * list token * N) := split_go ts 0 0 [].

(* ----------------------------------------------------- tokens <-> trees *)
Fixpoint tokens_of (v : jvalue) : list token :=
  match v with
  | JNull => [TNull]
  | JBool b => [TBool b]
  | JNum l => [TNum l]
  | JStr s => [TStr s]
  | JArr items => TOpenArr :: flat_map tokens_of items ++ [TCloseArr]
  | JObj ms => TOpenObj :: flat_map (fun kv => TStr (fst kv) :: tokens_of (snd kv)) ms ++ [TCloseObj]
  end.

Fixpoint parse_value (fuel : nat) (ts : list token) : option (jvalue * list token) :=
  match fuel with
  | O => None
  | S f =>
    match ts with
    | [] => None
    | TNull :: r => Some (JNull, r)
    | TBool b :: r => Some (JBool b, r)
    | TNum l :: r => Some (JNum l, r)
    | TStr s :: r => Some (JStr s, r)
    | TOpenArr :: r =>
        (fix items (g : nat) (ts : list token) (acc : list jvalue) {struct g} : option (jvalue * list token) :=
           match g with
           | O => None
           | S g' =>
             match ts with
             | TCloseArr :: r' => Some (JArr (rev acc), r')
             | _ => match parse_value f ts with
                    | Some (v, r') => items g' r' (v :: acc)
                    | None => None
                    end
             end
           end) fuel r []
    | TOpenObj :: r =>
        (fix members (g : nat) (ts : list token) (acc : list (bytes * jvalue)) {struct g} : option (jvalue * list token) :=
           match g with
           | O => None
           | S g' =>
             match ts with
             | TCloseObj :: r' => Some (JObj (rev acc), r')
             | TStr k :: r' => match parse_value f r' with
                               | Some (v, r'') => members g' r'' ((k, v) :: acc)
                               | None => None
                               end
             | _ => None
             end
           end) fuel r []
    | TCloseObj :: _ | TCloseArr :: _ => None
    end
  end.

Definition parse_json (bs : bytes) : option jvalue :=
  let '(ts, _) := lex bs in
  match parse_value (S (length ts)) ts with
  | Some (v, _) => Some v
  | None => None
  end.

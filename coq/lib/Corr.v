(* Corr.v — helpers for the correspondence files written by the harness. *)
From Coq Require Import List NArith.
Import ListNotations.

(* positions (0-based) of the cases on which [f] is false *)
Fixpoint failing_from {A} (f : A -> bool) (l : list A) (i : N) : list N :=
  match l with
  | [] => []
  | x :: r => if f x then failing_from f r (N.succ i) else i :: failing_from f r (N.succ i)
  end.
Definition failing {A} (f : A -> bool) (l : list A) : list N := failing_from f l 0%N.

Fixpoint list_eqb {A} (eqb : A -> A -> bool) (a b : list A) : bool :=
  match a, b with
  | [], [] => true
  | x :: r, y :: s => eqb x y && list_eqb eqb r s
  | _, _ => false
  end.
Definition nlist_eqb := list_eqb N.eqb.
Definition option_eqb {A} (eqb : A -> A -> bool) (a b : option A) : bool :=
  match a, b with
  | None, None => true
  | Some x, Some y => eqb x y
  | _, _ => false
  end.

(* Text.v — text as Go sees it: byte strings are [list N] (each < 256), rune
   slices are [list N] of code points.  [utf8_decode] is []rune(s) / range-over-
   string (invalid bytes become U+FFFD, one byte at a time), [utf8_encode] is
   string([]rune) (surrogates and out-of-range values become U+FFFD).
   Range tables ([in_ranges]) carry the unicode.IsSpace/IsDigit/IsLetter
   predicates dumped from the Go toolchain into gen/UnicodeGen.v.
   Line handling: [split_on] is strings.Split(s, sep-byte), [join_with] is
   strings.Join.  Stdlib only, no proofs here. *)
From Coq Require Import List NArith Bool.
Import ListNotations.
Local Open Scope N_scope.
Local Open Scope bool_scope.

(* ---- sorted, disjoint range tables -------------------------------------- *)
Fixpoint in_ranges (rs : list (N * N)) (c : N) : bool :=
  match rs with
  | [] => false
  | (lo, hi) :: r => if c <? lo then false else if c <=? hi then true else in_ranges r c
  end.

(* ---- UTF-8 ---------------------------------------------------------------- *)
Definition rune_error : N := 65533.
Definition in_byte_range (lo hi b : N) : bool := (lo <=? b) && (b <=? hi).
Definition is_cont (b : N) : bool := in_byte_range 128 191 b.

(* utf8.first[]: for a lead byte, (sequence length, accepted range of the second byte) *)
Definition lead_class (b0 : N) : option (N * N * N) :=
  if in_byte_range 194 223 b0 then Some (2, 128, 191)
  else if b0 =? 224 then Some (3, 160, 191)
  else if in_byte_range 225 236 b0 then Some (3, 128, 191)
  else if b0 =? 237 then Some (3, 128, 159)
  else if in_byte_range 238 239 b0 then Some (3, 128, 191)
  else if b0 =? 240 then Some (4, 144, 191)
  else if in_byte_range 241 243 b0 then Some (4, 128, 191)
  else if b0 =? 244 then Some (4, 128, 143)
  else None.

(* one decoding step: the rune and how many bytes it consumed (1..4) *)
Definition decode_rune (bs : list N) : option (N * N) :=
  match bs with
  | [] => None
  | b0 :: r0 =>
    if b0 <? 128 then Some (b0, 1) else
    match lead_class b0 with
    | None => Some (rune_error, 1)
    | Some (n, lo, hi) =>
      match r0 with
      | b1 :: r1 =>
        if in_byte_range lo hi b1 then
          if n =? 2 then Some ((b0 - 192) * 64 + (b1 - 128), 2) else
          match r1 with
          | b2 :: r2 =>
            if is_cont b2 then
              if n =? 3 then Some ((b0 - 224) * 4096 + (b1 - 128) * 64 + (b2 - 128), 3) else
              match r2 with
              | b3 :: _ =>
                if is_cont b3 then Some ((b0 - 240) * 262144 + (b1 - 128) * 4096 + (b2 - 128) * 64 + (b3 - 128), 4)
                else Some (rune_error, 1)
              | [] => Some (rune_error, 1)
              end
            else Some (rune_error, 1)
          | [] => Some (rune_error, 1)
          end
        else Some (rune_error, 1)
      | [] => Some (rune_error, 1)
      end
    end
  end.

(* []rune(s).  Fuel = number of bytes (every step consumes at least one). *)
Fixpoint utf8_decode_fuel (fuel : nat) (bs : list N) : list N :=
  match fuel with
  | O => []
  | S f =>
    match decode_rune bs with
    | None => []
    | Some (r, n) => r :: utf8_decode_fuel f (skipn (N.to_nat n) bs)
    end
  end.
Definition utf8_decode (bs : list N) : list N := utf8_decode_fuel (length bs) bs.

Definition is_surrogate (c : N) : bool := in_byte_range 55296 57343 c.
Definition valid_rune (c : N) : bool := (c <=? 1114111) && negb (is_surrogate c).

(* utf8.AppendRune *)
Definition encode_rune (c : N) : list N :=
  if c <? 128 then [c]
  else if c <? 2048 then [192 + c / 64; 128 + c mod 64]
  else if negb (valid_rune c) then [239; 191; 189]
  else if c <? 65536 then [224 + c / 4096; 128 + (c / 64) mod 64; 128 + c mod 64]
  else [240 + c / 262144; 128 + (c / 4096) mod 64; 128 + (c / 64) mod 64; 128 + c mod 64].

Definition utf8_encode (rs : list N) : list N := flat_map encode_rune rs.

(* len(string(r)) *)
Definition rune_len (c : N) : N :=
  if c <? 128 then 1 else if c <? 2048 then 2
  else if negb (valid_rune c) then 3 else if c <? 65536 then 3 else 4.
Definition utf8_len (rs : list N) : N := fold_right (fun c a => rune_len c + a) 0 rs.

(* ---- lines ------------------------------------------------------------------ *)
(* strings.Split(s, string(sep)): always at least one element *)
Fixpoint split_on (sep : N) (s : list N) : list (list N) :=
  match s with
  | [] => [[]]
  | c :: r =>
    if c =? sep then [] :: split_on sep r
    else match split_on sep r with
         | l :: ls => (c :: l) :: ls
         | [] => [[c]]
         end
  end.

(* strings.Join(ls, string(sep)) *)
Fixpoint join_with (sep : N) (ls : list (list N)) : list N :=
  match ls with
  | [] => []
  | [l] => l
  | l :: r => l ++ sep :: join_with sep r
  end.

Definition nl : N := 10.
Definition lines_of (s : list N) : list (list N) := split_on nl s.

(* ---- small string helpers used by several models -------------------------- *)
Fixpoint list_N_eqb (a b : list N) : bool :=
  match a, b with
  | [], [] => true
  | x :: r, y :: s => (x =? y) && list_N_eqb r s
  | _, _ => false
  end.

Fixpoint drop_while {A} (p : A -> bool) (l : list A) : list A :=
  match l with
  | [] => []
  | x :: r => if p x then drop_while p r else l
  end.
(* strings.TrimRight(s, cutset-predicate) on runes *)
Definition trim_right {A} (p : A -> bool) (l : list A) : list A := rev (drop_while p (rev l)).
Definition trim_left {A} (p : A -> bool) (l : list A) : list A := drop_while p l.

(* strconv.Itoa / %d for a natural number, as ASCII bytes *)
Fixpoint N_to_dec_fuel (fuel : nat) (n : N) (acc : list N) : list N :=
  match fuel with
  | O => acc
  | S f => let acc' := (48 + N.modulo n 10)%N :: acc in
           if N.ltb n 10 then acc' else N_to_dec_fuel f (N.div n 10) acc'
  end.
Definition N_to_dec (n : N) : list N := N_to_dec_fuel (S (N.to_nat (N.log2 n))) n [].

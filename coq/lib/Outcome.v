(* Outcome.v — three-way result used by every model: Go panics are kept
   as a distinct constructor so that "never panics" is a theorem, not an
   artefact of Gallina's totality. *)
From Coq Require Import String.
Inductive outcome (A : Type) : Type :=
| Ok (a : A)
| Err (class : string)
| Panic (site : string)
| OutOfFuel.
Arguments Ok {A} a.
Arguments Err {A} class.
Arguments Panic {A} site.
Arguments OutOfFuel {A}.

Definition is_ok {A} (o : outcome A) : bool := match o with Ok _ => true | _ => false end.
Definition is_err {A} (o : outcome A) : bool := match o with Err _ => true | _ => false end.
Definition is_panic {A} (o : outcome A) : bool := match o with Panic _ => true | _ => false end.

Definition obind {A B} (o : outcome A) (f : A -> outcome B) : outcome B :=
  match o with
  | Ok a => f a
  | Err c => Err c
  | Panic s => Panic s
  | OutOfFuel => OutOfFuel
  end.
Definition omap {A B} (f : A -> B) (o : outcome A) : outcome B :=
  obind o (fun a => Ok (f a)).

(* observable kind, what correspondence compares: 0 ok, 1 err, 2 panic, 3 fuel *)
Definition kind {A} (o : outcome A) : nat :=
  match o with Ok _ => 0 | Err _ => 1 | Panic _ => 2 | OutOfFuel => 3 end.

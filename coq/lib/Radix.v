(* Radix.v — positional numerals in an arbitrary base over N.
   Used at base 62 (id62), 10 (JSON integers), 16 (\u escapes), 64 (base64). *)
From Coq Require Import List NArith ZArith Lia ZifyN ZifyNat ZifyBool.
Import ListNotations.
Local Open Scope N_scope.

(* little-endian digits, at most [fuel] of them; stops when the value is 0 *)
Fixpoint to_digits_le (b : N) (fuel : nat) (n : N) : list N :=
  match fuel with
  | O => []
  | S f => if n =? 0 then [] else (n mod b) :: to_digits_le b f (n / b)
  end.

Fixpoint of_digits_le (b : N) (ds : list N) : N :=
  match ds with
  | [] => 0
  | d :: r => d + b * of_digits_le b r
  end.

(* big-endian accumulation, as a left fold (how parsers read) *)
Definition of_digits_be (b : N) (acc : N) (ds : list N) : N :=
  fold_left (fun a d => a * b + d) ds acc.

Lemma of_to_le b fuel n :
  2 <= b -> n < b ^ N.of_nat fuel -> of_digits_le b (to_digits_le b fuel n) = n.
Proof.
  intros Hb. revert n. induction fuel as [|f IH]; intros n Hn.
  - cbn in *. lia.
  - cbn [to_digits_le]. destruct (n =? 0) eqn:E.
    + cbn. lia.
    + cbn [of_digits_le]. rewrite IH.
      * pose proof (N.div_mod n b). lia.
      * rewrite Nnat.Nat2N.inj_succ, N.pow_succ_r' in Hn.
        apply N.div_lt_upper_bound; lia.
Qed.

Lemma to_digits_len b fuel n : (length (to_digits_le b fuel n) <= fuel)%nat.
Proof.
  revert n. induction fuel as [|f IH]; intros n; cbn; [lia|].
  destruct (n =? 0); cbn; [lia|]. specialize (IH (n / b)). lia.
Qed.

Lemma to_digits_bound b fuel n :
  2 <= b -> Forall (fun d => d < b) (to_digits_le b fuel n).
Proof.
  intros Hb. revert n. induction fuel as [|f IH]; intros n; cbn; [constructor|].
  destruct (n =? 0); [constructor|]. constructor; [|apply IH].
  apply N.mod_lt. lia.
Qed.

(* the most significant digit produced is non-zero (canonical form) *)
Lemma to_digits_last_nz b fuel n :
  2 <= b -> n < b ^ N.of_nat fuel ->
  forall d, last (to_digits_le b fuel n) 1 = d -> d <> 0.
Proof.
  intros Hb. revert n. induction fuel as [|f IH]; intros n Hn d Hd.
  - cbn in Hd. lia.
  - cbn [to_digits_le] in Hd. destruct (n =? 0) eqn:E; [cbn in Hd; lia|].
    assert (Hq : n / b < b ^ N.of_nat f).
    { rewrite Nnat.Nat2N.inj_succ, N.pow_succ_r' in Hn.
      apply N.div_lt_upper_bound; lia. }
    destruct (to_digits_le b f (n / b)) as [|d' r] eqn:Er.
    + cbn in Hd. subst d.
      (* quotient produced no digits => quotient = 0 => n mod b = n <> 0 *)
      assert (n / b = 0).
      { destruct f; cbn in Er.
        - change (N.of_nat 0) with 0 in Hq. rewrite N.pow_0_r in Hq. apply N.lt_1_r in Hq. exact Hq.
        - destruct (n / b =? 0) eqn:E2; [lia|discriminate]. }
      pose proof (N.div_mod n b). lia.
    + change (last (n mod b :: d' :: r) 1) with (last (d' :: r) 1) in Hd.
      rewrite <- Er in Hd. eapply IH; eauto.
Qed.

Lemma of_digits_be_app b acc s t :
  of_digits_be b acc (s ++ t) = of_digits_be b (of_digits_be b acc s) t.
Proof. unfold of_digits_be. apply fold_left_app. Qed.

Lemma of_digits_be_rev_le b ds : forall acc,
  of_digits_be b acc (rev ds) = acc * b ^ N.of_nat (length ds) + of_digits_le b ds.
Proof.
  induction ds as [|d r IH]; intros acc.
  - cbn. lia.
  - cbn [rev length of_digits_le]. rewrite of_digits_be_app, IH.
    cbn [of_digits_be fold_left].
    rewrite Nnat.Nat2N.inj_succ, N.pow_succ_r'. lia.
Qed.

Lemma of_digits_be_zeros b k s :
  of_digits_be b 0 (repeat 0 k ++ s) = of_digits_be b 0 s.
Proof.
  induction k as [|k IH]; cbn [repeat app]; [reflexivity|].
  unfold of_digits_be in *. cbn [fold_left]. replace (0 * b + 0) with 0 by lia. exact IH.
Qed.

Lemma of_digits_le_bound b ds :
  2 <= b -> Forall (fun d => d < b) ds -> of_digits_le b ds < b ^ N.of_nat (length ds).
Proof.
  intros Hb H. induction H as [|d r Hd Hr IH]; cbn [of_digits_le length].
  - cbn. lia.
  - rewrite Nnat.Nat2N.inj_succ, N.pow_succ_r'. nia.
Qed.

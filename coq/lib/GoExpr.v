(* GoExpr.v — a small expression language the translators use to carry Go expressions
   (conditions, return values, struct-literal fields) into Coq as DATA, and an evaluator for it.
   Variables are the printed Go operands ("diff.FromLine", "merged[last].ToLine", "p.indent");
   calls carry the printed callee ("strings.Repeat", "lines.rangeLines"); a slice expression
   x[a:b] is the call "slice" [x; a; b].  Values: integers, byte strings, booleans, string slices.
   The evaluator interprets the operators and the few library calls the BCL formatter uses;
   anything else is looked up in the environment (variables) or handed to [calls] (user calls).
   A Go run-time panic (slice bounds) is the value VPanic.  Stdlib only, no proofs. *)
From Coq Require Import String List NArith ZArith Bool.
Import ListNotations.
Local Open Scope Z_scope.

Inductive gexpr :=
| GVar (name : string)
| GInt (z : Z)
| GStr (b : list N)
| GBin (op : string) (a b : gexpr)
| GNot (a : gexpr)
| GCall (f : string) (args : list gexpr).

Inductive gval :=
| VZ (z : Z) | VS (b : list N) | VB (b : bool) | VL (l : list (list N)) | VPanic | VUnknown.

Fixpoint bytes_eqb (a b : list N) : bool :=
  match a, b with
  | [], [] => true
  | x :: r, y :: s => N.eqb x y && bytes_eqb r s
  | _, _ => false
  end.

Fixpoint g_join (sep : list N) (ls : list (list N)) : list N :=
  match ls with
  | [] => []
  | [l] => l
  | l :: r => l ++ sep ++ g_join sep r
  end.
Fixpoint g_repeat (s : list N) (n : nat) : list N :=
  match n with O => [] | S k => s ++ g_repeat s k end.
(* strings.ReplaceAll / a Replacer whose keys are single bytes: byte-wise substitution *)
Fixpoint g_replace1 (pairs : list (N * list N)) (c : N) : list N :=
  match pairs with
  | [] => [c]
  | (k, v) :: r => if N.eqb k c then v else g_replace1 r c
  end.
Definition g_replace (pairs : list (N * list N)) (s : list N) : list N := flat_map (g_replace1 pairs) s.
(* strings.TrimRight(s, cutset) on bytes, cutset ASCII *)
Definition g_trim_right (cut : list N) (s : list N) : list N :=
  rev ((fix dw (l : list N) := match l with
                               | [] => []
                               | c :: r => if existsb (N.eqb c) cut then dw r else l
                               end) (rev s)).
(* fmt.Sprintf with a single %s *)
Fixpoint g_sprintf (f : list N) (arg : list N) : list N :=
  match f with
  | [] => []
  | c :: t => match t with
              | v :: r => if N.eqb c 37 && N.eqb v 115 then arg ++ r else c :: g_sprintf t arg
              | [] => [c]
              end
  end.

Definition g_binop (op : string) (a b : gval) : gval :=
  match a, b with
  | VPanic, _ | _, VPanic => VPanic
  | VZ x, VZ y =>
    if String.eqb op "+" then VZ (x + y) else if String.eqb op "-" then VZ (x - y)
    else if String.eqb op "*" then VZ (x * y)
    else if String.eqb op "<" then VB (x <? y) else if String.eqb op ">" then VB (y <? x)
    else if String.eqb op "<=" then VB (x <=? y) else if String.eqb op ">=" then VB (y <=? x)
    else if String.eqb op "==" then VB (x =? y) else if String.eqb op "!=" then VB (negb (x =? y))
    else VUnknown
  | VS x, VS y =>
    if String.eqb op "+" then VS (x ++ y)
    else if String.eqb op "==" then VB (bytes_eqb x y) else if String.eqb op "!=" then VB (negb (bytes_eqb x y))
    else VUnknown
  | VB x, VB y =>
    if String.eqb op "&&" then VB (x && y) else if String.eqb op "||" then VB (x || y) else VUnknown
  | _, _ => VUnknown
  end.

Section Eval.
Variable env : string -> gval.                       (* variables; VUnknown when absent *)
Variable calls : string -> list gval -> gval.        (* calls the evaluator does not know *)
Variable pairs : list (N * list N).                  (* the Replacer behind "stringEscaper.Replace" *)

Definition g_call (f : string) (vs : list gval) : gval :=
  if existsb (fun v => match v with VPanic => true | _ => false end) vs then VPanic else
  match vs with
  | [VS s; VZ n] => if String.eqb f "strings.Repeat" then (if n <? 0 then VPanic else VS (g_repeat s (Z.to_nat n))) else calls f vs
  | [VL l; VS sep] => if String.eqb f "strings.Join" then VS (g_join sep l) else calls f vs
  | [VS s; VS cut] => if String.eqb f "strings.TrimRight" then VS (g_trim_right cut s)
                      else if String.eqb f "fmt.Sprintf" then VS (g_sprintf s cut) else calls f vs
  | [VS s; VS a; VS b] =>
    if String.eqb f "strings.ReplaceAll" then match a with [k] => VS (g_replace [(k, b)] s) | _ => VUnknown end
    else calls f vs
  | [VS s] => if String.eqb f "stringEscaper.Replace" then VS (g_replace pairs s)
              else if String.eqb f "len" then VZ (Z.of_nat (length s)) else calls f vs
  | [VL l; VZ a; VZ b] =>
    if String.eqb f "slice" then
      (if (a <? 0) || (b <? a) || (Z.of_nat (length l) <? b) then VPanic
       else VL (firstn (Z.to_nat (b - a)) (skipn (Z.to_nat a) l)))
    else calls f vs
  | _ => calls f vs
  end.

Fixpoint g_eval (e : gexpr) : gval :=
  match e with
  | GVar n => env n
  | GInt z => VZ z
  | GStr b => VS b
  | GNot a => match g_eval a with VB b => VB (negb b) | VPanic => VPanic | _ => VUnknown end
  | GBin op a b =>
    (* && and || short-circuit: the right operand is not evaluated (it may panic) *)
    if String.eqb op "&&" then
      match g_eval a with VB false => VB false | VB true => g_eval b | VPanic => VPanic | _ => VUnknown end
    else if String.eqb op "||" then
      match g_eval a with VB true => VB true | VB false => g_eval b | VPanic => VPanic | _ => VUnknown end
    else g_binop op (g_eval a) (g_eval b)
  | GCall f args => g_call f (map g_eval args)
  end.
End Eval.

(* environments as association lists *)
Fixpoint g_lookup (l : list (string * gval)) (k : string) : gval :=
  match l with
  | [] => VUnknown
  | (k0, v) :: r => if String.eqb k0 k then v else g_lookup r k
  end.
Definition no_calls (f : string) (vs : list gval) : gval := VUnknown.

(* Pack.v — compact byte-string literals for the generated correspondence files.
   Parsing a list of N numerals costs ~0.1 ms per element; primitive 63-bit
   integer literals are read natively, so the harness writes a byte string as
   [P len [w0; w1; ...]], seven bytes per word, little endian inside a word.
   Used only by cases_*.v / *Corr.v, never by a model or a theorem. *)
From Coq Require Import List NArith ZArith Uint63.
Import ListNotations.

Definition byte_at (w : int) (j : int) : N :=
  Z.to_N (Uint63.to_Z (Uint63.land (Uint63.lsr w (Uint63.mul 8 j)) 255)).

Definition word_bytes (w : int) : list N :=
  [byte_at w 0; byte_at w 1; byte_at w 2; byte_at w 3; byte_at w 4; byte_at w 5; byte_at w 6]%uint63.

Definition P (len : N) (ws : list int) : list N := firstn (N.to_nat len) (flat_map word_bytes ws).

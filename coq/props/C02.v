(* C02 — a valid j5s package compiles to exactly the protobuf contract it declares.
   Only statements, closed by [exact lemma], with Print Assumptions beneath. *)
From Coq Require Import String List NArith Bool.
From J5V.lib Require Import Outcome.
From J5V.model Require Import J5sAst Desc J5sWalk J5sConvert.
From J5V.gen Require ImportsGen.
From J5V.proofs Require Import J5sProofs.
Import ListNotations.
Local Open Scope N_scope.

(* the tables of the Go source are the tables of the model (re-checked on every run) *)
Theorem C02_import_constants_agree : model_import_constants = ImportsGen.import_constants.
Proof. exact import_constants_agree. Qed.
Print Assumptions C02_import_constants_agree.

Theorem C02_implicit_imports_agree : implicit_table = ImportsGen.implicit_imports.
Proof. exact implicit_table_agrees. Qed.
Print Assumptions C02_implicit_imports_agree.

Theorem C02_scalar_types_agree : forallb check_scalar all_scalars = true.
Proof. exact scalar_table_agrees. Qed.
Print Assumptions C02_scalar_types_agree.

Theorem C02_ref_and_container_arms_agree : check_ref_arms = true.
Proof. exact ref_arms_agree. Qed.
Print Assumptions C02_ref_and_container_arms_agree.

(* mapProperties: field number = 1-based declaration position after the implicit leading fields *)
Theorem C02_map_properties_number : forall virt decl i p,
  nth_error decl i = Some p ->
  nth_error (map_properties virt decl) (length virt + i) = Some (1 + N.of_nat (length virt + i), p).
Proof. exact map_properties_number. Qed.
Print Assumptions C02_map_properties_number.

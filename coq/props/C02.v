(* C02 — a valid j5s package compiles to exactly the protobuf contract it declares.
   Only statements, closed by [exact lemma], with Print Assumptions beneath.
   snake / camel / screaming are arbitrary functions in the general theorems (the theorems hold
   for every name conversion); [compile] instantiates them with lib/Strcase.v. *)
From Coq Require Import String List NArith Bool.
From J5V.lib Require Import Outcome Strcase.
From J5V.model Require Entity.
From J5V.model Require Import J5sValidDecl J5sComments J5sEntity J5sRefSpec J5sAst Desc J5sWalk J5sLink J5sConvert J5sContract J5sSymbols J5sTypeNames J5sValid J5sCorr.
From J5V.gen Require ImportsGen.
From J5V.model Require RulesDecl RulesWrite.
From Coq Require Import ZArith.
From J5V.proofs Require Import J5sProofs J5sContractProofs J5sLinkProofs J5sResolveProofs J5sResolveCompleteProofs J5sServiceProofs J5sTotalProofs J5sSymbolProofs J5sCompileProofs J5sSubPkgProofs J5sDepsProofs J5sNameProofs J5sTypeNameProofs J5sWitnessProofs J5sFullProofs StrcaseProofs J5sStrcaseProofs J5sInfraProofs J5sRefSpecProofs J5sRulesCompose J5sEntityProofs J5sCommentsProofs J5sValidDeclProofs J5sInfraDepsProofs.
Import ListNotations.
Local Open Scope N_scope.

(* ---- the tables of the Go source are the tables of the model (re-checked on every run) *)
Theorem C02_import_constants_agree : forallb const_agrees model_import_constants = true.
Proof. exact import_constants_agree. Qed.
Print Assumptions C02_import_constants_agree.

Theorem C02_implicit_imports_agree : implicit_table = ImportsGen.implicit_imports.
Proof. exact implicit_table_agrees. Qed.
Print Assumptions C02_implicit_imports_agree.

Theorem C02_scalar_types_agree : forallb check_scalar all_scalars = true.
Proof. exact scalar_table_agrees. Qed.
Print Assumptions C02_scalar_types_agree.

Theorem C02_ref_and_container_arms_agree : check_ref_arms = true.
Proof. exact ref_arms_agree. Qed.
Print Assumptions C02_ref_and_container_arms_agree.

(* ---- mapProperties: field number = 1-based declaration position after the implicit leading fields *)
Theorem C02_map_properties_number : forall virt decl i p,
  nth_error decl i = Some p ->
  nth_error (map_properties virt decl) (length virt + i) = Some (1 + N.of_nat (length virt + i), p).
Proof. exact map_properties_number. Qed.
Print Assumptions C02_map_properties_number.

(* ---- the converter refines the contract, for every declaration at every nesting depth:
   whenever a run of properties converts, the fields are exactly the declared ones (name,
   JSON name, number = first + position, proto type, cardinality, optionality, oneof
   membership), the nested messages / enums are exactly the inline types and map entries (by
   name, in order), and every inline type satisfies the same contract one level down *)
Theorem C02_properties_contract : forall snake camel screaming ps ev path io num r,
  cv_props snake camel screaming ev path io num ps = Ok r ->
  fields_ok snake io num (props_list ps) (pr_fields r) /\
  map dm_name (pr_msgs r) = flat_map (prop_msg_names snake camel) (props_list ps) /\
  map en_name (pr_enums r) = flat_map (prop_enum_names camel) (props_list ps) /\
  (forall msgs enums, incl (pr_msgs r) msgs -> incl (pr_enums r) enums ->
     props_inline_ok snake camel screaming ps msgs enums).
Proof. intros snake camel screaming. exact (proj1 (proj2 (convert_refines snake camel screaming))). Qed.
Print Assumptions C02_properties_contract.

(* ---- enums: the declared options numbered in order after <PREFIX>UNSPECIFIED = 0 (the zero
   value may be spelled out as the first option: UNSPECIFIED or <PREFIX>UNSPECIFIED), for EVERY
   enum.  Before fix a65e1f2 any first option ending in UNSPECIFIED was taken as the zero value. *)
Theorem C02_enum_contract : forall screaming name e, enum_ok screaming name e (cv_enum screaming name e).
Proof. intros screaming. exact (cv_enum_ok screaming screaming screaming). Qed.
Print Assumptions C02_enum_contract.

(* value 0 of every compiled enum is <PREFIX>UNSPECIFIED, whatever the options are called
   (README: "The first proto enum value will always be {prefix}_UNSPECIFIED") *)
Theorem C02_enum_zero_value : forall screaming name e,
  nth_error (en_vals (cv_enum screaming name e)) 0 = Some (enum_pfx screaming name e ++ b "UNSPECIFIED", 0).
Proof. intros screaming name e. exact (proj1 (proj2 (cv_enum_ok screaming screaming screaming name e))). Qed.
Print Assumptions C02_enum_zero_value.

(* ---- well-formed declarations always convert (no error, no panic, no fuel) *)
Theorem C02_properties_convert : forall snake camel screaming ev ps io,
  wf_props snake camel ev io ps = true ->
  forall path num, exists r, cv_props snake camel screaming ev path io num ps = Ok r.
Proof. intros snake camel screaming ev. exact (proj1 (proj2 (convert_total snake camel screaming ev))). Qed.
Print Assumptions C02_properties_convert.

(* ---- soundness for whole packages (partial form of the full statement below): whatever the
   compiler model accepts - conversion of every source file of the package, then the link step -
   satisfies the structural contract: for every source file there is a generated file
   <path>.proto in the source's package holding exactly the declared objects, oneofs and enums
   in order, every field with the declared name, JSON name, number = 1-based position, proto
   type, cardinality, optionality, every inline type nested under the documented name with the
   same contract, to any depth. *)
Theorem C02_compile_sound : forall snake camel screaming bd pkg D,
  compile_package snake camel screaming bd pkg = Ok D ->
  package_contract snake camel screaming bd pkg D.
Proof. exact compile_sound. Qed.
Print Assumptions C02_compile_sound.

(* ---- services: <Name>Service with exactly the declared methods; every method is
   rpc <Method>(<Method>Request) returns (<Method>Response | google.api.HttpBody) with the declared
   verb, the path (base path joined, ":name" -> "{snake_name}") and body; the request / response
   messages satisfy the field and nesting contract *)
Theorem C02_service_contract : forall snake camel screaming ev s ms ss is,
  cv_service snake camel screaming ev s = Ok (ms, ss, is) ->
  exists ds, ss = [ds] /\ ds_name ds = sv_name s ++ b "Service" /\ ds_topic ds = None /\
             Forall2 (method_ok snake (sv_base s)) (sv_methods s) (ds_methods ds) /\
             exists mss, ms = concat mss /\ Forall2 (method_msgs_ok snake camel screaming) (sv_methods s) mss.
Proof. exact cv_service_ok. Qed.
Print Assumptions C02_service_contract.

(* ---- topics: <Topic>Topic services with the documented role and topic name, rpc <Name>(<Name>Message)
   returns (Empty), <Name>Message objects whose implicit leading metadata field (request / upsert)
   is field 1 and whose declared fields follow *)
Theorem C02_topic_contract : forall snake camel screaming ev t ms ss is,
  cv_topic snake camel screaming ev t = Ok (ms, ss, is) ->
  match t with
  | TPublish name msgs =>
      exists ds, ss = [ds] /\ topic_service_ok snake camel screaming name (snake name) RPublish PNil msgs ms ds
  | TReqRes name req reply =>
      exists ds1 ds2 ms1 ms2, ss = [ds1; ds2] /\ ms = ms1 ++ ms2 /\
        topic_service_ok snake camel screaming (name ++ b "Request") (snake name) RRequest virt_request req ms1 ds1 /\
        topic_service_ok snake camel screaming (name ++ b "Reply") (snake name) RReply virt_request reply ms2 ds2
  | TUpsert name entity msg =>
      exists ds, ss = [ds] /\
        topic_service_ok snake camel screaming name (snake name) (RUpsert entity) virt_upsert [default_tm_name name msg] ms ds
  | TEvent name entity msg =>
      exists ds, ss = [ds] /\ topic_service_ok snake camel screaming name (snake name) (REvent entity) PNil [msg] ms ds
  end.
Proof. exact cv_topic_ok. Qed.
Print Assumptions C02_topic_contract.

(* ---- references: the type a reference resolves to is a well-known implicitly importable type
   (the table of imports.go), or a declaration with the referenced name in the package that the
   written prefix denotes by the documented import rule (no prefix / own package; alias; package
   name without version; full package name; package of an imported file) *)
Theorem C02_references_follow_import_rule : forall this imports im exports r t,
  import_map imports [] = Ok im ->
  resolve (mkEnv this im exports) r = Ok t ->
  (exists pkg, In (pkg, r_name r, tr_file t) implicit_table /\ tr_pkg t = pkg /\ tr_name t = r_name r /\ tr_enum t = false) \/
  (exists full ex, denotes this imports (r_pkg r) full /\ exports full = Some ex /\ In t ex /\ tr_name t = r_name r).
Proof. exact resolve_sound. Qed.
Print Assumptions C02_references_follow_import_rule.

(* ... and conversely (completeness, which makes the validity condition "every reference
   resolves to a declaration of the right kind" declarative): a reference without prefix or with
   the file's own package resolves to the declaration of that name in the package; a reference
   written with a prefix of an import resolves to the declaration of that name in the imported
   package - provided exported names are distinct and imports are unambiguous *)
Theorem C02_references_resolve_own : forall this im exports,
  (forall p ex, exports p = Some ex -> J5sValid.distinct (map tr_name ex) = true) ->
  forall r ex t,
  (r_pkg r = [] \/ r_pkg r = this) -> exports this = Some ex -> In t ex -> tr_name t = r_name r ->
  resolve (mkEnv this im exports) r = Ok t.
Proof. exact resolve_complete_own. Qed.
Print Assumptions C02_references_resolve_own.

Theorem C02_references_resolve_imported : forall this imports im exports,
  import_map imports [] = Ok im ->
  (forall p ex, exports p = Some ex -> J5sValid.distinct (map tr_name ex) = true) ->
  forall r i ex t,
  imports_unambiguous imports ->
  r_pkg r <> [] -> r_pkg r <> this ->
  implicit_ref implicit_table (r_pkg r) (r_name r) = None ->
  implicit_ref implicit_table (import_pkg i) (r_name r) = None ->
  In i imports -> import_key i (r_pkg r) ->
  exports (import_pkg i) = Some ex -> In t ex -> tr_name t = r_name r ->
  resolve (mkEnv this im exports) r = Ok t.
Proof. exact resolve_complete_import. Qed.
Print Assumptions C02_references_resolve_imported.

(* ... every reference of a run of properties, at any depth, resolves, and the file defining its
   target is among the imports collected for the generated file; collected imports other than
   the file itself become dependencies *)
Theorem C02_references_imported : forall snake camel screaming ev ps path io n r,
  cv_props snake camel screaming ev path io n ps = Ok r ->
  forall rf, In rf (refs_of_props ps) -> exists t, resolve ev rf = Ok t /\ In (tr_file t) (pr_imports r).
Proof. intros snake camel screaming ev. exact (proj1 (proj2 (convert_imports snake camel screaming ev))). Qed.
Print Assumptions C02_references_imported.

Theorem C02_imports_become_dependencies : forall self imps x,
  In x imps -> x <> self -> In x (deps_of self imps).
Proof. exact in_deps_of. Qed.
Print Assumptions C02_imports_become_dependencies.

(* ... and for compiled packages (whatever compile accepts, valid or not): every reference written
   in a declaration of a source file of the package - at any depth, nested declarations,
   requests, responses, topic messages and implicit leading fields included - resolves in the
   file's environment (to the declaration the documented import rule denotes:
   C02_references_follow_import_rule), and the file defining its target is the generated file
   the declaration goes to (main / .service / .topic) or one of that file's dependencies *)
Theorem C02_references_reach_dependencies : forall snake camel screaming bd pkg D,
  compile_package snake camel screaming bd pkg = Ok D ->
  forall f im, In (BJ f) bd -> j5s_pkg f = pkg -> import_map (jf_imports f) [] = Ok im ->
  file_refs_ok (mkEnv (j5s_pkg f) im (pkg_exports camel bd)) f D.
Proof. exact compile_refs_imported. Qed.
Print Assumptions C02_references_reach_dependencies.

(* ... and nothing else: every dependency of every generated file of a compiled package is the
   defining file of a reference written in the declarations that go to that file (main /
   .service / .topic), or one of the fixed files of the j5 / protobuf infrastructure
   (J5sDepsProofs.infra_files: ext annotations, validation, well-known types, HTTP annotations,
   HttpBody, messaging annotations, Empty) *)
Theorem C02_dependencies_only_what_is_referenced : forall snake camel screaming bd pkg D,
  compile_package snake camel screaming bd pkg = Ok D ->
  forall df, In df D -> exists f im k,
    In (BJ f) bd /\ j5s_pkg f = pkg /\ import_map (jf_imports f) [] = Ok im /\
    fl_path df = kind_path f k /\
    only_refs (mkEnv (j5s_pkg f) im (pkg_exports camel bd)) (kind_refs f k) (fl_deps df).
Proof. exact compile_deps_only. Qed.
Print Assumptions C02_dependencies_only_what_is_referenced.

(* ---- type names after the link step (fix 2ef7c92: names without a leading dot are qualified
   before linking): the name Root.Path.Name the converter writes for an inline type becomes
   .<package>.Root.Path.Name - whatever else is nested in the file - and the bare name of a map
   entry becomes the entry nested in the message of the field *)
Theorem C02_inline_type_name : forall nested fpkg scope parts,
  rel_name parts <> [] -> hd 0 (rel_name parts) <> 46 -> ~ In (rel_name parts) nested ->
  link_name nested fpkg scope (rel_name parts) = abs_name fpkg parts.
Proof. exact link_name_inline. Qed.
Print Assumptions C02_inline_type_name.

Theorem C02_map_entry_type_name : forall nested fpkg scope en,
  en <> [] -> hd 0 en <> 46 -> In en nested ->
  link_name nested fpkg scope en = abs_name fpkg (scope ++ [en]).
Proof. exact link_name_entry. Qed.
Print Assumptions C02_map_entry_type_name.

(* ---- symbols: whenever a package converts, the linker's symbol table (every message, field,
   enum, enum value, service and method of the generated files, fully qualified; plus the
   symbols of the package's hand-written .proto files) is exactly the list of symbols the source
   declares (J5sSymbols: read off the source with the README naming rules).  The symbol clause
   of validity - that list has no duplicates - is therefore a statement about the source. *)
Theorem C02_symbol_table_is_declared : forall snake camel screaming bd pkg fs,
  convert_package snake camel screaming bd pkg = Ok fs ->
  package_symbols bd pkg fs = decl_package_symbols snake camel screaming bd pkg.
Proof. exact package_symbols_declared. Qed.
Print Assumptions C02_symbol_table_is_declared.

(* ... and for the compiled main files of a valid bundle: the
   list of (field, type name) pairs of the linked descriptor - every field of every message at
   every depth - is the declared one (J5sTypeNames): a scalar with a message representation
   names its well-known type, a reference .<package>.<Name> of the declaration it resolves to, an
   inline object / oneof / enum .<package>.<Root>.<Path>.<Name> nested under the message of the
   field, a map field its entry message, the entry's value field the item type *)
Theorem C02_field_type_names : forall bd pkg D,
  valid bd = true -> compile bd pkg = Ok D ->
  forall f im, In (BJ f) bd -> j5s_pkg f = pkg -> import_map (jf_imports f) [] = Ok im ->
  exists df, In df D /\
    main_types_ok to_snake to_camel (mkEnv (j5s_pkg f) im (pkg_exports to_camel bd)) f df.
Proof. exact compile_tnames_valid. Qed.
Print Assumptions C02_field_type_names.

(* the same for the request / response / topic messages: the .service and .topic files *)
Theorem C02_field_type_names_subpackages : forall bd pkg D,
  valid bd = true -> compile bd pkg = Ok D ->
  forall f im, In (BJ f) bd -> j5s_pkg f = pkg -> import_map (jf_imports f) [] = Ok im ->
  (file_services f <> [] ->
     exists df, In df D /\ service_types_ok to_snake to_camel (mkEnv (j5s_pkg f) im (pkg_exports to_camel bd)) f df) /\
  (file_topics f <> [] ->
     exists df, In df D /\ topic_types_ok to_snake to_camel (mkEnv (j5s_pkg f) im (pkg_exports to_camel bd)) f df).
Proof. exact compile_sub_tnames_valid. Qed.
Print Assumptions C02_field_type_names_subpackages.

(* what the declared list looks like: object Foo { field x object { field q string }
   object Foo { object X { field other string } } } (the package of a repaired defect) *)
Example C02_type_names_example :
  flat_map (elem_ftypes to_snake to_camel (mkEnv (b "foo.v1") [] (pkg_exports to_camel w_captured)) (b "foo.v1"))
    [EObject (b "Foo")
        (mkprops [Property (b "x") false false (FObjInline [] (mkprops [sfield "q"]))])
        (mknesteds [NObject (b "Foo") PNil (mknesteds [NObject (b "X") (mkprops [sfield "other"]) NNil])])] =
  [(b "foo.v1.Foo.x", b ".foo.v1.Foo.X"); (b "foo.v1.Foo.X.q", []); (b "foo.v1.Foo.Foo.X.other", [])].
Proof. vm_compute. reflexivity. Qed.

(* ---- acceptance: in a valid bundle every source file of every package converts, and the whole
   package compiles (conversion, link step, link of every imported generated file; the fuel of
   the dependency closure always suffices) *)
Theorem C02_valid_packages_convert : forall snake camel screaming bd pkg,
  valid_bundle snake camel screaming bd = true -> (exists f, In f bd /\ bfile_pkg f = pkg) ->
  exists D, convert_package snake camel screaming bd pkg = Ok D.
Proof. exact convert_package_total. Qed.
Print Assumptions C02_valid_packages_convert.

Theorem C02_valid_packages_compile : forall snake camel screaming bd pkg,
  valid_bundle snake camel screaming bd = true -> (exists f, In f bd /\ bfile_pkg f = pkg) ->
  exists D, compile_package snake camel screaming bd pkg = Ok D.
Proof. exact compile_total. Qed.
Print Assumptions C02_valid_packages_compile.

(* ---- the package-level statement: every package of a valid bundle compiles (conversion, the
   linker's symbol table, link step, link of the imported generated files), and its output is,
   per source file of the package (package_contract_full):
   - the main file <path>.j5s.proto in the package, holding exactly the declared objects, oneofs
     and enums: messages, enums, fields with name / JSON name / number / type / cardinality /
     optionality, enum values, inline types nested under their names, to any depth;
   - exactly when the source declares services, <dir>/service/<base>.p.j5s.proto in the package
     <pkg>.service: per service <Name>Service with one rpc per method - input
     .<pkg>.service.<Method>Request, output .<pkg>.service.<Method>Response or
     .google.api.HttpBody, the declared HTTP verb, the path (base path joined, :name ->
     {snake_name}), body "*" except for GET - and the request / response messages with the
     declared fields;
   - exactly when it declares topics, <dir>/topic/<base>.p.j5s.proto in <pkg>.topic: per topic
     the <Topic>Topic service (two for request / reply) with the messaging role and topic name,
     one rpc <Name>(.<pkg>.topic.<Name>Message) returns (.google.protobuf.Empty) per message,
     and the messages with the implicit leading field and the declared ones;
   - and no other file.
   [valid] (J5sCorr: J5sValid.valid_bundle with the byte-exact strcase functions) = the
   documented restrictions plus: no two declarations of a package generate the same proto
   symbol; every run compares it with acceptance by the real compiler.
   J5sFullProofs.package_complete = that structural contract (package_contract_full) AND, per
   source file, the (field, type name) list of the linked main / .service / .topic file - every
   field at every depth - is the declared one (references resolve to the declared type), AND
   every reference resolves with its defining file the generated file or one of its dependencies,
   AND every dependency of a generated file is an infrastructure file or the defining file of a
   reference written in the declarations that go to it, AND the infrastructure files the
   declarations need are imported: ONE conclusion for every valid bundle. *)
Definition C02_full_statement : Prop :=
  forall bd pkg, valid bd = true -> (exists f, In f bd /\ bfile_pkg f = pkg) ->
    exists D, compile bd pkg = Ok D /\ package_complete bd pkg D.

(* PROVED for the model, for every valid bundle (until fix a65e1f2 the statement was refuted by
   `enum Status { option OLD_UNSPECIFIED  option ACTIVE }`: see C02_fixed_named_zero) *)
Theorem C02_full : C02_full_statement.
Proof. exact compile_complete. Qed.
Print Assumptions C02_full.

(* its first conjunct on its own: the structural contract *)
Theorem C02_structural_contract :
  forall bd pkg, valid bd = true -> (exists f, In f bd /\ bfile_pkg f = pkg) ->
    exists D, compile bd pkg = Ok D /\ package_contract_full to_snake to_camel to_screaming_snake bd pkg D.
Proof. exact (compile_correct_full to_snake to_camel to_screaming_snake). Qed.
Print Assumptions C02_structural_contract.

(* regression (fix a65e1f2, conversion.go visitEnumNode / enum.go isExplicitZero): a FIRST option
   ending in UNSPECIFIED under a name of its own used to be taken as the zero value
   (STATUS_OLD_UNSPECIFIED = 0, STATUS_ACTIVE = 1 - no STATUS_UNSPECIFIED, options numbered from
   0); it is an ordinary option now *)
Theorem C02_fixed_named_zero :
  valid w_named_zero = true /\
  exists D, compile w_named_zero (b "foo.v1") = Ok D /\
    map en_vals (flat_map fl_enums D) =
      [[(b "STATUS_UNSPECIFIED", 0); (b "STATUS_OLD_UNSPECIFIED", 1); (b "STATUS_ACTIVE", 2)]].
Proof. exact named_zero_numbered_after_zero. Qed.
Print Assumptions C02_fixed_named_zero.

(* ---- the reference clause of `valid` read declaratively.  `valid` evaluates, for every
   reference, J5sValid.ref_is = "the model's resolver returns a declaration of the wanted
   kind".  In a valid bundle that is exactly J5sRefSpec.ref_declared, a condition on the source
   (own package / well-known package written in full / the LAST import line that can be written
   with the prefix - alias, full name, name without version, package of an imported file -;
   a declaration of that name and kind among the exports): soundness and completeness of the
   resolver w.r.t. the documented import rule, in one statement *)
Theorem C02_reference_clause_declarative : forall bd f,
  valid bd = true -> In (BJ f) bd ->
  exists im, import_map (jf_imports f) [] = Ok im /\
    forall r we, ref_is (mkEnv (j5s_pkg f) im (pkg_exports to_camel bd)) r we = true <->
                 ref_declared (j5s_pkg f) (jf_imports f) (pkg_exports to_camel bd) r we.
Proof. exact (valid_reference_clause to_snake to_camel to_screaming_snake). Qed.
Print Assumptions C02_reference_clause_declarative.

(* the same for any environment: import lines well-formed, exported names distinct *)
Theorem C02_resolver_sound_and_complete : forall this imports im exports,
  import_map imports [] = Ok im ->
  (forall p ex, exports p = Some ex -> J5sValid.distinct (map tr_name ex) = true) ->
  forall r we, ref_is (mkEnv this im exports) r we = true <-> ref_declared this imports exports r we.
Proof. exact ref_is_iff_declared. Qed.
Print Assumptions C02_resolver_sound_and_complete.

(* `valid` without the resolver: valid bd = true exactly when the bundle is structurally well
   formed (valid_struct: J5sValid's checks with every reference check taken out - identifiers,
   sibling names, containers, oneof members, required / optional, path parameters, topic message
   names, distinct exported names, no duplicate generated symbol, reserved sub-package names,
   distinct file paths; a boolean function of the source) and every reference written anywhere in
   it (krefs_file: with the kind its place wants) is declared in the sense of
   J5sRefSpec.ref_declared.  So the hypothesis of C02_full / C13_full can be read without any
   function of the compiler model. *)
Theorem C02_valid_declarative : forall bd,
  valid bd = true <-> valid_decl to_snake to_camel to_screaming_snake bd.
Proof. exact (valid_iff_decl to_snake to_camel to_screaming_snake). Qed.
Print Assumptions C02_valid_declarative.

Example C02_reference_example :
  (* import foo.v1 ; import foo.v2 : the prefix "foo" means foo.v2 (the last line that claims it) *)
  let imports := [mkImport (b "foo.v1") []; mkImport (b "foo.v2") []] in
  option_map import_pkg (import_for imports (b "foo")) = Some (b "foo.v2") /\
  option_map import_pkg (import_for imports (b "foo.v1")) = Some (b "foo.v1") /\
  import_for imports (b "bar") = None.
Proof. cbv zeta. repeat split; vm_compute; reflexivity. Qed.

(* ---- WHICH infrastructure files a construct needs: the model's import lists against the tables
   the translator reads off fields.go / conversion.go / service.go on every run (per switch arm /
   function: the constants passed to ensureImport on every path to its end - setJ5Ext counts as
   j5ExtImport - and those ensured only under a nested condition; values from imports.go) *)
Theorem C02_infrastructure_tables_agree :
  forallb scalar_infra_ok all_scalars = true /\ other_infra_ok = true.
Proof. exact (conj scalar_infra_agree other_infra_agree). Qed.
Print Assumptions C02_infrastructure_tables_agree.

(* for EVERY scalar type: what the model imports for the field contains what the Go arm always
   ensures (well-known type file, annotations) and nothing the arm does not ensure *)
Theorem C02_scalar_imports_from_go_table : forall s,
  exists u c, row ImportsGen.field_infra (arm_of_scalar s) = Some (u, c) /\
    incl (vals u) (fc_imports (scalar_core s)) /\
    incl (fc_imports (scalar_core s)) (vals u ++ vals c).
Proof. exact scalar_imports_from_go_table. Qed.
Print Assumptions C02_scalar_imports_from_go_table.

(* ... and every scalar type written at any depth of a run of properties that converts brings
   those files into the imports collected for the generated file *)
Theorem C02_scalar_infrastructure_imported : forall snake camel screaming ev ps path io n r,
  cv_props snake camel screaming ev path io n ps = Ok r ->
  forall s, In s (scalars_of_props ps) ->
    exists u c, row ImportsGen.field_infra (arm_of_scalar s) = Some (u, c) /\ incl (vals u) (pr_imports r).
Proof. exact props_infra_from_go_table. Qed.
Print Assumptions C02_scalar_infrastructure_imported.

(* a reference imports the defining file of its target and exactly the always-ensured files of
   the Field_Object / Field_Oneof / Field_Enum arm (other_infra_ok ties ref_infra to the table) *)
Theorem C02_reference_imports : forall ev r we c,
  ref_core ev r we = Ok c -> exists t, resolve ev r = Ok t /\ fc_imports c = tr_file t :: ref_infra we.
Proof. exact ref_imports_from_go_table. Qed.
Print Assumptions C02_reference_imports.

(* required properties, arrays, declared objects, topics, methods: the always-ensured files of
   the corresponding Go block are among the imports the model collects *)
Theorem C02_construct_imports : forall snake camel screaming,
  (forall ev path io num n op f r,
     cv_property snake camel screaming ev path io num (Property n true op f) = Ok r ->
     exists u c, row ImportsGen.property_infra "if required"%string = Some (u, c) /\ incl (vals u) (pr_imports r)) /\
  (forall ev path io num n rq op it r,
     cv_property snake camel screaming ev path io num (Property n rq op (FArray it)) = Ok r ->
     exists u c, row ImportsGen.property_infra "Field_Array"%string = Some (u, c) /\ incl (vals u) (pr_imports r)) /\
  (forall ev path nm ps subs ms es is,
     cv_nested snake camel screaming ev path (NObject nm ps subs) = Ok (ms, es, is) ->
     exists u c, row ImportsGen.func_infra "conversion.go:visitObjectNode"%string = Some (u, c) /\ incl (vals u) is) /\
  (forall ev tname topic_name rl virt l ms ss is,
     accept_topic snake camel screaming ev tname topic_name rl virt l = Ok (ms, ss, is) ->
     exists u c, row ImportsGen.func_infra "conversion.go:visitTopicNode"%string = Some (u, c) /\ incl (vals u) is) /\
  (forall ev base m ms dm is,
     cv_method snake camel screaming ev base m = Ok (ms, dm, is) ->
     exists u c, row ImportsGen.func_infra "service.go:visitServiceMethodNode"%string = Some (u, c) /\
       incl (vals u) is /\ (m_response m = None -> In imp_httpbody is /\ In imp_httpbody (vals c))).
Proof.
  intros snake camel screaming. split; [exact (required_imports_from_go_table snake camel screaming)|].
  split; [exact (array_imports_from_go_table snake camel screaming)|].
  split; [exact (object_imports_from_go_table snake camel screaming)|].
  split; [exact (topic_imports_from_go_table snake camel screaming)|exact (method_imports_from_go_table snake camel screaming)].
Qed.
Print Assumptions C02_construct_imports.

(* ... at package level, for whatever compiles: the infrastructure files a declaration needs
   (needs_*: read off the source with the per-type lists tied to the Go tables above - the
   scalar's always-ensured files, annotation / validation imports of references and inline
   types, the `required` block, arrays, message options, google.api.http and HttpBody of
   methods, messaging annotations and Empty of topics) are the generated file the declaration
   goes to (main / .service / .topic) or among its dependencies, after the link step - the
   counterpart of C02_references_reach_dependencies for infrastructure files *)
Theorem C02_infrastructure_reaches_dependencies : forall snake camel screaming bd pkg D,
  compile_package snake camel screaming bd pkg = Ok D ->
  forall f, In (BJ f) bd -> j5s_pkg f = pkg -> file_needs_ok f D.
Proof. exact compile_needs_imported. Qed.
Print Assumptions C02_infrastructure_reaches_dependencies.

(* C02_full with the declarative hypothesis *)
Theorem C02_full_declarative :
  forall bd pkg, valid_decl to_snake to_camel to_screaming_snake bd ->
    (exists f, In f bd /\ bfile_pkg f = pkg) ->
    exists D, compile bd pkg = Ok D /\ package_complete bd pkg D.
Proof.
  intros bd pkg Hv. apply C02_full. apply C02_valid_declarative. exact Hv.
Qed.
Print Assumptions C02_full_declarative.

(* ---- entities.  sourcewalk/entity.go does not convert an entity itself: it builds ordinary
   objects, an enum, a oneof, a service and a topic and hands them to the same visitors.
   model/J5sEntity.v is that expansion, source to source (expand_jfile); every theorem above
   applies to the expanded bundle as it stands.  For the entity itself: in every valid bundle
   that holds an expanded file, the package compiles and, for every entity of the file, the main
   file has <Name>Keys / <Name>Data / <Name>Status / <Name>State / <Name>EventType (events
   nested) / <Name>Event to the contract of their declarations (keys / data / events in
   declared order, numbered from 1; primary keys required; ...), the .service file the
   <Name>Query service (Get / List / Events: key path parameters, page / query fields) and the
   .topic file the <Name>Publish topic.  Covered: keys (primary / shard), data, statuses,
   events; command services, summaries, schemas inside the entity block and query settings are
   C17's (family ent). *)
Theorem C02_full_with_entities : forall bd dir base imps els e,
  valid bd = true -> In (BJ (expand_jfile dir base imps els)) bd -> In (XEntity e) els ->
  let f := expand_jfile dir base imps els in
  let pkg := join dot dir in
  exists D, compile bd pkg = Ok D /\
    (exists df, In df D /\ fl_path df = main_proto_path f /\
       forall el, In el (entity_main_elements e) ->
         element_ok to_snake to_camel to_screaming_snake el (fl_msgs df) (fl_enums df)) /\
    (exists df ms ds, In df D /\ fl_path df = sub_proto_path f (b "service") /\ In ds (fl_svcs df) /\
       match query_service pkg e with
       | EService s => service_linked_ok to_snake to_camel to_screaming_snake (pkg ++ dot ++ b "service") s ms ds
       | _ => False
       end) /\
    (exists df ms ss, In df D /\ fl_path df = sub_proto_path f (b "topic") /\
       match publish_topic pkg e with
       | ETopic t => topic_linked_ok to_snake to_camel to_screaming_snake (pkg ++ dot ++ b "topic") t ms ss
       | _ => False
       end).
Proof.
  intros bd dir base imps els e Hv Hin He f pkg.
  destruct (C02_structural_contract bd pkg Hv) as (D & Hc & Hok).
  - exists (BJ f). split; [exact Hin|reflexivity].
  - exists D. split; [exact Hc|].
    exact (entity_contract to_snake to_camel to_screaming_snake bd dir base imps els e D Hok Hin He).
Qed.
Print Assumptions C02_full_with_entities.

(* the expansion agrees with family ent's model of the same code (model/Entity.v, property C17:
   complete, mutually consistent expansion) on the README example and on an entity with shard
   keys: same messages per file, fields (JSON name, repeated, optional), enum values, services,
   methods with input / output / HTTP path; on every run both models are compared with the real
   compiler on generated entities (C02: ~100 entity files per quick run; C17: ent's stream) *)
Theorem C02_entity_models_agree :
  (exists D cs, compile (c02_bundle [b "foo"; b "v1"] c02_foo) (b "foo.v1") = Ok D /\
                Entity.expand ent_foo = Ok cs /\ c02_shape (b "foo.v1") D = ent_shape cs) /\
  (exists D cs, compile (c02_bundle [b "acme"; b "users"; b "v1"] c02_acc) (b "acme.users.v1") = Ok D /\
                Entity.expand ent_acc = Ok cs /\ c02_shape (b "acme.users.v1") D = ent_shape cs).
Proof. exact entity_models_agree. Qed.
Print Assumptions C02_entity_models_agree.

Example C02_entity_example :
  valid (c02_bundle [b "foo"; b "v1"] c02_foo) = true /\
  exists D, compile (c02_bundle [b "foo"; b "v1"] c02_foo) (b "foo.v1") = Ok D /\ length D = 3%nat.
Proof. exact readme_entity_valid. Qed.

(* ---- descriptions: the source locations (descriptor path + leading comment) the compiler
   writes into the main file, model/J5sComments.v (main_locs: from the source and a table of
   descriptions keyed by declared name path; emission order of j5convert's commentSet: the
   message, then per property the inline type it defines and the property itself, then the
   nested schemas; enums and enum values only where described, value path by NUMBER; the
   description of a property with an inline type stays on the property).  Tied on every run:
   for every compiled case the list equals the real SourceCodeInfo of every main file of the
   package (J5sCorr.locs_check).  Here: the declaration the real compiler was probed with.
   Not in SourceCodeInfo at all (observed): service and method descriptions. *)
Theorem C02_source_locations_probe :
  locs_eqb (main_locs to_camel to_screaming_snake probe_table probe_file) probe_real = true.
Proof. exact probe_locations. Qed.
Print Assumptions C02_source_locations_probe.

(* ---- C02 (structure) x C12 / C04 (validation rules, list rules, annotations): family scha's
   writer model (model/RulesWrite.v write_prop: buildField / buildProperty with every rule arm,
   key annotations, list rules) composed with the C02 contract on a property.  [erase] forgets
   rules, list rules, key annotations, description.  (1) whatever write_prop emits satisfies the
   C02 structural contract of the erased property; (2) so the structure - proto name, JSON
   name, number, proto type, cardinality, optionality - does not depend on rule values (nor on
   the enum environment the rules are read in); (3) and it is the structure the C02 converter
   produces for the erased property: the two models agree where they overlap *)
Theorem C02_rules_output_satisfies_structure : forall env idx d o,
  RulesWrite.write_prop env idx d = Ok o ->
  field_decl_ok to_snake false (idx + 1) (erase d) (structure_of o).
Proof. exact rules_output_satisfies_structure. Qed.
Print Assumptions C02_rules_output_satisfies_structure.

Theorem C02_structure_independent_of_rules : forall env env' idx d d' o o',
  erase d = erase d' ->
  RulesWrite.write_prop env idx d = Ok o -> RulesWrite.write_prop env' idx d' = Ok o' ->
  structure_of o = structure_of o'.
Proof. exact structure_independent_of_rules. Qed.
Print Assumptions C02_structure_independent_of_rules.

Theorem C02_rules_model_agrees_on_structure : forall camel screaming ev path env idx d o r,
  RulesWrite.write_prop env idx d = Ok o ->
  cv_property to_snake camel screaming ev path false (idx + 1) (erase d) = Ok r ->
  exists df, pr_fields r = [df] /\ same_structure df (structure_of o).
Proof. exact rules_model_agrees_with_c02. Qed.
Print Assumptions C02_rules_model_agrees_on_structure.

Example C02_rules_compose_example :
  let env := RulesDecl.EE [] None [] in
  let with_rules := RulesDecl.P (b "age") true false
        (RulesDecl.PSingle (RulesDecl.TInt RulesDecl.I32
            (Some (RulesDecl.IR (Some 0%Z) (Some 150%Z) None (Some true)))
            (Some (RulesDecl.LP true true false false [])))) [] in
  let plain := RulesDecl.P (b "age") true false (RulesDecl.PSingle (RulesDecl.TInt RulesDecl.I32 None None)) [] in
  erase with_rules = erase plain /\
  exists o o', RulesWrite.write_prop env 2 with_rules = Ok o /\ RulesWrite.write_prop env 2 plain = Ok o' /\
               RulesDecl.fo_val o <> RulesDecl.fo_val o' /\ structure_of o = structure_of o' /\
               f_num (structure_of o) = 3 /\ f_type (structure_of o) = TInt32.
Proof. exact rules_compose_example. Qed.

(* ---- the contract with the byte-exact strcase functions put in (lib/Strcase.v; facts of
   proofs/StrcaseProofs.v), for names of the documented shape: lowerCamel property names and
   UpperCamel type names, digits allowed (lower_camel_d / upper_word_d) *)
(* the JSON name the compiler writes (the declared name) is the JSON name protoc derives from
   the proto field name: to_lower_camel (to_snake n) = n *)
Theorem C02_json_name_is_protoc_default : forall ev path io num ps r,
  cv_props to_snake to_camel to_screaming_snake ev path io num ps = Ok r ->
  names_lcd (props_list ps) = true ->
  forall i df, nth_error (pr_fields r) i = Some df ->
    exists p, nth_error (props_list ps) i = Some p /\ f_name df = to_snake (prop_name p) /\
              f_json df = prop_name p /\ to_lower_camel (f_name df) = f_json df.
Proof.
  intros ev path io num ps r H Hc.
  destruct (C02_properties_contract to_snake to_camel to_screaming_snake ps ev path io num r H) as (Hf & _).
  exact (fields_json_default io num (props_list ps) (pr_fields r) Hf Hc).
Qed.
Print Assumptions C02_json_name_is_protoc_default.

(* ToSnake is injective on such names: distinct declared names give distinct proto field names
   (the proto-name clause of `valid` follows from the JSON-name clause) *)
Theorem C02_distinct_names_suffice : forall ps,
  names_lcd (props_list ps) = true ->
  J5sValid.distinct (map prop_name (props_list ps)) = true ->
  J5sValid.distinct (map (fun p => to_snake (prop_name p)) (props_list ps)) = true.
Proof. exact sibling_proto_names_distinct. Qed.
Print Assumptions C02_distinct_names_suffice.

(* the default enum prefix is the upper-cased snake form of the enum name and "_"; the default
   name of an inline type is recovered from the snake form of an UpperCamel name *)
Theorem C02_enum_default_prefix : forall name e,
  e_prefix e = [] -> enum_pfx to_screaming_snake name e = map to_upper (to_snake name) ++ b "_".
Proof. exact enum_default_prefix. Qed.
Print Assumptions C02_enum_default_prefix.

Theorem C02_inline_default_name_roundtrip : forall t given,
  upper_word_d t = true -> given = [] -> inline_type_name to_camel (to_snake t) given = t.
Proof. exact inline_default_name_roundtrip. Qed.
Print Assumptions C02_inline_default_name_roundtrip.

Example C02_strcase_example :
  names_lcd [Property (b "address2Line") false false (FScalar SString); Property (b "fooB2") false false (FScalar SString)] = true /\
  to_snake (b "address2Line") = b "address_2_line" /\ to_lower_camel (b "address_2_line") = b "address2Line" /\
  enum_pfx to_screaming_snake (b "FooBar") (mkEnum (b "FooBar") [] []) = b "FOO_BAR_".
Proof. repeat split; vm_compute; reflexivity. Qed.

(* ---- regression examples: the inputs of the repaired defects compile to the declared types *)
Theorem C02_fixed_inline_named_like_parent :
  valid w_named_like_parent = true /\
  exists D, compile w_named_like_parent (b "foo.v1") = Ok D /\
            first_field_tname D = abs_name (b "foo.v1") [b "Foo"; b "Foo"].
Proof. exact named_like_parent_compiles. Qed.
Print Assumptions C02_fixed_inline_named_like_parent.

Theorem C02_fixed_inline_captured :
  valid w_captured = true /\
  exists D, compile w_captured (b "foo.v1") = Ok D /\
            first_field_tname D = abs_name (b "foo.v1") [b "Foo"; b "X"].
Proof. exact captured_resolves_to_declared. Qed.
Print Assumptions C02_fixed_inline_captured.

(* non-vacuity: a package with nesting, a map and an enum is valid, compiles, and its first
   message has the declared fields *)
Example C02_example :
  let bd := [BJ (mkJfile foo_v1 (b "a") []
     [EObject (b "Holder")
        (mkprops [Property (b "fooId") true false (FScalar (SKey KId62));
                  Property (b "bar") false false (FObjInline [] (mkprops [sfield "x"]));
                  Property (b "tags") false false (FMap (FScalar SString));
                  Property (b "st") false true (FEnumInline (mkEnum [] [] [b "A"; b "B"]))]) NNil])] in
  valid bd = true /\
  exists D, compile bd (b "foo.v1") = Ok D /\
    match D with
    | [f] => map (fun m => map (fun x => (f_name x, f_num x)) (dm_fields m)) (fl_msgs f) =
             [[(b "foo_id", 1); (b "bar", 2); (b "tags", 3); (b "st", 4)]]
    | _ => False
    end.
Proof. cbv zeta. split; [vm_compute; reflexivity|]. eexists. split; vm_compute; reflexivity. Qed.

(* C02 — a valid j5s package compiles to exactly the protobuf contract it declares.
   Only statements, closed by [exact lemma], with Print Assumptions beneath.
   snake / camel / screaming are arbitrary functions in the general theorems (the theorems hold
   for every name conversion); [compile] instantiates them with lib/Strcase.v. *)
From Coq Require Import String List NArith Bool.
From J5V.lib Require Import Outcome Strcase.
From J5V.model Require Import J5sAst Desc J5sWalk J5sLink J5sConvert J5sContract J5sSymbols J5sTypeNames J5sValid J5sCorr.
From J5V.gen Require ImportsGen.
From J5V.proofs Require Import J5sProofs J5sContractProofs J5sLinkProofs J5sResolveProofs J5sResolveCompleteProofs J5sServiceProofs J5sTotalProofs J5sSymbolProofs J5sCompileProofs J5sSubPkgProofs J5sDepsProofs J5sNameProofs J5sTypeNameProofs J5sWitnessProofs.
Import ListNotations.
Local Open Scope N_scope.

(* ---- the tables of the Go source are the tables of the model (re-checked on every run) *)
Theorem C02_import_constants_agree : forallb const_agrees model_import_constants = true.
Proof. exact import_constants_agree. Qed.
Print Assumptions C02_import_constants_agree.

Theorem C02_implicit_imports_agree : implicit_table = ImportsGen.implicit_imports.
Proof. exact implicit_table_agrees. Qed.
Print Assumptions C02_implicit_imports_agree.

Theorem C02_scalar_types_agree : forallb check_scalar all_scalars = true.
Proof. exact scalar_table_agrees. Qed.
Print Assumptions C02_scalar_types_agree.

Theorem C02_ref_and_container_arms_agree : check_ref_arms = true.
Proof. exact ref_arms_agree. Qed.
Print Assumptions C02_ref_and_container_arms_agree.

(* ---- mapProperties: field number = 1-based declaration position after the implicit leading fields *)
Theorem C02_map_properties_number : forall virt decl i p,
  nth_error decl i = Some p ->
  nth_error (map_properties virt decl) (length virt + i) = Some (1 + N.of_nat (length virt + i), p).
Proof. exact map_properties_number. Qed.
Print Assumptions C02_map_properties_number.

(* ---- the converter refines the contract, for every declaration at every nesting depth:
   whenever a run of properties converts, the fields are exactly the declared ones (name,
   JSON name, number = first + position, proto type, cardinality, optionality, oneof
   membership), the nested messages / enums are exactly the inline types and map entries (by
   name, in order), and every inline type satisfies the same contract one level down *)
Theorem C02_properties_contract : forall snake camel screaming ps ev path io num r,
  cv_props snake camel screaming ev path io num ps = Ok r ->
  fields_ok snake io num (props_list ps) (pr_fields r) /\
  map dm_name (pr_msgs r) = flat_map (prop_msg_names snake camel) (props_list ps) /\
  map en_name (pr_enums r) = flat_map (prop_enum_names camel) (props_list ps) /\
  (forall msgs enums, incl (pr_msgs r) msgs -> incl (pr_enums r) enums ->
     props_inline_ok snake camel screaming ps msgs enums).
Proof. intros snake camel screaming. exact (proj1 (proj2 (convert_refines snake camel screaming))). Qed.
Print Assumptions C02_properties_contract.

(* ---- enums: the declared options numbered in order after <PREFIX>UNSPECIFIED = 0 *)
Theorem C02_enum_contract : forall screaming name e, enum_ok screaming name e (cv_enum screaming name e).
Proof. intros screaming. exact (cv_enum_ok screaming screaming screaming). Qed.
Print Assumptions C02_enum_contract.

(* ---- well-formed declarations always convert (no error, no panic, no fuel) *)
Theorem C02_properties_convert : forall snake camel screaming ev ps io,
  wf_props snake camel ev io ps = true ->
  forall path num, exists r, cv_props snake camel screaming ev path io num ps = Ok r.
Proof. intros snake camel screaming ev. exact (proj1 (proj2 (convert_total snake camel screaming ev))). Qed.
Print Assumptions C02_properties_convert.

(* ---- soundness for whole packages (partial form of the full statement below): whatever the
   compiler model accepts - conversion of every source file of the package, then the link step -
   satisfies the structural contract: for every source file there is a generated file
   <path>.proto in the source's package holding exactly the declared objects, oneofs and enums
   in order, every field with the declared name, JSON name, number = 1-based position, proto
   type, cardinality, optionality, every inline type nested under the documented name with the
   same contract, to any depth. *)
Theorem C02_compile_sound : forall snake camel screaming bd pkg D,
  compile_package snake camel screaming bd pkg = Ok D ->
  package_contract snake camel screaming bd pkg D.
Proof. exact compile_sound. Qed.
Print Assumptions C02_compile_sound.

(* ---- services: <Name>Service with exactly the declared methods; every method is
   rpc <Method>(<Method>Request) returns (<Method>Response | google.api.HttpBody) with the declared
   verb, the path (base path joined, ":name" -> "{snake_name}") and body; the request / response
   messages satisfy the field and nesting contract *)
Theorem C02_service_contract : forall snake camel screaming ev s ms ss is,
  cv_service snake camel screaming ev s = Ok (ms, ss, is) ->
  exists ds, ss = [ds] /\ ds_name ds = sv_name s ++ b "Service" /\ ds_topic ds = None /\
             Forall2 (method_ok snake (sv_base s)) (sv_methods s) (ds_methods ds) /\
             exists mss, ms = concat mss /\ Forall2 (method_msgs_ok snake camel screaming) (sv_methods s) mss.
Proof. exact cv_service_ok. Qed.
Print Assumptions C02_service_contract.

(* ---- topics: <Topic>Topic services with the documented role and topic name, rpc <Name>(<Name>Message)
   returns (Empty), <Name>Message objects whose implicit leading metadata field (request / upsert)
   is field 1 and whose declared fields follow *)
Theorem C02_topic_contract : forall snake camel screaming ev t ms ss is,
  cv_topic snake camel screaming ev t = Ok (ms, ss, is) ->
  match t with
  | TPublish name msgs =>
      exists ds, ss = [ds] /\ topic_service_ok snake camel screaming name (snake name) RPublish PNil msgs ms ds
  | TReqRes name req reply =>
      exists ds1 ds2 ms1 ms2, ss = [ds1; ds2] /\ ms = ms1 ++ ms2 /\
        topic_service_ok snake camel screaming (name ++ b "Request") (snake name) RRequest virt_request req ms1 ds1 /\
        topic_service_ok snake camel screaming (name ++ b "Reply") (snake name) RReply virt_request reply ms2 ds2
  | TUpsert name entity msg =>
      exists ds, ss = [ds] /\
        topic_service_ok snake camel screaming name (snake name) (RUpsert entity) virt_upsert [default_tm_name name msg] ms ds
  | TEvent name entity msg =>
      exists ds, ss = [ds] /\ topic_service_ok snake camel screaming name (snake name) (REvent entity) PNil [msg] ms ds
  end.
Proof. exact cv_topic_ok. Qed.
Print Assumptions C02_topic_contract.

(* ---- references: the type a reference resolves to is a well-known implicitly importable type
   (the table of imports.go), or a declaration with the referenced name in the package that the
   written prefix denotes by the documented import rule (no prefix / own package; alias; package
   name without version; full package name; package of an imported file) *)
Theorem C02_references_follow_import_rule : forall this imports im exports r t,
  import_map imports [] = Ok im ->
  resolve (mkEnv this im exports) r = Ok t ->
  (exists pkg, In (pkg, r_name r, tr_file t) implicit_table /\ tr_pkg t = pkg /\ tr_name t = r_name r /\ tr_enum t = false) \/
  (exists full ex, denotes this imports (r_pkg r) full /\ exports full = Some ex /\ In t ex /\ tr_name t = r_name r).
Proof. exact resolve_sound. Qed.
Print Assumptions C02_references_follow_import_rule.

(* ... and conversely (completeness, which makes the validity condition "every reference
   resolves to a declaration of the right kind" declarative): a reference without prefix or with
   the file's own package resolves to the declaration of that name in the package; a reference
   written with a prefix of an import resolves to the declaration of that name in the imported
   package - provided exported names are distinct and imports are unambiguous *)
Theorem C02_references_resolve_own : forall this im exports,
  (forall p ex, exports p = Some ex -> J5sValid.distinct (map tr_name ex) = true) ->
  forall r ex t,
  (r_pkg r = [] \/ r_pkg r = this) -> exports this = Some ex -> In t ex -> tr_name t = r_name r ->
  resolve (mkEnv this im exports) r = Ok t.
Proof. exact resolve_complete_own. Qed.
Print Assumptions C02_references_resolve_own.

Theorem C02_references_resolve_imported : forall this imports im exports,
  import_map imports [] = Ok im ->
  (forall p ex, exports p = Some ex -> J5sValid.distinct (map tr_name ex) = true) ->
  forall r i ex t,
  imports_unambiguous imports ->
  r_pkg r <> [] -> r_pkg r <> this ->
  implicit_ref implicit_table (r_pkg r) (r_name r) = None ->
  implicit_ref implicit_table (import_pkg i) (r_name r) = None ->
  In i imports -> import_key i (r_pkg r) ->
  exports (import_pkg i) = Some ex -> In t ex -> tr_name t = r_name r ->
  resolve (mkEnv this im exports) r = Ok t.
Proof. exact resolve_complete_import. Qed.
Print Assumptions C02_references_resolve_imported.

(* ... every reference of a run of properties, at any depth, resolves, and the file defining its
   target is among the imports collected for the generated file; collected imports other than
   the file itself become dependencies *)
Theorem C02_references_imported : forall snake camel screaming ev ps path io n r,
  cv_props snake camel screaming ev path io n ps = Ok r ->
  forall rf, In rf (refs_of_props ps) -> exists t, resolve ev rf = Ok t /\ In (tr_file t) (pr_imports r).
Proof. intros snake camel screaming ev. exact (proj1 (proj2 (convert_imports snake camel screaming ev))). Qed.
Print Assumptions C02_references_imported.

Theorem C02_imports_become_dependencies : forall self imps x,
  In x imps -> x <> self -> In x (deps_of self imps).
Proof. exact in_deps_of. Qed.
Print Assumptions C02_imports_become_dependencies.

(* ... and for compiled packages (whatever compile accepts, valid or not): every reference written
   in a declaration of a source file of the package - at any depth, nested declarations,
   requests, responses, topic messages and implicit leading fields included - resolves in the
   file's environment (to the declaration the documented import rule denotes:
   C02_references_follow_import_rule), and the file defining its target is the generated file
   the declaration goes to (main / .service / .topic) or one of that file's dependencies *)
Theorem C02_references_reach_dependencies : forall snake camel screaming bd pkg D,
  compile_package snake camel screaming bd pkg = Ok D ->
  forall f im, In (BJ f) bd -> j5s_pkg f = pkg -> import_map (jf_imports f) [] = Ok im ->
  file_refs_ok (mkEnv (j5s_pkg f) im (pkg_exports camel bd)) f D.
Proof. exact compile_refs_imported. Qed.
Print Assumptions C02_references_reach_dependencies.

(* ... and nothing else: every dependency of every generated file of a compiled package is the
   defining file of a reference written in the declarations that go to that file (main /
   .service / .topic), or one of the fixed files of the j5 / protobuf infrastructure
   (J5sDepsProofs.infra_files: ext annotations, validation, well-known types, HTTP annotations,
   HttpBody, messaging annotations, Empty) *)
Theorem C02_dependencies_only_what_is_referenced : forall snake camel screaming bd pkg D,
  compile_package snake camel screaming bd pkg = Ok D ->
  forall df, In df D -> exists f im k,
    In (BJ f) bd /\ j5s_pkg f = pkg /\ import_map (jf_imports f) [] = Ok im /\
    fl_path df = kind_path f k /\
    only_refs (mkEnv (j5s_pkg f) im (pkg_exports camel bd)) (kind_refs f k) (fl_deps df).
Proof. exact compile_deps_only. Qed.
Print Assumptions C02_dependencies_only_what_is_referenced.

(* ---- type names after the link step (fix 2ef7c92: names without a leading dot are qualified
   before linking): the name Root.Path.Name the converter writes for an inline type becomes
   .<package>.Root.Path.Name - whatever else is nested in the file - and the bare name of a map
   entry becomes the entry nested in the message of the field *)
Theorem C02_inline_type_name : forall nested fpkg scope parts,
  rel_name parts <> [] -> hd 0 (rel_name parts) <> 46 -> ~ In (rel_name parts) nested ->
  link_name nested fpkg scope (rel_name parts) = abs_name fpkg parts.
Proof. exact link_name_inline. Qed.
Print Assumptions C02_inline_type_name.

Theorem C02_map_entry_type_name : forall nested fpkg scope en,
  en <> [] -> hd 0 en <> 46 -> In en nested ->
  link_name nested fpkg scope en = abs_name fpkg (scope ++ [en]).
Proof. exact link_name_entry. Qed.
Print Assumptions C02_map_entry_type_name.

(* ---- symbols: whenever a package converts, the linker's symbol table (every message, field,
   enum, enum value, service and method of the generated files, fully qualified; plus the
   symbols of the package's hand-written .proto files) is exactly the list of symbols the source
   declares (J5sSymbols: read off the source with the README naming rules).  The symbol clause
   of validity - that list has no duplicates - is therefore a statement about the source. *)
Theorem C02_symbol_table_is_declared : forall snake camel screaming bd pkg fs,
  convert_package snake camel screaming bd pkg = Ok fs ->
  package_symbols bd pkg fs = decl_package_symbols snake camel screaming bd pkg.
Proof. exact package_symbols_declared. Qed.
Print Assumptions C02_symbol_table_is_declared.

(* ... and for the compiled main files of a valid bundle (files in package directories): the
   list of (field, type name) pairs of the linked descriptor - every field of every message at
   every depth - is the declared one (J5sTypeNames): a scalar with a message representation
   names its well-known type, a reference .<package>.<Name> of the declaration it resolves to, an
   inline object / oneof / enum .<package>.<Root>.<Path>.<Name> nested under the message of the
   field, a map field its entry message, the entry's value field the item type *)
Theorem C02_field_type_names : forall bd pkg D,
  valid bd = true -> (forall x, In x bd -> bfile_pkg x <> []) -> compile bd pkg = Ok D ->
  forall f im, In (BJ f) bd -> j5s_pkg f = pkg -> import_map (jf_imports f) [] = Ok im ->
  exists df, In df D /\
    main_types_ok to_snake to_camel (mkEnv (j5s_pkg f) im (pkg_exports to_camel bd)) f df.
Proof. exact (compile_tnames to_snake to_camel to_screaming_snake to_camel_nodot to_snake_nodot). Qed.
Print Assumptions C02_field_type_names.

(* the same for the request / response / topic messages: the .service and .topic files *)
Theorem C02_field_type_names_subpackages : forall bd pkg D,
  valid bd = true -> (forall x, In x bd -> bfile_pkg x <> []) -> compile bd pkg = Ok D ->
  forall f im, In (BJ f) bd -> j5s_pkg f = pkg -> import_map (jf_imports f) [] = Ok im ->
  (file_services f <> [] ->
     exists df, In df D /\ service_types_ok to_snake to_camel (mkEnv (j5s_pkg f) im (pkg_exports to_camel bd)) f df) /\
  (file_topics f <> [] ->
     exists df, In df D /\ topic_types_ok to_snake to_camel (mkEnv (j5s_pkg f) im (pkg_exports to_camel bd)) f df).
Proof. exact (compile_sub_tnames to_snake to_camel to_screaming_snake to_camel_nodot to_snake_nodot). Qed.
Print Assumptions C02_field_type_names_subpackages.

(* what the declared list looks like: object Foo { field x object { field q string }
   object Foo { object X { field other string } } } (the package of a repaired defect) *)
Example C02_type_names_example :
  flat_map (elem_ftypes to_snake to_camel (mkEnv (b "foo.v1") [] (pkg_exports to_camel w_captured)) (b "foo.v1"))
    [EObject (b "Foo")
        (mkprops [Property (b "x") false false (FObjInline [] (mkprops [sfield "q"]))])
        (mknesteds [NObject (b "Foo") PNil (mknesteds [NObject (b "X") (mkprops [sfield "other"]) NNil])])] =
  [(b "foo.v1.Foo.x", b ".foo.v1.Foo.X"); (b "foo.v1.Foo.X.q", []); (b "foo.v1.Foo.Foo.X.other", [])].
Proof. vm_compute. reflexivity. Qed.

(* ---- acceptance: in a valid bundle every source file of every package converts, and the whole
   package compiles (conversion, link step, link of every imported generated file; the fuel of
   the dependency closure always suffices) *)
Theorem C02_valid_packages_convert : forall snake camel screaming bd pkg,
  valid_bundle snake camel screaming bd = true -> (exists f, In f bd /\ bfile_pkg f = pkg) ->
  exists D, convert_package snake camel screaming bd pkg = Ok D.
Proof. exact convert_package_total. Qed.
Print Assumptions C02_valid_packages_convert.

Theorem C02_valid_packages_compile : forall snake camel screaming bd pkg,
  valid_bundle snake camel screaming bd = true -> (exists f, In f bd /\ bfile_pkg f = pkg) ->
  exists D, compile_package snake camel screaming bd pkg = Ok D.
Proof. exact compile_total. Qed.
Print Assumptions C02_valid_packages_compile.

(* ---- the package-level statement: every package of a valid bundle compiles (conversion, the
   linker's symbol table, link step, link of the imported generated files), and its output is,
   per source file of the package (package_contract_full):
   - the main file <path>.j5s.proto in the package, holding exactly the declared objects, oneofs
     and enums: messages, enums, fields with name / JSON name / number / type / cardinality /
     optionality, enum values, inline types nested under their names, to any depth;
   - exactly when the source declares services, <dir>/service/<base>.p.j5s.proto in the package
     <pkg>.service: per service <Name>Service with one rpc per method - input
     .<pkg>.service.<Method>Request, output .<pkg>.service.<Method>Response or
     .google.api.HttpBody, the declared HTTP verb, the path (base path joined, :name ->
     {snake_name}), body "*" except for GET - and the request / response messages with the
     declared fields;
   - exactly when it declares topics, <dir>/topic/<base>.p.j5s.proto in <pkg>.topic: per topic
     the <Topic>Topic service (two for request / reply) with the messaging role and topic name,
     one rpc <Name>(.<pkg>.topic.<Name>Message) returns (.google.protobuf.Empty) per message,
     and the messages with the implicit leading field and the declared ones;
   - and no other file.
   [valid] (J5sCorr: J5sValid.valid_bundle with the byte-exact strcase functions) = the
   documented restrictions plus: no two declarations of a package generate the same proto
   symbol; every run compares it with acceptance by the real compiler.
   Not part of package_contract_full: which type a message / enum field names (C02_references_*,
   C02_inline_type_name, C02_map_entry_type_name are statements on the converter functions) and
   the dependency lists. *)
Definition C02_full_statement : Prop :=
  forall bd pkg, valid bd = true -> (exists f, In f bd /\ bfile_pkg f = pkg) ->
    exists D, compile bd pkg = Ok D /\ package_contract_full to_snake to_camel to_screaming_snake bd pkg D.

Theorem C02_full : C02_full_statement.
Proof. exact (compile_correct_full to_snake to_camel to_screaming_snake). Qed.
Print Assumptions C02_full.

(* ---- regression examples: the inputs of the repaired defects compile to the declared types *)
Theorem C02_fixed_inline_named_like_parent :
  valid w_named_like_parent = true /\
  exists D, compile w_named_like_parent (b "foo.v1") = Ok D /\
            first_field_tname D = abs_name (b "foo.v1") [b "Foo"; b "Foo"].
Proof. exact named_like_parent_compiles. Qed.
Print Assumptions C02_fixed_inline_named_like_parent.

Theorem C02_fixed_inline_captured :
  valid w_captured = true /\
  exists D, compile w_captured (b "foo.v1") = Ok D /\
            first_field_tname D = abs_name (b "foo.v1") [b "Foo"; b "X"].
Proof. exact captured_resolves_to_declared. Qed.
Print Assumptions C02_fixed_inline_captured.

(* non-vacuity: a package with nesting, a map and an enum is valid, compiles, and its first
   message has the declared fields *)
Example C02_example :
  let bd := [BJ (mkJfile foo_v1 (b "a") []
     [EObject (b "Holder")
        (mkprops [Property (b "fooId") true false (FScalar (SKey KId62));
                  Property (b "bar") false false (FObjInline [] (mkprops [sfield "x"]));
                  Property (b "tags") false false (FMap (FScalar SString));
                  Property (b "st") false true (FEnumInline (mkEnum [] [] [b "A"; b "B"]))]) NNil])] in
  valid bd = true /\
  exists D, compile bd (b "foo.v1") = Ok D /\
    match D with
    | [f] => map (fun m => map (fun x => (f_name x, f_num x)) (dm_fields m)) (fl_msgs f) =
             [[(b "foo_id", 1); (b "bar", 2); (b "tags", 3); (b "st", 4)]]
    | _ => False
    end.
Proof. cbv zeta. split; [vm_compute; reflexivity|]. eexists. split; vm_compute; reflexivity. Qed.

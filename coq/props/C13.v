(* C13 — appending a field, an enum option or a declaration never changes what was generated
   before.  Only statements, closed by [exact lemma], with Print Assumptions beneath. *)
From Coq Require Import String List NArith Bool.
From J5V.lib Require Import Outcome Strcase.
From J5V.model Require Import J5sAst Desc J5sWalk J5sLink J5sConvert J5sContract J5sValid J5sEdit J5sCorr.
From J5V.proofs Require Import J5sProofs J5sContractProofs J5sEditProofs J5sExtProofs J5sWitnessProofs.
Import ListNotations.
Local Open Scope N_scope.

(* mapProperties (ps ++ [p]) = mapProperties ps ++ [(next number, p)] *)
Theorem C13_map_properties_prefix : forall virt decl p,
  map_properties virt (decl ++ [p]) =
  map_properties virt decl ++ [(1 + N.of_nat (length virt + length decl), p)].
Proof. exact map_properties_snoc. Qed.
Print Assumptions C13_map_properties_prefix.

(* a new field at the end of any run of properties (object, oneof, request, response, topic
   message, inline type at any depth): every earlier field, nested message and nested enum is
   exactly what it was - they form a prefix of the new lists - and the new field takes the next
   number *)
Theorem C13_append_field_prefix : forall snake camel screaming ev path io n ps p r r',
  cv_props snake camel screaming ev path io n ps = Ok r ->
  cv_props snake camel screaming ev path io n (papp ps (PCons p PNil)) = Ok r' ->
  exists a, pr_fields r' = pr_fields r ++ pr_fields a /\
            pr_msgs r' = pr_msgs r ++ pr_msgs a /\
            pr_enums r' = pr_enums r ++ pr_enums a /\
            cv_property snake camel screaming ev path io (n + plen ps) p = Ok a.
Proof. exact cv_props_snoc_prefix. Qed.
Print Assumptions C13_append_field_prefix.

(* a new option at the end of an enum: every earlier value keeps name and number, the new one
   gets the next number *)
Theorem C13_append_option_prefix : forall screaming name nm pfx opts o,
  opts <> [] ->
  exists v, en_vals (cv_enum screaming name (mkEnum nm pfx (opts ++ [o]))) =
            en_vals (cv_enum screaming name (mkEnum nm pfx opts)) ++ [v] /\
            snd v = N.of_nat (length (en_vals (cv_enum screaming name (mkEnum nm pfx opts)))).
Proof. intros screaming. exact (cv_enum_snoc screaming screaming screaming). Qed.
Print Assumptions C13_append_option_prefix.

(* every append edit, and every sequence of append edits (induction over the edit list:
   fold_left), extends the source file in the sense of J5sEdit.file_src_ext *)
Theorem C13_edit_sequence_extends : forall es f, edits_ok es f ->
  file_src_ext f (fold_left (fun g e => edit_file e g) es f).
Proof. exact edit_sequence_ext. Qed.
Print Assumptions C13_edit_sequence_extends.

(* main theorem, per source file, at the level of ConvertJ5File (before the link step), for every
   name conversion: if the file converts before and after a sequence of append edits - in
   environments where every reference that resolved before still resolves to the same type -
   then every previously generated file, message, field (name, JSON name, number, type, label,
   optionality, type name), nested message, enum value (name, number), service and method is
   unchanged: the old descriptors embed into the new ones (files_ext) *)
Theorem C13_append_edits_preserve : forall snake camel screaming exports exports' f es D D',
  edits_ok es f ->
  (forall im, env_le (mkEnv (j5s_pkg f) im exports) (mkEnv (j5s_pkg f) im exports')) ->
  cv_file snake camel screaming exports f = Ok D ->
  cv_file snake camel screaming exports' (fold_left (fun g e => edit_file e g) es f) = Ok D' ->
  files_ext D D'.
Proof.
  intros snake camel screaming exports exports' f es D D' Hok Hle H H'.
  exact (cv_file_ext snake camel screaming exports exports' f _ D D' (edit_sequence_ext es f Hok) Hle H H').
Qed.
Print Assumptions C13_append_edits_preserve.

(* the property at full strength: for every valid package and every sequence of append edits
   (fold_left over the list) that leaves it valid, the edited package compiles and every
   previously generated file, message, field, enum value, service and method is unchanged
   (embedded: J5sEdit.files_ext) *)
Definition C13_full_statement : Prop :=
  forall bd es pkg D,
    valid bd = true -> valid (apply_edits bd es) = true ->
    compile bd pkg = Ok D ->
    exists D', compile (apply_edits bd es) pkg = Ok D' /\ files_ext D D'.

(* refuted by the faithful model through the C02 defect (relative names of inline types):
   `object Foo { field x object {} }` compiles; after appending `field foo object {}` the
   existing field x no longer resolves (Foo.X is looked up inside the new Foo.Foo) *)
Theorem C13_append_breaks_existing_refuted :
  valid w_before = true /\
  valid (apply_edits w_before [EAppendField 0 0 (Property (b "foo") false false (FObjInline [] PNil))]) = true /\
  is_ok (compile w_before (b "foo.v1")) = true /\
  is_err (compile (apply_edits w_before [EAppendField 0 0 (Property (b "foo") false false (FObjInline [] PNil))]) (b "foo.v1")) = true.
Proof. exact append_breaks_existing. Qed.
Print Assumptions C13_append_breaks_existing_refuted.

Theorem C13_full_statement_refuted : ~ C13_full_statement.
Proof. exact full_statement_refuted. Qed.
Print Assumptions C13_full_statement_refuted.

(* non-vacuity: appending a field to a two-field object keeps fields 1 and 2 and adds number 3 *)
Example C13_example :
  let ev := mkEnv (b "foo.v1") [] (fun _ => None) in
  let ps := mkprops [sfield "a"; Property (b "inner") false false (FObjInline [] (mkprops [sfield "x"]))] in
  exists r r', cv_props to_snake to_camel to_screaming_snake ev [b "Foo"] false 1 ps = Ok r /\
               cv_props to_snake to_camel to_screaming_snake ev [b "Foo"] false 1 (papp ps (PCons (sfield "c") PNil)) = Ok r' /\
               map f_num (pr_fields r) = [1; 2] /\ map f_num (pr_fields r') = [1; 2; 3] /\
               firstn 2 (pr_fields r') = pr_fields r.
Proof. cbv zeta. eexists. eexists. repeat split; vm_compute; reflexivity. Qed.

(* C13 — appending a field, an enum option or a declaration never changes what was generated
   before.  Only statements, closed by [exact lemma], with Print Assumptions beneath. *)
From Coq Require Import String List NArith Bool.
From J5V.lib Require Import Outcome Strcase.
From J5V.model Require Import J5sAst Desc J5sWalk J5sLink J5sConvert J5sContract J5sValid J5sEdit J5sCorr.
From J5V.proofs Require Import J5sProofs J5sContractProofs J5sEditProofs J5sExtProofs J5sExtBoolProofs J5sPkgExtProofs J5sC13Proofs J5sFullProofs J5sWitnessProofs.
Import ListNotations.
Local Open Scope N_scope.

(* mapProperties (ps ++ [p]) = mapProperties ps ++ [(next number, p)] *)
Theorem C13_map_properties_prefix : forall virt decl p,
  map_properties virt (decl ++ [p]) =
  map_properties virt decl ++ [(1 + N.of_nat (length virt + length decl), p)].
Proof. exact map_properties_snoc. Qed.
Print Assumptions C13_map_properties_prefix.

(* a new field at the end of any run of properties (object, oneof, request, response, topic
   message, inline type at any depth): every earlier field, nested message and nested enum is
   exactly what it was - they form a prefix of the new lists - and the new field takes the next
   number *)
Theorem C13_append_field_prefix : forall snake camel screaming ev path io n ps p r r',
  cv_props snake camel screaming ev path io n ps = Ok r ->
  cv_props snake camel screaming ev path io n (papp ps (PCons p PNil)) = Ok r' ->
  exists a, pr_fields r' = pr_fields r ++ pr_fields a /\
            pr_msgs r' = pr_msgs r ++ pr_msgs a /\
            pr_enums r' = pr_enums r ++ pr_enums a /\
            cv_property snake camel screaming ev path io (n + plen ps) p = Ok a.
Proof. exact cv_props_snoc_prefix. Qed.
Print Assumptions C13_append_field_prefix.

(* a new option at the end of an enum: every earlier value keeps name and number, the new one
   gets the next number *)
Theorem C13_append_option_prefix : forall screaming name nm pfx opts o,
  opts <> [] ->
  exists v, en_vals (cv_enum screaming name (mkEnum nm pfx (opts ++ [o]))) =
            en_vals (cv_enum screaming name (mkEnum nm pfx opts)) ++ [v] /\
            snd v = N.of_nat (length (en_vals (cv_enum screaming name (mkEnum nm pfx opts)))).
Proof. intros screaming. exact (cv_enum_snoc screaming screaming screaming). Qed.
Print Assumptions C13_append_option_prefix.

(* ... and for EVERY enum and every option name the earlier values are kept (name, number): also
   for an enum without options, where the appended option becomes the first one - value 0 stays
   <PREFIX>UNSPECIFIED (fix a65e1f2; before it an option ending in UNSPECIFIED appended to an enum
   without options became the zero value: C13_fixed_append_to_empty_enum) *)
Theorem C13_append_option_always : forall screaming name nm pfx opts o,
  enum_ext (cv_enum screaming name (mkEnum nm pfx opts)) (cv_enum screaming name (mkEnum nm pfx (opts ++ [o]))).
Proof. intros screaming. exact (cv_enum_snoc_always screaming screaming screaming). Qed.
Print Assumptions C13_append_option_always.

(* value 0 of an enum does not depend on its options at all *)
Theorem C13_zero_value_fixed : forall screaming name e,
  nth_error (en_vals (cv_enum screaming name e)) 0 =
  Some (enum_prefix screaming name (e_prefix e) ++ unspecified, 0).
Proof. intros screaming. exact (cv_enum_zero screaming). Qed.
Print Assumptions C13_zero_value_fixed.

(* an append at any address inside a declaration - following inline types (through array and
   map items) and nested declarations to any depth; the action is a field at the end of the
   message reached, an option at the end of the enum reached, or a nested declaration at the end
   of the message reached - extends the message in the sense of J5sEdit.props_ext / nesteds_ext.
   No address and no action is excluded. *)
Theorem C13_append_anywhere_extends : forall a path ps subs,
  props_ext ps (fst (apply_at path a ps subs)) /\ nesteds_ext subs (snd (apply_at path a ps subs)).
Proof. exact apply_at_ext. Qed.
Print Assumptions C13_append_anywhere_extends.

(* every append edit, and every sequence of append edits (induction over the edit list:
   fold_left), extends the source file in the sense of J5sEdit.file_src_ext *)
Theorem C13_edit_sequence_extends : forall es f,
  file_src_ext f (fold_left (fun g e => edit_file e g) es f).
Proof. exact edit_sequence_ext. Qed.
Print Assumptions C13_edit_sequence_extends.

(* main theorem, per source file, at the level of ConvertJ5File (before the link step), for every
   name conversion: if the file converts before and after a sequence of append edits - in
   environments where every reference that resolved before still resolves to the same type -
   then every previously generated file, message, field (name, JSON name, number, type, label,
   optionality, type name), nested message, enum value (name, number), service and method is
   unchanged: the old descriptors embed into the new ones (files_ext) *)
Theorem C13_append_edits_preserve : forall snake camel screaming exports exports' f es D D',
  (forall im, env_le (mkEnv (j5s_pkg f) im exports) (mkEnv (j5s_pkg f) im exports')) ->
  cv_file snake camel screaming exports f = Ok D ->
  cv_file snake camel screaming exports' (fold_left (fun g e => edit_file e g) es f) = Ok D' ->
  files_ext D D'.
Proof.
  intros snake camel screaming exports exports' f es D D' Hle H H'.
  exact (cv_file_ext snake camel screaming exports exports' f _ D D' (edit_sequence_ext es f) Hle H H').
Qed.
Print Assumptions C13_append_edits_preserve.

(* the environment hypothesis of the main theorem holds for bundles edited by appends whose
   exported names stay distinct (part of validity): exports only grow, so every reference that
   resolved before resolves to the same type *)
Theorem C13_environment_only_grows : forall camel bd k f f' this im,
  nth_error bd k = Some (BJ f) -> file_src_ext f f' ->
  (forall p l, pkg_exports camel (update_nth k (fun _ => BJ f') bd) p = Some l ->
               J5sValid.distinct (map tr_name l) = true) ->
  env_le (mkEnv this im (pkg_exports camel bd))
         (mkEnv this im (pkg_exports camel (update_nth k (fun _ => BJ f') bd))).
Proof.
  intros camel bd k f f' this im Hk Hext Hd. apply env_le_of_exports.
  exact (exports_le_of_edit camel bd k f f' Hk Hext Hd).
Qed.
Print Assumptions C13_environment_only_grows.

(* whole packages, before the link step: in a bundle where one source file (the only one with
   its file name) was extended by any sequence of append edits and exported names stay distinct,
   every package converts to descriptors into which the old descriptors embed - the untouched
   files of the package included, and in the same file order *)
Theorem C13_package_append_preserves : forall snake camel screaming bd f f' pkg D D',
  file_src_ext f f' ->
  (forall x, In x bd -> bfile_path x = j5s_path f -> x = BJ f) ->
  (forall p l, pkg_exports camel (map (replace_file f') bd) p = Some l -> J5sValid.distinct (map tr_name l) = true) ->
  convert_package snake camel screaming bd pkg = Ok D ->
  convert_package snake camel screaming (map (replace_file f') bd) pkg = Ok D' ->
  files_ext D D'.
Proof.
  intros snake camel screaming bd f f' pkg D D' Hext Honly Hd.
  exact (convert_package_ext snake camel screaming bd f f' Hext Honly pkg D D' Hd).
Qed.
Print Assumptions C13_package_append_preserves.

(* the property at full strength, on the linked descriptors (what CompilePackage returns): for
   every valid bundle (validity includes: every file lies in a package directory), every package of it and every
   sequence of append edits (fold_left over the list: apply_edits; an edit appends a field, an
   option or a nested declaration anywhere inside a declaration - J5sEdit.EAppendIn and its
   top-level special cases - or a declaration to a file) each of which addresses a source file,
   is applicable and leaves the bundle valid (seq_ok), the edited package compiles
   and every previously generated file, message, field (name, JSON name, number, type, label,
   optionality, fully qualified type name), nested message, enum value (name, number), service
   and method (types, HTTP rule) is unchanged: the old descriptors embed into the new ones
   (J5sEdit.files_ext).  Proved by induction over the edit list; the single step composes the
   per-file embedding, the growth of the environment, the package-level file list and the fact
   that qualifying type names commutes with the embedding. *)
Definition C13_full_statement : Prop :=
  forall es bd pkg,
    valid bd = true -> seq_ok bd es -> (exists x, In x bd /\ bfile_pkg x = pkg) ->
    exists D D', compile bd pkg = Ok D /\ compile (apply_edits bd es) pkg = Ok D' /\ files_ext D D'.

(* seq_ok: every edit addresses a source file of the bundle and leaves the bundle valid; no class
   of append edits is excluded (before fix a65e1f2: an option ending in UNSPECIFIED appended to an
   enum without options) *)
Theorem C13_full : C13_full_statement.
Proof. exact c13_full_valid. Qed.
Print Assumptions C13_full.

(* the same, naming the old output (the form with the redundant premises the induction uses) *)
Theorem C13_full_for_output : forall es bd pkg D,
  valid bd = true -> (forall x, In x bd -> bfile_pkg x <> []) -> seq_ok bd es ->
  (exists x, In x bd /\ bfile_pkg x = pkg) ->
  compile bd pkg = Ok D ->
  exists D', compile (apply_edits bd es) pkg = Ok D' /\ files_ext D D'.
Proof. exact c13_full. Qed.
Print Assumptions C13_full_for_output.

(* the boolean test the correspondence evaluates on the REAL descriptors before and after every
   generated edit list (J5sCorr.c13_check) is sound for the embedding relation of C13_full *)
Theorem C13_embedding_checker_sound : forall D D', files_ext_b D D' = true -> files_ext D D'.
Proof. exact files_ext_b_sound. Qed.
Print Assumptions C13_embedding_checker_sound.

(* non-vacuity of C13_full for deep targets: four edits - a field inside the inline object of an
   array's items, an option of the inline enum inside that, a field of a nested declaration, a
   new nested enum - satisfy seq_ok, change the output, and the old descriptors embed *)
Theorem C13_deep_edits_preserve :
  exists D D', compile w_deep (b "foo.v1") = Ok D /\
               compile (apply_edits w_deep w_deep_edits) (b "foo.v1") = Ok D' /\
               files_ext D D' /\ D' <> D.
Proof. exact deep_edits_preserve. Qed.
Print Assumptions C13_deep_edits_preserve.

(* C13_full on enums without options (regression, fix a65e1f2): `enum Status {}` +
   `option OLD_UNSPECIFIED` + `option ACTIVE` is a sequence of edits of C13_full;
   STATUS_UNSPECIFIED = 0 stays, OLD_UNSPECIFIED = 1, ACTIVE = 2 *)
Theorem C13_empty_enum_any_option_preserves :
  seq_ok w_empty_enum w_empty_enum_ok_edits /\
  exists D D', compile w_empty_enum (b "foo.v1") = Ok D /\
               compile (apply_edits w_empty_enum w_empty_enum_ok_edits) (b "foo.v1") = Ok D' /\
               files_ext D D' /\
               zero_value D' = Some (b "STATUS_UNSPECIFIED", 0) /\
               map en_vals (flat_map fl_enums D') =
                 [[(b "STATUS_UNSPECIFIED", 0); (b "STATUS_OLD_UNSPECIFIED", 1); (b "STATUS_ACTIVE", 2)]].
Proof. exact empty_enum_any_option_preserves. Qed.
Print Assumptions C13_empty_enum_any_option_preserves.

(* regression (defect repaired by a65e1f2; until then the recorded finding of this property):
   `enum Status {}` compiles to STATUS_UNSPECIFIED = 0; the appended option OLD_UNSPECIFIED - the
   first option then, and any first option ending in UNSPECIFIED used to be taken as the zero
   value, renaming value 0 to STATUS_OLD_UNSPECIFIED - is option number 1 and the old descriptors
   embed *)
Theorem C13_fixed_append_to_empty_enum :
  valid w_empty_enum = true /\ valid (apply_edits w_empty_enum w_empty_enum_edit) = true /\
  exists D D', compile w_empty_enum (b "foo.v1") = Ok D /\
               compile (apply_edits w_empty_enum w_empty_enum_edit) (b "foo.v1") = Ok D' /\
               zero_value D = Some (b "STATUS_UNSPECIFIED", 0) /\
               map en_vals (flat_map fl_enums D') = [[(b "STATUS_UNSPECIFIED", 0); (b "STATUS_OLD_UNSPECIFIED", 1)]] /\
               files_ext_b D D' = true.
Proof. exact append_to_empty_enum_keeps_zero. Qed.
Print Assumptions C13_fixed_append_to_empty_enum.

(* the same at depth (an enum without options nested in an object, the option appended through
   an address: EAppendIn) *)
Theorem C13_fixed_append_to_empty_nested_enum :
  valid w_empty_nested_enum = true /\ valid (apply_edits w_empty_nested_enum [w_empty_nested_enum_edit]) = true /\
  (exists D D', compile w_empty_nested_enum (b "foo.v1") = Ok D /\
                compile (apply_edits w_empty_nested_enum [w_empty_nested_enum_edit]) (b "foo.v1") = Ok D' /\
                nested_enum_vals D = [[(b "STATUS_UNSPECIFIED", 0)]] /\
                nested_enum_vals D' = [[(b "STATUS_UNSPECIFIED", 0); (b "STATUS_OLD_UNSPECIFIED", 1)]] /\
                files_ext_b D D' = true).
Proof. exact append_to_empty_nested_enum_keeps_zero. Qed.
Print Assumptions C13_fixed_append_to_empty_nested_enum.

(* regression example (defect repaired by 2ef7c92): `object Foo { field x object {} }` and the same
   with `field foo object {}` appended both compile, and the existing field x keeps its type *)
Theorem C13_fixed_append_keeps_existing :
  valid w_before = true /\ valid (apply_edits w_before w_edit) = true /\
  exists D D', compile w_before (b "foo.v1") = Ok D /\
               compile (apply_edits w_before w_edit) (b "foo.v1") = Ok D' /\
               first_field_tname D' = first_field_tname D /\
               first_field_tname D = abs_name (b "foo.v1") [b "Foo"; b "X"].
Proof. exact append_keeps_existing. Qed.
Print Assumptions C13_fixed_append_keeps_existing.

(* non-vacuity: appending a field to a two-field object keeps fields 1 and 2 and adds number 3 *)
Example C13_example :
  let ev := mkEnv (b "foo.v1") [] (fun _ => None) in
  let ps := mkprops [sfield "a"; Property (b "inner") false false (FObjInline [] (mkprops [sfield "x"]))] in
  exists r r', cv_props to_snake to_camel to_screaming_snake ev [b "Foo"] false 1 ps = Ok r /\
               cv_props to_snake to_camel to_screaming_snake ev [b "Foo"] false 1 (papp ps (PCons (sfield "c") PNil)) = Ok r' /\
               map f_num (pr_fields r) = [1; 2] /\ map f_num (pr_fields r') = [1; 2; 3] /\
               firstn 2 (pr_fields r') = pr_fields r.
Proof. cbv zeta. eexists. eexists. repeat split; vm_compute; reflexivity. Qed.

(* C13 — appending a field, an enum option or a declaration never changes what was generated
   before.  Only statements, closed by [exact lemma], with Print Assumptions beneath. *)
From Coq Require Import String List NArith Bool.
From J5V.lib Require Import Outcome Strcase.
From J5V.model Require Import J5sAst Desc J5sWalk J5sLink J5sConvert J5sContract J5sValid J5sEdit J5sCorr J5sEntity J5sEntityEdit.
From J5V.proofs Require Import J5sProofs J5sContractProofs J5sEditProofs J5sExtProofs J5sExtBoolProofs J5sPkgExtProofs J5sC13Proofs J5sFullProofs J5sWitnessProofs J5sEntityExtProofs.
Import ListNotations.
Local Open Scope N_scope.

(* mapProperties (ps ++ [p]) = mapProperties ps ++ [(next number, p)] *)
Theorem C13_map_properties_prefix : forall virt decl p,
  map_properties virt (decl ++ [p]) =
  map_properties virt decl ++ [(1 + N.of_nat (length virt + length decl), p)].
Proof. exact map_properties_snoc. Qed.
Print Assumptions C13_map_properties_prefix.

(* a new field at the end of any run of properties (object, oneof, request, response, topic
   message, inline type at any depth): every earlier field, nested message and nested enum is
   exactly what it was - they form a prefix of the new lists - and the new field takes the next
   number *)
Theorem C13_append_field_prefix : forall snake camel screaming ev path io n ps p r r',
  cv_props snake camel screaming ev path io n ps = Ok r ->
  cv_props snake camel screaming ev path io n (papp ps (PCons p PNil)) = Ok r' ->
  exists a, pr_fields r' = pr_fields r ++ pr_fields a /\
            pr_msgs r' = pr_msgs r ++ pr_msgs a /\
            pr_enums r' = pr_enums r ++ pr_enums a /\
            cv_property snake camel screaming ev path io (n + plen ps) p = Ok a.
Proof. exact cv_props_snoc_prefix. Qed.
Print Assumptions C13_append_field_prefix.

(* a new option at the end of an enum: every earlier value keeps name and number, the new one
   gets the next number *)
Theorem C13_append_option_prefix : forall screaming name nm pfx opts o,
  opts <> [] ->
  exists v, en_vals (cv_enum screaming name (mkEnum nm pfx (opts ++ [o]))) =
            en_vals (cv_enum screaming name (mkEnum nm pfx opts)) ++ [v] /\
            snd v = N.of_nat (length (en_vals (cv_enum screaming name (mkEnum nm pfx opts)))).
Proof. intros screaming. exact (cv_enum_snoc screaming screaming screaming). Qed.
Print Assumptions C13_append_option_prefix.

(* ... and for EVERY enum and every option name the earlier values are kept (name, number): also
   for an enum without options, where the appended option becomes the first one - value 0 stays
   <PREFIX>UNSPECIFIED (fix a65e1f2; before it an option ending in UNSPECIFIED appended to an enum
   without options became the zero value: C13_fixed_append_to_empty_enum) *)
Theorem C13_append_option_always : forall screaming name nm pfx opts o,
  enum_ext (cv_enum screaming name (mkEnum nm pfx opts)) (cv_enum screaming name (mkEnum nm pfx (opts ++ [o]))).
Proof. intros screaming. exact (cv_enum_snoc_always screaming screaming screaming). Qed.
Print Assumptions C13_append_option_always.

(* value 0 of an enum does not depend on its options at all *)
Theorem C13_zero_value_fixed : forall screaming name e,
  nth_error (en_vals (cv_enum screaming name e)) 0 =
  Some (enum_prefix screaming name (e_prefix e) ++ unspecified, 0).
Proof. intros screaming. exact (cv_enum_zero screaming). Qed.
Print Assumptions C13_zero_value_fixed.

(* an append at any address inside a declaration - following inline types (through array and
   map items) and nested declarations to any depth; the action is a field at the end of the
   message reached, an option at the end of the enum reached, or a nested declaration at the end
   of the message reached - extends the message in the sense of J5sEdit.props_ext / nesteds_ext.
   No address and no action is excluded. *)
Theorem C13_append_anywhere_extends : forall a path ps subs,
  props_ext ps (fst (apply_at path a ps subs)) /\ nesteds_ext subs (snd (apply_at path a ps subs)).
Proof. exact apply_at_ext. Qed.
Print Assumptions C13_append_anywhere_extends.

(* every append edit, and every sequence of append edits (induction over the edit list:
   fold_left), extends the source file in the sense of J5sEdit.file_src_ext *)
Theorem C13_edit_sequence_extends : forall es f,
  file_src_ext f (fold_left (fun g e => edit_file e g) es f).
Proof. exact edit_sequence_ext. Qed.
Print Assumptions C13_edit_sequence_extends.

(* main theorem, per source file, at the level of ConvertJ5File (before the link step), for every
   name conversion: if the file converts before and after a sequence of append edits - in
   environments where every reference that resolved before still resolves to the same type -
   then every previously generated file, message, field (name, JSON name, number, type, label,
   optionality, type name), nested message, enum value (name, number), service and method is
   unchanged: the old descriptors embed into the new ones (files_ext) *)
Theorem C13_append_edits_preserve : forall snake camel screaming exports exports' f es D D',
  (forall im, env_le (mkEnv (j5s_pkg f) im exports) (mkEnv (j5s_pkg f) im exports')) ->
  cv_file snake camel screaming exports f = Ok D ->
  cv_file snake camel screaming exports' (fold_left (fun g e => edit_file e g) es f) = Ok D' ->
  files_ext D D'.
Proof.
  intros snake camel screaming exports exports' f es D D' Hle H H'.
  exact (cv_file_ext snake camel screaming exports exports' f _ D D' (edit_sequence_ext es f) Hle H H').
Qed.
Print Assumptions C13_append_edits_preserve.

(* the environment hypothesis of the main theorem holds for bundles edited by appends whose
   exported names stay distinct (part of validity): exports only grow, so every reference that
   resolved before resolves to the same type *)
Theorem C13_environment_only_grows : forall camel bd k f f' this im,
  nth_error bd k = Some (BJ f) -> file_src_ext f f' ->
  (forall p l, pkg_exports camel (update_nth k (fun _ => BJ f') bd) p = Some l ->
               J5sValid.distinct (map tr_name l) = true) ->
  env_le (mkEnv this im (pkg_exports camel bd))
         (mkEnv this im (pkg_exports camel (update_nth k (fun _ => BJ f') bd))).
Proof.
  intros camel bd k f f' this im Hk Hext Hd. apply env_le_of_exports.
  exact (exports_le_of_edit camel bd k f f' Hk Hext Hd).
Qed.
Print Assumptions C13_environment_only_grows.

(* whole packages, before the link step: in a bundle where one source file (the only one with
   its file name) was extended by any sequence of append edits and exported names stay distinct,
   every package converts to descriptors into which the old descriptors embed - the untouched
   files of the package included, and in the same file order *)
Theorem C13_package_append_preserves : forall snake camel screaming bd f f' pkg D D',
  file_src_ext f f' ->
  (forall x, In x bd -> bfile_path x = j5s_path f -> x = BJ f) ->
  (forall p l, pkg_exports camel (map (replace_file f') bd) p = Some l -> J5sValid.distinct (map tr_name l) = true) ->
  convert_package snake camel screaming bd pkg = Ok D ->
  convert_package snake camel screaming (map (replace_file f') bd) pkg = Ok D' ->
  files_ext D D'.
Proof.
  intros snake camel screaming bd f f' pkg D D' Hext Honly Hd.
  exact (convert_package_ext snake camel screaming bd f f' Hext Honly pkg D D' Hd).
Qed.
Print Assumptions C13_package_append_preserves.

(* the property at full strength, on the linked descriptors (what CompilePackage returns): for
   every valid bundle (validity includes: every file lies in a package directory), every package
   of it and every sequence of append edits (fold_left over the list: apply_edits; an edit
   appends a field, an option or a nested declaration anywhere inside a declaration -
   J5sEdit.EAppendIn and its top-level special cases - or a declaration to a file) after which
   the bundle is valid again, the edited package compiles and every previously generated file,
   message, field (name, JSON name, number, type, label, optionality, fully qualified type name),
   nested message, enum value (name, number), service and method (types, HTTP rule) is
   unchanged: the old descriptors embed into the new ones (J5sEdit.files_ext). *)
Definition C13_full_statement : Prop :=
  forall es bd pkg,
    valid bd = true -> valid (apply_edits bd es) = true -> (exists x, In x bd /\ bfile_pkg x = pkg) ->
    exists D D', compile bd pkg = Ok D /\ compile (apply_edits bd es) pkg = Ok D' /\ files_ext D D'.

(* ANY history of append edits, over any number of files: only the first and the last version
   of the bundle must be valid - the intermediate versions need not compile (no class of edits is
   excluded; edits that address no source file change nothing).  The whole history is ONE step:
   file by file the composed edits extend the source (file_src_ext, no validity involved), and
   the embedding theorem holds for any map of the bundle that extends every source file
   (J5sFullProofs.compile_package_ext_g). *)
Theorem C13_full : C13_full_statement.
Proof. exact c13_histories. Qed.
Print Assumptions C13_full.

(* the step-by-step form (every intermediate bundle valid: seq_ok), by induction over the list *)
Theorem C13_full_stepwise : forall es bd pkg,
  valid bd = true -> seq_ok bd es -> (exists x, In x bd /\ bfile_pkg x = pkg) ->
  exists D D', compile bd pkg = Ok D /\ compile (apply_edits bd es) pkg = Ok D' /\ files_ext D D'.
Proof. exact c13_full_valid. Qed.
Print Assumptions C13_full_stepwise.

(* the same, naming the old output (the form with the redundant premises the induction uses) *)
Theorem C13_full_for_output : forall es bd pkg D,
  valid bd = true -> (forall x, In x bd -> bfile_pkg x <> []) -> seq_ok bd es ->
  (exists x, In x bd /\ bfile_pkg x = pkg) ->
  compile bd pkg = Ok D ->
  exists D', compile (apply_edits bd es) pkg = Ok D' /\ files_ext D D'.
Proof. exact c13_full. Qed.
Print Assumptions C13_full_for_output.

(* non-vacuity with an INVALID intermediate version, over two files: a.j5s `object Foo { field a
   string }`, b.j5s `object Other {}`; first a field of Foo referring to Bar (not declared yet:
   the package does not compile), then `object Bar` appended to the OTHER file *)
Example C13_history_through_invalid_version :
  let bd := [BJ (mkJfile [b "foo"; b "v1"] (b "a") []
               [EObject (b "Foo") (mkprops [Property (b "a") false false (FScalar SString)]) NNil]);
             BJ (mkJfile [b "foo"; b "v1"] (b "b") []
               [EObject (b "Other") (mkprops [Property (b "o") false false (FScalar SString)]) NNil])] in
  let es := [EAppendField 0 0 (Property (b "bar") false false (FObjRef (mkRef [] (b "Bar"))));
             EAppendDecl 1 (EObject (b "Bar") (mkprops [Property (b "x") false false (FScalar SString)]) NNil)] in
  valid bd = true /\ valid (apply_edits bd (firstn 1 es)) = false /\ valid (apply_edits bd es) = true /\
  exists D D', compile bd (b "foo.v1") = Ok D /\ compile (apply_edits bd es) (b "foo.v1") = Ok D' /\ files_ext D D'.
Proof.
  cbv zeta. split; [vm_compute; reflexivity|]. split; [vm_compute; reflexivity|]. split; [vm_compute; reflexivity|].
  apply C13_full.
  - vm_compute. reflexivity.
  - vm_compute. reflexivity.
  - eexists. split; [left; reflexivity|vm_compute; reflexivity].
Qed.
Print Assumptions C13_history_through_invalid_version.

(* histories of one source file (the first form of the above; kept: its proof composes the
   edits into one replacement of the file) *)
Theorem C13_single_file_histories : forall es bd pkg k f,
  valid bd = true -> nth_error bd k = Some (BJ f) -> (forall e, In e es -> edit_target e = k) ->
  valid (apply_edits bd es) = true ->
  (exists x, In x bd /\ bfile_pkg x = pkg) ->
  exists D D', compile bd pkg = Ok D /\ compile (apply_edits bd es) pkg = Ok D' /\ files_ext D D'.
Proof. exact c13_single_file. Qed.
Print Assumptions C13_single_file_histories.

(* the boolean test the correspondence evaluates on the REAL descriptors before and after every
   generated edit list (J5sCorr.c13_check) is sound for the embedding relation of C13_full *)
Theorem C13_embedding_checker_sound : forall D D', files_ext_b D D' = true -> files_ext D D'.
Proof. exact files_ext_b_sound. Qed.
Print Assumptions C13_embedding_checker_sound.

(* non-vacuity of C13_full for deep targets: four edits - a field inside the inline object of an
   array's items, an option of the inline enum inside that, a field of a nested declaration, a
   new nested enum - satisfy seq_ok, change the output, and the old descriptors embed *)
Theorem C13_deep_edits_preserve :
  exists D D', compile w_deep (b "foo.v1") = Ok D /\
               compile (apply_edits w_deep w_deep_edits) (b "foo.v1") = Ok D' /\
               files_ext D D' /\ D' <> D.
Proof. exact deep_edits_preserve. Qed.
Print Assumptions C13_deep_edits_preserve.

(* C13_full on enums without options (regression, fix a65e1f2): `enum Status {}` +
   `option OLD_UNSPECIFIED` + `option ACTIVE` is a sequence of edits of C13_full;
   STATUS_UNSPECIFIED = 0 stays, OLD_UNSPECIFIED = 1, ACTIVE = 2 *)
Theorem C13_empty_enum_any_option_preserves :
  seq_ok w_empty_enum w_empty_enum_ok_edits /\
  exists D D', compile w_empty_enum (b "foo.v1") = Ok D /\
               compile (apply_edits w_empty_enum w_empty_enum_ok_edits) (b "foo.v1") = Ok D' /\
               files_ext D D' /\
               zero_value D' = Some (b "STATUS_UNSPECIFIED", 0) /\
               map en_vals (flat_map fl_enums D') =
                 [[(b "STATUS_UNSPECIFIED", 0); (b "STATUS_OLD_UNSPECIFIED", 1); (b "STATUS_ACTIVE", 2)]].
Proof. exact empty_enum_any_option_preserves. Qed.
Print Assumptions C13_empty_enum_any_option_preserves.

(* regression (defect repaired by a65e1f2; until then the recorded finding of this property):
   `enum Status {}` compiles to STATUS_UNSPECIFIED = 0; the appended option OLD_UNSPECIFIED - the
   first option then, and any first option ending in UNSPECIFIED used to be taken as the zero
   value, renaming value 0 to STATUS_OLD_UNSPECIFIED - is option number 1 and the old descriptors
   embed *)
Theorem C13_fixed_append_to_empty_enum :
  valid w_empty_enum = true /\ valid (apply_edits w_empty_enum w_empty_enum_edit) = true /\
  exists D D', compile w_empty_enum (b "foo.v1") = Ok D /\
               compile (apply_edits w_empty_enum w_empty_enum_edit) (b "foo.v1") = Ok D' /\
               zero_value D = Some (b "STATUS_UNSPECIFIED", 0) /\
               map en_vals (flat_map fl_enums D') = [[(b "STATUS_UNSPECIFIED", 0); (b "STATUS_OLD_UNSPECIFIED", 1)]] /\
               files_ext_b D D' = true.
Proof. exact append_to_empty_enum_keeps_zero. Qed.
Print Assumptions C13_fixed_append_to_empty_enum.

(* the same at depth (an enum without options nested in an object, the option appended through
   an address: EAppendIn) *)
Theorem C13_fixed_append_to_empty_nested_enum :
  valid w_empty_nested_enum = true /\ valid (apply_edits w_empty_nested_enum [w_empty_nested_enum_edit]) = true /\
  (exists D D', compile w_empty_nested_enum (b "foo.v1") = Ok D /\
                compile (apply_edits w_empty_nested_enum [w_empty_nested_enum_edit]) (b "foo.v1") = Ok D' /\
                nested_enum_vals D = [[(b "STATUS_UNSPECIFIED", 0)]] /\
                nested_enum_vals D' = [[(b "STATUS_UNSPECIFIED", 0); (b "STATUS_OLD_UNSPECIFIED", 1)]] /\
                files_ext_b D D' = true).
Proof. exact append_to_empty_nested_enum_keeps_zero. Qed.
Print Assumptions C13_fixed_append_to_empty_nested_enum.

(* regression example (defect repaired by 2ef7c92): `object Foo { field x object {} }` and the same
   with `field foo object {}` appended both compile, and the existing field x keeps its type *)
Theorem C13_fixed_append_keeps_existing :
  valid w_before = true /\ valid (apply_edits w_before w_edit) = true /\
  exists D D', compile w_before (b "foo.v1") = Ok D /\
               compile (apply_edits w_before w_edit) (b "foo.v1") = Ok D' /\
               first_field_tname D' = first_field_tname D /\
               first_field_tname D = abs_name (b "foo.v1") [b "Foo"; b "X"].
Proof. exact append_keeps_existing. Qed.
Print Assumptions C13_fixed_append_keeps_existing.

(* ---- C13 over source files that declare ENTITIES (J5sEntity: sourcewalk/entity.go expands an
   entity into Keys / Data / Status enum / State / EventType oneof with nested event objects /
   Event / Query service / Publish topic and hands them to the same visitors).  Edits
   (J5sEntityEdit.eedit): a key, a data field, a status, an event appended to an entity; a field
   appended to an existing event; a declaration or a NEW ENTITY appended to a file; any C13 edit
   of a plain declaration in such a file. *)

(* one action on an entity extends every one of the eight generated declarations in the sense of
   the source relation of C13_full (element_ext), provided an appended key is not a URL key *)
Theorem C13_entity_action_extends : forall pkg a e, action_ok a ->
  Forall2 element_ext (expand_entity pkg e) (expand_entity pkg (ent_apply a e)).
Proof. exact ent_apply_ext. Qed.
Print Assumptions C13_entity_action_extends.

(* C13 for any two valid bundles related file by file by the source extension (the form the
   entity theorem - and C13_full - instantiate) *)
Theorem C13_extended_bundles_embed : forall bd bd' pkg,
  valid bd = true -> valid bd' = true -> Forall2 bfile_ext bd bd' ->
  (exists x, In x bd /\ bfile_pkg x = pkg) ->
  exists D D', compile bd pkg = Ok D /\ compile bd' pkg = Ok D' /\ files_ext D D'.
Proof. exact c13_bext. Qed.
Print Assumptions C13_extended_bundles_embed.

(* ANY history of entity edits that appends no URL key (a key-typed key that is primary or
   shard), first and last version valid: both compile and everything generated earlier - Keys,
   Data, State, Event messages, the status enum, the event oneof and its nested event objects,
   the Query service with its methods, requests, responses and HTTP rules, the Publish topic -
   embeds unchanged (files_ext: names, field numbers, types, type names, enum values) *)
Theorem C13_entity_histories : C13_entity_statement.
Proof. exact c13_entity_histories. Qed.
Print Assumptions C13_entity_histories.

(* the list-annotations import that entity files get outside the syntax keeps the embedding *)
Theorem C13_entity_imports_keep_embedding : forall ents D D',
  files_ext D D' -> files_ext (with_entity_imports ents D) (with_entity_imports ents D').
Proof. exact with_entity_imports_ext. Qed.
Print Assumptions C13_entity_imports_keep_embedding.

(* non-vacuity: the README entity + eight edits of every kind (a non-URL key, data field, status,
   event, event field, declaration, second entity, field of the declaration) *)
Theorem C13_entity_history_example :
  forallb eedit_ok w_ent_edits = true /\
  valid (expand_bundle w_ent) = true /\ valid (expand_bundle (apply_eedits w_ent w_ent_edits)) = true /\
  (exists x, In x (expand_bundle w_ent) /\ bfile_pkg x = b "foo.v1") /\
  (exists D D', compile (expand_bundle w_ent) (b "foo.v1") = Ok D /\
                compile (expand_bundle (apply_eedits w_ent w_ent_edits)) (b "foo.v1") = Ok D' /\
                files_ext_b D D' = true /\
                msg_field_nums D (b "FooKeys") (b "foo_id") = [1] /\
                msg_field_nums D' (b "FooKeys") (b "region") = [2] /\
                msg_field_nums D' (b "FooEventsRequest") (b "page") = [2]).
Proof. exact entity_history_example. Qed.
Print Assumptions C13_entity_history_example.

(* OBSERVATION about an edit OUTSIDE the property's quantifier (C13 covers fields / options /
   declarations appended to user-declared objects, oneofs, enums, services and topics; a primary /
   shard key appended to an entity changes the resource path by its nature and is not among them):
   acceptQuery puts the URL keys in front of `page` / `query` in <Name>ListRequest /
   <Name>EventsRequest and mapProperties numbers by position (the ProtoField 100 / 101 written in
   entity.go is ignored), so a second primary key appended to the README entity moves
   FooEventsRequest.page from 2 to 3.  This is why C13_entity_histories carries [eedit_ok]. *)
Theorem C13_entity_append_url_key_witness :
  forallb eedit_ok w_url_edit = false /\
  valid (expand_bundle w_ent) = true /\ valid (expand_bundle (apply_eedits w_ent w_url_edit)) = true /\
  out_field_nums (compile (expand_bundle w_ent) (b "foo.v1")) (b "FooEventsRequest") (b "page") = [2] /\
  out_field_nums (compile (expand_bundle (apply_eedits w_ent w_url_edit)) (b "foo.v1")) (b "FooEventsRequest") (b "page") = [3].
Proof. exact entity_url_key_witness. Qed.
Print Assumptions C13_entity_append_url_key_witness.

(* ... so the entity theorem cannot be stated without [eedit_ok]: the statement that ALSO
   quantifies over appended URL keys is false of the model (and of the compiler: corpus pair
   `entity-append-primary-key` of the correspondence).  Not a refutation of property C13 - the
   edit is outside its quantifier -, an observation that delimits C13_entity_histories. *)
Theorem C13_entity_full_refuted : ~ C13_entity_full_statement.
Proof. exact entity_full_refuted. Qed.
Print Assumptions C13_entity_full_refuted.

(* a message appended to a publish topic all of whose messages carry names of their own (not an
   edit of J5sEdit.edit: the source relation keeps the number of messages of a topic): at the
   converter (acceptTopic) the messages generated before are a prefix of the new ones and the
   topic's service keeps its name, role and every earlier rpc (name, request message type) - rpc
   and message names never depend on how many messages the topic has.  Tie: stream
   topic-message-append of run_cmpa (CAppendPair), incl. the one-message topic `Orders`. *)
Theorem C13_publish_topic_append_message_partial :
  forall snake camel screaming ev tn topic_name rl virt l extra ms ss is ms' ss' is',
  all_named l ->
  accept_topic snake camel screaming ev tn topic_name rl virt l = Ok (ms, ss, is) ->
  accept_topic snake camel screaming ev tn topic_name rl virt (l ++ extra) = Ok (ms', ss', is') ->
  prefix_of ms ms' /\ Forall2 service_ext ss ss'.
Proof. exact publish_append_messages. Qed.
Print Assumptions C13_publish_topic_append_message_partial.

(* non-vacuity: appending a field to a two-field object keeps fields 1 and 2 and adds number 3 *)
Example C13_example :
  let ev := mkEnv (b "foo.v1") [] (fun _ => None) in
  let ps := mkprops [sfield "a"; Property (b "inner") false false (FObjInline [] (mkprops [sfield "x"]))] in
  exists r r', cv_props to_snake to_camel to_screaming_snake ev [b "Foo"] false 1 ps = Ok r /\
               cv_props to_snake to_camel to_screaming_snake ev [b "Foo"] false 1 (papp ps (PCons (sfield "c") PNil)) = Ok r' /\
               map f_num (pr_fields r) = [1; 2] /\ map f_num (pr_fields r') = [1; 2; 3] /\
               firstn 2 (pr_fields r') = pr_fields r.
Proof. cbv zeta. eexists. eexists. repeat split; vm_compute; reflexivity. Qed.

(* C16 — everything the compiler emits is consumable by the rest of the toolchain.
   Only statements, closed by [exact lemma], with Print Assumptions beneath. *)
From Coq Require Import String List NArith Bool Permutation.
From J5V.lib Require Import Outcome.
From J5V.model Require Import Pipeline PipelineCompile PipelineEntity PipelineValid PipelineList PipelineCorr.
From J5V.gen Require SwaggerGen.
From J5V.lib Require Strcase.
From J5V.proofs Require Import PipelineProofs PipelineStrcaseProofs StrcaseProofs PipelineChainProofs PipelinePathProofs PipelineEntityProofs PipelineValidProofs PipelineListProofs.
Import ListNotations.
Local Open Scope N_scope.

(* ---- the property at full strength, for packages of services ----------------------------------
   For every valid declared package P (any number of services and methods over the five verbs, with
   or without response body, any schema graph, cyclic or not, every field type), the chain on what
   the compiler emits for P succeeds at every stage; the source API and the client API list exactly
   the declared services and methods with the declared verb and path; request properties are split
   by fill_request (C16_request_partition says what that split is); the referenced schemas are
   exactly the schemas reachable from the methods; list methods (a j5.list.v1.QueryRequest in the
   request, one array of object references in the response) get the paths walked over their item
   object, recursive or not; the OpenAPI conversion succeeds.
   topics (<Name>Topic services with <M>Message inputs returning Empty) are accepted and listed in
   the source API. Flattened object fields are inside: the walks see every object through its client
   properties (cenv: ObjectSchema.ClientProperties), the hypothesis only excludes flatten cycles. Outside this statement (see the partial list in pylib/propcfg/C16.py): entities. *)
Definition C16_full_statement : Prop :=
  forall (to_snake : str -> str) (P : decl_package), valid_package to_snake P ->
    let r := run_chain current_config (compile_image to_snake P) in
    exists ks,
      cr_source r = Ok (declared_api P)
      /\ cr_client r = Ok (declared_clients to_snake P, ks)
      /\ (forall x, In x ks <->
            present (cenv (image_env to_snake P)) x /\
            exists k, In k (flat_map method_roots (declared_clients to_snake P))
                      /\ present (cenv (image_env to_snake P)) k
                      /\ reach (cenv (image_env to_snake P)) k x)
      /\ cr_swagger r = Ok tt.

Theorem C16_full : C16_full_statement.
Proof. exact chain_full. Qed.
Print Assumptions C16_full.



(* the hypothesis of C16_full as a computable test: the compile-image stream evaluates it (with the model of
   iancoleman/strcase ToSnake) on every generated package the real compiler accepted that has no entity and
   no deliberately awkward property names, so each of them is inside C16_full *)
Theorem C16_valid_test_sound : forall to_snake P, valid_package_b to_snake P = true -> valid_package to_snake P.
Proof. exact valid_package_b_sound. Qed.
Print Assumptions C16_valid_test_sound.

(* ... instantiated with the byte-exact model of iancoleman/strcase ToSnake: the hypotheses on ToSnake are
   replaced by a condition on the request's property names (lowerCamel: letters, no two adjacent capitals);
   compile_image with this ToSnake is what the compile-image stream compares with the real compiler *)
Theorem C16_full_strcase : forall P, valid_package_strcase P ->
  let r := run_chain current_config (compile_image Strcase.to_snake P) in
  exists ks,
    cr_source r = Ok (declared_api P)
    /\ cr_client r = Ok (declared_clients Strcase.to_snake P, ks)
    /\ (forall x, In x ks <->
          present (cenv (image_env Strcase.to_snake P)) x /\
          exists k, In k (flat_map method_roots (declared_clients Strcase.to_snake P))
                    /\ present (cenv (image_env Strcase.to_snake P)) k
                    /\ reach (cenv (image_env Strcase.to_snake P)) k x)
    /\ cr_swagger r = Ok tt.
Proof. exact chain_full_strcase. Qed.
Print Assumptions C16_full_strcase.


(* ... and for camelCase names with digits (lower_camel_d, proofs/StrcaseProofs.v: address2Line, fooB2,
   v12Beta; still no two adjacent capitals) *)
Theorem C16_full_strcase_digits : forall P, valid_package_strcase_d P ->
  let r := run_chain current_config (compile_image Strcase.to_snake P) in
  exists ks,
    cr_source r = Ok (declared_api P)
    /\ cr_client r = Ok (declared_clients Strcase.to_snake P, ks)
    /\ (forall x, In x ks <->
          present (cenv (image_env Strcase.to_snake P)) x /\
          exists k, In k (flat_map method_roots (declared_clients Strcase.to_snake P))
                    /\ present (cenv (image_env Strcase.to_snake P)) k
                    /\ reach (cenv (image_env Strcase.to_snake P)) k x)
    /\ cr_swagger r = Ok tt.
Proof. exact chain_full_strcase_d. Qed.
Print Assumptions C16_full_strcase_digits.

(* ---- each path parameter names a request property --------------------------------------------- *)
(* about the code, without assuming that the declared path only uses request properties: whenever
   buildMethod accepts a method, every ":name" of the client path is the JSON name of an input field of the
   request message (a "{x}" part is mapped through the field found by proto name x; a literal part
   containing ':' is rejected) ... *)
Theorem C16_path_params_are_input_fields : forall m sm,
  (forall f, In f (md_in_fields m) -> no_char SLASH (f_json f)) ->
  build_method m = Ok sm ->
  forall n, In n (path_param_names (sm_path sm)) -> exists f, In f (md_in_fields m) /\ f_json f = n.
Proof. exact build_method_path_params. Qed.
Print Assumptions C16_path_params_are_input_fields.

(* ... and fillRequest puts the request property of that name among the path parameters *)
Theorem C16_path_params_covered : forall verb path props n,
  In n (path_param_names path) -> In n (map p_json props) ->
  exists p, In p (r_path (fill_request verb path props)) /\ p_json p = n.
Proof. exact fill_request_covers_params. Qed.
Print Assumptions C16_path_params_covered.

(* together, for what the compiler emits for a declared method (any ToSnake, any declared path) *)
Theorem C16_path_params_name_request_properties : forall (to_snake : str -> str) (d : decl_full) sm,
  (forall n, In n (map p_json (df_req d)) -> no_char SLASH n) ->
  build_method (compile_method to_snake (df_decl d)) = Ok sm ->
  forall n, In n (path_param_names (sm_path sm)) ->
    exists p, In p (r_path (fill_request (sm_verb sm) (sm_path sm) (df_req d))) /\ p_json p = n.
Proof. exact declared_path_params_name_props. Qed.
Print Assumptions C16_path_params_name_request_properties.


(* ---- entities ------------------------------------------------------------------------------------- *)
(* walkSourceSchemas / includeEntity over the annotated objects of the package, in whatever order Go's map
   iteration delivers them: when parts are in 1..4, every (entity, part) is annotated once and every entity
   has its keys, state and event object, it does not fail and every keys / state / event object becomes a
   walk root *)
Theorem C16_walk_source_schemas_total : forall anns, wf_anns anns ->
  exists es, walk_source_schemas anns = Ok es
    /\ forall a, In a anns -> stored_part (a_part a) -> In (a_key a) (entity_roots es).
Proof. exact walk_source_schemas_total. Qed.
Print Assumptions C16_walk_source_schemas_total.

(* every schema reachable from a property of an entity's keys / state / event object is in the client
   package's schema set *)
Theorem C16_entity_roots_closed : forall (im : image) (ms : list client_method) ks r s k x,
  collect_refs im ms = Ok ks ->
  In r (im_roots im) -> lookup (im_schemas im) r = Some s -> In k (succs s) ->
  present (cenv (im_schemas im)) k -> reach (cenv (im_schemas im)) k x -> present (cenv (im_schemas im)) x ->
  In x ks.
Proof. exact entity_roots_closed. Qed.
Print Assumptions C16_entity_roots_closed.

(* the chain with entities, PARTIAL: from the method stage on. What an entity expands to on the compiler
   side (its generated query / command services and their request / response objects) is not in
   compile_image, so the source and method stages are hypotheses here (they are theorems for declared
   services: C16_full). *)
Theorem C16_chain_with_entities_partial : forall im anns api ms,
  add_structure (im_services im) {| sa_services := []; sa_topics := [] |} = Ok api ->
  wf_anns anns ->
  (forall es, walk_source_schemas anns = Ok es -> exists evs, omapM (entity_events (im_schemas im)) es = Ok evs) ->
  all_refs_link (im_schemas im) = true -> wf_env (im_schemas im) -> client_env (im_schemas im) <> None ->
  (forall es, walk_source_schemas anns = Ok es -> forall k, In k (entity_roots es) -> present (im_schemas im) k) ->
  methods_from_source true (with_roots im []) api = Ok ms ->
  Forall wf_client_method ms ->
  (forall k, In k (flat_map method_roots ms) -> present (im_schemas im) k) ->
  let r := run_chain_ent current_config im anns in
  exists es ks,
    walk_source_schemas anns = Ok es
    /\ cr_source r = Ok api
    /\ cr_client r = Ok (ms, ks)
    /\ (forall x, In x ks <->
          present (cenv (im_schemas im)) x /\
          exists k, In k (root_refs (im_schemas im) (entity_roots es) ++ flat_map method_roots ms)
                    /\ present (cenv (im_schemas im)) k /\ reach (cenv (im_schemas im)) k x)
    /\ cr_swagger r = Ok tt.
Proof. exact chain_with_entities. Qed.
Print Assumptions C16_chain_with_entities_partial.


(* ---- list requests (buildListRequest): filterable / sortable / searchable fields ------------------ *)
(* the list request of a list method can be built for every walk when the default filters of every enum
   field name options of its enum (OptionByName: as written or without the enum's prefix). The compiler does
   not check that: see the refutation and the known finding. *)
Theorem C16_list_fields_total : forall rt g root walk, defaults_known rt ->
  exists lf, build_list_fields rt g root walk = Ok lf.
Proof. exact list_fields_total. Qed.
Print Assumptions C16_list_fields_total.

(* every listed name is the dotted path of a walked field whose type is one buildListRequest reads that
   constraint from *)
Theorem C16_list_fields_names : forall rt g root walk lf,
  build_list_fields rt g root walk = Ok lf ->
  (forall n, In n (lf_filter lf) -> exists path ty, In (path, ty) walk /\ n = dotted_path path
                                     /\ (is_alt ty FILTER_KINDS = true \/ is_enum_ref ty))
  /\ (forall n, In n (lf_sort lf) -> exists path ty, In (path, ty) walk /\ n = dotted_path path /\ is_alt ty SORT_KINDS = true)
  /\ (forall n, In n (lf_search lf) -> exists path ty, In (path, ty) walk /\ n = dotted_path path /\ is_alt ty SEARCH_KINDS = true).
Proof. exact list_fields_names. Qed.
Print Assumptions C16_list_fields_names.

(* the chain with entities and list requests, PARTIAL in the same way as C16_chain_with_entities_partial *)
Theorem C16_chain_with_lists_partial : forall im anns rt api ms,
  add_structure (im_services im) {| sa_services := []; sa_topics := [] |} = Ok api ->
  wf_anns anns ->
  (forall es, walk_source_schemas anns = Ok es -> exists evs, omapM (entity_events (im_schemas im)) es = Ok evs) ->
  all_refs_link (im_schemas im) = true -> wf_env (im_schemas im) -> client_env (im_schemas im) <> None ->
  (forall es, walk_source_schemas anns = Ok es -> forall k, In k (entity_roots es) -> present (im_schemas im) k) ->
  methods_from_source true (with_roots im []) api = Ok ms ->
  Forall wf_client_method ms ->
  (forall k, In k (flat_map method_roots ms) -> present (im_schemas im) k) ->
  defaults_known rt ->
  let r := run_chain_list current_config im anns rt in
  exists es ks,
    walk_source_schemas anns = Ok es
    /\ cr_source r = Ok api
    /\ cr_client r = Ok (ms, ks)
    /\ (forall x, In x ks <->
          present (cenv (im_schemas im)) x /\
          exists k, In k (root_refs (im_schemas im) (entity_roots es) ++ flat_map method_roots ms)
                    /\ present (cenv (im_schemas im)) k /\ reach (cenv (im_schemas im)) k x)
    /\ cr_swagger r = Ok tt
    /\ Forall (fun m => exists o, method_list_fields rt (im_schemas im) m = Ok o) ms.
Proof. exact chain_with_lists. Qed.
Print Assumptions C16_chain_with_lists_partial.

(* C16_full with list requests: for a valid declared package and known defaults, building the list request of
   every list method succeeds and leaves the result of C16_full unchanged *)
Theorem C16_full_lists : forall (to_snake : str -> str) (P : decl_package) rt,
  valid_package to_snake P -> defaults_known rt ->
  let r0 := run_chain current_config (compile_image to_snake P) in
  let g := im_schemas (compile_image to_snake P) in
  with_lists rt g r0 = r0
  /\ Forall (fun m => exists o, method_list_fields rt g m = Ok o) (declared_clients to_snake P).
Proof. exact chain_full_lists. Qed.
Print Assumptions C16_full_lists.

(* the hypothesis defaults_known is needed: a default filter that names no option fails the client stage *)
Theorem C16_list_unknown_default_refuted : lex_fields ["NOPE"]%string = Err "unknown enum value".
Proof. exact list_fields_unknown_default_refuted. Qed.
Print Assumptions C16_list_unknown_default_refuted.

(* ---- flattened object fields (ObjectSchema.ClientProperties) ------------------------------------ *)
(* the reference walk sees an object through its client properties: its own properties that are not
   flattened fields, and the client properties of every object it flattens *)
Theorem C16_client_props_keep : forall g f ps cps p,
  client_props (S f) g ps = Some cps -> In p ps -> is_flat (p_ty p) = None -> In p cps.
Proof. exact client_props_keeps. Qed.
Print Assumptions C16_client_props_keep.

Theorem C16_client_props_flatten : forall g f ps cps p k qs cqs,
  client_props (S f) g ps = Some cps -> In p ps -> is_flat (p_ty p) = Some k ->
  lookup g k = Some (SObject qs) -> client_props f g qs = Some cqs -> incl cqs cps.
Proof. exact client_props_flattens. Qed.
Print Assumptions C16_client_props_flatten.

(* the collected schema set is closed under the references of its members' client properties: in
   particular what a flattened child refers to is collected with the host *)
Theorem C16_collected_closed : forall (im : image) (ms : list client_method) ks h s c,
  collect_refs im ms = Ok ks -> In h ks ->
  lookup (cenv (im_schemas im)) h = Some s -> In c (succs s) -> present (cenv (im_schemas im)) c ->
  In c ks.
Proof. exact collected_closed. Qed.
Print Assumptions C16_collected_closed.

(* ---- source API: exactly the declared services and methods, declared verb and path ------- *)
(* buildMethod on what the compiler emits for one method: accepted, verb and path recovered.
   Hypotheses (wf_decl): verb is one of the five, path segments are literals or ":name" of a request
   property, ToSnake is injective on the request's property names and produces no '/'. *)
Theorem C16_method_declared : forall to_snake d, wf_decl to_snake d ->
  build_method (compile_method to_snake d) = Ok (declared_src d).
Proof. exact build_method_declared. Qed.
Print Assumptions C16_method_declared.

Theorem C16_services_declared : forall to_snake svcs acc,
  Forall (fun s => Forall (wf_decl to_snake) (ds_methods s)) svcs ->
  add_structure (map (compile_service to_snake) svcs) acc =
  Ok {| sa_services := sa_services acc ++ map declared_service svcs; sa_topics := sa_topics acc |}.
Proof. exact add_structure_declared. Qed.
Print Assumptions C16_services_declared.

(* the path mapping law {snake} <-> :jsonName, and the class of names for which it fails *)
Theorem C16_path_law : forall to_snake props parts,
  parts <> [] -> Forall (wf_part props) parts -> snake_inj to_snake props -> snake_ok to_snake props ->
  to_client_path (fields_of to_snake props) (to_http_path to_snake (join_with SLASH parts)) = Ok (join_with SLASH parts).
Proof. exact path_law. Qed.
Print Assumptions C16_path_law.

Theorem C16_path_law_collision_refuted : forall to_snake n m,
  n <> m -> to_snake n = to_snake m -> no_char SLASH m -> no_char SLASH (to_snake m) ->
  to_client_path (fields_of to_snake [n; m]) (to_http_path to_snake (join_with SLASH [[]; COLON :: m]))
    = Ok (join_with SLASH [[]; COLON :: n])
  /\ join_with SLASH [[]; COLON :: n] <> join_with SLASH [[]; COLON :: m].
Proof. exact path_law_collision. Qed.
Print Assumptions C16_path_law_collision_refuted.

(* the same with the byte-exact model of iancoleman/strcase.ToSnake (lib/Strcase.v): the law holds
   for every request whose property names are lowerCamel (letters, no two adjacent capitals) *)
Theorem C16_path_law_strcase : forall props parts,
  parts <> [] -> Forall (wf_part props) parts -> all_lower_camel props ->
  to_client_path (fields_of Strcase.to_snake props) (to_http_path Strcase.to_snake (join_with SLASH parts))
    = Ok (join_with SLASH parts).
Proof. exact path_law_strcase. Qed.
Print Assumptions C16_path_law_strcase.

Theorem C16_method_declared_strcase : forall d,
  1 <= dm_verb d <= 5 -> dm_parts d <> [] -> Forall (wf_part (dm_props d)) (dm_parts d) ->
  all_lower_camel (dm_props d) ->
  build_method (compile_method Strcase.to_snake d) = Ok (declared_src d).
Proof. exact build_method_declared_strcase. Qed.
Print Assumptions C16_method_declared_strcase.

(* ... and fails for a request that declares both fooId and foo_id (same snake form) *)
Theorem C16_strcase_collision_refuted :
  n_fooId <> n_foo_id /\ Strcase.to_snake n_fooId = Strcase.to_snake n_foo_id
  /\ to_client_path (fields_of Strcase.to_snake [n_fooId; n_foo_id])
       (to_http_path Strcase.to_snake (join_with SLASH [[]; COLON :: n_foo_id]))
     = Ok (join_with SLASH [[]; COLON :: n_fooId]).
Proof. exact strcase_collision. Qed.
Print Assumptions C16_strcase_collision_refuted.

Theorem C16_service_suffixes : forall x,
  classify_service (x ++ bytes_of "Service") = KService /\ classify_service (x ++ bytes_of "Topic") = KTopic.
Proof. intro x. split; [exact (classify_service_suffix x)|exact (classify_topic_suffix x)]. Qed.
Print Assumptions C16_service_suffixes.

(* ---- request split: for every verb, path and property list ------------------------------- *)
Theorem C16_request_partition : forall verb path props,
  let r := fill_request verb path props in
  Permutation (r_path r ++ r_query r ++ body_list r) props
  /\ (forall p, In p (r_path r) <-> In p props /\ In (p_json p) (path_param_names path))
  /\ (forall p, In p (r_path r) -> ~ In p (r_query r ++ body_list r))
  /\ (r_query r = [] \/ r_body r = None)
  /\ (verb = GET -> r_body r = None)
  /\ (verb <> GET -> r_query r = [] /\ exists b, r_body r = Some b).
Proof.
  intros verb path props. cbv zeta.
  split; [exact (fill_request_union verb path props)|].
  split; [exact (fill_request_path_spec verb path props)|].
  split; [exact (fill_request_disjoint verb path props)|].
  split; [exact (fill_request_query_body_disjoint verb path props)|].
  exact (fill_request_verb verb path props).
Qed.
Print Assumptions C16_request_partition.

(* ---- reachability: the walk with a visited set, for ALL schema graphs incl. cyclic ones ---- *)
Theorem C16_walk_terminates : forall g own ks, fine (walk_refs (S (length g)) g own ks []).
Proof. exact walk_refs_terminates. Qed.
Print Assumptions C16_walk_terminates.

Theorem C16_walk_exact : forall g own f ks vis',
  walk_refs f g own ks [] = Ok vis' ->
  forall x, In x vis' <-> present g x /\ exists k, In k ks /\ present g k /\ reach g k x.
Proof. exact walk_refs_exact. Qed.
Print Assumptions C16_walk_exact.

(* the list-request walk (walkSchemaFields) with the recursion guard of the repaired code *)
Theorem C16_list_walk_terminates : forall g k path, fine (walk_fields (S (length g)) g k [] path).
Proof. exact walk_fields_terminates. Qed.
Print Assumptions C16_list_walk_terminates.

(* with every reference linked, the list walk succeeds on every graph, recursive item objects
   included, and the client stage accepts the list method and attaches the walked paths *)
Theorem C16_list_walk_total : forall g root, all_refs_link g = true -> present g root ->
  exists paths, walk_fields (S (length g)) g root [] [] = Ok paths.
Proof. exact list_walk_total. Qed.
Print Assumptions C16_list_walk_total.

Theorem C16_list_method_total : forall (im : image) sub svc (m : src_method) req resp root,
  client_env (im_schemas im) <> None ->
  all_refs_link (im_schemas im) = true ->
  lookup (im_schemas im) (sub_pkg im sub, sm_req m) = Some (SObject req) ->
  str_eqb (sm_resp m) HTTPBODY_SHORT = false ->
  lookup (im_schemas im) (sub_pkg im sub, sm_resp m) = Some (SObject resp) ->
  is_query_request req = true -> list_root (Some resp) = Ok root ->
  exists paths,
    walk_fields (S (length (im_schemas im))) (cenv (im_schemas im)) root [] [] = Ok paths /\
    method_from_source true im sub svc m =
    Ok {| cm_service := svc; cm_name := sm_name m; cm_verb := sm_verb m; cm_path := sm_path m;
          cm_req := fill_request (sm_verb m) (sm_path m) req; cm_resp := Some resp; cm_list := Some paths |}.
Proof. exact list_method_total. Qed.
Print Assumptions C16_list_method_total.

(* ... and without it (the snapshot): no fuel suffices on a one-node cycle — finding 29 *)
Theorem C16_list_walk_unguarded_refuted : forall fuel path,
  walk_fields_unguarded fuel cyc_env cyc_key path = OutOfFuel.
Proof. exact walk_fields_unguarded_diverges. Qed.
Print Assumptions C16_list_walk_unguarded_refuted.

(* ---- OpenAPI: convertSchema has an arm for every alternative of j5.schema.v1.Field --------- *)
Theorem C16_swagger_arms_cover :
  forallb (fun a => mem_string a SwaggerGen.convert_schema_arms) SwaggerGen.field_alternatives = true.
Proof. exact swagger_arms_cover. Qed.
Print Assumptions C16_swagger_arms_cover.

Theorem C16_swagger_total : forall g ms ks, wf_env g -> Forall wf_client_method ms ->
  build_swagger SwaggerGen.convert_schema_arms true g ms ks = Ok tt.
Proof. exact build_swagger_total. Qed.
Print Assumptions C16_swagger_total.

(* the arm list of the snapshot: finding 18; the unguarded nil response body of the snapshot *)
Theorem C16_swagger_snapshot_refuted : exists t, wf_ty t /\ convert_ok snapshot_arms t = false.
Proof. exact snapshot_arms_refuted. Qed.
Print Assumptions C16_swagger_snapshot_refuted.

Theorem C16_swagger_nil_response_snapshot_refuted : forall arms m,
  cm_resp m = None -> wf_client_method m -> (forall a, In a SwaggerGen.field_alternatives -> In a arms) ->
  is_panic (swagger_method arms false m) = true.
Proof. exact snapshot_nil_response_panics. Qed.
Print Assumptions C16_swagger_nil_response_snapshot_refuted.

(* ---- tables re-read from the Go source on every run ------------------------------------- *)
Theorem C16_tables_agree :
  suffix_table = SwaggerGen.add_structure_suffixes
  /\ SwaggerGen.http_rule_arms = ["HttpRule_Get"; "HttpRule_Post"; "HttpRule_Put"; "HttpRule_Delete"; "HttpRule_Patch"]%string
  /\ map bytes_of SwaggerGen.invalid_path_chars = [invalid_chars]
  /\ SwaggerGen.has_body_expr = "HttpMethod != HTTPMethod_GET"%string
  /\ SwaggerGen.walk_fields_params = 5%nat.
Proof.
  split; [exact suffix_table_agrees|]. split; [exact http_arms_agree|]. split; [exact invalid_chars_agree|].
  split; [exact has_body_agrees|]. exact (proj2 (proj2 walk_arms_agree)).
Qed.
Print Assumptions C16_tables_agree.

(* ---- non-vacuity ------------------------------------------------------------------------- *)
(* a snake function good enough for the examples: lower-case ASCII letters are kept, an upper-case
   letter becomes '_' + lower-case *)
Definition ex_snake (s : str) : str :=
  flat_map (fun c => if (65 <=? c) && (c <=? 90) then [95; c + 32] else [c]) s.

Example C16_example_method :
  let d := {| dm_name := bytes_of "GetBar"; dm_verb := GET;
              dm_parts := [[]; bytes_of "foo"; COLON :: bytes_of "barId"; bytes_of "sub"];
              dm_props := [bytes_of "barId"; bytes_of "q"]; dm_raw := false |} in
  md_http (compile_method ex_snake d) = Some (GET, bytes_of "/foo/{bar_id}/sub")
  /\ build_method (compile_method ex_snake d) = Ok (declared_src d)
  /\ sm_path (declared_src d) = bytes_of "/foo/:barId/sub".
Proof. cbv zeta. split; [|split]; vm_compute; reflexivity. Qed.

(* a valid package: a self-recursive object, a GET with a path parameter and a DELETE without response *)
Definition ex_pkg : decl_package :=
  let node := (bytes_of "p.v1", bytes_of "Node") in
  {| dp_pkg := bytes_of "p.v1";
     dp_services := [(bytes_of "Tree",
        [{| df_name := bytes_of "GetNode"; df_verb := GET;
            df_parts := [[]; bytes_of "node"; COLON :: bytes_of "nodeId"];
            df_req := [{| p_json := bytes_of "nodeId"; p_ty := TScalar "key" |}; {| p_json := bytes_of "depth"; p_ty := TScalar "integer" |}];
            df_resp := Some [{| p_json := bytes_of "node"; p_ty := TRef "object" node |}] |};
         {| df_name := bytes_of "DropNode"; df_verb := DELETE;
            df_parts := [[]; bytes_of "node"; COLON :: bytes_of "nodeId"];
            df_req := [{| p_json := bytes_of "nodeId"; p_ty := TScalar "key" |}; {| p_json := bytes_of "when"; p_ty := TScalar "timestamp" |}];
            df_resp := None |}])];
     dp_topics := [{| dt_name := bytes_of "TreeFeed"; dt_msgs := [bytes_of "NodeAdded"; bytes_of "NodeDropped"] |}];
     dp_schemas := [(node, SObject [{| p_json := bytes_of "children"; p_ty := TArray (TRef "object" node) |};
                                    {| p_json := bytes_of "payload"; p_ty := TMap (TScalar "bytes") |}])] |}.

Example C16_example_valid_package : valid_package ex_snake ex_pkg.
Proof.
  assert (Hd : forall props, props = [bytes_of "nodeId"; bytes_of "depth"] \/ props = [bytes_of "nodeId"; bytes_of "when"] ->
               snake_inj ex_snake props /\ snake_ok ex_snake props).
  { intros props [-> | ->]; split.
    - intros n m [<-|[<-|[]]] [<-|[<-|[]]] E; try reflexivity; vm_compute in E; discriminate.
    - intros n [<-|[<-|[]]]; split; vm_compute; intro H; repeat (destruct H as [H|H]; [discriminate|]); exact H.
    - intros n m [<-|[<-|[]]] [<-|[<-|[]]] E; try reflexivity; vm_compute in E; discriminate.
    - intros n [<-|[<-|[]]]; split; vm_compute; intro H; repeat (destruct H as [H|H]; [discriminate|]); exact H. }
  assert (Hparts : forall props, In (bytes_of "nodeId") props ->
            Forall (wf_part props) [[]; bytes_of "node"; COLON :: bytes_of "nodeId"]).
  { intros props Hin.
    apply Forall_cons; [|apply Forall_cons; [|apply Forall_cons; [|apply Forall_nil]]]; unfold wf_part.
    - left. intros c [].
    - left. intros c Hc. vm_compute in Hc. repeat (destruct Hc as [<-|Hc]; [repeat split; discriminate|]). contradiction.
    - right. exists (bytes_of "nodeId"). split; [reflexivity|exact Hin]. }
  assert (Hm : all_methods ex_pkg = snd (hd ([], []) (dp_services ex_pkg))) by reflexivity.
  unfold valid_package. rewrite Hm. cbn [ex_pkg dp_services hd snd].
  split.
  - apply Forall_cons; [|apply Forall_cons; [|apply Forall_nil]]; unfold wf_decl;
      cbn [df_decl dm_verb dm_parts dm_props map p_json df_verb df_parts df_req].
    + split; [vm_compute; split; discriminate|]. split; [discriminate|]. split; [apply Hparts; left; reflexivity|].
      apply Hd. left. reflexivity.
    + split; [vm_compute; split; discriminate|]. split; [discriminate|]. split; [apply Hparts; left; reflexivity|].
      apply Hd. right. reflexivity.
  - split.
    { cbn [map df_name]. apply NoDup_cons; [|apply NoDup_cons; [intros []|apply NoDup_nil]].
      intros [H|[]]. vm_compute in H. discriminate. }
    split; [apply Forall_cons; [intro E; vm_compute in E; discriminate|apply Forall_cons; [intro E; vm_compute in E; discriminate|apply Forall_nil]]|].
    split; [vm_compute; reflexivity|].
    split.
    { unfold wf_env. apply Forall_forall. intros ks Hks. vm_compute in Hks.
      repeat (destruct Hks as [<-|Hks]; [unfold wf_props; cbn [snd schema_props]; repeat (apply Forall_cons; [vm_compute; reflexivity|]); apply Forall_nil|]).
      contradiction. }
    apply (no_flatten_cycle_b_sound). vm_compute. reflexivity.
Qed.

(* a list method over a self-recursive item object: the chain succeeds and the list request carries
   the walked paths (flag, next) — the walk stops at the recursive reference *)
Definition ex_list_pkg : decl_package :=
  let node := (bytes_of "p.v1", bytes_of "Node") in
  let qr := (bytes_of "j5.list.v1", bytes_of "QueryRequest") in
  {| dp_pkg := bytes_of "p.v1";
     dp_services := [(bytes_of "Tree",
        [{| df_name := bytes_of "ListNodes"; df_verb := GET; df_parts := [[]; bytes_of "nodes"];
            df_req := [{| p_json := bytes_of "query"; p_ty := TRef "object" qr |}];
            df_resp := Some [{| p_json := bytes_of "nodes"; p_ty := TArray (TRef "object" node) |}] |}])];
     dp_topics := [];
     dp_schemas := [(node, SObject [{| p_json := bytes_of "flag"; p_ty := TScalar "bool" |};
                                    {| p_json := bytes_of "next"; p_ty := TRef "object" node |}]);
                    (qr, SObject [])] |}.

Example C16_example_list_method :
  exists ms ks, cr_client (run_chain current_config (compile_image ex_snake ex_list_pkg)) = Ok (ms, ks)
    /\ map (fun m => option_map (map (fun x => dotted (fst x))) (cm_list m)) ms = [Some [bytes_of "flag"; bytes_of "next"]]
    /\ cr_swagger (run_chain current_config (compile_image ex_snake ex_list_pkg)) = Ok tt.
Proof. eexists. eexists. split; [vm_compute; reflexivity|]. split; vm_compute; reflexivity. Qed.

Example C16_example_strcase :
  all_lower_camel [bytes_of "barId"; bytes_of "accountRef"]
  /\ Strcase.to_snake (bytes_of "barId") = bytes_of "bar_id".
Proof. split; [repeat constructor|vm_compute; reflexivity]. Qed.

Example C16_example_partition :
  let ps := [{| p_json := bytes_of "barId"; p_ty := TScalar "key" |}; {| p_json := bytes_of "q"; p_ty := TScalar "string" |}] in
  names_of (r_path (fill_request GET (bytes_of "/foo/:barId") ps)) = [bytes_of "barId"]
  /\ names_of (r_query (fill_request GET (bytes_of "/foo/:barId") ps)) = [bytes_of "q"]
  /\ option_map names_of (r_body (fill_request DELETE (bytes_of "/foo/:barId") ps)) = Some [bytes_of "q"].
Proof. cbv zeta. split; [|split]; vm_compute; reflexivity. Qed.

(* a two-node cycle with a self loop: the walk with a visited set returns both nodes *)
Example C16_example_walk :
  let a := (bytes_of "p.v1", bytes_of "A") in let b := (bytes_of "p.v1", bytes_of "B") in
  let g := [(a, SObject [{| p_json := bytes_of "b"; p_ty := TArray (TRef "object" b) |};
                         {| p_json := bytes_of "self"; p_ty := TRef "object" a |}]);
            (b, SOneof [{| p_json := bytes_of "a"; p_ty := TMap (TRef "object" a) |}])] in
  walk_refs 3 g [bytes_of "p.v1"] [a] [] = Ok [b; a]
  /\ exists out, walk_fields 3 g a [] [] = Ok out /\ length out = 2%nat.
Proof. cbv zeta. split; [vm_compute; reflexivity|]. eexists. split; vm_compute; reflexivity. Qed.

Example C16_example_swagger :
  wf_ty (TArray (TScalar "timestamp")) /\ convert_ok SwaggerGen.convert_schema_arms (TMap (TScalar "decimal")) = true.
Proof. split; vm_compute; reflexivity. Qed.

(* two entities whose keys / data / state / event objects arrive in a shuffled order: the hypotheses of
   C16_walk_source_schemas_total hold and the six keys / state / event objects are the walk roots *)
Example C16_example_entities :
  wf_anns ent_ex_anns
  /\ omap entity_roots (walk_source_schemas ent_ex_anns)
     = Ok [ (ent_ex_pkg, bytes_of "WidgetKeys"); (ent_ex_pkg, bytes_of "WidgetState"); (ent_ex_pkg, bytes_of "WidgetEvent");
            (ent_ex_pkg, bytes_of "GadgetKeys"); (ent_ex_pkg, bytes_of "GadgetState"); (ent_ex_pkg, bytes_of "GadgetEvent") ].
Proof. exact (conj ent_ex_anns_wf ent_ex_anns_result). Qed.

(* defaults with and without the prefix; flattened and nested fields take their rules from the declaring schema *)
Example C16_example_list_fields :
  lex_fields ["ALPHA"; "KIND_BETA"]%string
  = Ok (map bytes_of ["kind"; "weight"; "flag"; "sub.flag"], map bytes_of ["weight"], map bytes_of ["title"; "sub.title"])%string.
Proof. exact list_fields_example. Qed.

(* ---- the client clauses against an independent, declarative reading (proofs/PipelineSpecProofs.v) ------------
   client_meets svc d cm: cm has the declared service / name / verb, its path is the declared one segment by
   segment, every ":name" segment names a request property which is a path property of cm, the path properties
   are exactly the request properties so named, for GET the other properties are the query and there is no
   body, for every other verb they are the body and there is no query, order kept, response as declared.
   It is stated by membership in the declaration only (no fill_request / path_param_names / filter). *)
From J5V.proofs Require Import PipelineSpecProofs.

Definition C16_full_declarative_statement : Prop :=
  forall (to_snake : str -> str) (P : decl_package), valid_package to_snake P ->
    let r := run_chain current_config (compile_image to_snake P) in
    exists cms ks,
      cr_source r = Ok (declared_api P)
      /\ cr_client r = Ok (cms, ks)
      /\ Forall2 (fun sd cm => client_meets (fst sd) (snd sd) cm) (declared_methods P) cms
      /\ cr_swagger r = Ok tt.

Theorem C16_full_declarative : C16_full_declarative_statement.
Proof. exact chain_full_declarative. Qed.
Print Assumptions C16_full_declarative.

Theorem C16_declared_client_meets : forall to_snake g svc d, wf_decl to_snake (df_decl d) ->
  client_meets svc d (declared_client g svc d).
Proof. exact declared_client_meets. Qed.
Print Assumptions C16_declared_client_meets.

(* the reading pins the observable parts down: two client methods meeting one declaration agree on path
   properties (as lists), path, verb and response *)
Theorem C16_client_meets_unique : forall svc d cm cm', NoDup (df_req d) ->
  client_meets svc d cm -> client_meets svc d cm' ->
  r_path (cm_req cm) = r_path (cm_req cm') /\ cm_path cm = cm_path cm' /\ cm_verb cm = cm_verb cm' /\ cm_resp cm = cm_resp cm'.
Proof. exact client_meets_unique_path. Qed.
Print Assumptions C16_client_meets_unique.

Example C16_example_declarative :
  exists cms, Forall2 (fun sd cm => client_meets (fst sd) (snd sd) cm) (declared_methods ex_pkg) cms /\ cms <> [].
Proof.
  destruct (chain_full_declarative ex_snake ex_pkg C16_example_valid_package) as (cms & ks & _ & _ & H & _).
  exists cms. split; [exact H|]. intro E. subst cms. inversion H.
Qed.

(* ---- the generated tables as probes of the model functions (proofs/PipelineProbeProofs.v) -------------------
   classify_service at "Foo" ++ every HasSuffix literal of addStructure (in source order), build_method at every
   arm number of the switch on httpOpt.Pattern (and outside), has_body against the verb named by the Go HasBody
   expression, map_part at every character of the ContainsAny literal (and at others) *)
From J5V.proofs Require Import PipelineProbeProofs.

Theorem C16_table_probes :
  (map (fun s => svc_kind_code (classify_service (probe_name s))) SwaggerGen.add_structure_suffixes = [0; 0; 1; 2]%N
   /\ svc_kind_code (classify_service (probe_name "")) = 3%N
   /\ forallb (fun s => N.eqb (svc_kind_code (classify_service (removelast (probe_name s)))) 3) SwaggerGen.add_structure_suffixes = true)
  /\ forallb (fun v => Bool.eqb (is_ok (build_method (probe_meth v)))
                                (N.leb 1 v && N.leb v (N.of_nat (length SwaggerGen.http_rule_arms))))
             [0; 1; 2; 3; 4; 5; 6; 7; 8]%N = true
  /\ (exists v, no_body_verb = Some v
                /\ forallb (fun w => Bool.eqb (has_body w) (negb (N.eqb w v))) [1; 2; 3; 4; 5]%N = true)
  /\ (forallb (fun c => is_err (map_part [] [97; c; 98]%N)) gen_invalid = true
      /\ forallb (fun c => existsb (N.eqb c) gen_invalid || is_ok (map_part [] [97; c; 98]%N))
                 [33; 36; 42; 45; 46; 47; 58; 61; 95; 97; 123; 124; 125; 126]%N = true
      /\ length gen_invalid = 4%nat).
Proof. exact (conj suffix_probe (conj http_arm_probe (conj has_body_probe invalid_chars_probe))). Qed.
Print Assumptions C16_table_probes.

(* ---- the first artefact: the source image (PrintFile -> ReadFSImage), through the file model of C05 ----------
   for every well-formed compiled descriptor the printed tokens are read back without error, and the descriptor
   read back has the same package and, element for element (services with their methods, input / output types and
   options; messages with fields, json names and options; enums), equivalent contents — so addStructure reads the
   same services from the image as from the compiler's descriptors. wf_dfile is evaluated on every compiled file
   of a C05 run (file stream). The characters between the tokens and map-entry field options are C05's partial /
   known parts. *)
Theorem C16_source_image_stage : forall imp D, ProtoPrintFileFullProofs.wf_dfile imp D ->
  exists D', ProtoParseFile.parse_file_tokens imp
               (ProtoPrintFile.print_file_tokens (ProtoPrintFile.to_symtab (ProtoPrintFile.dfile_symtab imp D)) D) = Some D'
    /\ ProtoPrintFile.d_pkg D' = ProtoPrintFile.d_pkg D
    /\ (forall e, In e (ProtoPrintFile.d_body D) ->
          exists e', In e' (ProtoPrintFile.d_body D') /\ ProtoPrintFileFullProofs.elem_equiv e e')
    /\ (forall e', In e' (ProtoPrintFile.d_body D') ->
          exists e, In e (ProtoPrintFile.d_body D) /\ ProtoPrintFileFullProofs.elem_equiv e e').
Proof. exact image_stage. Qed.
Print Assumptions C16_source_image_stage.

(* the list-method example package is inside the hypotheses of C16_full / C16_full_lists / C16_full_declarative *)
Example C16_example_list_valid : valid_package ex_snake ex_list_pkg.
Proof. apply valid_package_b_sound. vm_compute. reflexivity. Qed.

(* ---- what a list method exposes, against a declarative reading (proofs/PipelineWalkSpecProofs.v) -------------
   walked g k anc path q t: the property path q (type t) is reached from schema k by a chain of properties through
   object / oneof references, no schema being entered again while it is being walked higher up on the same chain.
   The model of walkSchemaFields reports exactly these; the root of a list request is the item object of the ONE
   array property of the response (single_object_array). With C16_full: the cm_list of every declared list method
   is the set of walked paths of that item object in the client view of the schema environment (cenv). *)
From J5V.proofs Require Import PipelineWalkSpecProofs.

Theorem C16_walk_fields_spec : forall fuel g k anc path l,
  walk_fields fuel g k anc path = Ok l -> forall q t, In (q, t) l <-> walked g k anc path q t.
Proof. exact walk_fields_spec. Qed.
Print Assumptions C16_walk_fields_spec.

Theorem C16_list_root_spec : forall resp root, list_root resp = Ok root ->
  exists ps, resp = Some ps /\ single_object_array ps root.
Proof. exact list_root_spec. Qed.
Print Assumptions C16_list_root_spec.

Theorem C16_declared_list_spec : forall g svc d l, cm_list (declared_client g svc d) = Some l ->
  is_query_request (df_req d) = true
  /\ exists ps root, df_resp d = Some ps /\ single_object_array ps root
       /\ forall q t, In (q, t) l <-> walked (cenv g) root [] [] q t.
Proof. intros g svc d l. exact (declared_list_spec g d l). Qed.
Print Assumptions C16_declared_list_spec.

Example C16_example_walked :
  exists l, cm_list (declared_client (im_schemas (compile_image ex_snake ex_list_pkg)) (bytes_of "Foo")
                       (hd {| df_name := []; df_verb := 0; df_parts := []; df_req := []; df_resp := None |} (all_methods ex_list_pkg))) = Some l
            /\ l <> [].
Proof. eexists. split; [vm_compute; reflexivity|discriminate]. Qed.

(* C10 — shared codecs and schema caches are safe for concurrent use.
   Only statements, closed by [exact lemma], with Print Assumptions beneath. *)
From Coq Require Import String List NArith Bool.
From J5V.model Require Import Conc ConcSites ConcCorr.
From J5V.gen Require ConcGen.
From J5V.proofs Require Import ConcProofs.
Import ListNotations.
Local Open Scope N_scope.

(* ---- the tie: the Go source follows the guarded discipline ---------------- *)
Theorem C10_code_is_guarded : code_disc = Guarded.
Proof. exact code_disc_guarded. Qed.
Print Assumptions C10_code_is_guarded.

Theorem C10_sites_guarded : forallb (site_guarded ConcGen.cache_methods) ConcGen.cache_methods = true.
Proof. exact sites_all_guarded. Qed.
Print Assumptions C10_sites_guarded.

Theorem C10_cache_methods_agree : ConcGen.cache_methods = expected_cache_methods.
Proof. exact cache_methods_agree. Qed.
Print Assumptions C10_cache_methods_agree.

Theorem C10_placeholder_functions_agree : ConcGen.placeholder_functions = expected_placeholder_functions.
Proof. exact placeholder_functions_agree. Qed.
Print Assumptions C10_placeholder_functions_agree.

(* ---- without the lock the property fails ----------------------------------- *)
Theorem C10_unguarded_refuted :
  nth 1%nat (results (run Unguarded 3 w1_graph w1_calls w1_sched)) [] = [RErr] /\
  result_solo 3 w1_graph 0 = ROk (UNode 0 [UNode 1 []]) /\
  results (run Unguarded 3 w1_graph [[0]] [0; 0; 0; 0; 0; 0; 0]%nat) = [[result_solo 3 w1_graph 0]].
Proof. exact unguarded_refuted_root. Qed.
Print Assumptions C10_unguarded_refuted.

Theorem C10_unguarded_refuted_nested :
  nth 1%nat (results (run Unguarded 3 w2_graph w2_calls w2_sched)) [] = [ROk (UNode 2 [UUnlinked 0])] /\
  result_solo 3 w2_graph 2 = ROk (UNode 2 [UNode 0 [UNode 1 []]]).
Proof. exact unguarded_refuted_nested. Qed.
Print Assumptions C10_unguarded_refuted_nested.

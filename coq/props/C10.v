(* C10 — shared codecs and schema caches are safe for concurrent use.
   Only statements, closed by [exact lemma], with Print Assumptions beneath. *)
From Coq Require Import String List NArith Bool.
From J5V.lib Require Import Outcome.
From J5V.model Require Import Conc ConcKey ConcSites ConcCorr ConcRace ConcStatement ConcState ConcRW ConcHB ConcProbe ConcCodec ConcProperty ConcWalk.
From J5V.gen Require ConcGen ConcStateGen.
From J5V.proofs Require Import ConcProofs ConcLeafProofs ConcInvProofs ConcTermProofs ConcMainProofs ConcRetProofs ConcRaceProofs ConcFullProofs ConcKeyProofs ConcRWProofs ConcHBProofs ConcProbeProofs ConcCodecProofs ConcPropertyProofs ConcWalkProofs ConcKeyOwnProofs.
Import ListNotations.
Local Open Scope N_scope.

(* ---- the tie: the Go source follows the guarded discipline ---------------- *)
Theorem C10_code_is_guarded : code_disc = Guarded.
Proof. exact code_disc_guarded. Qed.
Print Assumptions C10_code_is_guarded.

Theorem C10_sites_guarded : forallb (site_guarded ConcGen.cache_methods) ConcGen.cache_methods = true.
Proof. exact sites_all_guarded. Qed.
Print Assumptions C10_sites_guarded.

(* the call-graph search behind site_guarded runs on fuel (= the length of the table): it did
   not run out on the regenerated table; running out is the explicit answer RsOutOfFuel,
   which site_guarded counts as not guarded (never as "touches no shared state") *)
Theorem C10_reach_fuel_sufficient : reach_fuel_ok ConcGen.cache_methods = true.
Proof. exact reach_fuel_sufficient. Qed.
Print Assumptions C10_reach_fuel_sufficient.

Example C10_reach_out_of_fuel_example :
  reaches_shared 1 deep_table ["A"%string] ["call:b"%string] = RsOutOfFuel /\
  reaches_shared (reach_fuel deep_table) deep_table ["A"%string] ["call:b"%string] = RsYes /\
  site_guarded deep_table ("A"%string, true, ["call:b"%string]) = false.
Proof. exact reaches_shared_out_of_fuel. Qed.

(* access sequences, token by token in source order, after dropping the READS of RefSchema.To
   (project_tab); the side condition that makes dropping them sound — the functions concerned run
   only with sc.mu held — is C10_projected_reads_under_lock, a named part of census_ok *)
Theorem C10_cache_methods_agree : project_tab ConcGen.cache_methods = expected_cache_methods.
Proof. exact cache_methods_agree. Qed.
Print Assumptions C10_cache_methods_agree.

Theorem C10_placeholder_functions_agree : project_tab ConcGen.placeholder_functions = expected_placeholder_functions.
Proof. exact placeholder_functions_agree. Qed.
Print Assumptions C10_placeholder_functions_agree.

Theorem C10_projected_reads_under_lock :
  projected_reads_ok ConcStateGen.lockfree_fns ConcStateGen.state_writes = true /\
  (forall t toks, In t toks -> ~ In t (project toks) -> t = "read:To"%string).
Proof. exact (conj census_projected_reads project_only_drops_to_reads). Qed.
Print Assumptions C10_projected_reads_under_lock.

(* where the read of To that /repo 32db692 added to buildEnumFieldSchema (the `else` branch after
   newRefPlaceholder: the ref existed) sits in the machine: the hit branch of the PRefLookup step for a
   name without references (an enum), in the same step as the lookup — no hook point in between —,
   hence inside the critical section under Guarded.  It never finds To == nil there, under EITHER
   discipline, at any point of any run: a node without references is registered and linked within
   one step.  (The type check itself tells an enum from a message registered under the same
   flattened name — a collision the universes of the machine do not contain.) *)
Theorem C10_enum_guard_read_sees_linked : forall g d k calls sched m c,
  refs g m = [] ->
  lookup (cmap (s_sh (run d k g calls sched))) m = Some c ->
  exists fs, cell_to (s_sh (run d k g calls sched)) c = Some fs.
Proof. exact leaf_hit_is_linked. Qed.
Print Assumptions C10_enum_guard_read_sees_linked.

(* non-vacuous: thread 0 builds type 1 = {enum 2} and stops before linking 1; thread 1, without the
   lock, is inside the build of 3 = {enum 2}: its lookup of the enum hits, the enum is linked, while
   type 1 itself is still a placeholder *)
Example C10_enum_guard_read_example :
  let st := run Unguarded 3 [(1, [2]); (2, []); (3, [2])] [[1]; [3]] [0; 0; 0; 0; 0; 1; 1; 1]%nat in
  lookup (cmap (s_sh st)) 2 = Some 1%nat /\ cell_to (s_sh st) 1%nat = Some [] /\
  cell_to (s_sh st) 0%nat = None /\ label_of st 1%nat = 4.
Proof. vm_compute. repeat split; reflexivity. Qed.

(* the cache is the only mutable state a codec call can reach.  Not a list of known names:
   harness/cmd/gen_conc/state.go type-checks lib/j5codec, internal/codec, lib/j5reflect,
   lib/j5schema and every hand-written package of the module they import (go/types), and
   reports every package-level variable, every type reachable from one or from codec.Codec,
   every field of those, the functions a codec call runs outside / inside
   SchemaCache.Schema, and EVERY write to a variable, to a field of a reachable type (any
   base expression), through a pointer or to an element of a non-fresh map/slice.
   census_ok (model/ConcState.v) = the conjunction of the checks named below. *)
Theorem C10_no_other_state :
  census_ok = true /\ ConcGen.codec_entry_points = expected_codec_entry_points.
Proof. exact no_other_state. Qed.
Print Assumptions C10_no_other_state.

(* the load-bearing check by name, in the direction one uses it: a function that a codec call
   can run without holding sc.mu writes nothing but a caller's scalar buffer or a protobuf
   message it is constructing *)
Theorem C10_lockfree_functions_write_nothing : forall w,
  In w ConcStateGen.state_writes -> In (w_fn w) ConcStateGen.lockfree_fns ->
  is_benign_target (w_target w) = true.
Proof. exact lf_function_writes_nothing. Qed.
Print Assumptions C10_lockfree_functions_write_nothing.

Theorem C10_census_parts :
  vars_only_initialised ConcStateGen.state_writes = true /\
  lf_reads_no_locked_field ConcStateGen.lf_read_fields = true /\
  holders_hold_only_the_cache ConcStateGen.shared_fields = true /\
  lk_writes_to_fresh ConcStateGen.lk_field_writes = true.
Proof. exact (conj census_vars_only_initialised (conj census_lf_reads_no_locked_field (conj census_holders census_lk_writes_to_fresh))). Qed.
Print Assumptions C10_census_parts.

(* THE CODEC WALK UNDER CONCURRENCY as a census obligation (computed, within the census limits): pick
   any write, anywhere in the analysed packages, to a field that a function on the lock-free part of a
   codec call reads.  Its function is not on the lock-free part; and if it runs inside Schema, the
   object it writes to was created in the critical section in progress (not handed to anybody yet) —
   or the field is RefSchema.To, written by one of the four functions of the token tables on the
   placeholder it registered.  With walk_ok (no package-level variable assigned after initialisation,
   no stored function value called, no goroutine started, no per-call type reachable from a long-lived
   object, only allow-listed foreign packages): what a walk reads is frozen while it can be read. *)
Theorem C10_codec_walk_reads_frozen : forall w,
  In w ConcStateGen.state_writes -> is_field_target (w_target w) = true ->
  In (strip_field (w_target w)) ConcStateGen.lf_read_fields ->
  ~ In (w_fn w) ConcStateGen.lockfree_fns /\
  (In (w_fn w) ConcStateGen.locked_fns ->
   exists o, In (w_fn w, strip_field (w_target w), o) ConcStateGen.lk_field_writes /\
             lk_entry_ok (w_fn w, strip_field (w_target w), o) = true).
Proof. exact walk_reads_are_frozen. Qed.
Print Assumptions C10_codec_walk_reads_frozen.

Theorem C10_codec_walk_census : walk_ok = true.
Proof. exact census_walk. Qed.
Print Assumptions C10_codec_walk_census.

(* non-vacuous (buildSchemaProperty writes ObjectProperty.Schema, which the walk reads, on a fresh
   object), and discriminating *)
Example C10_codec_walk_example :
  In ("j5schema.Package.buildSchemaProperty", "field:j5schema.ObjectProperty.Schema", "set")%string ConcStateGen.state_writes /\
  In "j5schema.ObjectProperty.Schema"%string ConcStateGen.lf_read_fields /\
  In "j5schema.Package.buildSchemaProperty"%string ConcStateGen.locked_fns /\
  walk_reads_frozen ConcStateGen.lockfree_fns ConcStateGen.locked_fns ConcStateGen.lf_read_fields
                    (unclassified_write :: ConcStateGen.state_writes) ConcStateGen.lk_field_writes = false /\
  walk_reads_frozen ConcStateGen.lockfree_fns ConcStateGen.locked_fns ConcStateGen.lf_read_fields
                    (walk_memo_write :: ConcStateGen.state_writes) ConcStateGen.lk_field_writes = false.
Proof.
  split; [|split; [|split; [|exact walk_rejects_regressions]]];
    apply in_strs_In || idtac; try (vm_compute; reflexivity).
  vm_compute. tauto.
Qed.

(* the checks discriminate: a memo map in the Reflector filled by NewRoot (directly or through
   a local alias), a package-level cache filled inside Schema, a new mutable field on a
   long-lived object, a per-call type becoming reachable from one, a locked function that
   modifies a schema object it found in the cache — each is rejected *)
Example C10_census_rejects_regressions :
  lf_writes_nothing ConcStateGen.lockfree_fns (memo_write :: ConcStateGen.state_writes) = false /\
  lf_writes_nothing ConcStateGen.lockfree_fns (memo_alias_write :: ConcStateGen.state_writes) = false /\
  vars_only_initialised (pkg_cache_write :: ConcStateGen.state_writes) = false /\
  holders_hold_only_the_cache (("j5reflect.Reflector.rootProps"%string, "map[string]*j5reflect.propSet"%string, true) :: ConcStateGen.shared_fields) = false /\
  forallb shared_type_ok ("j5reflect.propSet"%string :: ConcStateGen.shared_types) = false /\
  lk_writes_to_fresh (republish_write :: ConcStateGen.lk_field_writes) = false /\
  (* a function of the token tables that reads To becoming reachable without the lock *)
  projected_reads_ok ("j5schema.buildEnumFieldSchema"%string :: ConcStateGen.lockfree_fns) ConcStateGen.state_writes = false /\
  projected_reads_ok ("j5schema.SchemaCache.schemaLocked"%string :: ConcStateGen.lockfree_fns) ConcStateGen.state_writes = false.
Proof. exact census_rejects_regressions. Qed.

(* ---- the guarded discipline: for ALL type universes (cyclic or not, with or without
   types that cannot be reflected), ALL lists of calls per thread (on types: calls_ok),
   ANY number of threads and ALL schedules ---------------------------------------------- *)

(* what a call returns when it is the only call made on a fresh cache (result_solo, defined
   by running the machine) is a function of the type universe alone: the unfolding of the
   type when no type reachable from it has a field of an unsupported type, an error otherwise *)
Theorem C10_solo_char : forall k g n, n <> unsupported -> char k g n (result_solo k g n).
Proof. exact solo_char. Qed.
Print Assumptions C10_solo_char.

Theorem C10_solo_is_solo : forall k g n, n <> unsupported ->
  results (run Guarded k g [[n]] (repeat 0%nat (fuel_bound g [[n]]))) = [[result_solo k g n]].
Proof. exact solo_is_solo. Qed.
Print Assumptions C10_solo_is_solo.

(* (1) every completed call returned what it returns when run alone on a fresh cache;
   a thread's results are, in order, the solo results of a prefix of its calls — also for
   types that fail to reflect, and whatever failed calls other threads made before *)
Theorem C10_guarded_results : forall k g calls sched t, calls_ok calls ->
  exists j, nth t (results (run Guarded k g calls sched)) [] =
            map (result_solo k g) (firstn j (nth t calls [])).
Proof. exact guarded_results. Qed.
Print Assumptions C10_guarded_results.

(* (1') exposed oneofs ((j5.ext.v1.oneof).expose): in the universe handed to the machine a message
   refers first to its exposed oneofs (leaf nodes: registered before the fields and linked at
   once, as messageProperties does) and then to all its field types; the grouping of the
   members under the oneof that a caller sees is the view ConcCorr.view of the machine's
   result, and the forced schedules compare exactly that view with the reflected schema *)
Theorem C10_guarded_results_view : forall ex k g calls sched t, calls_ok calls ->
  exists j, map (view ex k) (nth t (results (run Guarded k g calls sched)) []) =
            map (fun n => view ex k (result_solo k g n)) (firstn j (nth t calls [])).
Proof. exact guarded_results_view. Qed.
Print Assumptions C10_guarded_results_view.

(* message 1 { oneof x0 {expose} { 2 r0; 3 r1 }; 4 r2 }: the machine registers 101 (the oneof), then 2, 3, 4 *)
Example C10_exposed_oneof_example :
  let g : graph := [(1, [101; 2; 3; 4]); (101, []); (2, []); (3, []); (4, [1])] in
  let ex : expo := [(1, [(101, 0, 2)])] in
  result_solo 3 g 1 = ROk (UNode 1 [UNode 101 []; UNode 2 []; UNode 3 []; UNode 4 [UNode 1 [UCut 101; UCut 2; UCut 3; UCut 4]]]) /\
  view ex 3 (result_solo 3 g 1) =
    ROk (UNode 1 [UNode 101 [UNode 2 []; UNode 3 []]; UNode 4 [UNode 1 [UCut 101; UCut 4]]]) /\
  snd (run_trace Guarded 3 g [[1]] (repeat 0%nat 12)) = [2; 3; 4; 5; 6; 4; 5; 6; 4; 5; 6; 4].
Proof. cbv zeta. repeat split; vm_compute; reflexivity. Qed.

(* (2a) no deadlock: while a call is outstanding some thread can take a step that changes the
   state (can_step: it has a call to make and is not blocked in Lock() behind a held lock).
   The machine's Unlock only frees the lock; who takes it next — the longest waiting
   goroutine, the latest, a newcomer that never blocked — is the schedule's choice, and
   the schedule is universally quantified: no lock-grant order is assumed *)
Theorem C10_guarded_no_deadlock : forall k g calls sched, calls_ok calls ->
  all_done (run Guarded k g calls sched) = false ->
  exists t, (t < length calls)%nat /\ can_step (run Guarded k g calls sched) t /\
            gstep Guarded k g t (run Guarded k g calls sched) <> run Guarded k g calls sched.
Proof. exact guarded_progress. Qed.
Print Assumptions C10_guarded_no_deadlock.

(* (2b) scheduler assumption, stated explicitly: WEAK FAIRNESS — the schedule is a sequence
   of rounds in each of which every thread is scheduled at least once (weakly_fair).  Under
   it, and under NO assumption on the lock-grant order, fuel_bound = B + (4 + B) * |calls|
   rounds, B = the sum over the universe of (2*|refs|+3), complete every call, each with
   its solo result.  (A single thread may lose the race for the lock again and again; as
   every thread has finitely many calls, each round still retires at least one unit of
   the global measure mu.) *)
Theorem C10_guarded_fair_complete : forall k g calls rounds, calls_ok calls ->
  weakly_fair (length calls) rounds -> (fuel_bound g calls <= length rounds)%nat ->
  all_done (run Guarded k g calls (concat rounds)) = true /\
  results (run Guarded k g calls (concat rounds)) = map (map (result_solo k g)) calls.
Proof. exact guarded_fair_complete. Qed.
Print Assumptions C10_guarded_fair_complete.

(* (2c) mutexes that hand the lock over: under ANY grant policy gr (a function from the state
   after an Unlock to the goroutine that is given the lock at once, or to nobody; fifo_grant
   = first come first served is the policy the harness's forced schedules exhibit and the
   correspondence evaluates) every run is a run of the machine above, on the schedule
   [expand] computes — so results, absence of deadlock and completion under weak fairness
   hold for every hand-off order as well *)
Theorem C10_handoff_refines : forall (gr : grant_policy) d k g calls sched,
  hrun gr d k g calls sched = run d k g calls (expand gr d k g sched (init calls)).
Proof. exact handoff_refines. Qed.
Print Assumptions C10_handoff_refines.

Theorem C10_handoff_results : forall (gr : grant_policy) k g calls sched t, calls_ok calls ->
  exists j, nth t (results (hrun gr Guarded k g calls sched)) [] =
            map (result_solo k g) (firstn j (nth t calls [])).
Proof. exact handoff_results. Qed.
Print Assumptions C10_handoff_results.

Theorem C10_handoff_no_deadlock : forall (gr : grant_policy) k g calls sched, calls_ok calls ->
  all_done (hrun gr Guarded k g calls sched) = false ->
  exists t, (t < length calls)%nat /\ can_step (hrun gr Guarded k g calls sched) t /\
            gstep Guarded k g t (hrun gr Guarded k g calls sched) <> hrun gr Guarded k g calls sched.
Proof. exact handoff_no_deadlock. Qed.
Print Assumptions C10_handoff_no_deadlock.

Theorem C10_handoff_fair_complete : forall (gr : grant_policy) k g calls rounds, calls_ok calls ->
  weakly_fair (length calls) rounds -> (fuel_bound g calls <= length rounds)%nat ->
  all_done (hrun gr Guarded k g calls (concat rounds)) = true /\
  results (hrun gr Guarded k g calls (concat rounds)) = map (map (result_solo k g)) calls.
Proof. exact handoff_fair_complete. Qed.
Print Assumptions C10_handoff_fair_complete.

(* (3) whenever the lock is free every cache entry is fully linked, denotes its type, and
   is a type that reflects: no placeholder with To == nil, and nothing that a failed call
   registered, is visible outside a critical section *)
Theorem C10_guarded_linked_when_free : forall k g calls sched, calls_ok calls ->
  let st := run Guarded k g calls sched in
  s_lock st = None ->
  forall n c, lookup (cmap (s_sh st)) n = Some c ->
    (exists fs, cell_to (s_sh st) c = Some fs) /\
    (forall d, unfold d (heap (s_sh st)) c = gunfold d g n) /\
    good g n.
Proof. exact guarded_linked_when_free. Qed.
Print Assumptions C10_guarded_linked_when_free.

(* (4) WHICH object a call is handed, beyond its shape.  rets = the list (thread, type, cell) of
   the RefSchema cells whose To the successful calls of a run returned, in order of
   completion (the Go pointer `built.To` / `placeholder.To`; the harness compares pointer
   identity within each forced case with cell identity in the model).
   (4a) one canonical object per type: any two calls on the same type, by whatever threads and
   however far apart, are handed the same cell *)
Theorem C10_guarded_canonical_object : forall k g calls sched t1 t2 n c1 c2, calls_ok calls ->
  In (t1, n, c1) (rets Guarded k g calls sched) -> In (t2, n, c2) (rets Guarded k g calls sched) -> c1 = c2.
Proof. exact guarded_ret_canonical. Qed.
Print Assumptions C10_guarded_canonical_object.

(* (4b) the object handed out is completely linked — it unfolds to its type at EVERY depth d, not
   only the depth k of the recorded result — at the moment it is handed out and at every
   later point of the run, including the middle of another thread's build or roll-back:
   immutable after publication *)
Theorem C10_guarded_object_linked_for_good : forall k g calls sched t n c, calls_ok calls ->
  In (t, n, c) (rets Guarded k g calls sched) ->
  forall later d, unfold d (heap (s_sh (run Guarded k g calls (sched ++ later)))) c = gunfold d g n.
Proof. exact guarded_ret_linked. Qed.
Print Assumptions C10_guarded_object_linked_for_good.

(* the list is about the recorded results: the step that hands cell c to thread t records the
   unfolding of c as the result of t's current call *)
Theorem C10_ret_is_result : forall k g t st t' n c,
  gstep_ret k g t st = Some (t', n, c) ->
  exists th rest, nth_error (s_thr st) t = Some th /\ t_calls th = n :: rest /\ t' = t /\
    snd (lstep k g n (s_sh st) (t_pc th)) = inr (ROk (unfold k (heap (s_sh st)) c)).
Proof. exact ret_is_result. Qed.
Print Assumptions C10_ret_is_result.

(* non-vacuity, and what shape alone does not see: under the lock three calls on types 1 and 3
   by three threads share cells; WITHOUT the lock there is a schedule on which two calls on
   type 1 both return exactly the solo shape and yet are handed two different objects
   (both missed the lookup, both inserted) *)
Example C10_objects_example :
  let g : graph := [(1, [2]); (2, [1; 3]); (3, []); (4, [3; 5; 1]); (5, [unsupported])] in
  rets Guarded 2 g [[1; 4]; [4; 2]; [3; 1]] (concat (repeat [2; 0; 1; 1]%nat 60)) =
    [(2%nat, 3, 0%nat); (0%nat, 1, 1%nat); (2%nat, 1, 1%nat); (1%nat, 2, 2%nat)] /\
  let g2 : graph := [(1, [2]); (2, [])] in
  let sched := [0; 0; 1; 1; 1; 1; 1; 1; 1; 0; 0; 0; 0; 0; 0; 0]%nat in
  results (run Unguarded 3 g2 [[1]; [1]] sched) = [[result_solo 3 g2 1]; [result_solo 3 g2 1]] /\
  rets Unguarded 3 g2 [[1]; [1]] sched = [(1%nat, 1, 0%nat); (0%nat, 1, 2%nat)].
Proof. cbv zeta. repeat split; vm_compute; reflexivity. Qed.

(* mutual exclusion of the section between cache.lookup and the return *)
Theorem C10_guarded_mutex : forall k g calls sched t1 t2 th1 th2, calls_ok calls ->
  let st := run Guarded k g calls sched in
  nth_error (s_thr st) t1 = Some th1 -> nth_error (s_thr st) t2 = Some th2 ->
  ~ outside (t_pc th1) -> ~ outside (t_pc th2) -> t1 = t2.
Proof. exact guarded_mutex. Qed.
Print Assumptions C10_guarded_mutex.

(* non-vacuity: a cyclic universe (1 -> 2 -> {1, 3}), a type 4 that reaches a field of an
   unsupported type through 5 (after having registered 3), three threads, a fair schedule *)
Example C10_guarded_example :
  let g : graph := [(1, [2]); (2, [1; 3]); (3, []); (4, [3; 5; 1]); (5, [unsupported])] in
  let calls : list (list name) := [[1; 4]; [4; 2]; [3; 1]] in
  let rounds := repeat [2; 0; 1; 1]%nat (fuel_bound g calls) in
  calls_ok calls /\ weakly_fair (length calls) rounds /\ fuel_bound g calls = 248%nat /\
  results (run Guarded 2 g calls (concat rounds)) =
    [[ROk (UNode 1 [UNode 2 [UCut 1; UCut 3]]); RErr];
     [RErr; ROk (UNode 2 [UNode 1 [UCut 2]; UNode 3 []])];
     [ROk (UNode 3 []); ROk (UNode 1 [UNode 2 [UCut 1; UCut 3]])]] /\
  (* after the failed call of thread 1 the cache holds nothing *)
  cmap (s_sh (run Guarded 2 g [[4]] (repeat 0%nat 20))) = [] /\
  (* a schedule on which thread 1 has to wait for the lock *)
  snd (run_trace Guarded 2 g calls [0; 0; 1; 1; 2; 0]%nat) = [2; 3; 1; 1; 1; 4] /\
  (* lock-grant orders: threads 1 and 2 block behind thread 0 (1 first); when thread 0 returns,
     the machine lets thread 2 (the later arrival) take the free lock, or thread 0 barge in
     again with its next call while both still wait; first-come-first-served hand-off gives it to 1 *)
  snd (run_trace Guarded 2 g calls [0; 1; 2; 0; 0; 0; 0; 0; 0; 0; 0; 0; 0; 2; 1]%nat) =
    [2; 1; 1; 3; 4; 5; 4; 4; 5; 6; 6; 7; 0; 2; 1] /\
  snd (run_trace Guarded 2 g calls [0; 1; 2; 0; 0; 0; 0; 0; 0; 0; 0; 0; 0; 0; 1; 2]%nat) =
    [2; 1; 1; 3; 4; 5; 4; 4; 5; 6; 6; 7; 0; 2; 1; 1] /\
  snd (hrun_trace fifo_grant Guarded 2 g calls [0; 1; 2; 0; 0; 0; 0; 0; 0; 0; 0; 0; 0; 2; 1]%nat) =
    [2; 1; 1; 3; 4; 5; 4; 4; 5; 6; 6; 7; 0; 1; 3].
Proof.
  cbv zeta. split; [|split; [|split; [|split; [|split; [|split; [|split; [|split]]]]]]]; try (vm_compute; reflexivity).
  - intros t n Hin. destruct t as [|[|[|t]]]; cbn in Hin.
    + destruct Hin as [<-|[<-|[]]]; discriminate.
    + destruct Hin as [<-|[<-|[]]]; discriminate.
    + destruct Hin as [<-|[<-|[]]]; discriminate.
    + destruct t; cbn in Hin; contradiction.
  - apply Forall_forall. intros r Hr. apply repeat_spec in Hr. subst r.
    intros t Ht. cbn in Ht.
    destruct t as [|[|[|t]]]; cbn; try tauto. exfalso. Lia.lia.
Qed.

(* ---- the property at full strength: C10_logic_statement, C10_memory_statement and
   C10_full_statement are defined in model/ConcStatement.v ---------------------------- *)
Theorem C10_logic_guarded : C10_logic_statement Guarded.
Proof. exact logic_guarded. Qed.
Print Assumptions C10_logic_guarded.

(* PARTIAL with respect to the Go program: this is a theorem about the model's access
   events.  That these are all of the Go code's accesses rests on the translator's token
   tables (C10_cache_methods_agree) and on race-detector exploration; the Go memory model
   itself (the mutex rule encoded in [ordered]; data-race-free programs behave
   sequentially consistently, hence no torn reads and no 'concurrent map writes') is not
   formalised — the model's map operations are atomic by construction. *)
Theorem C10_memory_guarded_partial : C10_memory_statement Guarded.
Proof. exact memory_guarded. Qed.
Print Assumptions C10_memory_guarded_partial.

(* "runtime crashes": Go aborts with "fatal error: concurrent map writes / concurrent map read
   and map write" when two goroutines access one map, one of them writing, unordered.  No
   guarded run meets that condition on sc.packages or on any Schemas map; without the lock the
   model meets it (thread 0 inserts into a Schemas map while thread 1 reads it).  PARTIAL in the
   same sense as the theorem above: about the model's events *)
Theorem C10_guarded_no_concurrent_map_access_partial : forall pk k g calls sched, calls_ok calls ->
  ~ concurrent_map_access (events Guarded pk k g calls sched).
Proof. exact guarded_no_concurrent_map_access. Qed.
Print Assumptions C10_guarded_no_concurrent_map_access_partial.

Theorem C10_unguarded_concurrent_map_access :
  concurrent_map_access (events Unguarded (fun _ => 0) 3 [(1, [2]); (2, [])] [[1]; [1]] [0; 0; 0; 1; 1]%nat).
Proof. exact unguarded_concurrent_map_access. Qed.
Print Assumptions C10_unguarded_concurrent_map_access.

(* the locations of the statement: sc.packages and the Schemas map of each package are
   distinct (pk assigns type names to packages; here odd / even names), registered, and one
   To per RefSchema.  Two threads that work on different packages touch different Schemas
   maps but the same sc.packages and registered: without the lock the first race of the run
   below is on registered (positions 0 / 6); with the lock there is none *)
Example C10_memory_example :
  let pk : name -> N := fun n => N.modulo n 2 in
  let g : graph := [(1, [3]); (3, []); (2, [4]); (4, [])] in
  let sched := [0; 0; 0; 1; 1; 1; 0; 1; 0; 1; 0; 1; 0; 1; 0; 1]%nat in
  first_race (events Unguarded pk 2 g [[1]; [2]] sched) = Some (0, 6)%nat /\
  first_race (events Guarded pk 2 g [[1]; [2]] sched) = None /\
  firstn 9 (events Guarded pk 2 g [[1]; [2]] sched) =
    [EAcq 0; EWr 0 LReg; ERd 0 LPkgs; EWr 0 LPkgs; ERd 0 (LSchemas 1); EWr 0 (LSchemas 1); EWr 0 LReg;
     ERd 0 LPkgs; EWr 0 LPkgs]%nat.
Proof. cbv zeta. repeat split; vm_compute; reflexivity. Qed.

(* the full statement holds of the guarded discipline, which is the one the code follows *)
Theorem C10_full_for_code : C10_full_statement code_disc.
Proof. exact full_for_code. Qed.
Print Assumptions C10_full_for_code.

(* and fails without the lock, on both levels *)
Theorem C10_full_unguarded_refuted : ~ C10_logic_statement Unguarded /\ ~ C10_memory_statement Unguarded.
Proof. exact full_unguarded_refuted. Qed.
Print Assumptions C10_full_unguarded_refuted.

(* ---- without the lock the property fails ----------------------------------- *)
Theorem C10_unguarded_refuted :
  nth 1%nat (results (run Unguarded 3 w1_graph w1_calls w1_sched)) [] = [RUnlinked] /\
  result_solo 3 w1_graph 1 = ROk (UNode 1 [UNode 2 []]) /\
  results (run Unguarded 3 w1_graph [[1]] [0; 0; 0; 0; 0; 0; 0]%nat) = [[result_solo 3 w1_graph 1]].
Proof. exact unguarded_refuted_root. Qed.
Print Assumptions C10_unguarded_refuted.

Theorem C10_unguarded_refuted_nested :
  nth 1%nat (results (run Unguarded 3 w2_graph w2_calls w2_sched)) [] = [ROk (UNode 3 [UUnlinked 1])] /\
  result_solo 3 w2_graph 3 = ROk (UNode 3 [UNode 1 [UNode 2 []]]).
Proof. exact unguarded_refuted_nested. Qed.
Print Assumptions C10_unguarded_refuted_nested.

(* ---- two descriptors, one cache key: the property FAILS of the guarded code (live defect) ---- *)
(* SchemaCache is keyed by (package, descriptor path joined with "_"); the nested message M0.N1 and the
   top-level message M0_N1 share a key (ConcKey.v: descriptors and keys kept apart).  Same call, same
   universe, two schedules of the GUARDED machine, all calls complete, different results — whatever a
   lookup does with an entry registered for the other descriptor (serve it: /repo up to d286176;
   fail: the result is then an error for whichever comes second).  The witness is replayed on the real
   cache and codec on every run (run_conc collisionCases, both lock orders) and recorded as
   known: property=C10. *)
Theorem C10_result_depends_on_schedule_refuted : forall pol,
  exists key k g calls s1 s2 t,
    calls_ok calls /\
    all_done (krun pol key Guarded k g calls s1) = true /\
    all_done (krun pol key Guarded k g calls s2) = true /\
    nth t (results (krun pol key Guarded k g calls s1)) [] <> nth t (results (krun pol key Guarded k g calls s2)) [].
Proof. exact result_depends_on_schedule. Qed.
Print Assumptions C10_result_depends_on_schedule_refuted.

(* "each call returns what it returns alone" over type sets with shared keys: refuted *)
Theorem C10_keyed_statement_refuted : forall pol, ~ C10_keyed_statement pol Guarded.
Proof. exact keyed_statement_refuted. Qed.
Print Assumptions C10_keyed_statement_refuted.

(* the witness in full: M0.N1 { E3 r0 } = descriptor 2, M0_N1 {} = descriptor 3 with the key of 2 *)
Example C10_collision_witness :
  let run s := krun HitServe (key_of col_keys) Guarded 3 col_graph col_calls s in
  all_done (run sched_01) = true /\ all_done (run sched_10) = true /\
  results (run sched_01) = [[ROk (UNode 2 [UNode 4 []])]; [ROk (UNode 2 [UNode 4 []])]] /\
  results (run sched_10) = [[ROk (UNode 2 [])]; [ROk (UNode 2 [])]] /\
  kresult_solo HitServe (key_of col_keys) 3 col_graph 2 = ROk (UNode 2 [UNode 4 []]) /\
  kresult_solo HitServe (key_of col_keys) 3 col_graph 3 = ROk (UNode 2 []).
Proof. exact collision_witness_serve. Qed.

(* ---- ... and holds wherever no two descriptors share a key -------------------------------- *)
(* At an injective key the keyed machine IS the machine of Conc.v: same heap, lock, queue, program
   counters; map, registered list and the names in the results renamed by the key — for both
   treatments of a foreign hit (none occurs), both disciplines, all schedules.  So every theorem of
   this file about [run] is a theorem about the keyed machine on collision-free type sets: the
   exclusion of collisions is this explicit hypothesis, not a property of the model's type. *)
Theorem C10_keyed_machine_injective : forall key, key_injective key ->
  forall pol g d k calls sched,
    krun pol key d k g calls sched = kmapSt key (run d k g calls sched).
Proof. exact krun_injective. Qed.
Print Assumptions C10_keyed_machine_injective.

Theorem C10_keyed_results_collision_free_partial : forall key, key_injective key ->
  forall pol g k calls, calls_ok calls -> C10_keyed_results pol Guarded key k g calls.
Proof. exact keyed_results_injective. Qed.
Print Assumptions C10_keyed_results_collision_free_partial.

Example C10_keyed_injective_example :
  key_injective (fun n => n + 7) /\
  results (krun HitCheck (fun n => n + 7) Guarded 3 col_graph col_calls (sched_01 ++ [1; 1]%nat))
    = [[ROk (UNode 9 [UNode 11 []])]; [ROk (UNode 10 [])]].
Proof. split; [intros a b H; apply (N.add_cancel_r a b 7); exact H|vm_compute; reflexivity]. Qed.

(* ---- no deadlock on the cache's own lock: acquisitions are never nested --------------------- *)
(* The lock operations of every exported method of *SchemaCache, read off the regenerated token
   tables (calls into other methods of the table spliced in, deferred unlocks at the end), form a
   sequence of complete critical sections: the lock is never acquired — for reading or writing —
   by a call that already holds it.  Today: Schema = [Lock; Unlock]. *)
Theorem C10_lock_acquisitions_not_nested : lock_programs_flat ConcGen.cache_methods = true.
Proof. exact code_lock_programs_flat. Qed.
Print Assumptions C10_lock_acquisitions_not_nested.

(* why that is the condition: over a model of Go's sync.RWMutex (a goroutine blocked in Lock()
   holds back new readers; sync.Mutex = the write half) goroutines running such programs can
   always move on while any of them has an operation left — every schedule, any number of
   goroutines, any mix of read and write sections *)
Theorem C10_flat_lock_programs_no_deadlock : forall progs sched,
  forallb flat progs = true -> rw_deadlocked (rw_run progs sched) = false.
Proof. exact flat_no_deadlock. Qed.
Print Assumptions C10_flat_lock_programs_no_deadlock.

(* and a nested read acquisition deadlocks: a cache hit served by a fast path `built` (RLock) that
   calls an accessor `Package` (RLock again), while a miss reaches Lock() in between — after the
   schedule [0;1;0] no goroutine can ever move again; the token table of that shape is rejected by
   the check above (the seeded change C10-E; on the real code the goroutine rounds of run_conc
   report the blocked goroutines with a deadline) *)
Theorem C10_nested_rlock_deadlock_refuted :
  rw_deadlocked (rw_run nested_progs [0; 1; 0]%nat) = true /\
  (forall more, rw_run nested_progs ([0; 1; 0]%nat ++ more) = rw_run nested_progs [0; 1; 0]%nat) /\
  rw_finished (rw_run nested_progs [0; 0; 0; 0; 1; 1]%nat) = true.
Proof. exact nested_rlock_deadlocks. Qed.
Print Assumptions C10_nested_rlock_deadlock_refuted.

Example C10_nested_rlock_table_rejected :
  lock_programs_flat nested_rlock_table = false /\
  option_map (fun f => lock_program (lock_fuel ConcGen.cache_methods) ConcGen.cache_methods (snd f))
             (find_fn ConcGen.cache_methods "Schema") = Some (Some [LLock; LUnlock]).
Proof. split; [exact (proj2 nested_table_programs)|exact code_schema_program]. Qed.

(* ---- data-race freedom against an explicit happens-before ----------------------------------- *)
(* ConcHB.hb: the fragment of the Go memory model the modelled sites use, as an inductive relation on
   trace positions — sequenced-before (program order of one goroutine), synchronized-before for
   sync.Mutex (an Unlock before every later Lock return), transitive closure.  For all universes, call
   lists, schedules and package assignments, every pair of conflicting accesses of the guarded machine
   (maps, registered list, To fields; the callers' lock-free reads of the schema they were handed
   included) is related by it, and every To field is written once.  PARTIAL as before in one respect
   only: that these events are the Go code's accesses rests on the token tables, the census and the
   race-detector runs. *)
Theorem C10_drf_guarded_partial : C10_drf_statement Guarded.
Proof. exact guarded_drf. Qed.
Print Assumptions C10_drf_guarded_partial.

(* hb relates only earlier to later positions (so "concurrent" = not hb i j for i < j) *)
Theorem C10_hb_respects_trace_order : forall tr i j, hb tr i j -> (i < j)%nat.
Proof. exact hb_lt. Qed.
Print Assumptions C10_hb_respects_trace_order.

(* and it is not vacuous: the lock-free trace of the first refutation witness has two conflicting
   writes of SchemaCache.registered by different goroutines that hb does not relate *)
Theorem C10_unguarded_not_drf : ~ drf w1_trace.
Proof. exact unguarded_not_drf. Qed.
Print Assumptions C10_unguarded_not_drf.

(* ---- the token tables against the MACHINE (not against a typed-in table) --------------------- *)
(* static_tokens: the regenerated Go tokens of a function, callees of the tables spliced in, deferred
   unlock at the end.  probe_tokens: a run of the machine of Conc.v on a probe universe — the events of
   ConcRace.lstep_events / enter_events / fin_events (the functions the race theorems quantify over)
   rendered as tokens, and the hook reached after every step.  Equal token by token: a changed order
   of cache operations in the Go source, or a step function / event function of the model that does
   something else, breaks these.  (C10_cache_methods_agree above compares with a typed-in table and is
   kept as a change detector for the functions the probes do not run: SchemaSetFromFiles,
   buildEnumFieldSchema, messageProperties.) *)
Theorem C10_schema_tokens_are_machine_steps_error_path :
  (static_tokens ConcGen.cache_methods "Schema"%string ++ ["return"%string])%list = probe_tokens probe_failing 5.
Proof. exact schema_tokens_error_path. Qed.
Print Assumptions C10_schema_tokens_are_machine_steps_error_path.

Theorem C10_schema_tokens_are_machine_steps_ok_path :
  (without ["delete:Schemas"%string] (static_tokens ConcGen.cache_methods "Schema"%string) ++ ["return"%string])%list = probe_tokens probe_leaf 5.
Proof. exact schema_tokens_ok_path. Qed.
Print Assumptions C10_schema_tokens_are_machine_steps_ok_path.

(* a field of message type (buildMessageFieldSchema -> newRefPlaceholder -> refTo -> referencePackage,
   To, ref.linked) = the machine's steps from refto.lookup to ref.linked, up to the position of the two
   accesses of referencePackage relative to the refto.lookup hook (before it in Go, in the step after it
   in the machine: no hook separates them from the lookup, one critical section) *)
Theorem C10_field_tokens_are_machine_steps :
  without pkg_tokens field_static = without pkg_tokens nested_segment /\
  filter (fun t => in_strs t pkg_tokens) field_static = pkg_tokens /\
  filter (fun t => in_strs t pkg_tokens) nested_segment = pkg_tokens.
Proof. exact refto_tokens. Qed.
Print Assumptions C10_field_tokens_are_machine_steps.

(* the probes render the event traces of the race theorems *)
Theorem C10_probe_is_the_event_trace :
  as_events (probe_tokens probe_leaf 5) = probe_event_tokens probe_leaf 5 /\
  as_events (probe_tokens probe_failing 5) = probe_event_tokens probe_failing 5 /\
  as_events (probe_tokens probe_nested 9) = probe_event_tokens probe_nested 9.
Proof. exact probe_is_the_event_trace. Qed.
Print Assumptions C10_probe_is_the_event_trace.

(* ---- encode / decode on a shared cache: composed with the sequential codec models -------------- *)
(* encode_call / decode_call / query_call (ConcCodec.v) = CodecEnc.encode / CodecDec.decode_bytes /
   CodecDecQuery.decode_query applied to the
   schema environment reachable from the object the call was handed, in the heap AS IT IS WHEN THE WALK
   RUNS — any later point of any schedule, other goroutines building or rolling back.  For every
   universe, call list, schedule, continuation, depth, naming, per-descriptor schema function, message
   and document: the value is the one the same function yields on the type's own unfolding, which is
   the schema a call alone on a fresh cache returns (second theorem).  The step from the Go walk to
   "a function of these cells and the input" is the census (C10_lockfree_functions_write_nothing,
   C10_codec_walk_reads_frozen) and the oracle. *)
Theorem C10_codec_calls_return_solo_results : forall nm denote fmt any orc K k g calls sched t n c later,
  calls_ok calls -> In (t, n, c) (rets Guarded k g calls sched) ->
  let h := heap (s_sh (run Guarded k g calls (sched ++ later))) in
  (forall m, encode_call nm denote fmt any K h c n m = encode_solo nm denote fmt any K g n m) /\
  (forall doc, decode_call nm denote orc K h c n doc = decode_solo nm denote orc K g n doc) /\
  (forall kvs, query_call nm denote orc K h c n kvs = query_solo nm denote orc K g n kvs).
Proof. exact codec_calls_are_solo. Qed.
Print Assumptions C10_codec_calls_return_solo_results.

Theorem C10_solo_schema_is_the_types_unfolding : forall K g n,
  n <> unsupported -> good g n -> result_solo K g n = ROk (gunfold K g n).
Proof. exact solo_tree. Qed.
Print Assumptions C10_solo_schema_is_the_types_unfolding.

(* without the lock the composition gives a different value: on the second refutation witness the encoder
   model, applied to what thread 1 was handed, panics ("schema/value mismatch": the nested schema is a
   placeholder) where the call alone returns {"r0":{}} — the nil-dereference panics the lock-free
   mutations show on the real code *)
Theorem C10_unguarded_encode_refuted :
  let st := run Unguarded 3 ex_w2_graph ex_w2_calls ex_w2_sched in
  rets Unguarded 3 ex_w2_graph ex_w2_calls ex_w2_sched = [(1%nat, 3, 1%nat)] /\
  encode_call ex_nm ex_denote ex_fmt ex_any 3 (heap (s_sh st)) 1%nat 3 ex_msg = Panic "schema/value mismatch"%string /\
  encode_solo ex_nm ex_denote ex_fmt ex_any 3 ex_w2_graph 3 ex_msg = Ok [123; 34; 114; 48; 34; 58; 123; 125; 125].
Proof. exact unguarded_encode_differs. Qed.
Print Assumptions C10_unguarded_encode_refuted.

Example C10_guarded_encode_example :
  let sched := [0; 0; 0; 1; 1; 1; 1; 1; 0; 0; 0; 0; 0; 0; 1; 1; 1; 1; 1; 1; 1]%nat in
  let st := run Guarded 3 ex_w2_graph ex_w2_calls sched in
  In (1%nat, 3, 2%nat) (rets Guarded 3 ex_w2_graph ex_w2_calls sched) /\
  encode_call ex_nm ex_denote ex_fmt ex_any 3 (heap (s_sh st)) 2%nat 3 ex_msg = Ok [123; 34; 114; 48; 34; 58; 123; 125; 125].
Proof. exact guarded_encode_example. Qed.

(* ---- the lock-free part of codec calls as accesses to shared cells (from the census) ------------- *)
(* ConcWalk.walk_events t: what goroutine t's encode / decode / query-decode does outside Schema to cells
   reachable from long-lived objects or package-level variables — the reads in lf_read_fields and every
   write the census attributes to a lock-free function.  There is no synchronisation between the walks of
   different goroutines, so a conflicting pair would be a data race (or, with atomics, per-call state
   shared between calls).  On the regenerated census: none, for any two goroutines. *)
Theorem C10_codec_walks_conflict_free : forall t1 t2 e1 e2,
  In e1 (walk_events t1 ConcStateGen.lockfree_fns ConcStateGen.lf_read_fields ConcStateGen.state_writes) ->
  In e2 (walk_events t2 ConcStateGen.lockfree_fns ConcStateGen.lf_read_fields ConcStateGen.state_writes) ->
  ~ wconflict e1 e2.
Proof. exact code_walks_conflict_free. Qed.
Print Assumptions C10_codec_walks_conflict_free.

(* with the row of a nesting counter kept on the shared Codec (seeded C10-F) two decodes in flight conflict *)
Theorem C10_shared_counter_is_a_conflict :
  lf_writes_nothing ConcStateGen.lockfree_fns shared_counter_writes = false /\
  exists e1 e2,
    In e1 (walk_events 0%nat ConcStateGen.lockfree_fns ConcStateGen.lf_read_fields shared_counter_writes) /\
    In e2 (walk_events 1%nat ConcStateGen.lockfree_fns ConcStateGen.lf_read_fields shared_counter_writes) /\
    wconflict e1 e2.
Proof. exact shared_counter_conflicts. Qed.
Print Assumptions C10_shared_counter_is_a_conflict.

(* ---- what the claim check of /repo 0e6056c does guarantee on type sets with shared keys --------- *)
(* With HitCheck (the treatment the regenerated tables show the code to have) a call for descriptor n is
   never handed an object registered for ANOTHER descriptor — whatever the key function (collisions
   included), the discipline, the schedule: either the call fails or the object is its own.  Serving what
   is found (the code before 0e6056c) hands thread 1 of the witness the object of the other descriptor. *)
Theorem C10_claim_never_hands_out_foreign_object : forall key d k g calls sched t n c,
  In (t, n, c) (krets HitCheck key d k g calls sched) ->
  src_is (heap (s_sh (krun HitCheck key d k g calls sched))) c n.
Proof. exact claim_hands_out_own_object. Qed.
Print Assumptions C10_claim_never_hands_out_foreign_object.

Theorem C10_code_has_the_claim_check : code_hitpol = HitCheck.
Proof. vm_compute. reflexivity. Qed.
Print Assumptions C10_code_has_the_claim_check.

Example C10_serve_hands_out_foreign_object :
  let key := key_of [(3, 2)] in
  let g := [(1, []); (2, [4]); (3, []); (4, [])] in
  let sched := (repeat 0 8 ++ repeat 1 3)%nat in
  In (1%nat, 3, 0%nat) (krets HitServe key Guarded 3 g [[2]; [3]] sched) /\
  src_is (heap (s_sh (krun HitServe key Guarded 3 g [[2]; [3]] sched))) 0%nat 2.
Proof. exact serve_hands_out_foreign_object. Qed.

(* ---- the property as a whole ------------------------------------------------------------------ *)
(* ConcProperty.C10_property pol d: "each call returns what it returns alone" over EVERY key function (type
   sets in which two descriptors share a cache key included), the machine-level statement, and DRF against the
   inductive happens-before.  REFUTED for the code as it is (treatment of a foreign hit and discipline both
   computed from the regenerated tables), PROVED with the first clause restricted to injective keys. *)
Theorem C10_full_refuted : ~ C10_property code_hitpol code_disc.
Proof. exact property_refuted_for_code. Qed.
Print Assumptions C10_full_refuted.

Theorem C10_full_partial : C10_property_collision_free code_hitpol code_disc.
Proof. exact property_collision_free_for_code. Qed.
Print Assumptions C10_full_partial.

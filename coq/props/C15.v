(* C15 — schema sets survive export to the source-API form and re-import.
   Only statements, closed by [exact lemma], with Print Assumptions beneath. *)
From Coq Require Import String List NArith ZArith Bool Permutation.
From J5V.lib Require Import Outcome.
From J5V.model Require Import ReflectDesc ReflectSchema Reflect ReflectOwn ExportForm Export ExportFields ExportApi.
From J5V.model Require ReflectCorr ExportCorr.
From J5V.gen Require ReflectGen.
From J5V.proofs Require Import ReflectProofs ExportProofs ExportKindProofs ReflectInvProofs ReflectWeakProofs ExportApiProofs.
Import ListNotations.

Definition entries_of (st : sset) : list (ref * root) :=
  flat_map (fun ke => match snd ke with Linked r => [(fst ke, r)] | Placeholder => [] end) st.

(* The property at full strength: for EVERY descriptor set, services / topics of the image (addStructure
   runs over them first), list of packages the image names and order
   in which the selected files are visited, if structure.APIFromImage succeeds with the API [api]
   (packages and sub-packages holding terms of the source form) then PackageSetFromSourceAPI on it
   succeeds, every schema of every package / sub-package is found again under the name it is filed
   under and exports to exactly the same form, nothing else is in the rebuilt set and every reference
   is resolved. *)
Definition C15_full_statement : Prop :=
  forall (D : desc) (svcs : list svcd) (W : list str) (fs : list filed) (api : xapi),
    api_from_image D svcs W fs = Ok api ->
    exists S', import_packages api = ROk S' /\
      (forall k x, In (k, x) (api_entries api) -> exists r', lookup S' k = Some (Linked r') /\ export_root r' = x) /\
      (forall k, ~ In k (map fst (api_entries api)) -> lookup S' k = None) /\
      refs_resolved S' = true.

(* ---- field by field: importing an exported field yields a field that exports to the same form;
   every rule, list rule, ext, flatten flag, any-membership list is kept (the tables of copied members
   are read from the Go composite literals, gen/ReflectGen.v) *)
Theorem C15_field_inverse : forall f, field_importable f = true ->
  exists f', import_field (export_field f) = ROk f' /\ export_field f' = export_field f.
Proof. exact import_export_field. Qed.
Print Assumptions C15_field_inverse.

(* objects (entity marker, any-membership), oneofs, enums (prefix, option info, info field definitions) *)
Theorem C15_root_inverse : forall r, root_importable r = true ->
  exists r', import_root (export_root r) = ROk r' /\ export_root r' = export_root r.
Proof. exact import_export_root. Qed.
Print Assumptions C15_root_inverse.

(* the export loses nothing but the proto Kind / well-known type name of scalars: it is the plain
   embedding [form_of_root] of the reader's objects into the source form (ExportForm.v), which looks
   nothing up in the copy tables *)
Theorem C15_export_is_erasure : forall r, export_root r = form_of_root r.
Proof. exact export_root_form. Qed.
Print Assumptions C15_export_is_erasure.

(* "no rule, enum option info, entity marker, any-membership or list rule is lost", against the code's own
   list: every field of every message of j5/schema/v1/schema.proto (the structs of schema.pb.go, regenerated
   from /repo on every run) is either built member by member by the export AND read by the import, or
   carried as one value (rules / list rules / ext / entity payloads, whole scalar fields), or never produced
   (inline alternatives), or deliberately dropped by name (ObjectField.entity; MapField.key_schema by the
   import): a field added to schema.proto, an export line or an import read that disappears breaks this *)
Theorem C15_every_field_of_schema_proto_is_accounted_for :
  classes_cover = true /\ export_covers = true /\ import_covers = true /\ dropped_exact = true /\
  export_builds_only_built = true.
Proof. exact export_import_cover_schema_proto. Qed.
Print Assumptions C15_every_field_of_schema_proto_is_accounted_for.

(* where nothing is lost the import gives back the very same object: enums *)
Theorem C15_enum_exact : forall n d p o i,
  import_root (export_root (REnum n d p o i)) = ROk (REnum n d p o i).
Proof. exact import_export_enum. Qed.
Print Assumptions C15_enum_exact.

(* the source form can say more than the export ever does: an inline (or unset) schema of an
   enum / object / oneof field. The import cannot link it (the field gets AsRef() with To == nil and
   assertRefsLink rejects it), so it is outside what can be re-imported; the export never produces it *)
Theorem C15_inline_not_importable : forall rules lr ext,
  (exists c, import_field (XEnum XInline rules lr ext) = RErr c) /\
  (exists c, import_field (XEnum XUnset rules lr ext) = RErr c).
Proof. exact import_inline_rejected. Qed.
Print Assumptions C15_inline_not_importable.

(* ---- lifted over the reference environment, for any set with distinct names, formats the import
   knows and no dangling reference (C15_reflected_roundtrip derives these three facts for reflected
   sets; they are also checked on every reflected set of the correspondence stream) *)
Theorem C15_roundtrip_partial : forall S : list (ref * root),
  NoDup (map fst S) -> all_importable S -> closed S ->
  exists S', import_api (export_entries S) = ROk S' /\
    (forall k r, In (k, r) S -> exists r', lookup S' k = Some (Linked r') /\ export_root r' = export_root r) /\
    (forall k, ~ In k (map fst S) -> lookup S' k = None) /\
    refs_resolved S' = true.
Proof. exact export_import_roundtrip. Qed.
Print Assumptions C15_roundtrip_partial.

Theorem C15_inline_objects_and_oneofs_not_importable :
  (forall fl rules ext, (exists c, import_field (XObject XInline fl rules ext) = RErr c) /\
                        (exists c, import_field (XObject XUnset fl rules ext) = RErr c)) /\
  (forall rules lr ext, (exists c, import_field (XOneof XInline rules lr ext) = RErr c) /\
                        (exists c, import_field (XOneof XUnset rules lr ext) = RErr c)).
Proof. exact import_inline_rejected_all. Qed.
Print Assumptions C15_inline_objects_and_oneofs_not_importable.

(* ---- the conclusion of the full statement over the flat list of exported schemas ([export_set]), for
   EVERY descriptor set: no hypothesis (the former hypothesis wf_keys, distinct split names, is gone: what
   the round trip needs of a reflected set, distinct keys, no placeholder, importable scalar formats,
   closed references, is proved of every successful reflection in ReflectWeakProofs.v). Every
   successful reflection exports, re-imports and re-exports to exactly the same form, every reference
   resolved. C15_full below is the same through the package structure of the API. *)
Theorem C15_reflected_roundtrip : forall D fs S,
  reflect D fs = Ok S ->
  exists X, export_set S = Ok X /\
  exists S', import_api X = ROk S' /\
    (forall k x, In (k, x) X -> exists r', lookup S' k = Some (Linked r') /\ export_root r' = x) /\
    (forall k, ~ In k (map fst X) -> lookup S' k = None) /\
    refs_resolved S' = true.
Proof. exact reflect_export_import_roundtrip_any. Qed.
Print Assumptions C15_reflected_roundtrip.

(* "every reference resolved", with kinds: [refs_resolved] asks that a reference names a linked entry; the round
   trip also cannot change what KIND of schema it leads to. Kinds and (reference, expected kind) pairs are read
   off the exported form (object field -> object, oneof field -> oneof, enum field -> enum). If every reference
   of the exported set leads to a root of the expected kind, so does every reference of the rebuilt set.
   (That a REFLECTED set is kind-correct is the business of C18: paths resolve to fields of the matching kind.) *)
Theorem C15_roundtrip_keeps_reference_kinds : forall S : list (ref * root),
  NoDup (map fst S) -> all_importable S -> closed S -> (forall k r, In (k, r) S -> kinded_in S r) ->
  exists S', import_api (export_entries S) = ROk S' /\ refs_resolved S' = true /\
    forall k r', lookup S' k = Some (Linked r') -> kinded_st S' r'.
Proof. exact export_import_keeps_kinds. Qed.
Print Assumptions C15_roundtrip_keeps_reference_kinds.

(* ---- the package bookkeeping of APIFromImage (getSchemaSet / getPackage / getSubPackage /
   splitPackageParts) and the names PackageSetFromSourceAPI rebuilds ("%s.%s"): splitting a package
   name and joining it again is the identity *)
Theorem C15_split_then_join_is_identity : forall pkg id,
  split_package pkg = ROk id -> bucket_name id = pkg.
Proof. exact split_package_join. Qed.
Print Assumptions C15_split_then_join_is_identity.

(* filing exported schemas with distinct keys into packages / sub-packages and reading the API back
   yields exactly those (key, schema) pairs, each once *)
Theorem C15_routing_keeps_every_entry : forall W X api,
  route_all (api_init W) X = ROk api -> NoDup (map fst X) -> Permutation (api_entries api) X.
Proof. exact route_all_entries. Qed.
Print Assumptions C15_routing_keeps_every_entry.

(* ---- THE FULL STATEMENT, proved: no hypothesis on the descriptor set, the services, the listed
   packages or the order in which the files are visited *)
Theorem C15_full : C15_full_statement.
Proof. exact api_roundtrip. Qed.
Print Assumptions C15_full.

Theorem C15_api_roundtrip : forall D svcs W fs api,
  api_from_image D svcs W fs = Ok api ->
  exists S', import_packages api = ROk S' /\
    (forall k x, In (k, x) (api_entries api) -> exists r', lookup S' k = Some (Linked r') /\ export_root r' = x) /\
    (forall k, ~ In k (map fst (api_entries api)) -> lookup S' k = None) /\
    refs_resolved S' = true.
Proof. exact api_roundtrip. Qed.
Print Assumptions C15_api_roundtrip.

(* and APIFromImage does succeed when addStructure accepts the services and topics of the image, the
   reflection succeeds and every package name splits *)
Theorem C15_api_from_image_ok : forall D svcs W fs S ow apiS,
  add_structure W (api_init W) svcs = ROk apiS ->
  ReflectNames.o_reflect_checked D fs = Ok (S, ow) -> packages_split S -> exists api, api_from_image D svcs W fs = Ok api.
Proof. exact api_from_image_ok. Qed.
Print Assumptions C15_api_from_image_ok.

(* addStructure files no schema: after it the API holds the listed packages with (empty) sub-packages
   for their services and topics, which is all the schema round trip sees of it *)
Theorem C15_structure_files_no_schema : forall W svcs apiS,
  add_structure W (api_init W) svcs = ROk apiS -> api_entries apiS = [].
Proof. exact structure_files_no_schema. Qed.
Print Assumptions C15_structure_files_no_schema.

(* ---- the generated copy tables carry, for every member of every composite literal of the export and
   import functions, the source text of its value; each is the member the model copies (Export.v
   expected_export / expected_import), every member an export literal sets is a copied member or a
   nested literal (export_table_complete: a new exported field breaks it), every copied member is covered, the Kind set per scalar site and
   the intKinds / floatKinds maps are the model's *)
Theorem C15_copy_lines_read_the_member_the_model_copies :
  export_table_complete ReflectGen.export_rhs = true /\
  rhs_table_ok (fun _ => expected_export) ReflectGen.export_rhs = true /\
  rhs_table_ok expected_import ReflectGen.import_rhs = true /\
  map (fun fmt => (int_format_name fmt ++ "=>" ++ match int_kind fmt with Some k => kind_go_name k | None => "" end)%string)
      [1%N; 2%N; 3%N; 4%N] = ReflectGen.intKinds /\
  map (fun fmt => (float_format_name fmt ++ "=>" ++ match float_kind fmt with Some k => kind_go_name k | None => "" end)%string)
      [1%N; 2%N] = ReflectGen.floatKinds.
Proof. exact (conj export_rhs_complete (conj export_rhs_ok (conj import_rhs_ok (conj (proj1 int_kinds_agree) (proj1 float_kinds_agree))))). Qed.
Print Assumptions C15_copy_lines_read_the_member_the_model_copies.

(* buildSchemas ranges over Go maps: the result does not depend on the order *)
Theorem C15_order_independent : forall e1 e2,
  Permutation e1 e2 -> NoDup (map fst e1) -> xall_importable e1 -> xclosed e1 ->
  exists st1 st2, import_api e1 = ROk st1 /\ import_api e2 = ROk st2 /\ forall k, lookup st1 k = lookup st2 k.
Proof. exact import_api_order_independent. Qed.
Print Assumptions C15_order_independent.

(* ---- non-vacuity: a recursive object with an enum field (option info, info fields), an any field
   with list rules, a oneof field with list rules, an entity marker and any-membership *)
Definition ex_set : list (ref * root) :=
  let p := bytes "p.v1" in
  [ ((p, bytes "Node"),
     RObject (bytes "Node") (bytes "a node") (Some (bytes "node", 2%N)) [bytes "membership"]
       [Prop_ (bytes "next") [1%N] false false [] (FObject (p, bytes "Node") false None None);
        Prop_ (bytes "kind") [2%N] true false [] (FEnum (p, bytes "Kind") (Some ([bytes "A"], [])) (Some 7%N) None);
        Prop_ (bytes "extra") [3%N] false false [] (FAny true [bytes "p.v1.Node"] (Some 9%N));
        Prop_ (bytes "choice") [4%N] false false [] (FOneof (p, bytes "Choice") None (Some 11%N) None);
        Prop_ (bytes "n") [5%N] false true [] (FArray (FScalar (Some (KInt32, [])) (PInteger 1 (Some (ZBounds (Some 0%Z) None None None)) (Some 3%N))) (Some (Some 1%N, None, None)) None)]);
    ((p, bytes "Kind"),
     REnum (bytes "Kind") [] (bytes "KIND_") [EnumOption (bytes "UNSPECIFIED") 0 [] None; EnumOption (bytes "A") 1 [] (Some [(bytes "label", bytes "a")])]
           [(bytes "label", bytes "Label", [])]);
    ((p, bytes "Choice"), ROneof (bytes "Choice") [] [Prop_ (bytes "node") [1%N] false false [] (FObject (p, bytes "Node") false None None)]) ].

Example C15_example :
  NoDup (map fst ex_set) /\ all_importable ex_set /\ closed ex_set /\
  exists S', import_api (export_entries ex_set) = ROk S' /\ length S' = 3%nat.
Proof.
  split; [|split; [|split]].
  - repeat constructor; cbn; intuition discriminate.
  - intros k r H. cbn [ex_set In] in H. destruct H as [H|[H|[H|[]]]]; inversion H; subst; vm_compute; reflexivity.
  - intros k H. vm_compute in H. repeat (destruct H as [H|H]; [subst k; vm_compute; auto 10|]). destruct H.
  - eexists. split; vm_compute; reflexivity.
Qed.

(* ---- non-vacuity of the full statement at the API level: a self-recursive and a mutually recursive message
   with a flattened field and an enum, in a listed package p.v1: APIFromImage succeeds with three schemas,
   PackageSetFromSourceAPI rebuilds them, and the rebuilt set re-exports to exactly the first export *)
Definition api_ex_fopts := FOpts None None None None.
Definition api_ex_desc : desc :=
  {| d_msgs := [
       Msg (bytes "p.v1.Node") (bytes "p.v1") [bytes "Node"]
         [Fld (bytes "next") (bytes "next") 1 KMessage CSingle None (TMsg (bytes "p.v1.Node")) api_ex_fopts [];
          Fld (bytes "peer") (bytes "peer") 2 KMessage CRepeated None (TMsg (bytes "p.v1.Peer")) api_ex_fopts [];
          Fld (bytes "kind") (bytes "kind") 4 KEnum CSingle None (TEnum (bytes "p.v1.Kind")) api_ex_fopts []]
         [] None None [];
       Msg (bytes "p.v1.Peer") (bytes "p.v1") [bytes "Peer"]
         [Fld (bytes "node") (bytes "node") 1 KMessage CSingle None (TMsg (bytes "p.v1.Node"))
              (FOpts None None (Some (JObject true)) None) []]
         [] None None []];
     d_enums := [Enum (bytes "p.v1.Kind") (bytes "p.v1") [bytes "Kind"]
                   [EnumVal (bytes "KIND_UNSPECIFIED") 0 None []; EnumVal (bytes "KIND_A") 1 None []] None []];
     d_files := [File (bytes "p/v1/a.proto") (bytes "p.v1") [bytes "p.v1.Node"; bytes "p.v1.Peer"] [bytes "p.v1.Kind"]] |}.
Definition api_ex_api : xapi :=
  match api_from_image api_ex_desc [] [bytes "p.v1"] (d_files api_ex_desc) with Ok a => a | _ => [] end.
Definition api_ex_set : sset := match import_packages api_ex_api with ROk s => s | RErr _ => [] end.

Example C15_example_api :
  api_from_image api_ex_desc [] [bytes "p.v1"] (d_files api_ex_desc) = Ok api_ex_api /\
  length (api_entries api_ex_api) = 3%nat /\
  import_packages api_ex_api = ROk api_ex_set /\ length api_ex_set = 3%nat /\
  forallb (fun kx => match lookup api_ex_set (fst kx) with
                     | Some (Linked r') => ExportCorr.xroot_eqb (export_root r') (snd kx)
                     | _ => false
                     end) (api_entries api_ex_api) = true /\
  refs_resolved api_ex_set = true.
Proof. repeat split; vm_compute; reflexivity. Qed.

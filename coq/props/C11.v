(* C11 — the BCL parser is total and every diagnostic points inside the file.
   Only statements, closed by [exact lemma], with Print Assumptions beneath. *)
From Coq Require Import String List NArith ZArith Bool.
From J5V.lib Require Import Text Outcome.
From J5V.model Require Import BclLexer BclParser BclErrpos BclErrposText BclErrposGen BclToFile BclFmt.
From J5V.proofs Require Import BclPosProofs BclLexerProofs BclParserProofs BclErrposProofs BclGenProofs BclBytesProofs BclParseBytesProofs BclToFileProofs BclFragWfProofs BclDepthProofs BclErrposTextProofs BclPanicSitesProofs BclErrposGenProofs.
Import ListNotations.

(* [valid_pos data p]: p is the (line, column) of a rune of the input or of its end.
   [inside data p]: 0 <= line < #lines, 0 <= column <= #runes of that line, lines as
   strings.Split(input, "\n") gives them.  [diag_wf] / [node_wf] / [tok_wf]: both ends
   valid and start not after end. *)

(* the property, at full strength, over the rune slice the lexer works on *)
Definition C11_full_statement : Prop :=
  forall (data : list N) (ff : bool),
    (exists p, parse_runes ff data = Ok p /\
       ((exists body, ptree p = Some body) /\ pdiags p = [] \/ pdiags p <> []) /\
       Forall (diag_wf data) (pdiags p) /\
       (forall body, ptree p = Some body -> Forall (node_wf data) (flat_map stmt_nodes body))) /\
    (match parse_runes true data, parse_runes false data with
     | Ok p1, Ok p2 => hd_error (pdiags p1) = hd_error (pdiags p2)
     | _, _ => False
     end) /\
    (forall lines context ds, is_panic (human_all lines context ds) = false).

(* the lexer terminates within its fuel and its tokens are well-formed, strictly ordered *)
Theorem C11_lexer_total_and_ordered : forall ff data,
  match all_tokens ff data with
  | LexOk ts => schain data pos0 ts
  | LexErrs ds => ds <> [] /\ Forall (diag_wf data) ds
  | LexFuel => False
  end.
Proof. exact all_tokens_ok. Qed.
Print Assumptions C11_lexer_total_and_ordered.

(* never a panic, never out of fuel: ParseFile returns *)
Theorem C11_parse_total : forall ff data, exists p, parse_runes ff data = Ok p.
Proof. exact parse_runes_total. Qed.
Print Assumptions C11_parse_total.

(* a syntax tree without diagnostics, or a non-empty list of diagnostics *)
Theorem C11_tree_or_diagnostics : forall ff data p, parse_runes ff data = Ok p ->
  (exists body, ptree p = Some body) /\ pdiags p = [] \/ pdiags p <> [].
Proof. exact parse_runes_tree_or_diags. Qed.
Print Assumptions C11_tree_or_diagnostics.

(* every diagnostic and every tree node: both ends are positions of the input, start <= end *)
Theorem C11_positions_valid : forall ff data p, parse_runes ff data = Ok p ->
  Forall (diag_wf data) (pdiags p) /\
  forall body, ptree p = Some body -> Forall (node_wf data) (flat_map stmt_nodes body).
Proof. exact parse_runes_positions. Qed.
Print Assumptions C11_positions_valid.

(* ... and a position of the input is inside it, in lines and columns *)
Theorem C11_valid_is_inside : forall data p, valid_pos data p -> inside data p.
Proof. exact valid_inside. Qed.
Print Assumptions C11_valid_is_inside.

(* ... also when the input is taken as the Go string it is: lines are strings.Split(input, "\n")
   on bytes, the column is at most the number of runes of that line ([]rune conversion of the
   whole input and of a single line agree, invalid UTF-8 included) *)
Theorem C11_valid_is_inside_bytes : forall input p,
  valid_pos (utf8_decode input) p -> inside_bytes input p.
Proof. exact valid_inside_bytes. Qed.
Print Assumptions C11_valid_is_inside_bytes.

(* collect-all mode reports the fail-fast diagnostic first (and both modes accept the same inputs).
   A diagnostic is its range and its message (diag: dstart, dend, dmsg — the bytes of Err.Error(),
   formatted from the texts, formats and expected token sets the translator reads from the code) *)
Theorem C11_collect_first_is_failfast : forall data,
  match parse_runes true data, parse_runes false data with
  | Ok p1, Ok p2 => hd_error (pdiags p1) = hd_error (pdiags p2)
  | _, _ => False
  end.
Proof. exact parse_runes_modes. Qed.
Print Assumptions C11_collect_first_is_failfast.

(* rendering never fails, for any diagnostics against any source *)
Theorem C11_render_total : forall lines context ds, is_panic (human_all lines context ds) = false.
Proof. exact human_all_no_panic. Qed.
Print Assumptions C11_render_total.

(* ... and the text itself: ErrorsWithSource.HumanString(context) as bytes (Position / LIT lines, context lines
   with %03d numbers and tabs widened, the caret line, Message, the ----- separator), built from the skeleton's
   result, is always produced — for any diagnostics against any source bytes *)
Theorem C11_render_text_total : forall input context ds, exists t, human_text_bytes input context ds = Ok t.
Proof. exact human_text_bytes_ok. Qed.
Print Assumptions C11_render_text_total.

(* diagnostics of ANY producer (model/BclErrposGen.v): err.Pos nil, a position with a file name (AddSourceFile), a
   context path (err.Ctx), err.Err nil — HumanString's text is always produced, against any source bytes; and on the
   parser's own diagnostics (position without file name, no context, a message) it is the text above *)
Theorem C11_render_general_total : forall input context gs, exists t, human_text_g_bytes input context gs = Ok t.
Proof. exact human_text_g_bytes_ok. Qed.
Print Assumptions C11_render_general_total.

Theorem C11_render_general_extends_parser : forall input context ds,
  human_text_g_bytes input context (map gdiag_of ds) = human_text_bytes input context ds.
Proof. exact human_text_g_bytes_parser. Qed.
Print Assumptions C11_render_general_extends_parser.

(* non-vacuity: a nil position; a file name with an empty start; a file name, a position in line 2, a context path
   and no message *)
Example C11_render_general_example :
  let src := [97;10;9;98;32;61;10]%N in      (* a / (tab)b = *)
  let f := [120;46;106;53;115]%N in          (* x.j5s *)
  human_text_g_bytes src 1 [mkG None None (Some [109%N]);
                            mkG (Some (Some f, (-1, -1), (-1, -1))%Z) None None;
                            mkG (Some (Some f, (1, 1), (1, 2))%Z) (Some [[112%N]; [113%N]]) None]
  = Ok (bytes_of "<no position information>" ++ [10%N] ++ bytes_of "Message: m" ++ [10;10]%N ++ bytes_of "-----" ++ [10%N]
        ++ bytes_of "Position: x.j5s:" ++ [10;10]%N ++ bytes_of "-----" ++ [10%N]
        ++ bytes_of "Position: x.j5s:2:2" ++ [10%N] ++ bytes_of "LIT: 1 1" ++ [10%N]
        ++ bytes_of "  > 001: a" ++ [10%N] ++ bytes_of "  > 002:   b =" ++ [10%N] ++ bytes_of ">>>>>>>:   ^" ++ [10%N]
        ++ bytes_of "Context: p.q" ++ [10%N]).
Proof. vm_compute. reflexivity. Qed.

Theorem C11_full : C11_full_statement.
Proof.
  intros data ff. split; [|split].
  - destruct (parse_runes_total ff data) as [p Hp]. exists p. split; [exact Hp|]. split.
    + exact (parse_runes_tree_or_diags ff data p Hp).
    + exact (parse_runes_positions ff data p Hp).
  - exact (parse_runes_modes data).
  - exact human_all_no_panic.
Qed.
Print Assumptions C11_full.

(* ---- the same on the Go string ------------------------------------------------------------------- *)
(* the property at full strength over ALL byte strings (ParseFile(string(input)), invalid UTF-8 included;
   the lexer works on []rune(input) = utf8_decode input): totality, tree or diagnostics, every diagnostic
   and node position inside the input read as strings.Split(input, "\n") on bytes (0 <= line < #lines,
   0 <= column <= #runes of that byte line) with start <= end, mode agreement, and rendering against the
   byte lines never fails *)
Definition C11_full_statement_bytes : Prop :=
  forall (input : list N) (ff : bool),
    (exists p, parse_file input ff = Ok p /\
       ((exists body, ptree p = Some body) /\ pdiags p = [] \/ pdiags p <> []) /\
       Forall (diag_inside_bytes input) (pdiags p) /\
       (forall body, ptree p = Some body -> Forall (node_inside_bytes input) (flat_map stmt_nodes body))) /\
    (match parse_file input true, parse_file input false with
     | Ok p1, Ok p2 => hd_error (pdiags p1) = hd_error (pdiags p2)
     | _, _ => False
     end) /\
    (forall context ds, is_panic (human_bytes input context ds) = false).

Theorem C11_full_bytes : C11_full_statement_bytes.
Proof. exact parse_file_full_bytes. Qed.
Print Assumptions C11_full_bytes.

(* where Go indexes bytes with a rune column (humanString's errLine[:column]): a column inside the
   input never exceeds the BYTE length of its line either *)
Theorem C11_column_within_line_bytes : forall input p, inside_bytes input p ->
  exists l, nth_error (split_on 10 input) (Z.to_nat (fst p)) = Some l /\ (snd p <= Z.of_nat (length l))%Z.
Proof. exact inside_bytes_col_le_bytes. Qed.
Print Assumptions C11_column_within_line_bytes.

(* ... and it is the position of a byte offset of the Go string: of a byte prefix ending at a rune
   boundary of []rune(input) (P pre = the (line, column) reached after the runes pre) *)
Theorem C11_position_is_byte_offset : forall input p, valid_pos (utf8_decode input) p ->
  exists bpre bx, input = bpre ++ bx /\ p = P (utf8_decode bpre).
Proof. exact valid_pos_byte_offset. Qed.
Print Assumptions C11_position_is_byte_offset.

(* fragmentsToFile's only index expression, fragments[len(fragments)-1], is in bounds: the function
   with that index as an explicit Panic site returns exactly what the model's fragments_to_file
   returns (whose `last ... None` arm is therefore dead) *)
Theorem C11_to_file_index_in_bounds : forall fs, fragments_to_file_go fs = Ok (fragments_to_file fs).
Proof. exact fragments_to_file_go_ok. Qed.
Print Assumptions C11_to_file_index_in_bounds.

(* the recursion of popValue (the only recursive routine of lexer, walker, fragmentsToFile, humanString) is
   bounded: every array value of every file the walker accepts nests at most maxValueDepth deep, and the
   constant of the code lies between 16 and 100000 (proofs/BclDepthProofs.v also evaluates the guard of the
   code against the model's pop_value around the constant and the whole parser exactly at it) *)
Theorem C11_array_nesting_bounded : forall data fs, collect_fragments data = Ok fs ->
  Forall (fun f => match f with FAssign a => (vdepth (avalue a) <= max_value_depth)%N | _ => True end) fs.
Proof. exact accepted_values_nest_within_bound. Qed.
Print Assumptions C11_array_nesting_bounded.

Theorem C11_nesting_bound_in_range :
  N.leb 16 max_value_depth && N.leb max_value_depth 100000 = true /\ Z.of_N max_value_depth = J5V.gen.BclDepthGen.max_value_depth.
Proof. exact max_value_depth_in_range. Qed.
Print Assumptions C11_nesting_bound_in_range.

(* the guard of the code (gen/BclDepthGen.pop_value_guard: `ww.depth >= maxValueDepth` as a GoExpr term, read on every
   run) decides as the model's pop_value does at the depths around the constant, and the model parses exactly
   maxValueDepth nested brackets and answers one more with the nesting diagnostic at that bracket *)
Theorem C11_nesting_guard_is_the_code :
  forallb (fun d => Bool.eqb (too_deep_at (pop_value 4 d (mkW [lb 0; rb 1] None)) 0) (guard_at d))
    [0; 1; max_value_depth - 2; max_value_depth - 1; max_value_depth; max_value_depth + 1; max_value_depth + 2; 2 * max_value_depth]%N = true /\
  guard_at (max_value_depth - 1) = false /\ guard_at max_value_depth = true.
Proof. exact pop_value_guard_agrees. Qed.
Print Assumptions C11_nesting_guard_is_the_code.

Theorem C11_model_at_the_nesting_bound :
  let n := N.to_nat max_value_depth in
  parse_summary true (nest_src n) = Some (true, []) /\
  parse_summary true (nest_src (S n)) =
    Some (false, [((0, 4 + Z.of_N max_value_depth), (0, 4 + Z.of_N max_value_depth))%Z]).
Proof. exact max_value_depth_boundary. Qed.
Print Assumptions C11_model_at_the_nesting_bound.

(* every expression of the nine anchored files that can panic by itself (index, slice, single-value type assertion,
   integer division, explicit panic: 39 sites, enumerated by the translator on every run) is in the reviewed list,
   where each has its cover: an explicit Panic arm of the model excluded by a theorem above (8 sites), the enclosing
   guard, a map read, a loop index, package initialisation, or a function outside the ParseFile / Fmt / HumanString paths *)
Theorem C11_panic_capable_sites_reviewed : map fst reviewed_sites = J5V.gen.BclIndexGen.panic_capable_sites.
Proof. exact panic_capable_sites_reviewed. Qed.
Print Assumptions C11_panic_capable_sites_reviewed.

(* the byte-level entry point is the rune-level one after []rune(input) *)
Theorem C11_parse_file_is_parse_runes : forall input ff,
  parse_file input ff = parse_runes ff (utf8_decode input).
Proof. reflexivity. Qed.
Print Assumptions C11_parse_file_is_parse_runes.

(* non-vacuity: an accepted file with a nested block and a trailing comment on a brace-less header
   (the shape of finding 10), an input with two errors in collect-all mode, and a multi-byte line end *)
Example C11_example_accept :
  let src := [97;32;123;10;32;98;32;99;32;47;47;32;120;10;125;10]%N in   (* a { / b c // x / } *)
  exists body, parse_file src true = Ok (mkP (Some body) []) /\
    Forall (node_wf (utf8_decode src)) (flat_map stmt_nodes body) /\ length (flat_map stmt_nodes body) = 14%nat.
Proof.
  cbv zeta.
  pose proof (parse_runes_positions true (utf8_decode [97;32;123;10;32;98;32;99;32;47;47;32;120;10;125;10]%N)) as H.
  unfold parse_file.
  remember (parse_runes true (utf8_decode [97;32;123;10;32;98;32;99;32;47;47;32;120;10;125;10]%N)) as r eqn:E.
  vm_compute in E. rewrite E in H |- *.
  eexists. split; [reflexivity|]. split; [|vm_compute; reflexivity].
  specialize (H _ eq_refl). apply H. reflexivity.
Qed.

Example C11_example_modes :
  let src := [120;32;61;32;35;10;121;32;61;32;34;195;169;10]%N in   (* x = # / y = (quote) e-acute, newline: two lexer errors *)
  parse_file src true = Ok (mkP None [mkDiag (0,4)%Z (0,4)%Z (msg_char 35)]) /\
  parse_file src false = Ok (mkP None [mkDiag (0,4)%Z (0,4)%Z (msg_char 35); mkDiag (1,6)%Z (1,6)%Z msg_eol_string]) /\
  human_bytes src 1 [mkDiag (1,6)%Z (1,6)%Z msg_eol_string] = Ok [HCaret 1 6].
Proof. cbv zeta. repeat split; vm_compute; reflexivity. Qed.

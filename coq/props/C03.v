(* C03 — Decoding is exact or rejected: no silent loss, coercion or ambiguity.
   Only statements, closed by [exact lemma], with Print Assumptions beneath.
   [Theorem]s carry content and are counted as obligations; statements marked [Remark] are one-step
   unfoldings of the model (a single check of decodeValue / decodeOneofInner / OptionByName read off its
   definition); they are kept for reference, subsumed by the document-level theorems
   (C03_fault_at_any_position_rejected, C03_full) and NOT counted as obligations. *)
From Coq Require Import String List NArith ZArith Bool.
From J5V.lib Require Import Outcome Json.
From J5V.model Require Import CodecTypes CodecDecScalar CodecDec CodecDecQuery CodecDecTree.
From J5V.lib Require Base64.
From J5V.proofs Require Import CodecDecProofs CodecDecExact CodecDecTreeProofs CodecDecFaults CodecDecStored CodecDecBase64 CodecDecVariants.
From J5V.model Require CodecDecTime.
From J5V.proofs Require CodecDecTime.
From J5V.lib Require Civil Decimal.
From J5V.proofs Require CodecDecDecimal CodecDecTimeFast.
From Coq Require Import Permutation.
From J5V.model Require CodecDecCommute.
From J5V.proofs Require CodecDecMsgSorted CodecDecReorder CodecDecLenient CodecDecOneofReorder CodecDecDenote CodecDecFull CodecDecSpace CodecDecFloatProofs CodecDecLeaf CodecDecExposedStored.
From J5V.model Require CodecDecFloat CodecDecExposedCheck.
From J5V.proofs Require CodecDecConverse CodecDecConversePerm.
Import ListNotations.
Local Open Scope N_scope.

(* ------------------------------------------------------------------ integers (all of Z, four widths) *)
(* exact: a stored integer is the value its digit string denotes, quoted or bare, and lies in range *)
Remark C03_int_exact : forall k lo hi v z,
  int_range k = Some (lo, hi) -> (exists s, v = GStr s \/ v = GNum s) ->
  int_from_go k v = Ok (Some (VInt z)) ->
  (exists s, (v = GStr s \/ v = GNum s) /\ denotes_int s z) /\ (lo <= z <= hi)%Z.
Proof. exact int_exact. Qed.
Print Assumptions C03_int_exact.

(* ... against a reading of decimal notation that does not mention the parser: sign, digits,
   positional value (Radix.of_digits_be) *)
Theorem C03_decimal_reading : forall s z, parse_signed s = Some z <-> decimal_denotes s z.
Proof. exact parse_signed_denotes. Qed.
Print Assumptions C03_decimal_reading.

Theorem C03_int_exact_decimal : forall k lo hi v z,
  int_range k = Some (lo, hi) -> (exists s, v = GStr s \/ v = GNum s) ->
  int_from_go k v = Ok (Some (VInt z)) ->
  (exists s, (v = GStr s \/ v = GNum s) /\ decimal_denotes s z) /\ (lo <= z <= hi)%Z.
Proof. exact int_exact_decimal. Qed.
Print Assumptions C03_int_exact_decimal.

Theorem C03_int_wrong_type_rejected : forall k lo hi,
  int_range k = Some (lo, hi) ->
  is_err (int_from_go k GNil) = true /\ forall b, is_err (int_from_go k (GBool b)) = true.
Proof. exact int_wrong_type_rejected. Qed.
Print Assumptions C03_int_wrong_type_rejected.

(* floats and decimals: the quoted and the bare spelling of a text go through the same conversion,
   whatever strconv.ParseFloat / decimal.NewFromString answer; bool and null are type errors *)
Theorem C03_float_decimal_quoted_or_bare : forall orc k s,
  k = KFloat32 \/ k = KFloat64 \/ k = KDecimal ->
  scalar_from_go orc k (GStr s) = scalar_from_go orc k (GNum s).
Proof. exact float_decimal_quoted_or_bare. Qed.
Print Assumptions C03_float_decimal_quoted_or_bare.

Theorem C03_float_wrong_type_rejected : forall orc k,
  k = KFloat32 \/ k = KFloat64 ->
  is_err (scalar_from_go orc k GNil) = true /\ forall b, is_err (scalar_from_go orc k (GBool b)) = true.
Proof. exact float_wrong_type_rejected. Qed.
Print Assumptions C03_float_wrong_type_rejected.

(* lenient: every representable integer in canonical digits decodes to itself quoted and bare *)
Theorem C03_int_quoted_or_bare : forall k lo hi z,
  int_range k = Some (lo, hi) -> (lo <= z <= hi)%Z ->
  int_from_go k (GStr (print_Z z)) = Ok (Some (VInt z)) /\
  int_from_go k (GNum (print_Z z)) = Ok (Some (VInt z)).
Proof. exact int_canonical_both_spellings. Qed.
Print Assumptions C03_int_quoted_or_bare.

(* rejected: out of range, unparsable, wrong JSON type *)
Theorem C03_int_out_of_range_rejected : forall k lo hi v s z,
  int_range k = Some (lo, hi) -> (v = GStr s \/ v = GNum s) ->
  denotes_int s z -> (z < lo \/ hi < z)%Z -> is_err (int_from_go k v) = true.
Proof. exact int_out_of_range_rejected. Qed.
Print Assumptions C03_int_out_of_range_rejected.

Theorem C03_int_unparsable_rejected : forall k lo hi v s,
  int_range k = Some (lo, hi) -> (v = GStr s \/ v = GNum s) ->
  parse_signed s = None -> is_err (int_from_go k v) = true.
Proof. exact int_unparsable_rejected. Qed.
Print Assumptions C03_int_unparsable_rejected.

(* ------------------------------------------------------------------ bool, string, key, wrong types *)
Remark C03_bool_exact : forall orc v b, scalar_from_go orc KBool v = Ok (Some (VBool b)) <-> v = GBool b.
Proof. exact bool_exact. Qed.
Print Assumptions C03_bool_exact.

Remark C03_string_exact : forall orc k v s, (k = KString \/ k = KKey) ->
  scalar_from_go orc k v = Ok (Some (VStr s)) <-> v = GStr s.
Proof. exact string_exact. Qed.
Print Assumptions C03_string_exact.

Remark C03_wrong_type_rejected : forall orc,
  (forall v, (forall b, v <> GBool b) -> v <> GNil -> is_err (scalar_from_go orc KBool v) = true) /\
  (forall k v, k = KString \/ k = KKey -> (forall s, v <> GStr s) -> v <> GNil -> is_err (scalar_from_go orc k v) = true) /\
  (forall k v, k = KBytes \/ k = KTimestamp \/ k = KDate -> (forall s, v <> GStr s) -> is_err (scalar_from_go orc k v) = true) /\
  (forall v, (forall s, v <> GStr s) -> (forall s, v <> GNum s) -> is_err (scalar_from_go orc KDecimal v) = true).
Proof. exact wrong_type_rejected. Qed.
Print Assumptions C03_wrong_type_rejected.

(* ------------------------------------------------------------------ bytes *)
(* standard or URL-safe base64, with or without padding: for every byte string bs the four spellings
   of base64(bs) — Base64.b64_encode is the encoder side's model of StdEncoding.EncodeToString — are
   stored as bs *)
Theorem C03_base64_four_spellings : forall orc bs, Forall is_byte bs ->
  let e := Base64.b64_encode bs in
  Forall (fun s => scalar_from_go orc KBytes (GStr s) = Ok (Some (VBytes bs)))
         [e; strip_pad e; map std_to_url e; map std_to_url (strip_pad e)].
Proof. exact bytes_field_four_spellings. Qed.
Print Assumptions C03_base64_four_spellings.

(* invalid base64: a character that is in neither alphabet (nor '=', CR, LF) is rejected wherever it stands *)
Theorem C03_base64_foreign_char_rejected : forall s1 c s2,
  CodecDecScalar.b64_val (CodecDecScalar.url_to_std c) = None -> is_crlf (CodecDecScalar.url_to_std c) = false ->
  (CodecDecScalar.url_to_std c =? 61) = false ->
  Forall (fun x => CodecDecScalar.b64_val (CodecDecScalar.url_to_std x) <> None) s1 ->
  bytes_from_string (s1 ++ c :: s2) = None.
Proof. exact base64_foreign_char_rejected. Qed.
Print Assumptions C03_base64_foreign_char_rejected.

(* ------------------------------------------------------------------ enums *)
Theorem C03_enum_with_or_without_prefix : forall prefix opts name z,
  option_by_short opts name = Some z -> option_by_short opts (prefix ++ name) = None ->
  option_by_name prefix opts name = Some z /\ option_by_name prefix opts (prefix ++ name) = Some z.
Proof. exact enum_prefix_leniency. Qed.
Print Assumptions C03_enum_with_or_without_prefix.

Remark C03_enum_exact : forall prefix opts name z,
  option_by_name prefix opts name = Some z ->
  option_by_short opts name = Some z \/ option_by_short opts (trim_prefix prefix name) = Some z.
Proof. exact enum_exact. Qed.
Print Assumptions C03_enum_exact.

Remark C03_enum_unknown_rejected : forall prefix opts name,
  option_by_short opts name = None -> option_by_short opts (trim_prefix prefix name) = None ->
  option_by_name prefix opts name = None.
Proof. exact enum_unknown_rejected. Qed.
Print Assumptions C03_enum_unknown_rejected.

(* ------------------------------------------------------------------ dates *)
Remark C03_date_exact : forall s y m d,
  date_from_string s = Some (y, m, d) -> (0 <= y <= 9999 /\ 1 <= m <= 12 /\ 1 <= d <= days_in y m)%Z.
Proof. exact date_exact. Qed.
Print Assumptions C03_date_exact.

(* the three numbers stored are the three numbers written *)
Theorem C03_date_exact_strong : forall s y m d,
  date_from_string s = Some (y, m, d) ->
  exists a b c, split_on 45 s [] = [a; b; c] /\
    decimal_denotes a y /\ decimal_denotes b m /\ decimal_denotes c d /\
    (0 <= y <= 9999 /\ 1 <= m <= 12 /\ 1 <= d <= days_in y m)%Z.
Proof. exact date_exact_strong. Qed.
Print Assumptions C03_date_exact_strong.

Remark C03_date_invalid_rejected : forall s a b c y m d,
  split_on 45 s [] = [a; b; c] -> atoi a = Some y -> atoi b = Some m -> atoi c = Some d ->
  (m < 1 \/ 12 < m \/ d < 1 \/ days_in y m < d \/ y < 0 \/ 9999 < y)%Z ->
  date_from_string s = None.
Proof. exact date_invalid_rejected. Qed.
Print Assumptions C03_date_invalid_rejected.

(* ------------------------------------------------------------------ members, at the position where they stand *)
Remark C03_null_member_skipped : forall d dp p ts m seen,
  (d + 1 <= max_nesting_depth)%N -> member_with d dp p (TNull :: ts) m seen = Ok (m, ts, seen).
Proof. exact null_member_skipped. Qed.
Print Assumptions C03_null_member_skipped.

Remark C03_duplicate_member_rejected : forall d dp p t ts m seen,
  t <> TNull -> mem_bytes (p_json p) seen = true -> is_err (member_with d dp p (t :: ts) m seen) = true.
Proof. exact duplicate_member_rejected. Qed.
Print Assumptions C03_duplicate_member_rejected.

Remark C03_unknown_key_rejected_object : forall orc e me f d props key ts m seen,
  find_prop props key = None ->
  is_err (object_body orc e me (S f) d props (TStr key :: ts) m seen) = true.
Proof. exact unknown_key_rejected_object. Qed.
Print Assumptions C03_unknown_key_rejected_object.

Remark C03_unknown_key_rejected_oneof : forall orc e me f d props key ts m seen found c,
  bytes_eqb key type_key = false -> find_prop props key = None ->
  is_err (oneof_body orc e me (S f) d props (TStr key :: ts) m seen found c) = true.
Proof. exact unknown_key_rejected_oneof. Qed.
Print Assumptions C03_unknown_key_rejected_oneof.

Remark C03_oneof_two_keys_rejected : forall props m k1 k2 rest constrain,
  is_err (oneof_post props m (k1 :: k2 :: rest) constrain) = true.
Proof. exact oneof_two_keys_rejected. Qed.
Print Assumptions C03_oneof_two_keys_rejected.

Remark C03_oneof_type_contradiction_rejected : forall props m k c,
  bytes_eqb k c = false -> is_err (oneof_post props m [k] (Some c)) = true.
Proof. exact oneof_type_contradiction_rejected. Qed.
Print Assumptions C03_oneof_type_contradiction_rejected.

Remark C03_member_error_fails_object : forall orc e me f d props key p ts m seen c,
  find_prop props key = Some p ->
  member_with d (decode_present orc e me f (d + 1) p) p ts m seen = Err c ->
  object_body orc e me (S f) d props (TStr key :: ts) m seen = Err c.
Proof. exact member_error_fails_object. Qed.
Print Assumptions C03_member_error_fails_object.

Remark C03_null_array_element_rejected : forall orc e me f d k ts acc,
  is_err (array_items orc e me (S f) d (FScalar k) (TNull :: ts) acc) = true.
Proof. exact null_array_element_rejected. Qed.
Print Assumptions C03_null_array_element_rejected.

(* two members of one (unexposed) proto oneof: the second is rejected where it stands *)
Remark C03_oneof_sibling_rejected : forall d dp p t ts m seen,
  t <> TNull -> oneof_conflict p m = true -> is_err (member_with d dp p (t :: ts) m seen) = true.
Proof. exact oneof_sibling_rejected. Qed.
Print Assumptions C03_oneof_sibling_rejected.

(* an object with members a (field 1) and b (field 2) of one proto oneof: {"a":"x","b":"y"} used to
   decode to {2:"y"}, losing "a" *)
Definition sib_env : env :=
  [([78], SObject [mkProp [97] [1] false true [2] (FScalar KString);
                   mkProp [98] [2] false true [1] (FScalar KString)])].
Definition sib_doc : bytes := [123;34;97;34;58;34;120;34;44;34;98;34;58;34;121;34;125].
Example C03_example_oneof_siblings : is_err (decode_bytes no_oracles sib_env [78] sib_doc) = true.
Proof. vm_compute. reflexivity. Qed.

(* ------------------------------------------------------------------ documents: positions *)
(* The decoder model that is tied to the Go code works on tokens.  On the tokens of a document tree
   j (followed by anything) it computes exactly the tree reading [tr_decode] of j: members, elements
   and map values are visited in document order with the same checks. *)
Theorem C03_token_model_is_tree_reading : forall orc e root bs j rest me,
  lex bs = (tokens_of j ++ rest, me) ->
  decode_bytes orc e root bs = tr_decode orc e (S (jsize j)) root j.
Proof. exact decode_bytes_tree. Qed.
Print Assumptions C03_token_model_is_tree_reading.

(* Rejection clause, at document level: [faulty_members] / [faulty_oneof] (proofs/CodecDecFaults.v)
   say that somewhere in the document — top level, nested object, array element, map value, oneof
   arm, to any depth — there is a value of the wrong JSON type, a number / base64 / date / decimal /
   timestamp text that its kind's conversion refuses, an unknown enum name, an unknown key, a null
   array element or map value, a "!type" that is not a string, more than one key in a oneof, or a
   "!type" contradicting the key present.  Every such document is rejected with an error. *)
Theorem C03_fault_at_any_position_rejected : forall orc e root bs ms rest me,
  lex bs = (tokens_of (JObj ms) ++ rest, me) ->
  (exists props, lookup e root = Some (SObject props) /\ faulty_members orc e props ms) \/
  (exists props, lookup e root = Some (SOneof props) /\ faulty_oneof orc e props ms) ->
  is_err (decode_bytes orc e root bs) = true.
Proof. exact faulty_document_rejected. Qed.
Print Assumptions C03_fault_at_any_position_rejected.

(* {"c":{"c":{"r":["a",null]}}} on the environment below: a null array element two objects deep *)
Definition pos_env : env :=
  [([78], SObject [mkProp [114] [2] false false [] (FArray (FScalar KString));
                   mkProp [99] [5] false true [] (FObject [78])])].
Definition pos_tree : jvalue :=
  JObj [([99], JObj [([99], JObj [([114], JArr [JStr [97]; JNull])])])].
Definition pos_doc : bytes :=
  [123;34;99;34;58;123;34;99;34;58;123;34;114;34;58;91;34;97;34;44;110;117;108;108;93;125;125;125].
Example C03_example_fault_position :
  lex pos_doc = (tokens_of pos_tree ++ [], false) /\
  faulty_members no_oracles pos_env
    [mkProp [114] [2] false false [] (FArray (FScalar KString)); mkProp [99] [5] false true [] (FObject [78])]
    [([99], JObj [([99], JObj [([114], JArr [JStr [97]; JNull])])])] /\
  is_err (decode_bytes no_oracles pos_env [78] pos_doc) = true.
Proof.
  split; [vm_compute; reflexivity|]. split; [|vm_compute; reflexivity].
  eapply M_member with (k := [99]); [left; reflexivity | reflexivity | discriminate |].
  eapply F_object_inside; [reflexivity|].
  eapply M_member with (k := [99]); [left; reflexivity | reflexivity | discriminate |].
  eapply F_object_inside; [reflexivity|].
  eapply M_member with (k := [114]); [left; reflexivity | reflexivity | discriminate |].
  eapply F_array_element with (v := JNull); [right; left; reflexivity | apply E_null].
Qed.

(* ------------------------------------------------------------------ documents: every non-null member is stored *)
(* [props_separate] (proofs/CodecDecStored.v) is a condition on the schema alone: two different
   properties of a set address proto fields on diverging paths (for the arms of an exposed oneof also:
   the outer field is not one of the arm's oneof siblings).  Members of one unexposed proto oneof
   satisfy it; that at most one of them is ever stored is the CreateField conflict check
   (C03_oneof_sibling_rejected).  The condition is decidable (C03_separation_decidable) and the
   correspondence evaluates it on every environment dumped from the real reflector. *)
Theorem C03_separation_decidable : forall e props, props_separate_b e props = true -> props_separate e props.
Proof. exact props_separate_b_sound. Qed.
Print Assumptions C03_separation_decidable.

(* JSONToProto succeeded on a document whose root the tokenizer reads as the object ms.  Then every
   non-null member was decoded by the decoder of its own property (never skipped), and the field that
   this decoding wrote has the same content in the final message: nothing that comes later in the
   document disturbs it. *)
Theorem C03_document_members_stored : forall orc e root props bs ms rest me m',
  lookup e root = Some (SObject props) -> props_separate e props ->
  lex bs = (tokens_of (JObj ms) ++ rest, me) ->
  decode_bytes orc e root bs = Ok m' ->
  forall key v p, In (key, v) ms -> v <> JNull -> find_prop props key = Some p -> p_path p <> [] ->
  exists f0 m0 m1, tr_present orc e f0 1 p v m0 = Ok m1 /\ get_path (p_path p) m' = get_path (p_path p) m1.
Proof. exact document_members_stored. Qed.
Print Assumptions C03_document_members_stored.

(* ... for a scalar member the field holds exactly the converted value (absent when the conversion
   yields the zero value of an implicit-presence field) *)
Theorem C03_document_scalars_stored : forall orc e root props bs ms rest me m',
  lookup e root = Some (SObject props) -> props_separate e props ->
  lex bs = (tokens_of (JObj ms) ++ rest, me) ->
  decode_bytes orc e root bs = Ok m' ->
  forall key v p k, In (key, v) ms -> v <> JNull -> find_prop props key = Some p ->
    p_ty p = FScalar k -> p_path p <> [] ->
    exists x, scalar_from_go orc k (goval_of_json v) = Ok x /\ get_path (p_path p) m' = stored_scalar p x.
Proof. exact document_scalars_stored. Qed.
Print Assumptions C03_document_scalars_stored.

(* ... the same one level down: an object-typed member's field holds the message that decoding its
   members produces (so the two theorems above apply to the sub-document, to any depth), and an
   array-of-scalars member's field holds every element's converted value, in document order *)
Theorem C03_object_member_own : forall orc e f d p ref v m m1,
  p_ty p = FObject ref -> p_path p <> [] -> tr_present orc e f d p v m = Ok m1 ->
  exists ms props sub0 sub' f', v = JObj ms /\ lookup e ref = Some (SObject props) /\
    tr_object orc e f' d props ms sub0 [] = Ok sub' /\ get_path (p_path p) m1 = Some (VMsg sub').
Proof. exact object_member_own. Qed.
Print Assumptions C03_object_member_own.

Theorem C03_nested_members_stored : forall orc e props, props_separate e props ->
  forall f d ms m seen m', tr_object orc e f d props ms m seen = Ok m' ->
  forall key v p, In (key, v) ms -> v <> JNull -> find_prop props key = Some p -> p_path p <> [] ->
  exists f0 m0 m1, tr_present orc e f0 (d + 1) p v m0 = Ok m1 /\ get_path (p_path p) m' = get_path (p_path p) m1.
Proof. exact member_survives. Qed.
Print Assumptions C03_nested_members_stored.

Theorem C03_array_member_own : forall orc e f d p k v m m1,
  p_ty p = FArray (FScalar k) -> p_path p <> [] -> tr_present orc e f d p v m = Ok m1 ->
  exists js l, v = JArr js /\ get_path (p_path p) m1 = stored_form true (VList l) /\
    exists base vals, l = base ++ vals /\
      Forall2 (fun j x => is_container j = false /\ scalar_from_go orc k (goval_of_json j) = Ok (Some x)) js vals.
Proof. exact array_member_own. Qed.
Print Assumptions C03_array_member_own.

(* maps of scalars: every entry is stored under the key as written, in document order; arrays of
   objects: one sub-message per element, each the decode of that element *)
Theorem C03_map_entries_stored : forall orc e k f d ms acc l,
  tr_map orc e f d (FScalar k) ms acc = Ok l ->
  exists vals, l = acc ++ vals /\
    Forall2 (fun kv kx => fst kx = fst kv /\ is_container (snd kv) = false /\
                          scalar_from_go orc k (goval_of_json (snd kv)) = Ok (Some (snd kx))) ms vals.
Proof. exact map_entries_stored. Qed.
Print Assumptions C03_map_entries_stored.

Theorem C03_array_objects_stored : forall orc e ref props, lookup e ref = Some (SObject props) ->
  forall f d js acc l, tr_array orc e f d (FObject ref) js acc = Ok l ->
  exists subs, l = acc ++ map VMsg subs /\
    Forall2 (fun j sub => exists ms f', j = JObj ms /\ tr_object orc e f' d props ms [] [] = Ok sub) js subs.
Proof. exact array_objects_stored. Qed.
Print Assumptions C03_array_objects_stored.

(* ------------------------------------------------------------------ documents: alternate spellings *)
(* Leniency clause, at document level: [variant_members] (proofs/CodecDecVariants.v) relates two member
   lists of the same shape — same keys in the same order, to any depth through objects, oneofs, arrays
   and maps — whose leaves may differ, each pair of leaves being two spellings that the field kind's
   conversion maps to the same result (which the scalar theorems establish for quoted / bare numbers,
   the four base64 forms, ...; for enums: the same option).  Such documents decode to the same result:
   the same message, or both an error. *)
Theorem C03_respelled_documents_same_result : forall orc e root props bs bs' ms ms' rest rest' me me',
  lookup e root = Some (SObject props) ->
  lex bs = (tokens_of (JObj ms) ++ rest, me) -> lex bs' = (tokens_of (JObj ms') ++ rest', me') ->
  variant_members orc e props ms ms' ->
  decode_bytes orc e root bs = decode_bytes orc e root bs'.
Proof. exact variant_documents_same_result. Qed.
Print Assumptions C03_respelled_documents_same_result.

(* {"i":"-7","r":["a"]} and {"i":-7,"r":["a"]} on ex_env-like properties *)
Definition var_env : env :=
  [([78], SObject [mkProp [105] [6] false false [] (FScalar KInt32);
                   mkProp [114] [2] false false [] (FArray (FScalar KString))])].
Definition var_doc1 : bytes := [123;34;105;34;58;34;45;55;34;44;34;114;34;58;91;34;97;34;93;125].
Definition var_doc2 : bytes := [123;34;105;34;58;45;55;44;34;114;34;58;91;34;97;34;93;125].
Example C03_example_respelled :
  lex var_doc1 = (tokens_of (JObj [([105], JStr [45;55]); ([114], JArr [JStr [97]])]) ++ [], false) /\
  lex var_doc2 = (tokens_of (JObj [([105], JNum [45;55]); ([114], JArr [JStr [97]])]) ++ [], false) /\
  variant_members no_oracles var_env
    [mkProp [105] [6] false false [] (FScalar KInt32); mkProp [114] [2] false false [] (FArray (FScalar KString))]
    [([105], JStr [45;55]); ([114], JArr [JStr [97]])] [([105], JNum [45;55]); ([114], JArr [JStr [97]])] /\
  decode_bytes no_oracles var_env [78] var_doc1 = Ok [(2, VList [VStr [97]]); (6, VInt (-7))].
Proof.
  split; [vm_compute; reflexivity|]. split; [vm_compute; reflexivity|]. split; [|vm_compute; reflexivity].
  eapply VM_member; [reflexivity | reflexivity | split; discriminate | | apply VM_same; apply VM_nil].
  apply V_scalar; [reflexivity | reflexivity | split; discriminate | vm_compute; reflexivity].
Qed.

(* ------------------------------------------------------------------ member reordering *)
(* The members of a JSON object can be given in any order: if JSONToProto accepts a document, it accepts
   every document whose root object has the same members in another order, with the same message; and
   so a permutation is accepted exactly when the original is.  Schema condition [props_commute] (any two
   properties of the object: their proto paths part into different fields, neither a oneof sibling of the
   other; or the sets of fields they can touch are disjoint (exposed oneofs); or they are members of one
   proto oneof, which never both succeed) is decidable; every correspondence case checks it for all
   objects and oneofs of the real schemas (env_commute in dec_check). *)
Theorem C03_reordered_document_same_message : forall orc e root props bs bs' ms ms' rest rest' me me',
  lookup e root = Some (SObject props) -> CodecDecReorder.props_commute e props ->
  lex bs = (tokens_of (JObj ms) ++ rest, me) -> lex bs' = (tokens_of (JObj ms') ++ rest', me') ->
  Permutation ms ms' ->
  forall m', decode_bytes orc e root bs = Ok m' <-> decode_bytes orc e root bs' = Ok m'.
Proof. exact CodecDecReorder.reordered_document_iff. Qed.
Print Assumptions C03_reordered_document_same_message.

(* the same for the members of any object body, from any (sorted) state of the enclosing decode *)
Theorem C03_reordered_object_same_message : forall orc e d props ms ms' m seen m' f,
  CodecDecReorder.props_commute e props -> Permutation ms ms' -> CodecDecMsgSorted.wf m ->
  tr_object orc e f d props ms m seen = Ok m' -> exists f', tr_object orc e f' d props ms' m seen = Ok m'.
Proof. exact CodecDecReorder.reordered_object. Qed.
Print Assumptions C03_reordered_object_same_message.

Theorem C03_reorder_condition_decidable : forall e ref props, CodecDecCommute.env_commute e = true ->
  (lookup e ref = Some (SObject props) \/ lookup e ref = Some (SOneof props)) -> CodecDecReorder.props_commute e props.
Proof. exact CodecDecReorder.env_commute_sound. Qed.
Print Assumptions C03_reorder_condition_decidable.

(* explicit nulls: members `"k":null` for any properties of the root object, added anywhere among the
   members, in any order: accepted exactly when the document without them is, with the same message *)
Theorem C03_null_padded_reordered_document_same_message :
  forall orc e root props bs bs' ms ms' nulls rest rest' me me',
  lookup e root = Some (SObject props) -> CodecDecReorder.props_commute e props ->
  lex bs = (tokens_of (JObj ms) ++ rest, me) -> lex bs' = (tokens_of (JObj ms') ++ rest', me') ->
  CodecDecReorder.null_members props nulls -> Permutation (nulls ++ ms) ms' ->
  forall m', decode_bytes orc e root bs = Ok m' <-> decode_bytes orc e root bs' = Ok m'.
Proof. exact CodecDecReorder.padded_document_iff. Qed.
Print Assumptions C03_null_padded_reordered_document_same_message.

(* the same for any object body below the nesting bound *)
Theorem C03_null_padded_object_same_message : forall orc e d props ms ms' nulls m seen m' f,
  CodecDecReorder.props_commute e props -> CodecDecReorder.null_members props nulls ->
  Permutation (nulls ++ ms) ms' -> (max_nesting_depth <? d + 1) = false -> CodecDecMsgSorted.wf m ->
  tr_object orc e f d props ms m seen = Ok m' -> exists f', tr_object orc e f' d props ms' m seen = Ok m'.
Proof. exact CodecDecReorder.padded_object. Qed.
Print Assumptions C03_null_padded_object_same_message.

(* {"i":-7,"r":["a"]} and {"r":["a"],"i":-7} on var_env *)
Example C03_example_reordered :
  CodecDecCommute.env_commute var_env = true /\
  decode_bytes no_oracles var_env [78] [123;34;114;34;58;91;34;97;34;93;44;34;105;34;58;45;55;125]
  = decode_bytes no_oracles var_env [78] var_doc2.
Proof. split; vm_compute; reflexivity. Qed.

(* ------------------------------------------------------------------ timestamps *)
(* time.Parse(time.RFC3339, .) is modelled (model/CodecDecTime.v: Go's general layout parser, which
   subsumes the strict fast path) and compared with the real function on every timestamp text of the
   run.  A text is described by its fields: year, month, day, the hour written with two digits or one,
   minute, second, an optional fraction after '.' or ',', and the zone 'Z' or sign hh:mm.
   [shape]: the fields fit their digit positions; [in_range]: month 1..12, day 1..days of that month
   in that year, hour <= 23, minute, second <= 59, zone at most 24:60.
   - the parser accepts [text f] iff the fields are in range, and returns the instant they denote:
     (days_from_civil y m d * 86400 + time of day - zone offset, first nine fraction digits as ns);
   - everything the parser accepts is such a text: any other text is rejected. *)
Module T := J5V.proofs.CodecDecTime.
Theorem C03_timestamp_text_reading : forall f, T.shape f ->
  CodecDecTime.go_time_parse (T.text f) = if T.in_range f then Some (T.instant f, T.nanos f) else None.
Proof. exact T.time_parse_text. Qed.
Print Assumptions C03_timestamp_text_reading.

Theorem C03_timestamp_accepted_only_texts : forall s sec ns, CodecDecTime.go_time_parse s = Some (sec, ns) ->
  exists f, T.shape f /\ T.in_range f = true /\ s = T.text f /\ sec = T.instant f /\ ns = T.nanos f.
Proof. exact T.time_parse_inv. Qed.
Print Assumptions C03_timestamp_accepted_only_texts.

(* the field kind, with the oracle of the decoder model being that function: one instant written at
   any two offsets (or with one-digit hour, ',' fraction, longer fraction with the same first nine
   digits) is stored as the same Timestamp; out-of-range fields and every other text are rejected *)
Theorem C03_timestamp_exact : forall orc f, T.time_oracle_is_model orc -> T.shape f -> T.in_range f = true ->
  scalar_from_go orc KTimestamp (GStr (T.text f)) = Ok (Some (mk_timestamp (T.instant f) (T.nanos f))).
Proof. exact T.timestamp_reading. Qed.
Print Assumptions C03_timestamp_exact.

Theorem C03_timestamp_any_offset : forall orc f g, T.time_oracle_is_model orc ->
  T.shape f -> T.shape g -> T.in_range f = true -> T.in_range g = true ->
  T.instant f = T.instant g -> T.nanos f = T.nanos g ->
  scalar_from_go orc KTimestamp (GStr (T.text f)) = scalar_from_go orc KTimestamp (GStr (T.text g)).
Proof. exact T.timestamp_any_offset. Qed.
Print Assumptions C03_timestamp_any_offset.

Theorem C03_timestamp_out_of_range_rejected : forall orc f, T.time_oracle_is_model orc ->
  T.shape f -> T.in_range f = false -> is_err (scalar_from_go orc KTimestamp (GStr (T.text f))) = true.
Proof. exact T.timestamp_out_of_range_rejected. Qed.
Print Assumptions C03_timestamp_out_of_range_rejected.

Theorem C03_timestamp_other_text_rejected : forall orc s, T.time_oracle_is_model orc ->
  (forall f, T.shape f -> T.in_range f = true -> s <> T.text f) ->
  is_err (scalar_from_go orc KTimestamp (GStr s)) = true.
Proof. exact T.timestamp_other_text_rejected. Qed.
Print Assumptions C03_timestamp_other_text_rejected.

(* at document level: the two spellings are variants of each other, so C03_respelled_documents_same_result
   applies to documents that differ in timestamps at different offsets, at any depth *)
Theorem C03_timestamp_spellings_are_variants : forall orc e f g, T.time_oracle_is_model orc ->
  T.shape f -> T.shape g -> T.in_range f = true -> T.in_range g = true ->
  T.instant f = T.instant g -> T.nanos f = T.nanos g ->
  variant orc e (FScalar KTimestamp) (JStr (T.text f)) (JStr (T.text g)).
Proof. exact T.timestamp_variant. Qed.
Print Assumptions C03_timestamp_spellings_are_variants.

(* "2020-01-01T10:00:00+10:00" is 2020-01-01T00:00:00Z = 1577836800; February 2021 has no 29th *)
Example C03_example_timestamps :
  T.text T.ex_offset = [50;48;50;48;45;48;49;45;48;49;84;49;48;58;48;48;58;48;48;43;49;48;58;48;48] /\
  CodecDecTime.go_time_parse (T.text T.ex_offset) = Some (1577836800%Z, 0%Z) /\
  CodecDecTime.go_time_parse (T.text T.ex_utc) = Some (1577836800%Z, 0%Z) /\
  CodecDecTime.go_time_parse (T.text (T.mkT 2021 2 29 false 0 0 0 None None)) = None.
Proof. repeat split; vm_compute; reflexivity. Qed.

(* ------------------------------------------------------------------ the quantifier in one relation *)
(* [lenient ty j j'] (proofs/CodecDecLenient.v): j' is obtained from j by ANY COMBINATION, AT ANY DEPTH, of
   - respelling leaves: two spellings that the field kind's conversion maps to the same result (L_scalar,
     L_enum: quoted / bare numbers, the four base64 forms, enum prefix, timestamps at any offset, ...),
   - reordering the members of objects (L_object: a permutation) and of oneof bodies (L_oneof: a permutation
     with at most one "!type" member),
   - adding explicit null members for properties of objects (L_object: nulls; for an object without
     members only below the nesting bound, hence the side condition),
   through arrays, maps, oneof arms and nested objects (insignificant whitespace is absorbed by the
   tokenizer: documents are related through their token reading).
   If JSONToProto accepts a document it accepts every lenient variant of it, with the same message. *)
Theorem C03_lenient_documents_same_message :
  forall orc e root props bs bs' ms nulls ms1 ms' rest rest' me me' m',
  CodecDecLenient.env_ok e -> lookup e root = Some (SObject props) ->
  lex bs = (tokens_of (JObj ms) ++ rest, me) -> lex bs' = (tokens_of (JObj ms') ++ rest', me') ->
  CodecDecReorder.null_members props nulls -> (nulls = [] \/ ms <> []) -> Permutation (nulls ++ ms) ms1 ->
  CodecDecLenient.lenient_members orc e props ms1 ms' ->
  decode_bytes orc e root bs = Ok m' -> decode_bytes orc e root bs' = Ok m'.
Proof. exact CodecDecLenient.lenient_document. Qed.
Print Assumptions C03_lenient_documents_same_message.

(* {"i":"-7","r":["a"]} and {"r":["a"],"r":null,"i":-7}: reordered, a null added, the integer bare *)
Definition len_props : list property :=
  [mkProp [105] [6] false false [] (FScalar KInt32); mkProp [114] [2] false false [] (FArray (FScalar KString))].
Example C03_example_lenient :
  CodecDecCommute.env_commute var_env = true /\
  CodecDecReorder.null_members len_props [([114], JNull)] /\
  Permutation ([([114], JNull)] ++ [([105], JStr [45;55]); ([114], JArr [JStr [97]])])
              [([114], JArr [JStr [97]]); ([114], JNull); ([105], JStr [45;55])] /\
  CodecDecLenient.lenient_members no_oracles var_env len_props
    [([114], JArr [JStr [97]]); ([114], JNull); ([105], JStr [45;55])]
    [([114], JArr [JStr [97]]); ([114], JNull); ([105], JNum [45;55])] /\
  lex [123;34;114;34;58;91;34;97;34;93;44;34;114;34;58;110;117;108;108;44;34;105;34;58;45;55;125] = (tokens_of (JObj [([114], JArr [JStr [97]]); ([114], JNull); ([105], JNum [45;55])]) ++ [], false) /\
  decode_bytes no_oracles var_env [78] [123;34;114;34;58;91;34;97;34;93;44;34;114;34;58;110;117;108;108;44;34;105;34;58;45;55;125] = decode_bytes no_oracles var_env [78] var_doc1.
Proof.
  split; [vm_compute; reflexivity|]. split.
  { constructor; [|constructor]. split; [reflexivity|]. eexists. vm_compute. reflexivity. }
  split.
  { cbn [app]. eapply perm_trans; [apply perm_skip; apply perm_swap|apply perm_swap]. }
  split.
  { apply CodecDecLenient.LM_same. apply CodecDecLenient.LM_same.
    eapply CodecDecLenient.LM_member; [reflexivity|reflexivity|split; discriminate| |apply CodecDecLenient.LM_nil].
    apply CodecDecLenient.L_scalar; [reflexivity|reflexivity|split; discriminate|vm_compute; reflexivity]. }
  split; vm_compute; reflexivity.
Qed.

(* the same when the root type is a oneof: the body's members ("!type", the arm key, nulls) in any order,
   at most one "!type", the arm value a lenient variant *)
Theorem C03_lenient_oneof_documents_same_message :
  forall orc e root props bs bs' ms ms1 ms' rest rest' me me' m',
  CodecDecLenient.env_ok e -> lookup e root = Some (SOneof props) ->
  lex bs = (tokens_of (JObj ms) ++ rest, me) -> lex bs' = (tokens_of (JObj ms') ++ rest', me') ->
  Permutation ms ms1 -> (CodecDecOneofReorder.type_count ms <= 1)%nat ->
  CodecDecLenient.lenient_members orc e props ms1 ms' ->
  decode_bytes orc e root bs = Ok m' -> decode_bytes orc e root bs' = Ok m'.
Proof. exact CodecDecLenient.lenient_document_oneof. Qed.
Print Assumptions C03_lenient_oneof_documents_same_message.

(* a oneof body in any order, from any state *)
Theorem C03_reordered_oneof_same_message : forall orc e d props ms ms' m seen found c m'' f,
  CodecDecReorder.props_commute e props -> Permutation ms ms' -> (CodecDecOneofReorder.type_count ms <= 1)%nat ->
  CodecDecMsgSorted.wf m ->
  tr_oneof orc e f d props ms m seen found c = Ok m'' ->
  exists f', tr_oneof orc e f' d props ms' m seen found c = Ok m''.
Proof. exact CodecDecOneofReorder.reordered_oneof. Qed.
Print Assumptions C03_reordered_oneof_same_message.

(* the schema condition is the computable check that every correspondence case runs on the real schemas *)
Theorem C03_lenient_condition_decidable : forall e, CodecDecCommute.env_commute e = true -> CodecDecLenient.env_ok e.
Proof. exact CodecDecLenient.env_ok_of_check. Qed.
Print Assumptions C03_lenient_condition_decidable.

(* one instant at two offsets is a lenient pair of leaves (with the modelled time.Parse) *)
Theorem C03_timestamp_spellings_are_lenient : forall orc e f g, T.time_oracle_is_model orc ->
  T.shape f -> T.shape g -> T.in_range f = true -> T.in_range g = true ->
  T.instant f = T.instant g -> T.nanos f = T.nanos g ->
  CodecDecLenient.lenient orc e (FScalar KTimestamp) (JStr (T.text f)) (JStr (T.text g)).
Proof. exact CodecDecLenient.timestamp_lenient. Qed.
Print Assumptions C03_timestamp_spellings_are_lenient.

(* the strict fast path of time.Parse (lib/Civil.v parse_rfc3339, against which the encoder's timestamp
   text is proved to read back) is subsumed by the modelled parser *)
Theorem C03_time_fast_path_subsumed : forall s r,
  Civil.parse_rfc3339 s = Some r -> CodecDecTime.go_time_parse s = Some r.
Proof. exact CodecDecTimeFast.fast_path_extends. Qed.
Print Assumptions C03_time_fast_path_subsumed.

(* ------------------------------------------------------------------ decimals *)
(* decimal.NewFromString / Decimal.String() are modelled by lib/Decimal.v (dec_parse, dec_print: a decimal
   is mantissa * 10^exponent) and compared with the library on every run.  With the decoder model's
   decimal oracle being that model: a text is accepted, quoted or bare, iff dec_parse reads it with an
   exponent within +-1000; what is stored is the canonical text dec_print m e, and that text reads back
   as a numerically equal decimal — the stored value is exactly the number the member denotes; every
   other text is rejected. *)
Module D := J5V.proofs.CodecDecDecimal.
Theorem C03_decimal_exact : forall orc quoted s c, D.decimal_oracle_is_model orc ->
  scalar_from_go orc KDecimal (D.dec_goval quoted s) = Ok (Some (mk_decimal c)) ->
  exists m e b, Decimal.dec_parse s = Some (m, e) /\ c = Decimal.dec_print m e /\
                Decimal.dec_parse c = Some b /\ Decimal.dec_eq (m, e) b.
Proof. exact D.decimal_exact. Qed.
Print Assumptions C03_decimal_exact.

Theorem C03_decimal_accepted : forall orc quoted s m e, D.decimal_oracle_is_model orc ->
  Decimal.dec_parse s = Some (m, e) -> (Z.abs e <= max_decimal_exponent)%Z ->
  scalar_from_go orc KDecimal (D.dec_goval quoted s) = Ok (Some (mk_decimal (Decimal.dec_print m e))).
Proof. exact D.decimal_accepted. Qed.
Print Assumptions C03_decimal_accepted.

Theorem C03_decimal_invalid_rejected : forall orc quoted s, D.decimal_oracle_is_model orc ->
  Decimal.dec_parse s = None -> is_err (scalar_from_go orc KDecimal (D.dec_goval quoted s)) = true.
Proof. exact D.decimal_invalid_rejected. Qed.
Print Assumptions C03_decimal_invalid_rejected.

Theorem C03_decimal_exponent_rejected : forall orc quoted s m e, D.decimal_oracle_is_model orc ->
  Decimal.dec_parse s = Some (m, e) -> (max_decimal_exponent < Z.abs e)%Z ->
  is_err (scalar_from_go orc KDecimal (D.dec_goval quoted s)) = true.
Proof. exact D.decimal_exponent_rejected. Qed.
Print Assumptions C03_decimal_exponent_rejected.

(* "1.50" reads as 150 * 10^-2 and is stored as "1.5"; "1.2.3" and "abc" are not decimals *)
Example C03_example_decimals :
  Decimal.dec_parse [49;46;53;48] = Some (150%Z, (-2)%Z) /\ Decimal.dec_print 150 (-2) = [49;46;53] /\
  Decimal.dec_parse [49;46;50;46;51] = None /\ Decimal.dec_parse [97;98;99] = None.
Proof. repeat split; vm_compute; reflexivity. Qed.

(* ------------------------------------------------------------------ URL query parameters *)
(* a scalar supplied as the single value of a query parameter is stored exactly as the JSON member
   carrying the corresponding token (the quoted string; for bool fields the literals true / false) *)
Theorem C03_query_scalar_as_json : forall orc e me f d props name p k v m st,
  find_prop props name = Some p -> p_ty p = FScalar k ->
  mem_bytes (p_json p) (qt_seen st) = false -> oneof_conflict p m = false ->
  omap fst (query_final orc e props name [v] m st) =
  omap fst (decode_present orc e me (S f) d p (query_token k v :: []) m).
Proof. exact query_scalar_as_json. Qed.
Print Assumptions C03_query_scalar_as_json.

(* ------------------------------------------------------------------ non-vacuity *)
Example C03_example_ints :
  int_from_go KInt32 (GStr (print_Z (-2147483648))) = Ok (Some (VInt (-2147483648))) /\
  int_from_go KUint64 (GNum (print_Z 18446744073709551615)) = Ok (Some (VInt 18446744073709551615)) /\
  is_err (int_from_go KInt32 (GStr [50;49;52;55;52;56;51;54;52;56])) = true /\
  is_err (int_from_go KInt32 (GStr [97;98;99])) = true.
Proof. vm_compute. repeat split; reflexivity. Qed.

Example C03_example_enum_date :
  option_by_name [77;95] [([88], 1%Z); ([77;95;88], 7%Z)] [77;95;88] = Some 7%Z /\
  option_by_name [69;95] [([65], 1%Z)] [69;95;65] = Some 1%Z /\
  date_from_string [50;48;50;52;45;48;50;45;50;57] = Some (2024, 2, 29)%Z /\
  date_from_string [50;48;50;52;45;49;51;45;52;53] = None.
Proof. vm_compute. repeat split; reflexivity. Qed.

(* ------------------------------------------------------------------ the parts at document level (descent) *)
(* The two Definitions below are the earlier, weaker document-level forms over the DESCENT of decodeRoot
   (CodecDec.decode_bytes: decodeObject / decodeOneof on the root, before the end-of-input check); they
   are kept because proofs/CodecEnc* (C01) and the reordering theorems are stated on the descent.  The
   full statement over the whole call JSONToProto is C03_full_statement at the end of this file. *)
Definition C03_exactness_statement : Prop :=
  forall orc e root props bs ms rest me m',
    lookup e root = Some (SObject props) -> props_separate e props ->
    lex bs = (tokens_of (JObj ms) ++ rest, me) -> decode_bytes orc e root bs = Ok m' ->
    forall key v p, In (key, v) ms -> v <> JNull -> find_prop props key = Some p -> p_path p <> [] ->
    exists f0 m0 m1, tr_present orc e f0 1 p v m0 = Ok m1 /\ get_path (p_path p) m' = get_path (p_path p) m1.
Definition C03_rejection_statement : Prop :=
  forall orc e root bs ms rest me,
    lex bs = (tokens_of (JObj ms) ++ rest, me) ->
    (exists props, lookup e root = Some (SObject props) /\ faulty_members orc e props ms) \/
    (exists props, lookup e root = Some (SOneof props) /\ faulty_oneof orc e props ms) ->
    is_err (decode_bytes orc e root bs) = true.
Theorem C03_exactness_and_rejection : C03_exactness_statement /\ C03_rejection_statement.
Proof. exact (conj document_members_stored faulty_document_rejected). Qed.
Print Assumptions C03_exactness_and_rejection.

(* non-vacuity of the exactness theorems: {"r":["a","b"],"c":{"r":["x"]}} on pos_env *)
Definition ok_doc : bytes :=
  [123;34;114;34;58;91;34;97;34;44;34;98;34;93;44;34;99;34;58;123;34;114;34;58;91;34;120;34;93;125;125].
Definition ok_tree : jvalue :=
  JObj [([114], JArr [JStr [97]; JStr [98]]); ([99], JObj [([114], JArr [JStr [120]])])].
Example C03_example_members_stored :
  lex ok_doc = (tokens_of ok_tree ++ [], false) /\
  props_separate pos_env
    [mkProp [114] [2] false false [] (FArray (FScalar KString)); mkProp [99] [5] false true [] (FObject [78])] /\
  decode_bytes no_oracles pos_env [78] ok_doc =
    Ok [(2, VList [VStr [97]; VStr [98]]); (5, VMsg [(2, VList [VStr [120]])])].
Proof.
  split; [vm_compute; reflexivity|]. split; [|vm_compute; reflexivity].
  intros q1 q2 H1 H2 Hne Hq.
  destruct H1 as [<- | [<- | []]]; destruct H2 as [<- | [<- | []]]; cbn in Hne; try discriminate;
    cbn; (split; [discriminate | intros []]).
Qed.

(* ================================================================== THE FULL STATEMENT *)
(* What a document denotes, without the decoder (proofs/CodecDecDenote.v):
     denotes orc e ty j x        the JSON value j denotes the proto value x at a field of type ty
                                 (scalar: the conversion of the one token; enum: the option named, with or
                                 without prefix; object / oneof: VMsg of what the member list denotes; array /
                                 map: element by element, in order; any: type name + compact text of the value);
     denotes_msg orc e props ms m  (1) every non-null member (key, v) of ms has a property p and, at the proto
                                 path of p, m holds exactly stored_as p x for the x that v denotes (stored_as:
                                 an implicit-presence zero / empty list / empty map is an absent field), and
                                 (2) every populated field of m is owned by a non-null member (nothing else).
   No prior message state, "seen" list, fuel or depth occurs in either relation. *)
Theorem C03_object_body_is_denoted : forall orc e,
  CodecDecFull.env_sep e ->
  forall f d props ms m', props_separate e props ->
    tr_object orc e f d props ms [] [] = Ok m' -> CodecDecDenote.denotes_msg orc e props ms m'.
Proof. exact CodecDecDenote.object_body_denoted. Qed.
Print Assumptions C03_object_body_is_denoted.

(* a member's own decode, from any message in which its field is absent, stores what its value denotes:
   the prior state that C03_object_member_own / C03_array_member_own quantify existentially (sub0, base)
   is empty *)
Theorem C03_member_stores_denotation : forall orc e, CodecDecFull.env_sep e ->
  forall n f d p v m m1, (jsize v <= n)%nat -> p_path p <> [] -> v <> JNull ->
    tr_present orc e f d p v m = Ok m1 -> get_path (p_path p) m = None ->
    exists x, CodecDecDenote.denotes orc e (p_ty p) v x /\ get_path (p_path p) m1 = CodecDecDenote.stored_as p x.
Proof. exact CodecDecDenote.P_all. Qed.
Print Assumptions C03_member_stores_denotation.

Theorem C03_separation_of_environment_decidable : forall e, env_separate e = true -> CodecDecFull.env_sep e.
Proof. exact CodecDecFull.env_separate_sound. Qed.
Print Assumptions C03_separation_of_environment_decidable.

(* the whole call: descent, then nothing but white space may follow (fix 9f742f6) *)
Theorem C03_document_is_descent_then_end : forall orc e root bs j rest me,
  lex bs = (tokens_of j ++ rest, me) ->
  decode_document orc e root bs =
  obind (tr_decode orc e (S (jsize j)) root j) (fun m =>
    obind (end_of_input rest (lex_at_eof bs)) (fun _ => Ok m)).
Proof. exact decode_document_tree. Qed.
Print Assumptions C03_document_is_descent_then_end.

Theorem C03_trailing_data_rejected : forall orc e root bs j t rest me,
  lex bs = (tokens_of j ++ t :: rest, me) -> is_ok (decode_document orc e root bs) = false.
Proof. exact decode_document_tree_trailing. Qed.
Print Assumptions C03_trailing_data_rejected.

Theorem C03_accepted_document_is_accepted_descent : forall orc e root bs m,
  decode_document orc e root bs = Ok m <->
  decode_bytes orc e root bs = Ok m /\ doc_end_ok orc e root bs = true.
Proof. exact decode_document_ok. Qed.
Print Assumptions C03_accepted_document_is_accepted_descent.

(* The property's statement over the model of JSONToProto, for every environment passing the two
   computable schema checks that each run evaluates on the real schemas (CEnv cases):
   (1) success => the text is ONE document, every non-null member is stored with exactly the value it
       denotes and nothing else is stored (doc_denotes = denotes_msg for an object root, denotes at
       FOneof for a oneof root);
   (2) every documented alternate spelling (doc_variant: respelled leaves, permuted members, added
       explicit nulls, in any combination at any depth) of an accepted document is accepted with the
       same message;
   (3) a document with a fault of a listed class at any position (doc_fault), or with anything after the
       top-level value, is an error. *)
Definition C03_full_statement : Prop :=
  forall orc e root, env_separate e = true -> CodecDecCommute.env_commute e = true ->
  (forall bs ms rest me m',
     lex bs = (tokens_of (JObj ms) ++ rest, me) -> decode_document orc e root bs = Ok m' ->
     rest = [] /\ lex_at_eof bs = true /\ CodecDecFull.doc_denotes orc e root ms m') /\
  (forall bs bs' ms ms' me me' m',
     lex bs = (tokens_of (JObj ms), me) -> lex_at_eof bs = true ->
     lex bs' = (tokens_of (JObj ms'), me') -> lex_at_eof bs' = true ->
     CodecDecFull.doc_variant orc e root ms ms' ->
     decode_document orc e root bs = Ok m' -> decode_document orc e root bs' = Ok m') /\
  (forall bs ms rest me,
     lex bs = (tokens_of (JObj ms) ++ rest, me) ->
     CodecDecFull.doc_fault orc e root ms \/ rest <> [] \/ lex_at_eof bs = false ->
     is_err (decode_document orc e root bs) = true).
Theorem C03_full : C03_full_statement.
Proof. exact CodecDecFull.C03_full. Qed.
Print Assumptions C03_full.

(* non-vacuity: ok_doc on pos_env satisfies both schema checks, is accepted as a whole document, and
   the same text followed by a second document, a stray bracket or a letter is an error *)
Example C03_example_full :
  env_separate pos_env = true /\ CodecDecCommute.env_commute pos_env = true /\
  lex ok_doc = (tokens_of ok_tree ++ [], false) /\ lex_at_eof ok_doc = true /\
  decode_document no_oracles pos_env [78] ok_doc =
    Ok [(2, VList [VStr [97]; VStr [98]]); (5, VMsg [(2, VList [VStr [120]])])] /\
  is_err (decode_document no_oracles pos_env [78] (ok_doc ++ [123; 125])) = true /\
  is_err (decode_document no_oracles pos_env [78] (ok_doc ++ [93])) = true /\
  is_err (decode_document no_oracles pos_env [78] (ok_doc ++ [32; 120])) = true /\
  decode_document no_oracles pos_env [78] ([32; 10] ++ ok_doc ++ [10; 32; 9; 13]) =
    decode_document no_oracles pos_env [78] ok_doc.
Proof. vm_compute. repeat split; reflexivity. Qed.

(* ------------------------------------------------------------------ insignificant white space *)
(* Decoder.Token() skips white space before the token it reads in every tokenizer state, and again behind
   a ':' or ',' it passes: white space at those places never reaches the decoder *)
Theorem C03_whitespace_before_any_token : forall ws st stack s, CodecDecSpace.all_space ws ->
  token_call st stack (ws ++ s) = token_call st stack s.
Proof. exact CodecDecSpace.token_call_ws. Qed.
Print Assumptions C03_whitespace_before_any_token.

Theorem C03_whitespace_after_separator : forall ws st stack c s, CodecDecSpace.all_space ws -> (c = 58 \/ c = 44)%N ->
  token_call st stack (c :: ws ++ s) = token_call st stack (c :: s).
Proof. exact CodecDecSpace.token_call_ws_after_sep. Qed.
Print Assumptions C03_whitespace_after_separator.

(* white space in front of the document: same tokens, same end-of-input observation, same result of JSONToProto *)
Theorem C03_leading_whitespace_same_result : forall orc e root ws bs, CodecDecSpace.all_space ws ->
  decode_document orc e root (ws ++ bs) = decode_document orc e root bs.
Proof. exact CodecDecSpace.decode_document_leading_ws. Qed.
Print Assumptions C03_leading_whitespace_same_result.

(* ------------------------------------------------------------------ float values, under the float oracle law *)
(* model/CodecDecFloat.v: [rounds fmt m e bits] = bits is the IEEE-754 round-to-nearest, ties-to-even value
   of m * 10^e (two midpoint comparisons in exact integer arithmetic; a stored infinity never rounds);
   [float_oracle_law orc]: whatever ParseFloat accepts of a decimal text (exponent within +-2000) is that
   value, for binary64 and binary32.  Every run checks the law's instance on every float text of every
   decode case against the real strconv.ParseFloat (float_table_ok in dec_check). *)
Theorem C03_float64_value_exact : forall orc v s m e bits, CodecDecFloat.float_oracle_law orc ->
  CodecDecFloatProofs.float_text v = Some s -> Decimal.dec_parse s = Some (m, e) ->
  (Z.abs e <= CodecDecFloat.float_exp_bound)%Z ->
  scalar_from_go orc KFloat64 v = Ok (Some (VFloat bits)) -> CodecDecFloat.rounds CodecDecFloat.binary64 m e bits = true.
Proof. exact CodecDecFloatProofs.float64_value_exact. Qed.
Print Assumptions C03_float64_value_exact.

Theorem C03_float32_value_exact : forall orc v s m e bits, CodecDecFloat.float_oracle_law orc ->
  CodecDecFloatProofs.float_text v = Some s -> Decimal.dec_parse s = Some (m, e) ->
  (Z.abs e <= CodecDecFloat.float_exp_bound)%Z ->
  scalar_from_go orc KFloat32 v = Ok (Some (VFloat bits)) -> CodecDecFloat.rounds CodecDecFloat.binary32 m e bits = true.
Proof. exact CodecDecFloatProofs.float32_value_exact. Qed.
Print Assumptions C03_float32_value_exact.

(* the reading is sharp: 0.1 rounds to 0x3FB999999999999A and to neither neighbour; 2^53 + 1 (a tie) to the
   even 2^53; the float32 double-rounding text of fix 684dc42 to 0x3f800001, not 0x3f800000 *)
Example C03_example_float_rounding :
  CodecDecFloat.rounds CodecDecFloat.binary64 1 (-1) 4591870180066957722 = true /\
  CodecDecFloat.rounds CodecDecFloat.binary64 1 (-1) 4591870180066957721 = false /\
  CodecDecFloat.rounds CodecDecFloat.binary64 1 (-1) 4591870180066957723 = false /\
  CodecDecFloat.rounds CodecDecFloat.binary64 9007199254740993 0 4845873199050653696 = true /\
  CodecDecFloat.rounds CodecDecFloat.binary64 9007199254740993 0 4845873199050653697 = false /\
  CodecDecFloat.rounds CodecDecFloat.binary32 100000005960464477539062500000000000000000000000001 (-50) 1065353217 = true /\
  CodecDecFloat.rounds CodecDecFloat.binary32 100000005960464477539062500000000000000000000000001 (-50) 1065353216 = false /\
  CodecDecFloat.rounds CodecDecFloat.binary64 17976931348623159 292 9218868437227405311 = false.
Proof. vm_compute. repeat split; reflexivity. Qed.

(* ------------------------------------------------------------------ the oracles instantiated (closed corollaries) *)
(* model_oracles: time.Parse = the Go-tied model go_time_parse, decimal.NewFromString = lib/Decimal.v,
   ParseFloat = a table of correctly rounded values.  It satisfies time_oracle_is_model,
   decimal_oracle_is_model and float_oracle_law, so the premises of the theorems above are satisfiable
   and the theorems hold of it without any oracle premise. *)
Theorem C03_oracle_premises_satisfied :
  T.time_oracle_is_model CodecDecFloatProofs.model_oracles /\
  D.decimal_oracle_is_model CodecDecFloatProofs.model_oracles /\
  CodecDecFloat.float_oracle_law CodecDecFloatProofs.model_oracles.
Proof. exact (conj CodecDecFloatProofs.model_oracles_time (conj CodecDecFloatProofs.model_oracles_decimal CodecDecFloatProofs.model_oracles_float)). Qed.
Print Assumptions C03_oracle_premises_satisfied.

Theorem C03_timestamp_any_offset_closed : forall f g,
  T.shape f -> T.shape g -> T.in_range f = true -> T.in_range g = true ->
  T.instant f = T.instant g -> T.nanos f = T.nanos g ->
  scalar_from_go CodecDecFloatProofs.model_oracles KTimestamp (GStr (T.text f)) =
  scalar_from_go CodecDecFloatProofs.model_oracles KTimestamp (GStr (T.text g)).
Proof. exact CodecDecFloatProofs.timestamp_any_offset_closed. Qed.
Print Assumptions C03_timestamp_any_offset_closed.

Theorem C03_decimal_exact_closed : forall quoted s c,
  scalar_from_go CodecDecFloatProofs.model_oracles KDecimal (D.dec_goval quoted s) = Ok (Some (mk_decimal c)) ->
  exists m e b, Decimal.dec_parse s = Some (m, e) /\ c = Decimal.dec_print m e /\
                Decimal.dec_parse c = Some b /\ Decimal.dec_eq (m, e) b.
Proof. exact CodecDecFloatProofs.decimal_exact_closed. Qed.
Print Assumptions C03_decimal_exact_closed.

(* ------------------------------------------------------------------ the leaf reading, without the conversion function *)
(* proofs/CodecDecLeaf.v: [leaf_reading orc k j x] says what a scalar token denotes kind by kind in independent
   terms (integers: positional value of sign and digits, within the width; bool / string / key as written;
   timestamps: a text of the RFC 3339 shape with fields in range and its instant; decimals: canonical text of
   the number read; dates: three decimal numbers forming a calendar date; floats: nearest-even rounding of
   the number written; bytes: the model's lenient base64 reading).  Under the three oracle premises (jointly
   satisfiable: C03_oracle_premises_satisfied) every scalar leaf of a denotation has such a reading. *)
Theorem C03_leaf_reading_complete : forall orc,
  T.time_oracle_is_model orc -> D.decimal_oracle_is_model orc -> CodecDecFloat.float_oracle_law orc ->
  forall k j x, is_container j = false -> scalar_from_go orc k (goval_of_json j) = Ok (Some x) ->
  CodecDecLeaf.leaf_reading orc k j x.
Proof. exact CodecDecLeaf.leaf_complete. Qed.
Print Assumptions C03_leaf_reading_complete.

Theorem C03_denoted_scalar_has_independent_reading : forall orc e k j x,
  T.time_oracle_is_model orc -> D.decimal_oracle_is_model orc -> CodecDecFloat.float_oracle_law orc ->
  CodecDecDenote.denotes orc e (FScalar k) j x -> CodecDecLeaf.leaf_reading orc k j x.
Proof. exact CodecDecLeaf.denoted_scalar_reading. Qed.
Print Assumptions C03_denoted_scalar_has_independent_reading.

(* non-vacuity of the denotation theorem: pos_env passes the separation check and the members of ok_tree
   denote the decoded message *)
Example C03_example_denoted :
  CodecDecDenote.denotes_msg no_oracles pos_env
    [mkProp [114] [2] false false [] (FArray (FScalar KString)); mkProp [99] [5] false true [] (FObject [78])]
    [([114], JArr [JStr [97]; JStr [98]]); ([99], JObj [([114], JArr [JStr [120]])])]
    [(2, VList [VStr [97]; VStr [98]]); (5, VMsg [(2, VList [VStr [120]])])].
Proof.
  assert (Hs : CodecDecFull.env_sep pos_env) by (apply CodecDecFull.env_separate_sound; vm_compute; reflexivity).
  eapply (CodecDecDenote.object_body_denoted no_oracles pos_env Hs 20 0).
  - apply (Hs [78]). left. reflexivity.
  - vm_compute. reflexivity.
Qed.

(* ------------------------------------------------------------------ members that are exposed oneofs *)
(* An exposed oneof has no proto path of its own: its arms are fields of the enclosing message.  For
   environments that also pass the computable check env_exposed_ok (the arms of an exposed oneof are separate
   from every other property of the set; evaluated on every real environment, CEnv), every non-null,
   non-"!type" member of the body of an exposed-oneof member of an accepted document is stored in the root
   message, at the arm's proto path, with exactly the value it denotes. *)
Theorem C03_exposed_oneof_members_stored : forall orc e root props fuel ms m',
  env_separate e = true -> CodecDecExposedCheck.env_exposed_ok e = true ->
  lookup e root = Some (SObject props) -> tr_decode orc e fuel root (JObj ms) = Ok m' ->
  forall key v p ref ps, In (key, v) ms -> v <> JNull -> find_prop props key = Some p ->
    p_path p = [] -> p_ty p = FOneof ref -> lookup e ref = Some (SOneof ps) ->
    exists ms', v = JObj ms' /\
      forall k' v', In (k', v') (CodecDecOneofReorder.nontype ms') -> v' <> JNull ->
        exists q, find_prop ps k' = Some q /\
          (p_path q <> [] -> exists x, CodecDecDenote.denotes orc e (p_ty q) v' x /\
                                       get_path (p_path q) m' = CodecDecDenote.stored_as q x).
Proof. exact CodecDecExposedStored.exposed_members_of_document. Qed.
Print Assumptions C03_exposed_oneof_members_stored.

(* LIMITS of C03_full (also in pylib/propcfg/C03.py "partial"):
   - the leaf reading inside [denotes] is the conversion of the one token (scalar_from_go); every such leaf
     has the independent reading leaf_reading (C03_denoted_scalar_has_independent_reading) under the three
     oracle premises; for bytes that reading is still the model's lenient base64 decoder (canonical
     spellings: C03_base64_four_spellings); float values rest on the float oracle law;
   - members whose property is an exposed oneof (empty proto path) are outside the per-member clause (1) of
     denotes_msg; they are covered by the separate theorem C03_exposed_oneof_members_stored (root level, under
     the additional check env_exposed_ok) and by clause (2) ("nothing else", via owns);
   - the hypothesis [lex bs = (tokens_of (JObj ms) ++ rest, me)]: that every accepted text has such a
     reading is not proved (malformed texts end the token list early and the descent fails on them);
   - (2) is one direction (accepted original => accepted variant); the converse holds for member
     reordering and null padding of the root (C03_reordered_document_same_message, iff) and for respelled
     leaves and permuted members at any depth (C03_respelled_document_iff, C03_variant_without_nulls_document_iff
     below); not for nulls added below the root. *)

(* ------------------------------------------------------------------ the converse for respelled leaves
   CodecDecConverse.respelled = the fragment of the leniency relation that keeps the member order and adds no
   nulls: at any depth a leaf replaced by another spelling that the field kind's conversion maps to the same
   result (quoted / bare number, base64 forms, enum prefix, timestamp offsets), arrays / maps elementwise.
   The fragment is symmetric, so a document and its respelling are accepted together with the same message,
   and rejected together: in particular no respelling of a REJECTED document is accepted. *)
Theorem C03_respelled_is_symmetric : forall orc e root ms ms',
  CodecDecConverse.doc_respelled orc e root ms ms' -> CodecDecConverse.doc_respelled orc e root ms' ms.
Proof. exact CodecDecConverse.doc_respelled_sym. Qed.
Print Assumptions C03_respelled_is_symmetric.

Theorem C03_respelled_is_documented_variant : forall orc e root ms ms',
  CodecDecConverse.doc_respelled orc e root ms ms' -> CodecDecFull.doc_variant orc e root ms ms'.
Proof. exact CodecDecConverse.doc_respelled_variant. Qed.
Print Assumptions C03_respelled_is_documented_variant.

Theorem C03_respelled_document_iff : forall orc e root bs bs' ms ms' me me',
  env_separate e = true -> CodecDecCommute.env_commute e = true ->
  lex bs = (tokens_of (JObj ms), me) -> lex_at_eof bs = true ->
  lex bs' = (tokens_of (JObj ms'), me') -> lex_at_eof bs' = true ->
  CodecDecConverse.doc_respelled orc e root ms ms' ->
  forall m', decode_document orc e root bs = Ok m' <-> decode_document orc e root bs' = Ok m'.
Proof. exact CodecDecConverse.respelled_document_iff. Qed.
Print Assumptions C03_respelled_document_iff.

Theorem C03_respelled_document_rejected_iff : forall orc e root bs bs' ms ms' me me',
  env_separate e = true -> CodecDecCommute.env_commute e = true ->
  lex bs = (tokens_of (JObj ms), me) -> lex_at_eof bs = true ->
  lex bs' = (tokens_of (JObj ms'), me') -> lex_at_eof bs' = true ->
  CodecDecConverse.doc_respelled orc e root ms ms' ->
  (is_err (decode_document orc e root bs) = true <-> is_err (decode_document orc e root bs') = true).
Proof. exact CodecDecConverse.respelled_document_rejected_iff. Qed.
Print Assumptions C03_respelled_document_rejected_iff.

(* non-vacuity: {"c":{"i":"-7"}} and {"c":{"i":-7}} on an environment with an int32 below a recursive object:
   both schema checks hold, the two member lists are related (in both directions), and both texts decode to
   the same message *)
Definition rs_env : env :=
  [([78], SObject [mkProp [105] [6] false false [] (FScalar KInt32);
                   mkProp [99] [5] false true [] (FObject [78])])].
Definition rs_ms (v : jvalue) : list (bytes * jvalue) := [([99], JObj [([105], v)])].
(* {"c":{"i":"-7"}} *)
Definition rs_doc_quoted : bytes := [123;34;99;34;58;123;34;105;34;58;34;45;55;34;125;125].
(* {"c":{"i":-7}} *)
Definition rs_doc_bare : bytes := [123;34;99;34;58;123;34;105;34;58;45;55;125;125].
Example C03_example_respelled_converse :
  env_separate rs_env = true /\ CodecDecCommute.env_commute rs_env = true /\
  lex rs_doc_quoted = (tokens_of (JObj (rs_ms (JStr [45;55]))), false) /\ lex_at_eof rs_doc_quoted = true /\
  lex rs_doc_bare = (tokens_of (JObj (rs_ms (JNum [45;55]))), false) /\ lex_at_eof rs_doc_bare = true /\
  CodecDecConverse.doc_respelled no_oracles rs_env [78] (rs_ms (JStr [45;55])) (rs_ms (JNum [45;55])) /\
  decode_document no_oracles rs_env [78] rs_doc_quoted = Ok [(5, VMsg [(6, VInt (-7))])] /\
  decode_document no_oracles rs_env [78] rs_doc_bare = Ok [(5, VMsg [(6, VInt (-7))])].
Proof.
  split; [vm_compute; reflexivity|]. split; [vm_compute; reflexivity|].
  split; [vm_compute; reflexivity|]. split; [vm_compute; reflexivity|].
  split; [vm_compute; reflexivity|]. split; [vm_compute; reflexivity|].
  split; [|split; vm_compute; reflexivity].
  left. eexists. split; [vm_compute; reflexivity|].
  eapply CodecDecConverse.RM_member; [reflexivity | vm_compute; reflexivity | split; discriminate | | apply CodecDecConverse.RM_nil].
  cbn [p_ty]. eapply CodecDecConverse.R_object; [vm_compute; reflexivity|].
  eapply CodecDecConverse.RM_member; [reflexivity | vm_compute; reflexivity | split; discriminate | | apply CodecDecConverse.RM_nil].
  cbn [p_ty]. apply CodecDecConverse.R_scalar; [reflexivity | reflexivity | split; discriminate | vm_compute; reflexivity].
Qed.

(* ------------------------------------------------------------------ the converse with member permutation
   CodecDecConversePerm.vrespelled = the leniency relation WITHOUT added nulls: at every level the members
   permuted (a oneof body with at most one "!type"), then leaves respelled.  Same-order respelling commutes
   with a permutation (vm_perm), so this fragment is symmetric as well: a document and such a variant are
   accepted together with the same message and rejected together.  What is left one-directional is only the
   addition of explicit nulls below the root (the relation itself is not symmetric there: the variant has more
   members; at the root the iff is C03_null_padded_reordered_document_same_message). *)
Theorem C03_variant_without_nulls_is_symmetric : forall orc e root ms ms',
  CodecDecConversePerm.doc_vrespelled orc e root ms ms' -> CodecDecConversePerm.doc_vrespelled orc e root ms' ms.
Proof. exact CodecDecConversePerm.doc_vrespelled_sym. Qed.
Print Assumptions C03_variant_without_nulls_is_symmetric.

Theorem C03_variant_without_nulls_is_documented_variant : forall orc e root ms ms',
  CodecDecConversePerm.doc_vrespelled orc e root ms ms' -> CodecDecFull.doc_variant orc e root ms ms'.
Proof. exact CodecDecConversePerm.doc_vrespelled_variant. Qed.
Print Assumptions C03_variant_without_nulls_is_documented_variant.

Theorem C03_variant_without_nulls_document_iff : forall orc e root bs bs' ms ms' me me',
  env_separate e = true -> CodecDecCommute.env_commute e = true ->
  lex bs = (tokens_of (JObj ms), me) -> lex_at_eof bs = true ->
  lex bs' = (tokens_of (JObj ms'), me') -> lex_at_eof bs' = true ->
  CodecDecConversePerm.doc_vrespelled orc e root ms ms' ->
  forall m', decode_document orc e root bs = Ok m' <-> decode_document orc e root bs' = Ok m'.
Proof. exact CodecDecConversePerm.vrespelled_document_iff. Qed.
Print Assumptions C03_variant_without_nulls_document_iff.

Theorem C03_variant_without_nulls_rejected_iff : forall orc e root bs bs' ms ms' me me',
  env_separate e = true -> CodecDecCommute.env_commute e = true ->
  lex bs = (tokens_of (JObj ms), me) -> lex_at_eof bs = true ->
  lex bs' = (tokens_of (JObj ms'), me') -> lex_at_eof bs' = true ->
  CodecDecConversePerm.doc_vrespelled orc e root ms ms' ->
  (is_err (decode_document orc e root bs) = true <-> is_err (decode_document orc e root bs') = true).
Proof. exact CodecDecConversePerm.vrespelled_document_rejected_iff. Qed.
Print Assumptions C03_variant_without_nulls_rejected_iff.

(* non-vacuity on rs_env: members swapped and both integers respelled *)
(* {"i":"3","c":{"i":"-7"}} *)
Definition rp_doc : bytes := [123;34;105;34;58;34;51;34;44;34;99;34;58;123;34;105;34;58;34;45;55;34;125;125].
Definition rp_ms : list (bytes * jvalue) := [([105], JStr [51]); ([99], JObj [([105], JStr [45;55])])].
(* {"c":{"i":-7},"i":3} *)
Definition rp_doc' : bytes := [123;34;99;34;58;123;34;105;34;58;45;55;125;44;34;105;34;58;51;125].
Definition rp_ms' : list (bytes * jvalue) := [([99], JObj [([105], JNum [45;55])]); ([105], JNum [51])].
Example C03_example_variant_converse :
  lex rp_doc = (tokens_of (JObj rp_ms), false) /\ lex_at_eof rp_doc = true /\
  lex rp_doc' = (tokens_of (JObj rp_ms'), false) /\ lex_at_eof rp_doc' = true /\
  CodecDecConversePerm.doc_vrespelled no_oracles rs_env [78] rp_ms rp_ms' /\
  decode_document no_oracles rs_env [78] rp_doc = Ok [(5, VMsg [(6, VInt (-7))]); (6, VInt 3)] /\
  decode_document no_oracles rs_env [78] rp_doc' = Ok [(5, VMsg [(6, VInt (-7))]); (6, VInt 3)].
Proof.
  split; [vm_compute; reflexivity|]. split; [vm_compute; reflexivity|].
  split; [vm_compute; reflexivity|]. split; [vm_compute; reflexivity|].
  split; [|split; vm_compute; reflexivity].
  left. eexists. exists [([99], JObj [([105], JStr [45;55])]); ([105], JStr [51])].
  split; [vm_compute; reflexivity|]. split; [apply perm_swap|].
  eapply CodecDecConversePerm.VM_member; [reflexivity | vm_compute; reflexivity | split; discriminate | |].
  - cbn [p_ty]. eapply CodecDecConversePerm.V_object; [vm_compute; reflexivity | apply Permutation_refl |].
    eapply CodecDecConversePerm.VM_member; [reflexivity | vm_compute; reflexivity | split; discriminate | | apply CodecDecConversePerm.VM_nil].
    cbn [p_ty]. apply CodecDecConversePerm.V_scalar; [reflexivity | reflexivity | split; discriminate | vm_compute; reflexivity].
  - eapply CodecDecConversePerm.VM_member; [reflexivity | vm_compute; reflexivity | split; discriminate | | apply CodecDecConversePerm.VM_nil].
    cbn [p_ty]. apply CodecDecConversePerm.V_scalar; [reflexivity | reflexivity | split; discriminate | vm_compute; reflexivity].
Qed.

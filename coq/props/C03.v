(* C03 — Decoding is exact or rejected: no silent loss, coercion or ambiguity.
   Only statements, closed by [exact lemma], with Print Assumptions beneath. *)
From Coq Require Import String List NArith ZArith Bool.
From J5V.lib Require Import Outcome Json.
From J5V.model Require Import CodecTypes CodecDecScalar CodecDec CodecDecQuery CodecDecTree.
From J5V.proofs Require Import CodecDecProofs CodecDecExact CodecDecTreeProofs CodecDecFaults.
Import ListNotations.
Local Open Scope N_scope.

(* ------------------------------------------------------------------ integers (all of Z, four widths) *)
(* exact: a stored integer is the value its digit string denotes, quoted or bare, and lies in range *)
Theorem C03_int_exact : forall k lo hi v z,
  int_range k = Some (lo, hi) -> (exists s, v = GStr s \/ v = GNum s) ->
  int_from_go k v = Ok (Some (VInt z)) ->
  (exists s, (v = GStr s \/ v = GNum s) /\ denotes_int s z) /\ (lo <= z <= hi)%Z.
Proof. exact int_exact. Qed.
Print Assumptions C03_int_exact.

(* lenient: every representable integer in canonical digits decodes to itself quoted and bare *)
Theorem C03_int_quoted_or_bare : forall k lo hi z,
  int_range k = Some (lo, hi) -> (lo <= z <= hi)%Z ->
  int_from_go k (GStr (print_Z z)) = Ok (Some (VInt z)) /\
  int_from_go k (GNum (print_Z z)) = Ok (Some (VInt z)).
Proof. exact int_canonical_both_spellings. Qed.
Print Assumptions C03_int_quoted_or_bare.

(* rejected: out of range, unparsable, wrong JSON type *)
Theorem C03_int_out_of_range_rejected : forall k lo hi v s z,
  int_range k = Some (lo, hi) -> (v = GStr s \/ v = GNum s) ->
  denotes_int s z -> (z < lo \/ hi < z)%Z -> is_err (int_from_go k v) = true.
Proof. exact int_out_of_range_rejected. Qed.
Print Assumptions C03_int_out_of_range_rejected.

Theorem C03_int_unparsable_rejected : forall k lo hi v s,
  int_range k = Some (lo, hi) -> (v = GStr s \/ v = GNum s) ->
  parse_signed s = None -> is_err (int_from_go k v) = true.
Proof. exact int_unparsable_rejected. Qed.
Print Assumptions C03_int_unparsable_rejected.

(* ------------------------------------------------------------------ bool, string, key, wrong types *)
Theorem C03_bool_exact : forall orc v b, scalar_from_go orc KBool v = Ok (Some (VBool b)) <-> v = GBool b.
Proof. exact bool_exact. Qed.
Print Assumptions C03_bool_exact.

Theorem C03_string_exact : forall orc k v s, (k = KString \/ k = KKey) ->
  scalar_from_go orc k v = Ok (Some (VStr s)) <-> v = GStr s.
Proof. exact string_exact. Qed.
Print Assumptions C03_string_exact.

Theorem C03_wrong_type_rejected : forall orc,
  (forall v, (forall b, v <> GBool b) -> v <> GNil -> is_err (scalar_from_go orc KBool v) = true) /\
  (forall k v, k = KString \/ k = KKey -> (forall s, v <> GStr s) -> v <> GNil -> is_err (scalar_from_go orc k v) = true) /\
  (forall k v, k = KBytes \/ k = KTimestamp \/ k = KDate -> (forall s, v <> GStr s) -> is_err (scalar_from_go orc k v) = true) /\
  (forall v, (forall s, v <> GStr s) -> (forall s, v <> GNum s) -> is_err (scalar_from_go orc KDecimal v) = true).
Proof. exact wrong_type_rejected. Qed.
Print Assumptions C03_wrong_type_rejected.

(* ------------------------------------------------------------------ enums *)
Theorem C03_enum_with_or_without_prefix : forall prefix opts name z,
  option_by_short opts name = Some z -> option_by_short opts (prefix ++ name) = None ->
  option_by_name prefix opts name = Some z /\ option_by_name prefix opts (prefix ++ name) = Some z.
Proof. exact enum_prefix_leniency. Qed.
Print Assumptions C03_enum_with_or_without_prefix.

Theorem C03_enum_exact : forall prefix opts name z,
  option_by_name prefix opts name = Some z ->
  option_by_short opts name = Some z \/ option_by_short opts (trim_prefix prefix name) = Some z.
Proof. exact enum_exact. Qed.
Print Assumptions C03_enum_exact.

Theorem C03_enum_unknown_rejected : forall prefix opts name,
  option_by_short opts name = None -> option_by_short opts (trim_prefix prefix name) = None ->
  option_by_name prefix opts name = None.
Proof. exact enum_unknown_rejected. Qed.
Print Assumptions C03_enum_unknown_rejected.

(* ------------------------------------------------------------------ dates *)
Theorem C03_date_exact : forall s y m d,
  date_from_string s = Some (y, m, d) -> (0 <= y <= 9999 /\ 1 <= m <= 12 /\ 1 <= d <= days_in y m)%Z.
Proof. exact date_exact. Qed.
Print Assumptions C03_date_exact.

Theorem C03_date_invalid_rejected : forall s a b c y m d,
  split_on 45 s [] = [a; b; c] -> atoi a = Some y -> atoi b = Some m -> atoi c = Some d ->
  (m < 1 \/ 12 < m \/ d < 1 \/ days_in y m < d \/ y < 0 \/ 9999 < y)%Z ->
  date_from_string s = None.
Proof. exact date_invalid_rejected. Qed.
Print Assumptions C03_date_invalid_rejected.

(* ------------------------------------------------------------------ members, at the position where they stand *)
Theorem C03_null_member_skipped : forall d dp p ts m seen,
  (d + 1 <= max_nesting_depth)%N -> member_with d dp p (TNull :: ts) m seen = Ok (m, ts, seen).
Proof. exact null_member_skipped. Qed.
Print Assumptions C03_null_member_skipped.

Theorem C03_duplicate_member_rejected : forall d dp p t ts m seen,
  t <> TNull -> mem_bytes (p_json p) seen = true -> is_err (member_with d dp p (t :: ts) m seen) = true.
Proof. exact duplicate_member_rejected. Qed.
Print Assumptions C03_duplicate_member_rejected.

Theorem C03_unknown_key_rejected_object : forall orc e me f d props key ts m seen,
  find_prop props key = None ->
  is_err (object_body orc e me (S f) d props (TStr key :: ts) m seen) = true.
Proof. exact unknown_key_rejected_object. Qed.
Print Assumptions C03_unknown_key_rejected_object.

Theorem C03_unknown_key_rejected_oneof : forall orc e me f d props key ts m seen found c,
  bytes_eqb key type_key = false -> find_prop props key = None ->
  is_err (oneof_body orc e me (S f) d props (TStr key :: ts) m seen found c) = true.
Proof. exact unknown_key_rejected_oneof. Qed.
Print Assumptions C03_unknown_key_rejected_oneof.

Theorem C03_oneof_two_keys_rejected : forall props m k1 k2 rest constrain,
  is_err (oneof_post props m (k1 :: k2 :: rest) constrain) = true.
Proof. exact oneof_two_keys_rejected. Qed.
Print Assumptions C03_oneof_two_keys_rejected.

Theorem C03_oneof_type_contradiction_rejected : forall props m k c,
  bytes_eqb k c = false -> is_err (oneof_post props m [k] (Some c)) = true.
Proof. exact oneof_type_contradiction_rejected. Qed.
Print Assumptions C03_oneof_type_contradiction_rejected.

Theorem C03_member_error_fails_object : forall orc e me f d props key p ts m seen c,
  find_prop props key = Some p ->
  member_with d (decode_present orc e me f (d + 1) p) p ts m seen = Err c ->
  object_body orc e me (S f) d props (TStr key :: ts) m seen = Err c.
Proof. exact member_error_fails_object. Qed.
Print Assumptions C03_member_error_fails_object.

Theorem C03_null_array_element_rejected : forall orc e me f d k ts acc,
  is_err (array_items orc e me (S f) d (FScalar k) (TNull :: ts) acc) = true.
Proof. exact null_array_element_rejected. Qed.
Print Assumptions C03_null_array_element_rejected.

(* two members of one (unexposed) proto oneof: the second is rejected where it stands *)
Theorem C03_oneof_sibling_rejected : forall d dp p t ts m seen,
  t <> TNull -> oneof_conflict p m = true -> is_err (member_with d dp p (t :: ts) m seen) = true.
Proof. exact oneof_sibling_rejected. Qed.
Print Assumptions C03_oneof_sibling_rejected.

(* an object with members a (field 1) and b (field 2) of one proto oneof: {"a":"x","b":"y"} used to
   decode to {2:"y"}, losing "a" *)
Definition sib_env : env :=
  [([78], SObject [mkProp [97] [1] false true [2] (FScalar KString);
                   mkProp [98] [2] false true [1] (FScalar KString)])].
Definition sib_doc : bytes := [123;34;97;34;58;34;120;34;44;34;98;34;58;34;121;34;125].
Example C03_example_oneof_siblings : is_err (decode_bytes no_oracles sib_env [78] sib_doc) = true.
Proof. vm_compute. reflexivity. Qed.

(* ------------------------------------------------------------------ documents: positions *)
(* The decoder model that is tied to the Go code works on tokens.  On the tokens of a document tree
   j (followed by anything) it computes exactly the tree reading [tr_decode] of j: members, elements
   and map values are visited in document order with the same checks. *)
Theorem C03_token_model_is_tree_reading : forall orc e root bs j rest me,
  lex bs = (tokens_of j ++ rest, me) ->
  decode_bytes orc e root bs = tr_decode orc e (S (jsize j)) root j.
Proof. exact decode_bytes_tree. Qed.
Print Assumptions C03_token_model_is_tree_reading.

(* Rejection clause, at document level: [faulty_members] / [faulty_oneof] (proofs/CodecDecFaults.v)
   say that somewhere in the document — top level, nested object, array element, map value, oneof
   arm, to any depth — there is a value of the wrong JSON type, a number / base64 / date / decimal /
   timestamp text that its kind's conversion refuses, an unknown enum name, an unknown key, a null
   array element or map value, a "!type" that is not a string, more than one key in a oneof, or a
   "!type" contradicting the key present.  Every such document is rejected with an error. *)
Theorem C03_fault_at_any_position_rejected : forall orc e root bs ms rest me,
  lex bs = (tokens_of (JObj ms) ++ rest, me) ->
  (exists props, lookup e root = Some (SObject props) /\ faulty_members orc e props ms) \/
  (exists props, lookup e root = Some (SOneof props) /\ faulty_oneof orc e props ms) ->
  is_err (decode_bytes orc e root bs) = true.
Proof. exact faulty_document_rejected. Qed.
Print Assumptions C03_fault_at_any_position_rejected.

(* {"c":{"c":{"r":["a",null]}}} on the environment below: a null array element two objects deep *)
Definition pos_env : env :=
  [([78], SObject [mkProp [114] [2] false false [] (FArray (FScalar KString));
                   mkProp [99] [5] false true [] (FObject [78])])].
Definition pos_tree : jvalue :=
  JObj [([99], JObj [([99], JObj [([114], JArr [JStr [97]; JNull])])])].
Definition pos_doc : bytes :=
  [123;34;99;34;58;123;34;99;34;58;123;34;114;34;58;91;34;97;34;44;110;117;108;108;93;125;125;125].
Example C03_example_fault_position :
  lex pos_doc = (tokens_of pos_tree ++ [], false) /\
  faulty_members no_oracles pos_env
    [mkProp [114] [2] false false [] (FArray (FScalar KString)); mkProp [99] [5] false true [] (FObject [78])]
    [([99], JObj [([99], JObj [([114], JArr [JStr [97]; JNull])])])] /\
  is_err (decode_bytes no_oracles pos_env [78] pos_doc) = true.
Proof.
  split; [vm_compute; reflexivity|]. split; [|vm_compute; reflexivity].
  eapply M_member with (k := [99]); [left; reflexivity | reflexivity | discriminate |].
  eapply F_object_inside; [reflexivity|].
  eapply M_member with (k := [99]); [left; reflexivity | reflexivity | discriminate |].
  eapply F_object_inside; [reflexivity|].
  eapply M_member with (k := [114]); [left; reflexivity | reflexivity | discriminate |].
  eapply F_array_element with (v := JNull); [right; left; reflexivity | apply E_null].
Qed.

(* ------------------------------------------------------------------ URL query parameters *)
(* a scalar supplied as the single value of a query parameter is stored exactly as the JSON member
   carrying the corresponding token (the quoted string; for bool fields the literals true / false) *)
Theorem C03_query_scalar_as_json : forall orc e me f d props name p k v m st,
  find_prop props name = Some p -> p_ty p = FScalar k ->
  mem_bytes (p_json p) (qt_seen st) = false -> oneof_conflict p m = false ->
  omap fst (query_final orc e props name [v] m st) =
  omap fst (decode_present orc e me (S f) d p (query_token k v :: []) m).
Proof. exact query_scalar_as_json. Qed.
Print Assumptions C03_query_scalar_as_json.

(* ------------------------------------------------------------------ non-vacuity *)
Example C03_example_ints :
  int_from_go KInt32 (GStr (print_Z (-2147483648))) = Ok (Some (VInt (-2147483648))) /\
  int_from_go KUint64 (GNum (print_Z 18446744073709551615)) = Ok (Some (VInt 18446744073709551615)) /\
  is_err (int_from_go KInt32 (GStr [50;49;52;55;52;56;51;54;52;56])) = true /\
  is_err (int_from_go KInt32 (GStr [97;98;99])) = true.
Proof. vm_compute. repeat split; reflexivity. Qed.

Example C03_example_enum_date :
  option_by_name [77;95] [([88], 1%Z); ([77;95;88], 7%Z)] [77;95;88] = Some 7%Z /\
  option_by_name [69;95] [([65], 1%Z)] [69;95;65] = Some 1%Z /\
  date_from_string [50;48;50;52;45;48;50;45;50;57] = Some (2024, 2, 29)%Z /\
  date_from_string [50;48;50;52;45;49;51;45;52;53] = None.
Proof. vm_compute. repeat split; reflexivity. Qed.

(* C07 — the j5s compiler is total and accepts the whole documented language.
   Only statements, closed by [exact lemma], with Print Assumptions beneath.

   Scope of the model (model/CmpbFields.v): the decision core of buildProperty / buildField /
   setJ5Ext / resolveType / ensureImport and the one-declaration file around a property, over ALL
   abstract fields (field type x rules x list rules x format x key qualifiers x array/map wrapper x
   required/optional, including shapes no source text can produce).  The BCL lexer/parser is C11's;
   the schema-directed BCL walker is model/CmpbWalk.v + CmpbWalkFile.v (round 3, last block of this file), tied by the
   'walk' / 'full' correspondence streams. *)
From Coq Require Import String List NArith ZArith Bool Arith.
From J5V.lib Require Import Text Outcome.
From J5V.gen Require SetExtGen PanicGen WalkerGen SourcewalkGen WalkSchemaGen.
From J5V.model Require Import Entity.
From J5V.model Require Import BclLexer BclParser CmpbFields CmpbDecls CmpbFront CmpbWalker CmpbPackage CmpbEntity CmpbWalk CmpbWalkFile.
From J5V.proofs Require Import BclPosProofs BclBytesProofs CmpbFieldsProofs CmpbPanicProofs CmpbDeclsProofs CmpbSchemaProofs CmpbFrontProofs CmpbPackageProofs CmpbEntityProofs CmpbWalkProofs CmpbLinkProofs.
From J5V.proofs Require J5sWitnessProofs.
Import ListNotations.
Local Open Scope string_scope.

(* ---- (i) totality of the converter core: no Go panic site is reachable, for every abstract field *)
Theorem C07_compile_field_total : forall p, o_verdict (compile_iso p) <> VPanic.
Proof. exact iso_no_panic. Qed.
Print Assumptions C07_compile_field_total.

(* ---- "links in isolation": a file holding one property never fails to link; every extension set
   on the field (and the message) has its defining file among the imports the converter ensured *)
Theorem C07_links_in_isolation : forall p, o_verdict (compile_iso p) <> VLinkErr.
Proof. exact iso_no_link_error. Qed.
Print Assumptions C07_links_in_isolation.

Theorem C07_imports_cover_extensions : forall p, o_verdict (compile_iso p) = VOk ->
  forall e, In e (XMessage :: o_exts (compile_iso p)) -> ext_imported (o_imps (compile_iso p)) e = true.
Proof. exact iso_imports_cover. Qed.
Print Assumptions C07_imports_cover_extensions.

(* the same at field level, without help from the enclosing object — for every field but `any` *)
Theorem C07_field_imports_cover_extensions : forall p, has_any p = false -> field_cover p = true.
Proof. exact field_imports_cover. Qed.
Print Assumptions C07_field_imports_cover_extensions.

(* ---- acceptance of the documented language.  Full statement: *)
Definition C07_full_statement : Prop := full_language_statement.

(* it does not hold: float rules are rejected ("TODO: float rules not implemented") — recorded finding.
   (List rules on an informal key were the second gap until fix dc2b724.) *)
Theorem C07_language_refuted : ~ C07_full_statement.
Proof. exact full_language_refuted. Qed.
Print Assumptions C07_language_refuted.

(* what holds: everything in the language except float rules is accepted and links;
   missing for the full statement: float rules *)
Theorem C07_language_accepted_partial : forall p,
  in_language p = true -> uses_float_rules p = false -> o_verdict (compile_iso p) = VOk.
Proof. exact language_accepted_partial. Qed.
Print Assumptions C07_language_accepted_partial.

(* conversely a property is rejected only when it is outside the accepted language, and a rejection
   records at least one error (each recorded through addError with the node's source position) *)
Theorem C07_rejects_only_outside_language : forall p,
  o_verdict (compile_iso p) = VConvErr -> accepted_language p = false.
Proof. exact iso_rejects_only_outside. Qed.
Print Assumptions C07_rejects_only_outside_language.

Theorem C07_errors_nonempty : forall p, o_verdict (compile_iso p) = VConvErr -> 1 <= iso_nerr p.
Proof. exact iso_errors_nonempty. Qed.
Print Assumptions C07_errors_nonempty.
(* positions: NOT a theorem about positions lying inside the file; only that, syntactically, addError calls
   errpos.AddPosition under the single guard `loc != nil` and GetPos returns the address of a literal (so the
   guard never fails); whether the position is right is checked by the oracle on every error *)
Theorem C07_adderror_attaches_position : errors_positioned = true.
Proof. exact errors_positioned_holds. Qed.
Print Assumptions C07_adderror_attaches_position.

(* ---- (ii) the call-site table, recomputed over the regenerated list on every run *)
Theorem C07_sites_agree : sites_same_set = true.
Proof. exact sites_agree. Qed.
Print Assumptions C07_sites_agree.

Definition C07_setext_full_statement : Prop := forallb gen_site_ok SetExtGen.sites = true.
(* every SetExtension passes the extension's declared Go type to the options message the extension
   extends, in a branch that imports the extension's file.  Full since fix 985f10a: the one ill-typed call
   (list_request on MethodOptions, a certain panic) was replaced by a positioned error *)
Theorem C07_setext_typed : C07_setext_full_statement.
Proof. exact setext_typed. Qed.
Print Assumptions C07_setext_typed.

Theorem C07_setj5ext_copy_total : forallb j5ext_call_ok SetExtGen.setj5ext_calls = true.
Proof. exact setj5ext_calls_ok. Qed.
Print Assumptions C07_setj5ext_copy_total.

Theorem C07_import_paths_ok :
  forallb (fun i => negb (String.eqb (imp_path i) "") && has_slash (imp_path i)) (IRefFile :: const_imps) = true.
Proof. exact import_paths_ok. Qed.
Print Assumptions C07_import_paths_ok.

(* ---- declarations that set extensions outside buildField, for ANY number of options / methods
   (induction over the lists, model/CmpbDecls.v) *)
(* a top-level enum with or without info definitions and with info values on any of its options
   converts, never panics, and links in a file with nothing else (the repaired finding 21) *)
Theorem C07_enum_accepted : forall e, verdict_d (compile_enum e) = VOk.
Proof. exact enum_accepted. Qed.
Print Assumptions C07_enum_accepted.

(* topics of every type with any number of messages, and the shells of objects (entity parts or not)
   and oneofs, are accepted and link alone *)
Theorem C07_topic_accepted : forall t, verdict_d (compile_topic t) = VOk.
Proof. exact topic_accepted. Qed.
Print Assumptions C07_topic_accepted.
Theorem C07_object_shell_accepted : forall entity, verdict_d (compile_object_shell entity) = VOk.
Proof. exact object_shell_accepted. Qed.
Print Assumptions C07_object_shell_accepted.

(* ---- whole files: any number of declarations, objects and oneofs with any number of properties
   (each property contributes what it contributes alone: conversion reads neither the import list nor the
   errors recorded so far).  The converter does not panic and every output file links — for EVERY list of
   declarations (since fix 985f10a a list request is an error, not a panic); a file of in-language
   declarations (minus the recorded gaps, which include list requests) is accepted; and it stays accepted
   when any declarations are removed: nothing depends on an unrelated declaration being present *)
Theorem C07_file_total_links : forall ds, file_verdict ds <> VPanic /\ file_verdict ds <> VLinkErr.
Proof. exact file_total_links_all. Qed.
Print Assumptions C07_file_total_links.
Theorem C07_file_accepted_partial : forall ds,
  no_list_requests ds -> forallb decl_in_language ds = true -> file_verdict ds = VOk.
Proof. exact file_accepted. Qed.
Print Assumptions C07_file_accepted_partial.
Theorem C07_file_isolation : forall ds ds', no_list_requests ds -> forallb decl_in_language ds = true ->
  (forall d, In d ds' -> In d ds) -> file_verdict ds' = VOk.
Proof. exact file_isolation. Qed.
Print Assumptions C07_file_isolation.

(* services: full statement *)
Definition C07_service_full_statement : Prop := service_full_statement.
(* refuted: a method with a list request is rejected (recorded finding "documented language not accepted:
   listRequest"; before fix 985f10a it panicked) *)
Theorem C07_service_refuted : ~ C07_service_full_statement.
Proof. exact service_full_refuted. Qed.
Print Assumptions C07_service_refuted.
(* EVERY service (any number of methods, also malformed ones, with or without list requests) neither panics
   nor fails to link *)
Theorem C07_service_total_links : forall sv,
  verdict_d (compile_service sv) <> VPanic /\ verdict_d (compile_service sv) <> VLinkErr.
Proof. exact service_total_links. Qed.
Print Assumptions C07_service_total_links.
(* partial acceptance: in-language services without list requests; missing for the full statement: list requests *)
Theorem C07_service_accepted_partial : forall sv,
  service_in_language sv = true -> no_list_request (sv_methods sv) -> verdict_d (compile_service sv) = VOk.
Proof. exact service_accepted. Qed.
Print Assumptions C07_service_accepted_partial.

(* "all field types, all rules" is the code's list: the alternatives of j5.schema.v1.Field and the parts
   each declares (regenerated from the schema descriptors) are exactly the field types and parameters
   of the model (up to a reviewed list of parts the converter ignores), and each has a converter arm *)
Theorem C07_schema_capabilities_agree :
  forallb cap_matches SetExtGen.field_alternatives = true
  /\ length SetExtGen.field_alternatives = length model_capabilities.
Proof. exact schema_capabilities_agree. Qed.
Print Assumptions C07_schema_capabilities_agree.
Theorem C07_every_field_type_has_an_arm :
  forallb (fun row => match row with (k, _, _, _, _, _) =>
     if String.eqb k "array" || String.eqb k "map" then has_arm "buildProperty" (arm_label k)
     else has_arm "buildField" (arm_label k) end) SetExtGen.field_alternatives = true
  /\ length SetExtGen.field_switch_arms = length SetExtGen.field_alternatives + 2.
Proof. exact every_field_type_has_an_arm. Qed.
Print Assumptions C07_every_field_type_has_an_arm.

(* census only: every explicit panic( call of the scanned packages (compile/print path incl. internal/bcl/** and
   lib/j5reflect) is listed; 2 of 14 are Panic sites of the model, the others are explored under recover(), not proved *)
Theorem C07_panic_sites_agree : panic_sites_same_set = true.
Proof. exact panic_sites_agree. Qed.
Print Assumptions C07_panic_sites_agree.

(* ======================================================================================================
   The FIRST SENTENCE of the property — "for any source text, parsing and compiling returns either
   descriptors or errors that carry a position inside the offending file; never panics or hangs" — for one
   source file through the front end (model/CmpbFront.v):
     bytes -> parse_file (C11's model of the BCL lexer + parser, cited through its theorems)
           -> walk (the schema-driven walker: NOT modelled, a function parameter with an outcome)
           -> sourcewalk child / GetPos + conversionVisitor.addError -> the converter model above.
   ====================================================================================================== *)
Definition C07_front_end_statement := front_end_statement.

(* totality: for EVERY byte string, both parser modes and every walker that returns, the front end returns
   (never a panic, never out of fuel).  The lexer / parser part is C11's parse_runes_total and
   parse_runes_tree_or_diags (a nil tree never reaches ParseAST); the converter part is C07_file_total_links *)
Theorem C07_front_end_total : forall walk ff input, walker_returns walk ->
  exists out, front_end walk ff input = Ok out.
Proof. exact front_end_total. Qed.
Print Assumptions C07_front_end_total.

(* positions: every error of the parse, walk and convert stages has both ends at positions of the input
   (C11's parse_runes_positions for diagnostics and tree nodes + the walker's contract + the plumbing below),
   and an error result is never empty *)
Theorem C07_front_end_errors_positioned : forall walk ff input st es, walker_contract walk ->
  front_end walk ff input = Ok (FEErrors st es) ->
  es <> [] /\ Forall (span_inside (utf8_decode input)) es.
Proof. exact front_end_errors_positioned. Qed.
Print Assumptions C07_front_end_errors_positioned.

(* ... in lines and columns of the file as Go sees it (C11_valid_is_inside_bytes) *)
Theorem C07_front_end_errors_inside_file : forall walk ff input st es, walker_contract walk ->
  front_end walk ff input = Ok (FEErrors st es) ->
  Forall (fun sp => inside_bytes input (fst sp) /\ inside_bytes input (snd sp)) es.
Proof. exact front_end_errors_inside_bytes. Qed.
Print Assumptions C07_front_end_errors_inside_file.

(* "descriptors or errors": no error reported => every output file was built and links *)
Theorem C07_front_end_descriptors : forall walk ff input v lf,
  front_end walk ff input = Ok (FEConverted v lf) ->
  v = VOk /\ file_nerr (map erase lf) = 0.
Proof. exact front_end_descriptors. Qed.
Print Assumptions C07_front_end_descriptors.

(* the statement holds for every walker that returns and respects the position contract.
   MISSING for the real compiler: that the real walker returns and respects the contract
   (no model: reviewed census + crash stream with measured coverage + CFrontFile/CFrontErrs correspondence) *)
Theorem C07_front_end_partial : forall walk,
  walker_returns walk -> walker_contract walk -> C07_front_end_statement walk.
Proof. exact front_end_statement_partial. Qed.
Print Assumptions C07_front_end_partial.
(* a list request (which panicked before fix 985f10a) is one positioned conversion error *)
Theorem C07_listrequest_is_a_positioned_error : front_end listreq_walk true [] = Ok (FEErrors SConvert [span0]).
Proof. exact listreq_is_a_positioned_error. Qed.
Print Assumptions C07_listrequest_is_a_positioned_error.

(* ---- the error-position plumbing of the converter stage *)
(* SourceNode.child + GetPos: the position of a node is a span stored in the location tree — its own, or
   the one of the nearest enclosing node the walker recorded *)
Theorem C07_position_is_a_recorded_span : forall p t, In (child_span p t) (spans t).
Proof. exact child_span_in. Qed.
Print Assumptions C07_position_is_a_recorded_span.

(* every error the converter model emits carries the SourceNode of (a part of) the offending declaration
   and the position addError attaches is that node's span *)
Theorem C07_compile_errors_positioned : forall t lf, forallb ldecl_wf lf = true ->
  forall e, In e (conv_errors t lf) ->
    (exists d, In d lf /\ In (fst e) (decl_errors d) /\ is_prefix (ldecl_path d) (fst e) = true)
    /\ snd e = child_span (fst e) t
    /\ In (snd e) (spans t).
Proof. exact compile_errors_positioned. Qed.
Print Assumptions C07_compile_errors_positioned.

(* the error list is the error counter of the converter model (file_nerr, on which file_verdict decides) *)
Theorem C07_error_list_is_error_count : forall lf, length (file_errors lf) = file_nerr (map erase lf).
Proof. exact file_errors_length. Qed.
Print Assumptions C07_error_list_is_error_count.
Theorem C07_one_error_per_failing_property : forall lp, length (prop_errors lp) <= 1.
Proof. exact prop_errors_at_most_one. Qed.
Print Assumptions C07_one_error_per_failing_property.

(* the child(...) calls of sourcewalk the SourceNode paths were read from are still there, with their multiplicities
   (a tripwire for the path data the CConvPos correspondence is fed, not a theorem about sourcewalk) *)
Theorem C07_sourcewalk_paths_agree : sourcewalk_paths_agree = true.
Proof. exact sourcewalk_paths_agree_holds. Qed.
Print Assumptions C07_sourcewalk_paths_agree.

(* ---- the unmodelled walker: census only (no theorem about it).  Every syntactic run-time panic source in
   internal/bcl/parse.go and internal/bcl/internal/walker (gen/WalkerGen.v) has a review note and vice versa;
   the functions holding them exist; the crash stream's measured coverage must include them (CWalkCov) *)
Theorem C07_walker_census_agree : walker_sites_same_set = true /\ required_funcs_exist = true.
Proof. exact (conj walker_sites_agree walker_required_funcs_exist). Qed.
Print Assumptions C07_walker_census_agree.

(* ======================================================================================================
   A PACKAGE: PackageSet.loadPackage / loadLocalPackage / resolveDependencies with the resolveBaton chain
   (model/CmpbPackage.v) around the per-file front end.  The link step is not modelled.
   ====================================================================================================== *)
(* "never hangs", loader part: the recursion over imports returns for EVERY bundle and every per-file
   behaviour — the chain of packages being loaded holds distinct local names and cannot outgrow the bundle *)
Theorem C07_package_load_terminates : forall fres b name, load_package fres b name <> OutOfFuel.
Proof. exact load_package_terminates. Qed.
Print Assumptions C07_package_load_terminates.

(* it returns an error list (never a Go error without a list), and panics only if a file's front end does *)
Theorem C07_package_load_total : forall walk b name,
  match load_package (front_fres walk) b name with
  | Ok _ => True
  | Panic _ => exists f, In f (all_files b) /\ forall out, front_end walk true (sf_input f) <> Ok out
  | _ => False
  end.
Proof. exact load_package_total. Qed.
Print Assumptions C07_package_load_total.

(* positions, full statement: every error of loading a package of the bundle is positioned inside a file of the
   bundle.  PROVED since fix 3f76693 (before it: refuted, 'no files for package' and 'circular dependency detected'
   came back without a position).  imports_located: the span recorded for an import statement joins two node end
   points of the syntax tree of the file's text (the walker's position contract for the "imports" entries of the
   location tree; evaluated on the real location trees by the CPkgLoad correspondence) *)
Definition C07_package_errors_positioned_statement : Prop := package_errors_positioned_statement.
Theorem C07_package_errors_positioned : C07_package_errors_positioned_statement.
Proof. exact package_errors_positioned. Qed.
Print Assumptions C07_package_errors_positioned.
(* the two former refutation witnesses, now positioned: an import of a package nobody provides is reported at that
   import statement; an import cycle at the import statement that closes it (file 20 of package 2) *)
Theorem C07_unknown_package_positioned :
  load_package (front_fres demo_walk) unknown_pkg_bundle 1%N = Ok [mkPE ENoFiles (Some 10%N) (Some fine_span)].
Proof. exact unknown_package_positioned. Qed.
Print Assumptions C07_unknown_package_positioned.
Theorem C07_package_cycle_positioned :
  load_package (front_fres demo_walk) cycle_bundle 1%N = Ok [mkPE EPkgCycle (Some 20%N) (Some fine_span)].
Proof. exact package_cycle_positioned. Qed.
Print Assumptions C07_package_cycle_positioned.
(* non-vacuity of the hypotheses on those two bundles; and the one place the unpositioned form survives: compiling
   a package that NO file of the bundle belongs to (there is no offending file) *)
Example C07_example_package_hypotheses :
  imports_located unknown_pkg_bundle /\ imports_located cycle_bundle
  /\ load_package (front_fres demo_walk) unknown_pkg_bundle 2%N = Ok [mkPE ENoFiles None None].
Proof. exact (conj (proj1 witnesses_located) (conj (proj2 witnesses_located) absent_package_unpositioned)). Qed.
Print Assumptions C07_example_package_hypotheses.

(* the positive side: the loader adds no error of its own.  Every import names a local package of the bundle, the
   import relation is acyclic (a rank), every file is converted by its front end: the package loads (empty error list).
   With the two witnesses above: the loader's own errors are exactly 'an import names no package' and 'import cycle' *)
Theorem C07_package_of_accepted_files_loads : forall walk b rank name,
  acyclic_closed b rank ->
  (forall f, In f (all_files b) -> exists v lf, front_end walk true (sf_input f) = Ok (FEConverted v lf)) ->
  find_pkg name b <> None ->
  load_package (front_fres walk) b name = Ok [].
Proof. exact package_of_accepted_files_loads. Qed.
Print Assumptions C07_package_of_accepted_files_loads.
Example C07_example_package_loads :
  acyclic_closed ok_bundle (fun n => if N.eqb n 1 then 1%nat else 0%nat)
  /\ load_package (front_fres demo_walk) ok_bundle 1%N = Ok [].
Proof. exact (conj ok_bundle_acyclic ok_bundle_loads). Qed.
Print Assumptions C07_example_package_loads.

(* the import-order loader is one of the outcomes that SOME iteration order of resolveDependencies' map range
   produces (load_kinds: the order-free description the CPkgLoad correspondence compares with) *)
Theorem C07_loader_is_an_admissible_order : forall fuel b chain name es,
  load (fun _ => FRFine) fuel b chain name = Ok es -> In (kind_of es) (load_kinds fuel b chain name).
Proof. exact load_in_load_kinds. Qed.
Print Assumptions C07_loader_is_an_admissible_order.

(* ======================================================================================================
   ENTITIES, by composition with C17 (the `ent` family's model of sourcewalk/entity.go, model/Entity.v):
   an entity declaration expands (Entity.expand: total, C17_expand_total) into components that the converter
   visits like hand-written declarations; model/CmpbEntity.v maps them onto the converter model.
   ====================================================================================================== *)
(* for EVERY entity declaration: the expansion returns components or one of the walker's two errors, and the
   converter neither panics on them nor produces a file that fails to link (Entity.v has no
   query.listRequest: since fix 985f10a that construct is a positioned error, not a panic - recorded finding
   'listRequest not accepted', C07_service_refuted) *)
Theorem C07_entity_total_links : forall e,
  match compile_entity e with
  | Ok v => v <> VPanic /\ v <> VLinkErr
  | Err _ => True
  | _ => False
  end.
Proof. exact compile_entity_total. Qed.
Print Assumptions C07_entity_total_links.

(* accepted: a closed expansion (C17: closed exactly when the user's own references resolve; trees_closed: the same for
   the references inside tree-form inline schemas, which Entity.v checks on the declaration with trees_ok) with
   well-formed fields at every depth, existing path parameters and known HTTP verbs converts without an error and
   every file links *)
Theorem C07_entity_accepted : forall pok cs,
  closed cs = true -> trees_closed (defined cs) (Entity.fields_of cs) = true ->
  forallb ofield_ok_deep (Entity.fields_of cs) = true -> forallb (comp_clean pok) cs = true ->
  entity_verdict pok cs = VOk.
Proof. exact entity_accepted. Qed.
Print Assumptions C07_entity_accepted.

(* ---- non-vacuity: concrete members of the language exercising rules, list rules, wrappers *)
Example C07_example :
  let p := mkProp false (Array (Some (TInteger I64 (Some (mkIR true true (Some true) None false)) true)) (Some true) true) true false in
  in_language p = true /\ uses_float_rules p = false
  /\ compile_iso p = mkObs VOk [IJ5Ext; IBufValidate; IJ5List] [XField; XValidate; XList]
                           (Some (mkDesc PInt64 NNone true false)).
Proof. vm_compute. repeat split. Qed.
Example C07_example_date_rules :
  (* the repaired finding 11: date rules compile, link, and import the annotations file on their own *)
  compile_iso (mkProp false (Plain (TDate true false)) false false)
  = mkObs VOk [IJ5Ext; IJ5Date] [XField] (Some (mkDesc PMessage NDate false false))
  /\ field_cover (mkProp false (Plain (TDate true false)) false false) = true.
Proof. vm_compute. split; reflexivity. Qed.
Example C07_example_service :
  let sv := mkService [mkMethod true HPost true true true false; mkMethod true HGet false true false false] true in
  service_in_language sv = true /\ no_list_request (sv_methods sv)
  /\ d_imps (compile_service sv) = [IGApiAnnotations; IGApiHttpBody; IJ5Ext]
  /\ d_exts (compile_service sv) = [XHttp; XMethod; XService; XMessage].
Proof.
  cbv zeta. split; [reflexivity|]. split; [|split; vm_compute; reflexivity].
  intros m [<-|[<-|[]]]; reflexivity.
Qed.
Example C07_example_rejected :
  o_verdict (compile_iso (mkProp false (Plain (TObject RNotFound false false)) false false)) = VConvErr
  /\ iso_nerr (mkProp false (Plain (TObject RNotFound false false)) false false) = 1.
Proof. vm_compute. split; reflexivity. Qed.

(* the front end computes, with a small concrete walker that satisfies the hypotheses (NOT the j5s walker:
   every top-level block becomes an object located at its header; a block of type `bad` holds a property
   without schema): a converted file, a conversion error positioned at the block header (the property's
   own node has no location, so the enclosing one is used), a parser diagnostic *)
Example C07_example_front_end :
  walker_returns demo_walk /\ walker_contract demo_walk
  /\ front_end demo_walk true [97;32;123;10;125;10]%N = Ok (FEConverted VOk [LObject ["elements"; ""] false []])
  /\ front_end demo_walk true [97;32;123;10;125;10;98;97;100;32;123;10;125;10]%N = Ok (FEErrors SConvert [((2, 0)%Z, (2, 4)%Z)])
  /\ front_end demo_walk true [120;32;61;32;35;10]%N = Ok (FEErrors SParse [((0, 4)%Z, (0, 4)%Z)]).
Proof.
  split; [exact demo_walk_returns|]. split; [exact demo_walk_contract|].
  repeat split; vm_compute; reflexivity.
Qed.

(* an entity with data, an object reference to a schema of its own, events, a command with a raw response,
   a summary, a query with events in Get: accepted; the same with a reference to a missing object: rejected *)
Example C07_example_entity :
  let str n := mkU (bs n) (KScalar 9 (bs "string")) false false in
  let key := mkK (mkU (bs "fooId") (KKey true None None) false false) false in
  let e := mkE (bs "foo.v1") (bs "Foo") [] [key] [str "name"; mkU (bs "part") (KObject (bs "Part")) false false]
               [bs "ACTIVE"; bs "INACTIVE"] [mkEv (bs "Create") [str "name"]; mkEv (bs "Archive") []]
               [mkC None None [mkM (bs "Rename") 2 (bs "rename") [mkU (bs "name") (KScalar 9 (bs "string")) true false] None]]
               [mkS [] [str "name"]] (Some (mkQ true [] false)) [SObject (bs "Part") [str "x"]] in
  let bad := mkE (bs "foo.v1") (bs "Foo") [] [key] [mkU (bs "part") (KObject (bs "Missing")) false false]
               [bs "ACTIVE"] [] [] [] None [] in
  compile_entity e = Ok VOk /\ compile_entity bad = Ok VConvErr
  /\ match expand e with
     | Ok cs => closed cs = true /\ forallb ofield_ok_deep (Entity.fields_of cs) = true /\ forallb (comp_clean true) cs = true
     | _ => False
     end.
Proof. cbv zeta. vm_compute. repeat split. Qed.

(* ==================================================================================================
   The first sentence with the REAL walker's model in place of the abstract [walk] (round 3).
   model/CmpbWalk.v is the schema-directed BCL walker (c2.go, walk_context.go, walker/schema/*, the part of
   lib/j5reflect it drives) run over two tables regenerated from /repo (gen/WalkSchemaGen.v: j5parse.J5SchemaSpec and
   the j5schema closure of j5.sourcedef.v1.SourceFile); model/CmpbWalkFile.v adds validateFile and reads the filled
   file as the converter model's located declarations.  [j5s_walk R] is a FUNCTION of the syntax tree: the location
   tree, the declarations and every error position are computed from the input (tie: stream "walk", the whole
   location tree, kinds and sizes of the declarations and the error positions of every front-end text compared in Coq).
   mkR = how a type reference resolves in the file's package, given the filled file (the only thing the file alone does
   not determine; [resolve_in_file]: the file is alone in its package; [j5s_walk R]: a fixed resolver R).
   ================================================================================================== *)

(* the parser never hands the walker a block without a type (parser.NewReference panics on it: C11's Panic site),
   which is the one panic of the walker on a syntax tree (BuildScope -> TailScope -> nil root block) *)
Theorem C07_parser_block_types_nonempty : forall ff data p body,
  parse_runes ff data = Ok p -> ptree p = Some body -> body_refs_ok body = true.
Proof. exact parse_runes_refs_ok. Qed.
Print Assumptions C07_parser_block_types_nonempty.

(* walker_returns for the instance: on every syntax tree of the parser the walker returns a file or positioned
   errors, or says "outside the model" (maps of containers, non-ASCII map keys, > 300-rune float literals, a oneof
   with two members set: model/CmpbWalk.v header) *)
Theorem C07_walker_returns : forall mkR body, body_refs_ok body = true ->
  (exists w, j5s_walk_gen mkR body = Ok w) \/ j5s_walk_gen mkR body = Err E_UNMODELLED.
Proof. exact j5s_walk_gen_returns. Qed.
Print Assumptions C07_walker_returns.

(* walker_contract for the instance: every span of the location tree and every reported position has both ends
   among the end points of the syntax tree's nodes (or the origin); error lists are not empty; every declaration's
   properties / methods lie below the declaration's node *)
Theorem C07_walker_contract : forall mkR body w, j5s_walk_gen mkR body = Ok w -> walk_out_ok' body w = true.
Proof. exact j5s_walk_gen_contract. Qed.
Print Assumptions C07_walker_contract.

(* one of the walker's "outside the model" classes is EMPTY for the translated schema: [split_pieces] answers
   "outside the model" for a scalar split with a delimiter other than "."; every block spec the walker holds is
   [cont_spec] of a container, whose split is the one of the given spec in the translated table
   WalkSchemaGen.specs, and all delimiters there are "." (computed: a new delimiter in the schema's block specs
   breaks proofs/CmpbWalkProofs.v given_specs_delims at make time).  So for every container, value and reason
   the pieces of a scalar split are computed by the model. *)
Theorem C07_walker_split_delimiters_modelled : forall c ss val w,
  bs_split (cont_spec c) = Some ss -> split_pieces ss val <> RUnmod w.
Proof. exact split_pieces_modelled. Qed.
Print Assumptions C07_walker_split_delimiters_modelled.

Example C07_example_split_delimiter :
  exists ss, bs_split (cont_spec (CSchema "j5.schema.v1.Ref")) = Some ss /\ sp_delim ss = Some "."%string.
Proof. exact split_pieces_modelled_example. Qed.

(* the protovalidate rules of the walker model were written from exactly the buf.validate annotations the two .proto
   files carry today, and each annotated field has a model rule or is one of the two stated exemptions *)
Theorem C07_validate_rules_agree :
  vrule_sources = WalkSchemaGen.validate_annotations /\ forallb vrule_covered WalkSchemaGen.validate_annotations = true.
Proof. exact (conj validate_sources_agree validate_rules_cover). Qed.
Print Assumptions C07_validate_rules_agree.

(* totality of the front end, for EVERY byte string and both parser modes, no hypothesis *)
Theorem C07_front_end_total_j5s : forall mkR ff input,
  (exists out, front_end (j5s_walk_gen mkR) ff input = Ok out) \/ front_end (j5s_walk_gen mkR) ff input = Err E_UNMODELLED.
Proof. exact j5s_front_end_total. Qed.
Print Assumptions C07_front_end_total_j5s.

Theorem C07_front_end_errors_inside_file_j5s : forall mkR ff input st es,
  front_end (j5s_walk_gen mkR) ff input = Ok (FEErrors st es) ->
  es <> [] /\ Forall (fun sp => inside_bytes input (fst sp) /\ inside_bytes input (snd sp)) es.
Proof.
  intros mkR ff input st es H. split; [exact (proj1 (j5s_front_end_errors_positioned mkR ff input st es H))|
                                        exact (j5s_front_end_errors_inside_bytes mkR ff input st es H)].
Qed.
Print Assumptions C07_front_end_errors_inside_file_j5s.

(* "for any source text ... descriptors or errors that carry a position inside the file; never panics or hangs",
   one file, closed: no walker hypothesis is left *)
Definition C07_front_end_statement_j5s : Prop := forall mkR, j5s_front_end_statement mkR.
Theorem C07_front_end_j5s : C07_front_end_statement_j5s.
Proof. exact j5s_front_end_statement_holds. Qed.
Print Assumptions C07_front_end_j5s.

(* non-vacuity, on j5s TEXT: an object with two fields and an enum is converted (two declarations, two properties);
   an unknown type is a walker error at the type tag; an integer without format is a protovalidate violation at the
   field; `objec` is an error at the block type; garbage is a parser diagnostic *)
Definition c07_src (l : list string) : list N := runes_of_string (String.concat (String (Ascii.ascii_of_nat 10) "") l).
Example C07_example_front_end_j5s :
  let R := resolve_none in
  front_end (j5s_walk R) true (c07_src ["package foo.v1"; ""; "object Foo {"; "  field name string"; "  field n ! integer:INT32"; "}"; ""; "enum Kind {"; "  option A"; "  option B"; "}"; ""])
    = Ok (FEConverted VOk
           [LObject ["elements"; "0"; "object"; "object"] false
              [mkLP (mkProp false (Plain (TString false false)) false false)
                    ["elements"; "0"; "object"; "object"; "def"; "properties"; "0"]
                    ["elements"; "0"; "object"; "object"; "def"; "properties"; "0"; "schema"; "string"; "ref"];
               mkLP (mkProp false (Plain (TInteger I32 None false)) true false)
                    ["elements"; "0"; "object"; "object"; "def"; "properties"; "1"]
                    ["elements"; "0"; "object"; "object"; "def"; "properties"; "1"; "schema"; "integer"; "ref"]];
            LEnum ["elements"; "1"; "enum"] (mkEnum false [false; false])])
  /\ front_end (j5s_walk R) true (c07_src ["object Foo {"; "  field name strin"; "}"; ""]) = Ok (FEErrors SWalk [((1, 13)%Z, (1, 17)%Z)])
  /\ front_end (j5s_walk R) true (c07_src ["object Foo {"; "  field n integer"; "}"; ""]) = Ok (FEErrors SWalk [((1, 10)%Z, (0, 0)%Z)])
  /\ front_end (j5s_walk R) true (c07_src ["objec Foo {"; "}"; ""]) = Ok (FEErrors SWalk [((0, 0)%Z, (0, 4)%Z)])
  /\ front_end (j5s_walk R) true (c07_src ["x = #"; ""]) = Ok (FEErrors SParse [((0, 4)%Z, (0, 4)%Z)])
  (* the file alone in its package: a reference to a declaration of the file converts, a reference to nothing is a
     conversion error at the object keyword (the property's own node is virtual, see notes) *)
  /\ (exists lf, front_end j5s_walk_alone true (c07_src ["object Foo {"; "  field bar object:Bar"; "}"; "object Bar {"; "}"; ""]) = Ok (FEConverted VOk lf))
  /\ front_end j5s_walk_alone true (c07_src ["object Foo {"; "  field bar object:Baz"; "}"; ""]) = Ok (FEErrors SConvert [((0, 0)%Z, (0, 5)%Z)]).
Proof. cbv zeta. repeat split; try (vm_compute; reflexivity). eexists. vm_compute. reflexivity. Qed.

(* ---- "is accepted AND LINKS", over a model of the link step (round 3).  The converter-core theorems above use one
   predicate for linking (an extension's file is imported).  The cmpa family's model (J5sConvert.compile_package: convert
   every file, the linker's symbol table, resolution of every type name, link of the imported generated files) is the
   link phase proper; over it, every package of a valid bundle (C02's validity = the language of harness/j5sgen, whose
   texts go through this property's walker and compile streams) converts, defines no symbol twice and links.
   The two models are not connected by proof: the declarations of this file's front end (abstract fields) are not
   J5sAst terms. *)
Theorem C07_valid_bundle_accepted_and_links : forall bd pkg,
  J5sCorr.valid bd = true -> (exists f, In f bd /\ J5sWalk.bfile_pkg f = pkg) ->
  exists fs D, J5sConvert.convert_package Strcase.to_snake Strcase.to_camel Strcase.to_screaming_snake bd pkg = Ok fs
               /\ J5sLink.nodup_str (J5sConvert.package_symbols bd pkg fs) = true
               /\ J5sLink.link_files fs = Ok D
               /\ J5sCorr.compile bd pkg = Ok D.
Proof. exact valid_bundle_accepted_and_links. Qed.
Print Assumptions C07_valid_bundle_accepted_and_links.

Example C07_example_links :
  J5sCorr.valid J5sWitnessProofs.w_captured = true
  /\ exists fs D, J5sConvert.convert_package Strcase.to_snake Strcase.to_camel Strcase.to_screaming_snake J5sWitnessProofs.w_captured (J5sAst.b "foo.v1") = Ok fs
                  /\ J5sLink.link_files fs = Ok D /\ D <> [].
Proof.
  split; [vm_compute; reflexivity|]. eexists. eexists. split; [vm_compute; reflexivity|]. split; [vm_compute; reflexivity|discriminate].
Qed.

(* C18 — schema reflection over arbitrary proto3 descriptors is total and self-consistent.
   Only statements, closed by [exact lemma], with Print Assumptions beneath. *)
From Coq Require Import String List NArith ZArith Bool Permutation.
From J5V.lib Require Import Outcome.
From J5V.model Require Import ReflectDesc ReflectSchema Reflect ReflectOwn ReflectNames ReflectSpec.
From J5V.gen Require ReflectGen.
From J5V.proofs Require Import ReflectProofs ExportProofs ReflectInvProofs ReflectPathProofs ReflectFuelProofs ReflectFlattenProofs ReflectCodecProofs ReflectDeclProofs ReflectClassProofs ReflectOrderProofs ReflectWeakProofs ReflectOwnProofs ReflectOwnExactProofs ReflectDeclSpecProofs ReflectNamesProofs.
From J5V.model Require Import Export ReflectDecl.
Import ListNotations.

(* The model of the code is [o_reflect] / [o_cache_schema] (model/ReflectOwn.v): the reader with the
   ownership of schema names (fix 0e6056c: a schema name asked for by two descriptors is an error).
   [reflect] / [cache_schema] (model/Reflect.v) are that model with the owners erased; the two are
   related once and for all by C18_reader_is_the_erased_reader_or_an_error below, and the theorems
   stated for [reflect] are carried over by it (the headline ones are restated for [o_reflect]).
   Since the repair notes/schb-fix.patch the entry points run checkClientPropertyNames when a build is
   complete: SchemaSetFromFiles is [o_reflect_checked], SchemaCache.Schema is [o_cache_schema_checked]
   (model/ReflectNames.v) = [o_reflect] / [o_cache_schema] followed by that check.  The check only adds
   errors (C18_checked_reader_is_the_reader_or_an_error), so every "if [o_reflect] returns S" theorem
   below is a theorem about what the code returns. *)

(* The property at full strength, for every abstract descriptor set [D] (no hypothesis at all)
   and every selection of its files: the reader returns a schema set or an error, never panics,
   never exhausts the fuel [size D]; on success every entry is consistent (names unique, also among the client
   properties hoisted through flattening; proto paths resolve to fields of the matching kind) and the codec can build the property set and
   every property of every reflected message type. *)
Definition C18_full_statement : Prop :=
  forall (D : desc) (fs : list filed),
    (forall s, o_reflect_checked D fs <> Panic s) /\ o_reflect_checked D fs <> OutOfFuel /\
    forall S ow, o_reflect_checked D fs = Ok (S, ow) ->
      set_consistent D S = true /\
      (* client property names pairwise distinct through all flatten levels *)
      (forall k r, lookup S k = Some (Linked r) -> exists cps, client_props_of S r = Ok cps /\ NoDup (map p_json cps)) /\
      forall m r, In m (d_msgs D) -> lookup S (msg_key m) = Some (Linked r) ->
        (* no member error swallowed (codec_classes_strict), and every client property can be given a value *)
        codec_classes_strict D S m r = (0%N, 0%N) /\
        forall pfs, new_prop_set D S r m = Ok pfs -> forall q f, In (q, Some f) pfs -> value_settable (p_schema q) = true.

(* ---- the reader with owners against the reader without: either an error (possibly a new one: a name
   claimed by a second descriptor), or exactly the outcome of Reflect.v on the erased state; the
   same for SchemaCache.Schema, whose errors leave cache and owners as they were *)
Theorem C18_reader_is_the_erased_reader_or_an_error : forall D fs,
  is_err (o_reflect D fs) = true \/ omap fst (o_reflect D fs) = reflect D fs.
Proof. exact o_reflect_sim. Qed.
Print Assumptions C18_reader_is_the_erased_reader_or_an_error.

Theorem C18_cache_is_the_erased_cache_or_an_error : forall D fuel s m,
  ((exists c, snd (o_cache_schema D fuel s m) = Err c) /\ fst (o_cache_schema D fuel s m) = s) \/
  (fst (fst (o_cache_schema D fuel s m)), snd (o_cache_schema D fuel s m)) = cache_schema D fuel (fst s) m.
Proof. exact o_cache_schema_sim. Qed.
Print Assumptions C18_cache_is_the_erased_cache_or_an_error.

(* ---- and with distinct split names (wf_keys) the ownership check never fires: the reader as the code is
   returns EXACTLY what the reader without owners returns (no "or an error"), for SchemaSetFromFiles and for
   SchemaCache.Schema on every cache state whose owner table is sound (true of the empty cache, kept by every
   call). So every theorem stated below for reflect / cache_schema under wf_keys holds verbatim of the model
   of the code; the three that are equivalences are restated for it. *)
Theorem C18_with_distinct_names_the_reader_is_exactly_the_erased_reader : forall D, wf_keys D -> forall fs,
  omap fst (o_reflect D fs) = reflect D fs.
Proof. exact o_reflect_exact. Qed.
Print Assumptions C18_with_distinct_names_the_reader_is_exactly_the_erased_reader.

Theorem C18_with_distinct_names_the_cache_is_exactly_the_erased_cache : forall D, wf_keys D -> forall fuel s m,
  OwnI D (snd s) -> In m (d_msgs D) ->
  (fst (fst (o_cache_schema D fuel s m)), snd (o_cache_schema D fuel s m)) = cache_schema D fuel (fst s) m /\
  OwnI D (snd (fst (o_cache_schema D fuel s m))).
Proof. exact o_cache_schema_exact. Qed.
Print Assumptions C18_with_distinct_names_the_cache_is_exactly_the_erased_cache.

Theorem C18_owned_cache_transparent : forall D, wf_keys D -> forall s m r,
  o_cache_reach D s -> In m (d_msgs D) ->
  (snd (o_cache_schema D (size D) s m) = Ok r <-> snd (o_cache_schema D (size D) ([], []) m) = Ok r).
Proof. exact o_cache_transparent. Qed.
Print Assumptions C18_owned_cache_transparent.

Theorem C18_owned_reflect_succeeds_iff_erased : forall D, wf_keys D -> forall fs S,
  (exists ow, o_reflect D fs = Ok (S, ow)) <-> reflect D fs = Ok S.
Proof. exact o_reflect_ok_iff. Qed.
Print Assumptions C18_owned_reflect_succeeds_iff_erased.

Theorem C18_owned_reflect_file_order_independent : forall D, wf_keys D -> forall fs fs',
  Permutation fs fs' ->
  ((exists S ow, o_reflect D fs = Ok (S, ow)) <-> (exists S' ow', o_reflect D fs' = Ok (S', ow'))).
Proof. exact o_reflect_file_order_independent. Qed.
Print Assumptions C18_owned_reflect_file_order_independent.

(* ---- what the ownership adds (no hypothesis on the descriptors): a message that SchemaCache.Schema /
   messageSchema answers owns its schema name afterwards, no name ever changes its owner, and a
   message whose name belongs to another descriptor is never answered (an error, whatever the cache
   holds): a name is never answered with the schema of another descriptor *)
Theorem C18_answered_message_owns_its_name : forall D fuel s m s1 r,
  o_message_schema D fuel s m = Ok (s1, r) ->
  (forall k o, owner (snd s) k = Some o -> owner (snd s1) k = Some o) /\
  owner (snd s1) (msg_key m) = Some (m_full m).
Proof. exact o_message_schema_owned. Qed.
Print Assumptions C18_answered_message_owns_its_name.

Theorem C18_foreign_name_is_an_error : forall D fuel s m o,
  owner (snd s) (msg_key m) = Some o -> o <> m_full m -> exists c, o_message_schema D fuel s m = Err c.
Proof. exact o_message_schema_foreign. Qed.
Print Assumptions C18_foreign_name_is_an_error.

(* ---- totality. The only hypothesis is what protodesc.NewFiles guarantees of every linked set and
   is stated as such, not derived: an enum has at least one value ([enums_nonempty]; protodesc rejects
   "enum must contain at least one value declaration"). No condition on names: since the guard in
   buildEnumFieldSchema (fix 32db692 in /repo) a split-name collision between an enum and a message /
   oneof is an error, no longer a failed type assertion. The reader's remaining panic site is
   buildEnum's sourceValues.Get(0) on an enum without values (C18_empty_enum_panics_in_the_model). *)
Theorem C18_reflect_total : forall D, enums_nonempty D -> forall fs,
  (forall s, o_reflect D fs <> Panic s) /\ o_reflect D fs <> OutOfFuel.
Proof. exact o_reflect_total. Qed.
Print Assumptions C18_reflect_total.

Theorem C18_erased_reflect_total : forall D, enums_nonempty D -> forall fs,
  (forall s, reflect D fs <> Panic s) /\ reflect D fs <> OutOfFuel.
Proof. exact reflect_total_any_names. Qed.
Print Assumptions C18_erased_reflect_total.

(* "never recurses forever", for EVERY descriptor set and every cache state (no hypothesis): the fuel
   |messages| + 1 is never exhausted; the recursion is cut by the placeholder registered before a
   message is built, and checkFlattenCycle's walk is bounded by the entries it has not expanded yet *)
Theorem C18_reader_never_out_of_fuel : forall D fs, o_reflect D fs <> OutOfFuel.
Proof. exact o_reflect_never_out_of_fuel. Qed.
Print Assumptions C18_reader_never_out_of_fuel.

Theorem C18_cache_never_out_of_fuel : forall D st m, In m (d_msgs D) -> snd (cache_schema D (size D) st m) <> OutOfFuel.
Proof. exact cache_schema_never_out_of_fuel. Qed.
Print Assumptions C18_cache_never_out_of_fuel.

(* SchemaCache.Schema, from ANY cache state (no invariant needed: whatever earlier calls, failed or
   not, left behind): no panic, no fuel exhaustion, no entry removed *)
Theorem C18_cache_schema_total : forall D, enums_nonempty D -> forall st m, In m (d_msgs D) ->
  ext st (fst (cache_schema D (size D) st m)) /\
  (forall s, snd (cache_schema D (size D) st m) <> Panic s) /\ snd (cache_schema D (size D) st m) <> OutOfFuel.
Proof. exact cache_schema_total_any_state. Qed.
Print Assumptions C18_cache_schema_total.

(* the same for the cache as the code is (with owners): from any cache state and any owner table *)
Theorem C18_owned_cache_schema_total : forall D, enums_nonempty D -> forall s m, In m (d_msgs D) ->
  (forall p, snd (o_cache_schema D (size D) s m) <> Panic p) /\ snd (o_cache_schema D (size D) s m) <> OutOfFuel.
Proof. exact o_cache_schema_total. Qed.
Print Assumptions C18_owned_cache_schema_total.

(* ---- self-consistency of a successful reflection, first part, for EVERY descriptor set (NO hypothesis;
   until this round it carried wf_keys, and the names clause json_ok on top): distinct keys, every scalar
   format known to the import, every reference names an entry of the set, the property names of every
   object and oneof are pairwise distinct, no unlinked placeholder. Proved by a pass over the reader
   (ReflectWeakProofs.v) that needs nothing about names: the property names are distinct because the
   reader checks them itself since fix 07ed85e (checkPropertyNames; it used to be proved relative to
   json_ok, which a linked set does not guarantee: exposed oneof foo_bar next to field fooBar, now
   C18_exposed_oneof_name_clash_is_an_error). *)
Theorem C18_reflect_ok_guarantees : forall D fs S ow,
  o_reflect D fs = Ok (S, ow) ->
  keys_distinct S = true /\ set_importable S = true /\ set_closed S = true /\
  (forall k r, lookup S k = Some (Linked r) -> names_unique_b (root_props r) = true) /\
  (forall k, lookup S k <> Some Placeholder) /\ NoDup (map fst S).
Proof. exact o_reflect_ok_guarantees. Qed.
Print Assumptions C18_reflect_ok_guarantees.

Theorem C18_erased_reflect_ok_guarantees : forall D fs S,
  reflect D fs = Ok S ->
  keys_distinct S = true /\ set_importable S = true /\ set_closed S = true /\
  (forall k r, lookup S k = Some (Linked r) -> names_unique_b (root_props r) = true) /\
  (forall k, lookup S k <> Some Placeholder) /\ NoDup (map fst S).
Proof. exact reflect_ok_guarantees_any. Qed.
Print Assumptions C18_erased_reflect_ok_guarantees.

(* ---- "never recurses forever", codec side. ObjectSchema.ClientProperties expands flattened object
   properties recursively (the stack overflow of defect #17 lived there). The flatten graph (an edge
   from a linked object to the target of each of its flattened object properties) of EVERY successfully
   reflected set is acyclic, with no hypothesis on the descriptors: checkFlattenCycle is a closed-set
   search, and linking a root whose search answered "no cycle" cannot close a cycle. *)
Theorem C18_flatten_graph_acyclic : forall D fs S, reflect D fs = Ok S -> acyclic S.
Proof. exact reflect_acyclic. Qed.
Print Assumptions C18_flatten_graph_acyclic.

(* hence, when the split names are distinct (wf_keys: every flattened reference then leads to an
   object), ClientProperties of every entry of a reflected set returns: it neither exhausts the fuel
   |S|+1 (a path of an acyclic graph over the keys of S has at most |S| nodes) nor fails the type
   assertion in ObjectField.Schema *)
Theorem C18_client_properties_terminate : forall D fs S,
  wf_keys D -> reflect D fs = Ok S ->
  forall k r, lookup S k = Some (Linked r) -> exists out, client_props_of S r = Ok out.
Proof. exact reflect_client_props_terminate. Qed.
Print Assumptions C18_client_properties_terminate.

(* ---- last clause, first half ("the codec can encode and decode an empty message of every reflected
   type"): for every descriptor set with distinct split names and distinct field numbers per message,
   after a successful reflection newPropSet succeeds on the root of every message: ClientProperties
   returns and the proto path of every client property (through any depth of flattening) resolves in
   the message descriptor *)
Theorem C18_prop_sets_build : forall D fs S,
  wf_keys D -> (forall m, In m (d_msgs D) -> NoDup (map f_num (m_fields m))) ->
  reflect D fs = Ok S ->
  forall m r, In m (d_msgs D) -> lookup S (msg_key m) = Some (Linked r) ->
  exists pfs, new_prop_set D S r m = Ok pfs.
Proof. exact reflect_prop_sets_build. Qed.
Print Assumptions C18_prop_sets_build.

(* ---- last clause, second half: every client property, with its value set, builds (buildProperty),
   for message types whose client properties are of kinds the codec supports. [supported_b]
   (model/ReflectSpec.v) = [factory_b] (a factory exists: no arrays / maps whose items are any-typed or
   containers, no map schema on a field that is not a map, i.e. google.protobuf.Struct) and
   [value_settable] (no google.protobuf.Duration: its factory exists and it encodes, but no value can be
   set, so it cannot be decoded). The two hypotheses range over the codec's own property set of the
   message and over the property sets of its exposed oneofs. The conclusion holds for the classes as the
   encoder behaves (member errors of an exposed oneof swallowed by IsSet) AND for the strict classes. *)
Theorem C18_codec_usable_on_supported : forall D fs S,
  wf_keys D -> (forall m, In m (d_msgs D) -> NoDup (map f_num (m_fields m))) ->
  reflect D fs = Ok S ->
  forall m r pfs, In m (d_msgs D) -> lookup S (msg_key m) = Some (Linked r) ->
  new_prop_set D S r m = Ok pfs ->
  (forall q f, In (q, Some f) pfs -> supported_b (p_schema q) f = true) ->
  (forall q k n d ops opfs p2 f2, In (q, None) pfs -> p_schema q = FOneof k None None None ->
     lookup S k = Some (Linked (ROneof n d ops)) -> new_prop_set D S (ROneof n d ops) m = Ok opfs ->
     In (p2, Some f2) opfs -> supported_b (p_schema p2) f2 = true) ->
  codec_classes D S m r = (0%N, 0%N) /\ codec_classes_strict D S m r = (0%N, 0%N).
Proof. exact reflect_codec_usable. Qed.
Print Assumptions C18_codec_usable_on_supported.

(* ---- every clause of C18_full_statement at once, for descriptor sets satisfying wf_paths (split
   names distinct, field numbers distinct, enums non-empty; nothing about JSON names) and, for the
   last clause, message types within the codec's supported kinds *)
Theorem C18_full_on_wf_paths : forall D fs,
  wf_paths D ->
  (forall s, o_reflect D fs <> Panic s) /\ o_reflect D fs <> OutOfFuel /\
  forall S ow, o_reflect D fs = Ok (S, ow) ->
    set_consistent D S = true /\
    forall m r, In m (d_msgs D) -> lookup S (msg_key m) = Some (Linked r) ->
      exists pfs, new_prop_set D S r m = Ok pfs /\
        ((forall q f, In (q, Some f) pfs -> supported_b (p_schema q) f = true) ->
         (forall q k n d ops opfs p2 f2, In (q, None) pfs -> p_schema q = FOneof k None None None ->
            lookup S k = Some (Linked (ROneof n d ops)) -> new_prop_set D S (ROneof n d ops) m = Ok opfs ->
            In (p2, Some f2) opfs -> supported_b (p_schema p2) f2 = true) ->
         codec_classes D S m r = (0%N, 0%N) /\ codec_classes_strict D S m r = (0%N, 0%N)).
Proof. exact o_reflect_full_on_supported. Qed.
Print Assumptions C18_full_on_wf_paths.

(* ---- clause 2 of the property as a theorem, for every descriptor set with distinct split names whose
   field numbers are distinct per message (wf_paths; protodesc guarantees the numbers): after a successful reflection
   every object and oneof has pairwise distinct property names and every recorded proto field path
   resolves, in the message the schema describes, to a field of the matching kind (scalar kind or
   well-known type, enum to an enum schema, object / oneof to an object / oneof schema as
   isOneofWrapper decides, arrays on repeated fields, maps on map fields; members of exposed oneofs
   included) *)
Theorem C18_reflect_consistent : forall D fs S,
  wf_paths D -> reflect D fs = Ok S -> set_consistent D S = true.
Proof. exact reflect_consistent. Qed.
Print Assumptions C18_reflect_consistent.

(* ---- the reader against an independent, declarative description (model/ReflectDecl.v: the schema of a
   descriptor as a function of the descriptor set alone: no schema set, no placeholder, no recursion
   through references). Under wf_keys every entry a successful reflection links is the declared schema
   of the descriptor of its name: enums [build_enum e], messages [decl_root D m] together with the
   schemas of their exposed oneofs [decl_oneof_of m e]. *)
Theorem C18_reader_links_the_declared_schemas : forall D, wf_keys D -> forall fs S,
  reflect D fs = Ok S ->
  (forall e r, In e (d_enums D) -> lookup S (enum_key e) = Some (Linked r) -> build_enum e = Ok r) /\
  (forall m r, In m (d_msgs D) -> lookup S (msg_key m) = Some (Linked r) ->
     decl_root D m = ROk r /\
     forall exs ps e, decl_props D m = ROk (exs, ps) -> In e exs ->
       lookup S (ex_key e) = Some (Linked (decl_oneof_of m e))).
Proof. exact reflect_declared. Qed.
Print Assumptions C18_reader_links_the_declared_schemas.

(* ---- what messageProperties computes, stated WITHOUT its machinery (no table of exposed oneofs, no
   pending flags, no deferred insertion; proofs/ReflectDeclSpecProofs.v):
     spec_names    a field that is not a member of an exposed real oneof is a property under its JSON name at
                   its place; an exposed real oneof is ONE property, under its lower-camel name, standing where
                   the FIRST of its members stands;
     spec_members  the members of an exposed oneof are the singular fields contained in it, in declaration
                   order, and they are the properties of the oneof's own schema; an exposed oneof without a
                   member is an error (so the member list is never empty).
   First for the state-free declared schema (no hypothesis), then for the reader (wf_keys: every linked
   message entry of a successful reflection, with the schemas of its exposed oneofs in the set). *)
Theorem C18_declared_properties_have_the_specified_shape : forall D m exs ps,
  decl_props D m = ROk (exs, ps) ->
  map p_json ps = spec_names m [] (m_fields m) /\
  map ex_idx exs = map ex_idx (decl_exposed m 0 (m_oneofs m)) /\
  (forall e, In e exs ->
     is_exposed m (ex_idx e) = true /\
     map p_json (ex_props e) = map f_json (spec_members m (ex_idx e) (m_fields m)) /\
     spec_members m (ex_idx e) (m_fields m) <> []).
Proof. exact decl_props_shape. Qed.
Print Assumptions C18_declared_properties_have_the_specified_shape.

Theorem C18_reflected_properties_have_the_specified_shape : forall D, wf_keys D -> forall fs S m r,
  reflect D fs = Ok S -> In m (d_msgs D) -> lookup S (msg_key m) = Some (Linked r) ->
  map p_json (root_props r) = spec_names m [] (m_fields m) /\
  forall exs ps e, decl_props D m = ROk (exs, ps) -> In e exs ->
    is_exposed m (ex_idx e) = true /\
    exists ro, lookup S (ex_key e) = Some (Linked ro) /\
               map p_json (root_props ro) = map f_json (spec_members m (ex_idx e) (m_fields m)) /\
               root_props ro <> [].
Proof. exact reflected_message_shape. Qed.
Print Assumptions C18_reflected_properties_have_the_specified_shape.

(* ---- cache transparency (SchemaCache.Schema), in full (hypothesis wf_keys): whatever calls were made
   before (successful and failed, any messages, any order: [cache_reach]), the cache answers a message
   with the schema r exactly when a fresh cache answers it with r: the same schema, or a failure in
   both. Two halves: VALUES (the answers of two histories are the same schema: every linked entry is
   the declared schema of its descriptor, ReflectDeclProofs) and CLASS (a message linked in one
   reachable cache can be built from any other reachable cache that lacks it: every local check is
   decided by the descriptors, every nested message is linked in the first cache as well, and a
   flatten cycle found would be a cycle of the first cache; ReflectClassProofs.completion). A failed
   call leaves the cache exactly as it was (the roll-back; in the model by definition of
   cache_schema, on the code by the shared-cache history stream), a name already held is answered
   from the cache, unchanged. *)
Theorem C18_cache_transparent : forall D, wf_keys D -> forall st m r,
  cache_reach D st -> In m (d_msgs D) ->
  (snd (cache_schema D (size D) st m) = Ok r <-> snd (cache_schema D (size D) [] m) = Ok r).
Proof. exact cache_transparent. Qed.
Print Assumptions C18_cache_transparent.

Theorem C18_cache_history_independent : forall D, wf_keys D -> forall st st' m r,
  cache_reach D st -> cache_reach D st' -> In m (d_msgs D) ->
  (snd (cache_schema D (size D) st m) = Ok r <-> snd (cache_schema D (size D) st' m) = Ok r).
Proof. exact cache_history_independent. Qed.
Print Assumptions C18_cache_history_independent.

(* the values half on its own, with the schemas of the exposed oneofs *)
Theorem C18_cache_answers_agree : forall D, wf_keys D -> forall st st' m r r',
  cache_reach D st -> cache_reach D st' -> In m (d_msgs D) ->
  snd (cache_schema D (size D) st m) = Ok r -> snd (cache_schema D (size D) st' m) = Ok r' ->
  r = r' /\
  (forall exs ps e, decl_props D m = ROk (exs, ps) -> In e exs ->
     lookup (fst (cache_schema D (size D) st m)) (ex_key e) = Some (Linked (decl_oneof_of m e)) /\
     lookup (fst (cache_schema D (size D) st' m)) (ex_key e) = Some (Linked (decl_oneof_of m e))).
Proof. exact cache_answers_agree. Qed.
Print Assumptions C18_cache_answers_agree.

Theorem C18_cache_answer_is_fresh_answer : forall D, wf_keys D -> forall st m r r',
  cache_reach D st -> In m (d_msgs D) ->
  snd (cache_schema D (size D) st m) = Ok r -> snd (cache_schema D (size D) [] m) = Ok r' -> r = r'.
Proof. exact cache_answer_is_fresh_answer. Qed.
Print Assumptions C18_cache_answer_is_fresh_answer.

Theorem C18_cache_states_agree : forall D, wf_keys D -> forall st st',
  cache_reach D st -> cache_reach D st' ->
  (forall m r r', In m (d_msgs D) -> lookup st (msg_key m) = Some (Linked r) -> lookup st' (msg_key m) = Some (Linked r') -> r = r') /\
  (forall e r r', In e (d_enums D) -> lookup st (enum_key e) = Some (Linked r) -> lookup st' (enum_key e) = Some (Linked r') -> r = r').
Proof. exact cache_states_agree. Qed.
Print Assumptions C18_cache_states_agree.

Theorem C18_cache_failed_call_rolls_back : forall D fuel st m,
  (forall r, snd (cache_schema D fuel st m) <> Ok r) -> fst (cache_schema D fuel st m) = st.
Proof. exact cache_failed_call_unchanged. Qed.
Print Assumptions C18_cache_failed_call_rolls_back.

Theorem C18_cache_hit : forall D fuel st m r,
  lookup st (msg_key m) = Some (Linked r) -> cache_schema D fuel st m = (st, Ok r).
Proof. exact cache_hit. Qed.
Print Assumptions C18_cache_hit.

(* ---- SchemaSetFromFiles does not depend on the order in which the files are visited
   (protoregistry.RangeFiles ranges over a Go map: the order is random on the real code). The loop over
   the messages is a call history on one set, so by cache transparency (wf_keys) the reflection
   succeeds exactly when every selected message can be built on its own ([fresh_ok]) and every
   selected enum is well-formed ([enum_ok]): a condition on the SET of selected names; and the entries
   are the declared schemas whatever the order. *)
Theorem C18_reflect_succeeds_iff : forall D, wf_keys D -> forall fs,
  (exists S, reflect D fs = Ok S) <->
  (forall full, In full (fst (collect fs)) -> fresh_ok D full) /\ (forall full, In full (snd (collect fs)) -> enum_ok D full).
Proof. exact reflect_ok_iff. Qed.
Print Assumptions C18_reflect_succeeds_iff.

Theorem C18_reflect_file_order_independent : forall D, wf_keys D -> forall fs fs',
  Permutation fs fs' -> ((exists S, reflect D fs = Ok S) <-> (exists S', reflect D fs' = Ok S')).
Proof. exact reflect_file_order_independent. Qed.
Print Assumptions C18_reflect_file_order_independent.

Theorem C18_reflect_order_independent : forall D, wf_keys D -> forall fs fs',
  (forall x, In x (fst (collect fs)) <-> In x (fst (collect fs'))) ->
  (forall x, In x (snd (collect fs)) <-> In x (snd (collect fs'))) ->
  ((exists S, reflect D fs = Ok S) <-> (exists S', reflect D fs' = Ok S')) /\
  (forall S S', reflect D fs = Ok S -> reflect D fs' = Ok S' ->
     (forall m r r', In m (d_msgs D) -> lookup S (msg_key m) = Some (Linked r) -> lookup S' (msg_key m) = Some (Linked r') -> r = r') /\
     (forall e r r', In e (d_enums D) -> lookup S (enum_key e) = Some (Linked r) -> lookup S' (enum_key e) = Some (Linked r') -> r = r')).
Proof. exact reflect_order_independent. Qed.
Print Assumptions C18_reflect_order_independent.

(* each proto kind is handled by an arm or rejected with an error, as the Go switches list them *)
Theorem C18_scalar_arms_are_the_code's :
  map kind_go_name scalar_kinds_handled = ReflectGen.scalar_kind_arms /\
  map kind_go_name [KMessage; KEnum] = ReflectGen.build_schema_arms.
Proof. exact (conj scalar_arms_agree build_schema_arms_agree). Qed.
Print Assumptions C18_scalar_arms_are_the_code's.

Theorem C18_unsupported_kinds_err : forall k x,
  existsb (kind_eqb k) scalar_kinds_handled = false -> exists c, build_scalar k x = RErr c.
Proof. exact scalar_unhandled_errs. Qed.
Print Assumptions C18_unsupported_kinds_err.

(* the same for wktSchema and for the codec's two type switches, as PROBES of the model functions (not as
   comparisons of two hand-written lists): the model answers with a schema for every name the Go switch
   of wktSchema lists and for no other name, whatever the annotations; a schema type without an arm in
   newFieldFactory / newMessageFieldFactory reaches the model's default arm (an error), one with an arm
   does not *)
Theorem C18_wkt_arms_are_the_code's :
  forallb (fun n => match wkt_schema n empty_exts with ROk (Some _) => true | _ => false end) gen_wkt_names = true /\
  forall full x, forallb (fun n => negb (str_eqb full n)) gen_wkt_names = true -> wkt_schema full x = ROk None.
Proof. exact (conj wkt_arms_probe wkt_only_the_go_arms). Qed.
Print Assumptions C18_wkt_arms_are_the_code's.

Theorem C18_factory_arms_are_the_code's :
  (forall st s f, name_in (schema_go_name s) ReflectGen.newFieldFactory_arms = false <->
                  leaf_factory st s f = Err "newFieldFactory: unsupported schema for leaf field") /\
  (forall D st s f, name_in (schema_go_name s) ReflectGen.newMessageFieldFactory_arms = false ->
                    message_factory D st s f = Err "newMessageFieldFactory: unsupported schema for message field") /\
  (forall D s f, name_in (schema_go_name s) ReflectGen.newMessageFieldFactory_arms = true ->
                 message_factory D [] s f <> Err "newMessageFieldFactory: unsupported schema for message field").
Proof. exact (conj leaf_factory_default_iff (conj message_factory_default message_factory_arms_probe)). Qed.
Print Assumptions C18_factory_arms_are_the_code's.

Definition ex_fopts := FOpts None None None None.

(* ---- where the faithful model violates the full statement (each witness replays on the real code;
   the corresponding known findings are listed in KNOWN_FINDINGS.txt) *)

(* 1. (FIXED in /repo by 0e6056c) schema names are the descriptor path joined by "_": nested
   `message Col { message Inner { int32 n = 1; } }` and top-level `message Col_Inner { Col.Inner i = 1; string s = 2; }`
   share the name Col_Inner. Before the fix the reader succeeded with ONE entry for the two messages
   (Col_Inner answered with Col.Inner's object; the codec could not build its properties; a shared cache
   answered by call order). *)
Definition collision_desc : desc :=
  {| d_msgs := [
       Msg (bytes "p.v1.Col") (bytes "p.v1") [bytes "Col"] [] [] None None [];
       Msg (bytes "p.v1.Col.Inner") (bytes "p.v1") [bytes "Col"; bytes "Inner"]
         [Fld (bytes "n") (bytes "n") 1 KInt32 CSingle None TNone ex_fopts []] [] None None [];
       Msg (bytes "p.v1.Col_Inner") (bytes "p.v1") [bytes "Col_Inner"]
         [Fld (bytes "i") (bytes "i") 1 KMessage CSingle None (TMsg (bytes "p.v1.Col.Inner")) ex_fopts [];
          Fld (bytes "s") (bytes "s") 2 KString CSingle None TNone ex_fopts []]
         [] None None []];
     d_enums := [];
     d_files := [File (bytes "p/v1/a.proto") (bytes "p.v1")
                   [bytes "p.v1.Col"; bytes "p.v1.Col.Inner"; bytes "p.v1.Col_Inner"] []] |}.

Definition collision_inner : msgd := nth 1 (d_msgs collision_desc) (Msg [] [] [] [] [] None None []).
Definition collision_m : msgd := nth 2 (d_msgs collision_desc) (Msg [] [] [] [] [] None None []).

(* since fix 0e6056c the collision is an ERROR, never a schema of the other descriptor:
   SchemaSetFromFiles over the file fails; a cache answers whichever of the two messages is asked
   first (with ITS schema: Col_Inner has the properties i, s; Col.Inner has n) and fails on the other,
   leaving the cache as it was. (The model without owners, i.e. the code before the fix, succeeds with
   ONE entry for the two messages: the old refutation.) *)
Theorem C18_split_name_collision_is_an_error :
  is_err (o_reflect collision_desc (d_files collision_desc)) = true /\
  (exists S, reflect collision_desc (d_files collision_desc) = Ok S /\ length S = 2%nat) /\
  (let '(s1, a1) := o_cache_schema collision_desc (size collision_desc) ([], []) collision_inner in
   let '(s2, a2) := o_cache_schema collision_desc (size collision_desc) s1 collision_m in
   (exists r, a1 = Ok r /\ map p_json (root_props r) = [bytes "n"]) /\ is_err a2 = true /\ s2 = s1) /\
  (let '(s1, a1) := o_cache_schema collision_desc (size collision_desc) ([], []) collision_m in
   let '(s2, a2) := o_cache_schema collision_desc (size collision_desc) s1 collision_inner in
   is_err a1 = true /\ s1 = ([], []) /\ (exists r, a2 = Ok r /\ map p_json (root_props r) = [bytes "n"])).
Proof.
  split; [vm_compute; reflexivity|]. split; [eexists; split; vm_compute; reflexivity|].
  split; vm_compute; (split; [eexists; split; reflexivity|split; reflexivity] || (split; [reflexivity|split; [reflexivity|eexists; split; reflexivity]])).
Qed.
Print Assumptions C18_split_name_collision_is_an_error.

(* why the hypothesis of C18_reflect_total is there: in the model an enum without values makes
   buildEnum panic (sourceValues.Get(0)); protodesc.NewFiles rejects such a file, so no linked set
   has one, and the harness cannot produce the input *)
Definition empty_enum_desc : desc :=
  {| d_msgs := []; d_enums := [Enum (bytes "p.v1.E") (bytes "p.v1") [bytes "E"] [] None []];
     d_files := [File (bytes "p/v1/a.proto") (bytes "p.v1") [] [bytes "p.v1.E"]] |}.
Theorem C18_empty_enum_panics_in_the_model :
  exists s, reflect empty_enum_desc (d_files empty_enum_desc) = Panic s.
Proof. eexists. vm_compute. reflexivity. Qed.
Print Assumptions C18_empty_enum_panics_in_the_model.

(* 2. a set (enums non-empty, no name collision) that reflects fine but whose reflected type the codec cannot build:
   google.protobuf.Struct is read as a map of any, buildProperty wants a proto map *)
Definition struct_desc : desc :=
  {| d_msgs := [
       Msg (bytes "p.v1.M") (bytes "p.v1") [bytes "M"]
         [Fld (bytes "s") (bytes "s") 1 KMessage CSingle None (TMsg (bytes "google.protobuf.Struct")) ex_fopts []]
         [] None None []];
     d_enums := [];
     d_files := [File (bytes "p/v1/a.proto") (bytes "p.v1") [bytes "p.v1.M"] []] |}.

Definition struct_state : ost :=
  match o_reflect struct_desc (d_files struct_desc) with Ok s => s | _ => ([], []) end.
Definition struct_m : msgd := nth 0 (d_msgs struct_desc) (Msg [] [] [] [] [] None None []).
Definition struct_r : root :=
  match lookup (fst struct_state) (msg_key struct_m) with Some (Linked r) => r | _ => REnum [] [] [] [] [] end.

Theorem C18_struct_codec_refuted :
  enums_nonempty struct_desc /\ wf_paths struct_desc /\
  (exists S ow m r, o_reflect_checked struct_desc (d_files struct_desc) = Ok (S, ow) /\ In m (d_msgs struct_desc) /\
                lookup S (msg_key m) = Some (Linked r) /\ set_consistent struct_desc S = true /\
                codec_classes struct_desc S m r = (0%N, 1%N) /\ codec_classes_strict struct_desc S m r = (0%N, 1%N)) /\
  ~ C18_full_statement.
Proof.
  split; [intros e []|]. split; [apply wf_paths_b_sound; vm_compute; reflexivity|].
  assert (Hw : exists S ow m r, o_reflect_checked struct_desc (d_files struct_desc) = Ok (S, ow) /\ In m (d_msgs struct_desc) /\
                lookup S (msg_key m) = Some (Linked r) /\ set_consistent struct_desc S = true /\
                codec_classes struct_desc S m r = (0%N, 1%N) /\ codec_classes_strict struct_desc S m r = (0%N, 1%N)).
  { exists (fst struct_state), (snd struct_state), struct_m, struct_r.
    split; [vm_compute; reflexivity|]. split; [left; reflexivity|].
    split; [vm_compute; reflexivity|]. split; [vm_compute; reflexivity|]. split; vm_compute; reflexivity. }
  split; [exact Hw|].
  intros H. destruct Hw as (S & ow & m & r & HS & Hm & Hl & _ & _ & Hc).
  destruct (H struct_desc (d_files struct_desc)) as (_ & _ & Hok).
  destruct (Hok S ow HS) as (_ & _ & Hcodec). destruct (Hcodec m r Hm Hl) as [Hcs _]. rewrite Hcs in Hc. discriminate.
Qed.
Print Assumptions C18_struct_codec_refuted.

(* 2b. google.protobuf.Duration: reflects (string / format duration, well-known type name kept), the
   property set and the property's factory build (strict classes (0,0)), it is even encoded (as prototext),
   but no value can be SET on it (checkValueKind: "values of type google.protobuf.Duration are not
   supported"), so a populated message cannot be decoded. [value_settable] is the model's statement of
   that; known finding. *)
Definition duration_desc : desc :=
  {| d_msgs := [
       Msg (bytes "p.v1.M") (bytes "p.v1") [bytes "M"]
         [Fld (bytes "d") (bytes "d") 1 KMessage CSingle None (TMsg (bytes "google.protobuf.Duration")) ex_fopts []]
         [] None None []];
     d_enums := [];
     d_files := [File (bytes "p/v1/a.proto") (bytes "p.v1") [bytes "p.v1.M"] []] |}.
Definition duration_state : ost :=
  match o_reflect duration_desc (d_files duration_desc) with Ok s => s | _ => ([], []) end.
Definition duration_m : msgd := nth 0 (d_msgs duration_desc) (Msg [] [] [] [] [] None None []).
Definition duration_r : root :=
  match lookup (fst duration_state) (msg_key duration_m) with Some (Linked r) => r | _ => REnum [] [] [] [] [] end.
Definition duration_pfs : list (prop * option field) :=
  match new_prop_set duration_desc (fst duration_state) duration_r duration_m with Ok l => l | _ => [] end.

Theorem C18_duration_not_settable_refuted :
  wf_paths duration_desc /\
  o_reflect_checked duration_desc (d_files duration_desc) = Ok duration_state /\
  lookup (fst duration_state) (msg_key duration_m) = Some (Linked duration_r) /\
  set_consistent duration_desc (fst duration_state) = true /\
  codec_classes_strict duration_desc (fst duration_state) duration_m duration_r = (0%N, 0%N) /\
  new_prop_set duration_desc (fst duration_state) duration_r duration_m = Ok duration_pfs /\
  (exists q f, In (q, Some f) duration_pfs /\ factory_b (p_schema q) f = true /\ value_settable (p_schema q) = false /\
               supported_b (p_schema q) f = false).
Proof.
  split; [apply wf_paths_b_sound; vm_compute; reflexivity|].
  split; [vm_compute; reflexivity|]. split; [vm_compute; reflexivity|]. split; [vm_compute; reflexivity|].
  split; [vm_compute; reflexivity|]. split; [vm_compute; reflexivity|].
  eexists. eexists. split; [left; vm_compute; reflexivity|]. split; [vm_compute; reflexivity|]. split; vm_compute; reflexivity.
Qed.
Print Assumptions C18_duration_not_settable_refuted.

(* 3. (FIXED by notes/schb-fix.patch) flattening did not check names: without the check of the entry points
   the client properties of A carry "id" twice; with it the set is an error
   (C18_flatten_names_is_an_error_with_the_repair, C18_client_property_names_distinct) *)
Definition flatten_names_desc : desc :=
  {| d_msgs := [
       Msg (bytes "p.v1.A") (bytes "p.v1") [bytes "A"]
         [Fld (bytes "id") (bytes "id") 1 KString CSingle None TNone ex_fopts [];
          Fld (bytes "b") (bytes "b") 2 KMessage CSingle None (TMsg (bytes "p.v1.B")) (FOpts None None (Some (JObject true)) None) []]
         [] None None [];
       Msg (bytes "p.v1.B") (bytes "p.v1") [bytes "B"]
         [Fld (bytes "id") (bytes "id") 1 KString CSingle None TNone ex_fopts []]
         [] None None []];
     d_enums := [];
     d_files := [File (bytes "p/v1/a.proto") (bytes "p.v1") [bytes "p.v1.A"; bytes "p.v1.B"] []] |}.

Theorem C18_flatten_names_clash_without_the_check :
  enums_nonempty flatten_names_desc /\
  exists S ps cps, reflect flatten_names_desc (d_files flatten_names_desc) = Ok S /\
    lookup S (bytes "p.v1", bytes "A") = Some (Linked (RObject (bytes "A") [] None [] ps)) /\
    client_props (length S + 1) S ps = Ok cps /\ names_unique_b ps = true /\ names_unique_b cps = false.
Proof.
  split.
  - intros e [].
  - eexists. eexists. eexists. split; [vm_compute; reflexivity|]. split; [vm_compute; reflexivity|].
    split; [vm_compute; reflexivity|]. split; vm_compute; reflexivity.
Qed.
Print Assumptions C18_flatten_names_clash_without_the_check.

(* 4. (found by the independent audit; FIXED in /repo by 07ed85e) protoc checks JSON-name conflicts between
   fields only: an exposed oneof named foo_bar gets the property name lowerCamel("foo_bar") = "fooBar",
   the same as the field fooBar. Split names are distinct, enums non-empty, field JSON names distinct,
   field numbers distinct. The reader used to succeed with two properties fooBar; it now returns an error. *)
Definition oneof_clash_desc : desc :=
  {| d_msgs := [
       Msg (bytes "p.v1.M") (bytes "p.v1") [bytes "M"]
         [Fld (bytes "a") (bytes "a") 1 KString CSingle (Some 0%N) TNone ex_fopts [];
          Fld (bytes "fooBar") (bytes "fooBar") 2 KString CSingle None TNone ex_fopts []]
         [Oneof (bytes "foo_bar") (bytes "fooBar") false (Some true) []] None None []];
     d_enums := [];
     d_files := [File (bytes "p/v1/a.proto") (bytes "p.v1") [bytes "p.v1.M"] []] |}.

Theorem C18_exposed_oneof_name_clash_is_an_error :
  enums_nonempty oneof_clash_desc /\ NoDup (all_keys oneof_clash_desc) /\
  (forall m, In m (d_msgs oneof_clash_desc) -> NoDup (map f_json (m_fields m)) /\ NoDup (map f_num (m_fields m))) /\
  is_err (o_reflect oneof_clash_desc (d_files oneof_clash_desc)) = true /\
  is_err (reflect oneof_clash_desc (d_files oneof_clash_desc)) = true.
Proof.
  split; [intros e []|].
  split; [apply nodup_refs_NoDup; vm_compute; reflexivity|].
  split.
  - intros m [<-|[]]. split; [apply nodup_str_NoDup|apply nodup_N_NoDup]; vm_compute; reflexivity.
  - split; vm_compute; reflexivity.
Qed.
Print Assumptions C18_exposed_oneof_name_clash_is_an_error.

(* ---- non-vacuity: a self-recursive and a mutually recursive message, an enum, a bool const rule,
   a flattened (non-cyclic) field; the hypotheses hold and the reader succeeds *)
Definition ex_desc : desc :=
  {| d_msgs := [
       Msg (bytes "p.v1.Node") (bytes "p.v1") [bytes "Node"]
         [Fld (bytes "next") (bytes "next") 1 KMessage CSingle None (TMsg (bytes "p.v1.Node")) ex_fopts [];
          Fld (bytes "peer") (bytes "peer") 2 KMessage CRepeated None (TMsg (bytes "p.v1.Peer")) ex_fopts [];
          Fld (bytes "ok") (bytes "ok") 3 KBool CSingle None TNone
              (FOpts (Some (FCon None None (VBool (Some true)))) None None None) [];
          Fld (bytes "kind") (bytes "kind") 4 KEnum CSingle None (TEnum (bytes "p.v1.Kind")) ex_fopts []]
         [] None None [];
       Msg (bytes "p.v1.Peer") (bytes "p.v1") [bytes "Peer"]
         [Fld (bytes "node") (bytes "node") 1 KMessage CSingle None (TMsg (bytes "p.v1.Node"))
              (FOpts None None (Some (JObject true)) None) []]
         [] None None []];
     d_enums := [Enum (bytes "p.v1.Kind") (bytes "p.v1") [bytes "Kind"]
                   [EnumVal (bytes "KIND_UNSPECIFIED") 0 None []; EnumVal (bytes "KIND_A") 1 None []] None []];
     d_files := [File (bytes "p/v1/a.proto") (bytes "p.v1") [bytes "p.v1.Node"; bytes "p.v1.Peer"] [bytes "p.v1.Kind"]] |}.

Example C18_example :
  wf_paths ex_desc /\ wf_desc ex_desc /\ enums_nonempty ex_desc /\
  (exists S ow, o_reflect ex_desc (d_files ex_desc) = Ok (S, ow) /\ length S = 3%nat /\ length ow = 3%nat) /\
  exists S, reflect ex_desc (d_files ex_desc) = Ok S /\ length S = 3%nat /\ set_consistent ex_desc S = true.
Proof.
  split; [apply wf_paths_b_sound; vm_compute; reflexivity|].
  split; [apply wf_desc_b_sound; vm_compute; reflexivity|].
  split.
  - intros e [<-|[]]. cbn. discriminate.
  - split; [eexists; eexists; split; [vm_compute; reflexivity|split; vm_compute; reflexivity]|].
    eexists. split; [vm_compute; reflexivity|]. split; vm_compute; reflexivity.
Qed.

(* the hypotheses of C18_codec_usable_on_supported are met by both messages of the example (an object
   with a recursive field, an array of objects, a bool with a rule, an enum; an object that flattens
   the first), and the conclusion computes *)
Definition ex_set : sset := match reflect ex_desc (d_files ex_desc) with Ok st => st | _ => [] end.
Example C18_example_codec :
  exists S, reflect ex_desc (d_files ex_desc) = Ok S /\
    forallb (fun m =>
      match lookup S (msg_key m) with
      | Some (Linked r) =>
          match new_prop_set ex_desc S r m with
          | Ok pfs =>
              forallb (fun pf => match pf with (q, Some f) => supported_b (p_schema q) f | (_, None) => true end) pfs &&
              (match codec_classes ex_desc S m r with (0%N, 0%N) => true | _ => false end)
          | _ => false
          end
      | _ => false
      end) (d_msgs ex_desc) = true.
Proof. exists ex_set. split; vm_compute; reflexivity. Qed.

(* the cache theorems' hypotheses on the example: two histories (Peer then Node; Node alone) reach
   states that answer Node with the same schema, which is the declared one *)
Example C18_example_cache :
  wf_keys ex_desc /\
  exists mN mP, In mN (d_msgs ex_desc) /\ In mP (d_msgs ex_desc) /\
    let st1 := fst (cache_schema ex_desc (size ex_desc) [] mP) in
    cache_reach ex_desc st1 /\
    exists r, snd (cache_schema ex_desc (size ex_desc) st1 mN) = Ok r /\
              snd (cache_schema ex_desc (size ex_desc) [] mN) = Ok r /\ decl_root ex_desc mN = ROk r.
Proof.
  split; [apply wf_desc_b_sound; vm_compute; reflexivity|].
  eexists. eexists. split; [left; reflexivity|]. split; [right; left; reflexivity|].
  cbv zeta. split; [apply reach_call; [apply reach_new|right; left; reflexivity]|].
  eexists. split; [vm_compute; reflexivity|]. split; vm_compute; reflexivity.
Qed.

(* the shape theorems on an example: message M { a; oneof pick (exposed) { x }; b; oneof pick { y } }: the
   properties of M are [a; pick; b] (the oneof stands where its first member x stands), the properties of
   the oneof schema M_pick are [x; y] *)
Definition shape_desc : desc :=
  {| d_msgs := [
       Msg (bytes "p.v1.M") (bytes "p.v1") [bytes "M"]
         [Fld (bytes "a") (bytes "a") 1 KString CSingle None TNone ex_fopts [];
          Fld (bytes "x") (bytes "x") 2 KString CSingle (Some 0%N) TNone ex_fopts [];
          Fld (bytes "b") (bytes "b") 3 KString CSingle None TNone ex_fopts [];
          Fld (bytes "y") (bytes "y") 4 KString CSingle (Some 0%N) TNone ex_fopts []]
         [Oneof (bytes "pick") (bytes "pick") false (Some true) []] None None []];
     d_enums := [];
     d_files := [File (bytes "p/v1/a.proto") (bytes "p.v1") [bytes "p.v1.M"] []] |}.
Definition shape_m : msgd := nth 0 (d_msgs shape_desc) (Msg [] [] [] [] [] None None []).
Example C18_example_shape :
  wf_keys shape_desc /\
  spec_names shape_m [] (m_fields shape_m) = [bytes "a"; bytes "pick"; bytes "b"] /\
  map f_json (spec_members shape_m 0%N (m_fields shape_m)) = [bytes "x"; bytes "y"] /\
  exists S r ro, reflect shape_desc (d_files shape_desc) = Ok S /\
    lookup S (bytes "p.v1", bytes "M") = Some (Linked r) /\ map p_json (root_props r) = [bytes "a"; bytes "pick"; bytes "b"] /\
    lookup S (bytes "p.v1", bytes "M_pick") = Some (Linked ro) /\ map p_json (root_props ro) = [bytes "x"; bytes "y"].
Proof.
  split; [apply wf_desc_b_sound; vm_compute; reflexivity|]. split; [vm_compute; reflexivity|]. split; [vm_compute; reflexivity|].
  eexists. eexists. eexists. split; [vm_compute; reflexivity|]. split; [vm_compute; reflexivity|].
  split; [vm_compute; reflexivity|]. split; vm_compute; reflexivity.
Qed.

(* ================================================================================================
   Client property names through the flatten levels — the reader WITH the prepared repair
   notes/schb-fix.patch (model/ReflectNames.v: [o_reflect_checked], [o_cache_schema_checked]).
   [o_reflect] / [o_cache_schema] above are the code as it is, and C18_flatten_names_clash_without_the_check is
   what is wrong with it; the statements below are about the code with the repair applied. *)

(* the clause, for ALL descriptor sets and file selections the repaired reader accepts: a reflected
   schema's client property names are pairwise distinct, through all flatten levels
   ([client_props_of] is ObjectSchema.ClientProperties: own properties, and for every flattened
   object field the client properties of the object it refers to, recursively) *)
Theorem C18_client_property_names_distinct : forall D fs S ow,
  o_reflect_checked D fs = Ok (S, ow) ->
  forall k r, lookup S k = Some (Linked r) ->
  exists cps, client_props_of S r = Ok cps /\ NoDup (map p_json cps).
Proof. exact o_reflect_checked_client_names. Qed.
Print Assumptions C18_client_property_names_distinct.

(* the repair only adds errors: what the repaired reader returns, the reader returns; every
   "if the reader returns S then ..." theorem above holds for the repaired reader *)
Theorem C18_checked_reader_is_the_reader_or_an_error : forall D fs s,
  o_reflect_checked D fs = Ok s -> o_reflect D fs = Ok s.
Proof. exact o_reflect_checked_ok. Qed.
Print Assumptions C18_checked_reader_is_the_reader_or_an_error.

Theorem C18_checked_reader_fails_as_the_reader_fails : forall D fs,
  (forall s, o_reflect D fs <> Ok s) -> o_reflect_checked D fs = o_reflect D fs.
Proof. exact o_reflect_checked_not_ok. Qed.
Print Assumptions C18_checked_reader_fails_as_the_reader_fails.

Theorem C18_checked_full_on_wf_paths : forall D fs,
  wf_paths D ->
  (forall s, o_reflect_checked D fs <> Panic s) /\ o_reflect_checked D fs <> OutOfFuel /\
  forall S ow, o_reflect_checked D fs = Ok (S, ow) ->
    set_consistent D S = true /\
    (forall k r, lookup S k = Some (Linked r) -> exists cps, client_props_of S r = Ok cps /\ NoDup (map p_json cps)) /\
    forall m r, In m (d_msgs D) -> lookup S (msg_key m) = Some (Linked r) ->
      exists pfs, new_prop_set D S r m = Ok pfs /\
        ((forall q f, In (q, Some f) pfs -> supported_b (p_schema q) f = true) ->
         (forall q k n d ops opfs p2 f2, In (q, None) pfs -> p_schema q = FOneof k None None None ->
            lookup S k = Some (Linked (ROneof n d ops)) -> new_prop_set D S (ROneof n d ops) m = Ok opfs ->
            In (p2, Some f2) opfs -> supported_b (p_schema p2) f2 = true) ->
         codec_classes D S m r = (0%N, 0%N) /\ codec_classes_strict D S m r = (0%N, 0%N)).
Proof. exact o_reflect_checked_full_on_supported. Qed.
Print Assumptions C18_checked_full_on_wf_paths.

(* the check calls ClientProperties, which has a type assertion and recurses: with distinct split
   names (under which C18_client_properties_terminate holds) it neither panics nor runs out of fuel *)
Theorem C18_checked_reader_total : forall D, wf_keys D -> forall fs,
  (forall p, o_reflect_checked D fs <> Panic p) /\ o_reflect_checked D fs <> OutOfFuel.
Proof. exact o_reflect_checked_total. Qed.
Print Assumptions C18_checked_reader_total.

(* SchemaCache.Schema with the repair: an answer is the cache's answer with the cache's new state, and
   every object this call registered has distinct client property names in it; anything else leaves the
   cache as it was; where the cache does not answer the repaired cache gives the same outcome *)
Theorem C18_checked_cache_answer : forall D fuel s m s1 r,
  o_cache_schema_checked D fuel s m = (s1, Ok r) ->
  o_cache_schema D fuel s m = (s1, Ok r) /\
  forall k n d en am ps, In (k, Linked (RObject n d en am ps)) (registered (fst s) (fst s1)) ->
    exists cps, client_props (length (fst s1) + 1) (fst s1) ps = Ok cps /\ NoDup (map p_json cps).
Proof. exact o_cache_schema_checked_ok. Qed.
Print Assumptions C18_checked_cache_answer.

Theorem C18_checked_cache_rolls_back : forall D fuel s m,
  (forall r, snd (o_cache_schema_checked D fuel s m) <> Ok r) -> fst (o_cache_schema_checked D fuel s m) = s.
Proof. exact o_cache_schema_checked_rollback. Qed.
Print Assumptions C18_checked_cache_rolls_back.

Theorem C18_checked_cache_fails_as_the_cache_fails : forall D fuel s m,
  (forall r, snd (o_cache_schema D fuel s m) <> Ok r) ->
  o_cache_schema_checked D fuel s m = o_cache_schema D fuel s m.
Proof. exact o_cache_schema_checked_not_ok. Qed.
Print Assumptions C18_checked_cache_fails_as_the_cache_fails.

(* the witness of C18_flatten_names_clash_without_the_check is an error of the repaired reader, and of the repaired
   cache asked for A *)
Theorem C18_flatten_names_is_an_error_with_the_repair :
  o_reflect_checked flatten_names_desc (d_files flatten_names_desc) = Err e_client_name /\
  forall m, find_msg flatten_names_desc (bytes "p.v1.A") = Some m ->
    o_cache_schema_checked flatten_names_desc (size flatten_names_desc) ([], []) m = (([], []), Err e_client_name).
Proof.
  split; [vm_compute; reflexivity|]. intros m Hm. vm_compute in Hm. injection Hm as <-. vm_compute. reflexivity.
Qed.
Print Assumptions C18_flatten_names_is_an_error_with_the_repair.

(* why the check runs after the build and not next to checkFlattenCycle: B { A child; string x } is read
   first, A { B b [flatten]; string x } is built while B is still a placeholder, so nothing that looks at
   A when A is finished can see B's x.  The reader accepts the set, A's client properties are [child; x; x];
   the repaired reader and the repaired cache (asked for B, or for A) reject it. *)
Definition flatten_pending_desc : desc :=
  {| d_msgs := [
       Msg (bytes "p.v1.B") (bytes "p.v1") [bytes "B"]
         [Fld (bytes "child") (bytes "child") 1 KMessage CSingle None (TMsg (bytes "p.v1.A")) ex_fopts [];
          Fld (bytes "x") (bytes "x") 2 KString CSingle None TNone ex_fopts []]
         [] None None [];
       Msg (bytes "p.v1.A") (bytes "p.v1") [bytes "A"]
         [Fld (bytes "b") (bytes "b") 1 KMessage CSingle None (TMsg (bytes "p.v1.B")) (FOpts None None (Some (JObject true)) None) [];
          Fld (bytes "x") (bytes "x") 2 KString CSingle None TNone ex_fopts []]
         [] None None []];
     d_enums := [];
     d_files := [File (bytes "p/v1/a.proto") (bytes "p.v1") [bytes "p.v1.B"; bytes "p.v1.A"] []] |}.
Theorem C18_flatten_names_of_an_object_under_construction :
  wf_keys flatten_pending_desc /\
  (exists S ow ps cps, o_reflect flatten_pending_desc (d_files flatten_pending_desc) = Ok (S, ow) /\
     lookup S (bytes "p.v1", bytes "A") = Some (Linked (RObject (bytes "A") [] None [] ps)) /\
     client_props (length S + 1) S ps = Ok cps /\ map p_json cps = [bytes "child"; bytes "x"; bytes "x"]) /\
  o_reflect_checked flatten_pending_desc (d_files flatten_pending_desc) = Err e_client_name /\
  forall full m, In full [bytes "p.v1.B"; bytes "p.v1.A"] -> find_msg flatten_pending_desc full = Some m ->
    o_cache_schema_checked flatten_pending_desc (size flatten_pending_desc) ([], []) m = (([], []), Err e_client_name).
Proof.
  split; [apply wf_desc_b_sound; vm_compute; reflexivity|]. split.
  - eexists. eexists. eexists. eexists. split; [vm_compute; reflexivity|]. split; [vm_compute; reflexivity|].
    split; vm_compute; reflexivity.
  - split; [vm_compute; reflexivity|]. intros full m [<-|[<-|[]]] Hm; vm_compute in Hm; injection Hm as <-; vm_compute; reflexivity.
Qed.
Print Assumptions C18_flatten_names_of_an_object_under_construction.

(* non-vacuity: a set with two flatten levels and distinct names passes the check; the client
   properties of A are the hoisted ones in declaration order *)
Definition flatten_fine_desc : desc :=
  {| d_msgs := [
       Msg (bytes "p.v1.A") (bytes "p.v1") [bytes "A"]
         [Fld (bytes "id") (bytes "id") 1 KString CSingle None TNone ex_fopts [];
          Fld (bytes "b") (bytes "b") 2 KMessage CSingle None (TMsg (bytes "p.v1.B")) (FOpts None None (Some (JObject true)) None) []]
         [] None None [];
       Msg (bytes "p.v1.B") (bytes "p.v1") [bytes "B"]
         [Fld (bytes "name") (bytes "name") 1 KString CSingle None TNone ex_fopts [];
          Fld (bytes "c") (bytes "c") 2 KMessage CSingle None (TMsg (bytes "p.v1.C")) (FOpts None None (Some (JObject true)) None) []]
         [] None None [];
       Msg (bytes "p.v1.C") (bytes "p.v1") [bytes "C"]
         [Fld (bytes "deep") (bytes "deep") 1 KString CSingle None TNone ex_fopts []]
         [] None None []];
     d_enums := [];
     d_files := [File (bytes "p/v1/a.proto") (bytes "p.v1") [bytes "p.v1.A"; bytes "p.v1.B"; bytes "p.v1.C"] []] |}.
Example C18_example_client_names :
  wf_keys flatten_fine_desc /\
  exists S ow r cps, o_reflect_checked flatten_fine_desc (d_files flatten_fine_desc) = Ok (S, ow) /\
    lookup S (bytes "p.v1", bytes "A") = Some (Linked r) /\ client_props_of S r = Ok cps /\
    map p_json cps = [bytes "id"; bytes "name"; bytes "deep"].
Proof.
  split; [apply wf_desc_b_sound; vm_compute; reflexivity|].
  eexists. eexists. eexists. eexists. split; [vm_compute; reflexivity|]. split; [vm_compute; reflexivity|].
  split; vm_compute; reflexivity.
Qed.

(* ---- the repaired cache over a history of calls (proofs/ReflectNamesProofs.v) *)

(* the invariant, for EVERY descriptor set and every history of SchemaCache.Schema calls (failed and
   rolled-back ones included), no hypothesis: every object the cache holds has pairwise distinct client
   property names through all flatten levels (ClientProperties returns at some recursion depth f; by
   C18_client_properties_do_not_depend_on_fuel_or_later_entries the result is the same at any greater
   depth and in any later state of the cache) *)
Theorem C18_checked_cache_client_names_distinct : forall D s,
  o_checked_reach D s ->
  forall k n d en am ps, lookup (fst s) k = Some (Linked (RObject n d en am ps)) ->
    exists f cps, client_props f (fst s) ps = Ok cps /\ NoDup (map p_json cps).
Proof. exact o_checked_reach_names. Qed.
Print Assumptions C18_checked_cache_client_names_distinct.

Theorem C18_client_properties_do_not_depend_on_fuel_or_later_entries : forall S S',
  (forall k r, lookup S k = Some (Linked r) -> lookup S' k = Some (Linked r)) ->
  forall f n ps cps, client_props f S ps = Ok cps -> client_props (f + n) S' ps = Ok cps.
Proof. exact client_props_mono. Qed.
Print Assumptions C18_client_properties_do_not_depend_on_fuel_or_later_entries.

(* the repaired cache only visits states of the cache: a clash is one more kind of failed call *)
Theorem C18_checked_cache_states_are_cache_states : forall D s, o_checked_reach D s -> o_cache_reach D s.
Proof. exact o_checked_reach_is_reach. Qed.
Print Assumptions C18_checked_cache_states_are_cache_states.

(* transparency of the answers (wf_keys): whatever the history, an answer of the repaired cache is the
   schema a fresh cache builds for the message, and the schema a fresh repaired cache answers is what the
   build of every repaired cache with a history produces.  NOT proved: that the name check of the call
   with a history passes exactly when the fresh one's does (the two calls register different refs;
   needs "the refs a build registers are those reachable from the message and absent before") *)
Theorem C18_checked_cache_answer_is_the_fresh_build : forall D, wf_keys D -> forall s m r,
  o_checked_reach D s -> In m (d_msgs D) ->
  snd (o_cache_schema_checked D (size D) s m) = Ok r ->
  snd (o_cache_schema D (size D) ([], []) m) = Ok r.
Proof. exact o_checked_cache_answer_is_fresh. Qed.
Print Assumptions C18_checked_cache_answer_is_the_fresh_build.

Theorem C18_checked_fresh_answer_is_built_after_any_history : forall D, wf_keys D -> forall s m r,
  o_checked_reach D s -> In m (d_msgs D) ->
  snd (o_cache_schema_checked D (size D) ([], []) m) = Ok r ->
  snd (o_cache_schema D (size D) s m) = Ok r.
Proof. exact o_checked_fresh_answer_is_built. Qed.
Print Assumptions C18_checked_fresh_answer_is_built_after_any_history.

(* file order and the repaired reader (wf_keys): accepted in one order => the build succeeds in every other
   order; two accepted orders give sets that agree on every message and enum both hold.  NOT proved: that the
   name check passes in the other order too (same missing lemma as for the cache) *)
Theorem C18_checked_reader_file_order : forall D, wf_keys D -> forall fs fs',
  Permutation fs fs' ->
  (forall S ow, o_reflect_checked D fs = Ok (S, ow) -> exists S' ow', o_reflect D fs' = Ok (S', ow')) /\
  (forall S ow S' ow', o_reflect_checked D fs = Ok (S, ow) -> o_reflect_checked D fs' = Ok (S', ow') ->
     (forall m r r', In m (d_msgs D) -> lookup S (msg_key m) = Some (Linked r) -> lookup S' (msg_key m) = Some (Linked r') -> r = r') /\
     (forall e r r', In e (d_enums D) -> lookup S (enum_key e) = Some (Linked r) -> lookup S' (enum_key e) = Some (Linked r') -> r = r')).
Proof. exact o_reflect_checked_order. Qed.
Print Assumptions C18_checked_reader_file_order.

(* towards the two equivalences for the checked functions (NOT proved: "the keys a build adds are exactly
   those reachable from the message and absent before"): ClientProperties reads the set only on keys
   reachable through flattened fields, so two sets that agree on a key set closed under flatten targets
   give the same run *)
Theorem C18_client_properties_read_only_the_flatten_closure : forall S S' (P : ref -> Prop),
  (forall k, P k -> lookup S k = lookup S' k) ->
  (forall k n d en am ps, P k -> lookup S k = Some (Linked (RObject n d en am ps)) ->
     forall t, In t (flat_targets ps) -> P t) ->
  forall f ps, (forall t, In t (flat_targets ps) -> P t) ->
  client_props f S ps = client_props f S' ps.
Proof. exact client_props_agree. Qed.
Print Assumptions C18_client_properties_read_only_the_flatten_closure.

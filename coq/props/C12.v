(* C12 — compiled validation constraints accept exactly what the j5s rules allow.
   Only statements, closed by [exact lemma], with Print Assumptions beneath. *)
From Coq Require Import String List NArith ZArith Bool.
From J5V.lib Require Import Outcome.
From J5V.model Require Import RulesDecl RulesWrite Validate.
From J5V.gen Require Id62Gen RulesGen.
From J5V.proofs Require Import RulesProofs RulesGenProofs.
Import ListNotations.
Local Open Scope N_scope.

(* The property at full strength: for EVERY declaration the compiler accepts (over a
   well-formed enum) and every value of the compiled field, the validator accepts
   iff the declared rules hold. [re_match] is any regular-expression engine that
   decides the published id62 pattern the way C20's matcher does. *)
Definition C12_full_statement : Prop :=
  forall (re_match : str -> str -> bool),
    (forall s, re_match Id62Gen.pattern_string s = id62_shape s) ->
    forall env idx d o fv,
      wf_env env = true ->
      write_prop env idx d = Ok o ->
      fvalue_typed d fv = true ->
      validate_sem re_match (defined_numbers env) o fv = rule_sem re_match env d fv.

(* What is proved: the same for every ADMISSIBLE declaration — integer bounds
   representable in the declared format and minimum <= maximum. All values: all of
   Z for integers, all strings, all byte strings, all lists; required / optional /
   array forms; every rule present or absent. *)
Theorem C12_partial :
  forall (re_match : str -> str -> bool),
    (forall s, re_match Id62Gen.pattern_string s = id62_shape s) ->
    forall env idx d o fv,
      admissible env d = true ->
      write_prop env idx d = Ok o ->
      fvalue_typed d fv = true ->
      validate_sem re_match (defined_numbers env) o fv = rule_sem re_match env d fv.
Proof. exact c12_main. Qed.
Print Assumptions C12_partial.

(* What is missing from the full statement, with the witnesses on the faithful
   model (both replay on the real compiler + validator, KNOWN_FINDINGS.txt): *)

(* (1) minimum > maximum is accepted by the compiler; buf.validate then reads the
   pair as an EXCLUDED range, so the validator accepts 11 although no value
   satisfies "minimum = 10, maximum = 5" *)
Theorem C12_inverted_bounds_refuted :
  exists env idx d o fv,
    wf_env env = true /\ write_prop env idx d = Ok o /\ fvalue_typed d fv = true /\
    validate_sem re_class_count (defined_numbers env) o fv = true /\
    rule_sem re_class_count env d fv = false.
Proof.
  exists (EE [] []), 0,
         (P [97] false false (PSingle (TInt I32 (Some (IR (Some 10%Z) (Some 5%Z) None None)) None)) []).
  eexists. exists (FOne (VInt 11%Z)).
  split; [reflexivity|]. split; [vm_compute; reflexivity|]. repeat split; vm_compute; reflexivity.
Qed.
Print Assumptions C12_inverted_bounds_refuted.

(* (2) a bound outside the range of the declared format is truncated by the Go
   conversion int64 -> int32: "maximum = 5000000000" on INT32 becomes
   lte = 705032704 and 2000000000 is rejected *)
Theorem C12_truncated_bound_refuted :
  exists env idx d o fv,
    wf_env env = true /\ write_prop env idx d = Ok o /\ fvalue_typed d fv = true /\
    validate_sem re_class_count (defined_numbers env) o fv = false /\
    rule_sem re_class_count env d fv = true.
Proof.
  exists (EE [] []), 0,
         (P [97] false false (PSingle (TInt I32 (Some (IR None (Some 5000000000%Z) None None)) None)) []).
  eexists. exists (FOne (VInt 2000000000%Z)).
  split; [reflexivity|]. split; [vm_compute; reflexivity|]. repeat split; vm_compute; reflexivity.
Qed.
Print Assumptions C12_truncated_bound_refuted.

Theorem C12_full_refuted : ~ C12_full_statement.
Proof.
  intro H.
  destruct C12_inverted_bounds_refuted as [env [idx [d [o [fv [Hwf [Hw [Hty [Hv Hr]]]]]]]]].
  specialize (H re_class_count (fun s => eq_refl) env idx d o fv Hwf Hw Hty).
  congruence.
Qed.
Print Assumptions C12_full_refuted.

(* the pieces the theorem rests on, each for all inputs *)
Theorem C12_integer_bounds : forall rm defined k r c z,
  int_adm k r = true -> write_int_rules k r = Ok c ->
  eval_scalar rm defined c (VInt z) = int_rule_ok r z.
Proof. exact int_sem. Qed.
Print Assumptions C12_integer_bounds.

Theorem C12_uuid_shape : forall s,
  is_uuid s = (match s with [] => true | _ => uuid_regex s end)
              && negb (match s with [] => true | _ => false end).
Proof. exact uuid_equiv. Qed.
Print Assumptions C12_uuid_shape.

Theorem C12_unique_items : forall vs, unique_scan [] vs = distinct vs.
Proof. exact unique_scan_distinct. Qed.
Print Assumptions C12_unique_items.

Theorem C12_enum_names_to_numbers : forall env names zs n,
  wf_env env = true -> map_values env names = Ok zs ->
  memZ n zs = match option_name env n with
              | Some nm => mem_str nm (names_full env names)
              | None => false
              end.
Proof. exact mapped_mem. Qed.
Print Assumptions C12_enum_names_to_numbers.

(* the writer model's integer switch is the one in fields.go (regenerated table) *)
Theorem C12_writer_table_agrees :
  forallb (fun a => match a with
                    | (k, is_max, _, _, _) =>
                        forallb (fun flag => rfield_eqb (arm_rule a flag) (model_rule k is_max flag)) flag_values
                    end) RulesGen.writer_int_arms = true
  /\ RulesGen.writer_array_cond = RulesGen.ArrItemsOrRules
  /\ RulesGen.writer_id62_published = true.
Proof. exact (conj writer_int_arms_agree (conj writer_array_cond_agree writer_id62_agree)). Qed.
Print Assumptions C12_writer_table_agrees.

(* non-vacuity: an admissible declaration with every kind of rule compiles, and
   the two meanings agree on an accepted and on a rejected value; the regular
   expression hypothesis is satisfied by the class-count matcher *)
Example C12_example :
  let env := EE [67;95] [[82];[71]] in
  let d := P [97] true false
             (PArray (Some (AR (Some 1%N) (Some 3%N) (Some true))) None
                (TInt U32 (Some (IR (Some 1%Z) (Some 10%Z) (Some false) (Some true))) None)) [] in
  (forall s, re_class_count Id62Gen.pattern_string s = id62_shape s) /\
  admissible env d = true /\
  exists o, write_prop env 0%N d = Ok o /\
    fvalue_typed d (FMany [VInt 1%Z; VInt 9%Z]) = true /\
    validate_sem re_class_count (defined_numbers env) o (FMany [VInt 1%Z; VInt 9%Z]) = true /\
    rule_sem re_class_count env d (FMany [VInt 1%Z; VInt 9%Z]) = true /\
    validate_sem re_class_count (defined_numbers env) o (FMany [VInt 1%Z; VInt 10%Z]) = false /\
    rule_sem re_class_count env d (FMany [VInt 1%Z; VInt 10%Z]) = false /\
    validate_sem re_class_count (defined_numbers env) o (FMany [VInt 2%Z; VInt 2%Z]) = false /\
    validate_sem re_class_count (defined_numbers env) o (FMany []) = false.
Proof.
  cbv zeta. split; [intro s; reflexivity|]. split; [vm_compute; reflexivity|].
  eexists. split; [vm_compute; reflexivity|]. repeat split; vm_compute; reflexivity.
Qed.

(* C12 — compiled validation constraints accept exactly what the j5s rules allow.
   Only statements, closed by [exact lemma], with Print Assumptions beneath.

   Three things are related:
   * [rule_sem]   (model/RulesSpec.v): what the declaration SAYS, a declarative Prop
                  written from the rule vocabulary of schema.proto; it calls no
                  function of the other two. The meaning of a pattern is its
                  parameter [pat_sem];
   * [write_prop] (model/RulesWrite.v): what fields.go emits;
   * [validate_sem] (model/Validate.v): what protovalidate-go returns — accept,
                  reject, or an ERROR (compilation error of the message type / runtime
                  error of a rule program), which is not a verdict. *)
From Coq Require Import String List NArith ZArith Bool.
From J5V.lib Require Import Outcome.
From J5V.model Require Import RulesDecl RulesWrite RulesSpec Validate RulesSpecDec Regex.
From J5V.gen Require Id62Gen RulesGen.
From J5V.proofs Require Import RulesProofs RulesGenProofs RegexProofs RulesRegexProofs.
From J5V.model Require Import RulesRead RulesEnum RulesNested RulesNestedSem RulesOneof RulesInlineEnum.
From J5V.proofs Require Import RulesNestedSemProofs RulesOneofProofs.
From J5V.model Require Import RulesCompile.
From J5V.proofs Require Import RulesCompileProofs.
Import ListNotations.
Local Open Scope N_scope.

(* The property at full strength: for EVERY regular-expression engine (compiler
   re_ok, matcher re_match) and meaning of patterns pat_sem such that the matcher
   decides the meaning and the published id62 pattern compiles and means 22
   alphanumerics ([engine_ok]), every
   enum whose value names are pairwise different (protobuf requires it), every
   declaration THE COMPILER ACCEPTS (entity.primaryKey only where schema.proto
   gives it a meaning: on a singular key property) and every value of the
   compiled field: the validator returns a verdict, and it accepts iff the
   declared rules hold. All of Z for integers, all Unicode strings, all byte
   strings, all float bit patterns, all lists and maps; plain / required /
   optional / array / map forms; every rule of schema.proto present or absent —
   the declaration is an [xprop] (model/RulesCompile.v): RulesDecl.prop plus integer
   rules.multipleOf and MapField.Ext; its declared meaning [xrule_sem] is rule_sem
   and "every integer is a multiple of multipleOf".
   The compiler is [compile_prop]: the checks buildProperty / buildField run first
   (multipleOf: not implemented; a pattern regexp.Compile refuses; uniqueItems on
   message typed items — compile errors since /repo c0895b5, 42e49d9, 722ecd6),
   then the writer. *)
Definition C12_full_statement : Prop := c12_compiled_statement.

Theorem C12_full : C12_full_statement.
Proof. exact c12_compiled. Qed.
Print Assumptions C12_full.

(* ... and the validator never answers with an error on a compiled declaration *)
Theorem C12_never_an_error :
  forall re_ok re_match pat_sem, engine_ok re_ok re_match pat_sem ->
  forall env idx x o fv,
    wf_env env = true -> key_placement_ok (x_prop x) = true ->
    compile_prop re_ok env idx x = Ok o -> fvalue_typed (x_prop x) fv = true ->
    validate_sem re_ok re_match (defined_numbers env) o fv = VAccept \/
    validate_sem re_ok re_match (defined_numbers env) o fv = VReject.
Proof. exact c12_compiled_no_error. Qed.
Print Assumptions C12_never_an_error.

(* the front checks refuse exactly: a multipleOf, or a declaration the validator
   could not evaluate ([evaluable]: every pattern compiles, no uniqueItems = true on
   message typed items) *)
Theorem C12_front_checks_exact : forall re_ok x,
  front_checks re_ok x = Ok tt <-> (x_mult x = None /\ evaluable re_ok (x_prop x) = true).
Proof. exact front_checks_spec. Qed.
Print Assumptions C12_front_checks_exact.

Theorem C12_multiple_of_rejected : forall re_ok env idx x,
  x_mult x <> None -> exists e, compile_prop re_ok env idx x = Err e.
Proof. exact compile_multiple_of_refused. Qed.
Print Assumptions C12_multiple_of_rejected.

Theorem C12_unique_on_messages_rejected : forall re_ok env idx x,
  unique_on_messages (x_prop x) = true -> forall o, compile_prop re_ok env idx x <> Ok o.
Proof. exact compile_unique_on_messages_refused. Qed.
Print Assumptions C12_unique_on_messages_rejected.

Theorem C12_bad_pattern_rejected : forall re_ok env idx x p,
  pattern_of (item_of (p_ty (x_prop x))) = Some p -> re_ok p = false ->
  forall o, compile_prop re_ok env idx x <> Ok o.
Proof. exact compile_bad_pattern_refused. Qed.
Print Assumptions C12_bad_pattern_rejected.

(* on the declarations of RulesDecl alone the compiler is the writer behind the checks *)
Theorem C12_compiler_is_checked_writer : forall re_ok env idx d,
  evaluable re_ok d = true -> enum_filters_ok env (item_of (p_ty d)) = true ->
  compile_prop re_ok env idx (plain d) = write_prop env idx d.
Proof. exact compile_plain. Qed.
Print Assumptions C12_compiler_is_checked_writer.

(* whole messages of a compiled object (link step included: compile_object): accepted
   iff every property's declared rules hold; no hypothesis besides "it compiles" *)
Theorem C12_message_full :
  forall re_ok re_match pat_sem, engine_ok re_ok re_match pat_sem ->
  forall env xs os fvs,
    wf_env env = true ->
    forallb key_placement_ok (map x_prop xs) = true ->
    compile_object re_ok env xs = Ok os ->
    typed_obj (map x_prop xs) fvs = true ->
    (validate_obj re_ok re_match (defined_numbers env) os fvs = VAccept <-> xrule_obj pat_sem env xs fvs) /\
    (validate_obj re_ok re_match (defined_numbers env) os fvs = VReject <-> ~ xrule_obj pat_sem env xs fvs).
Proof. exact c12_compiled_object. Qed.
Print Assumptions C12_message_full.

(* the validity premise: a compiled object has pairwise different proto field names
   (strcase.ToSnake of the property names); fooBar next to foo_bar does not link *)
Theorem C12_compiled_object_names : forall re_ok env xs os,
  compile_object re_ok env xs = Ok os -> NoDup (proto_names xs).
Proof. exact compile_object_names. Qed.
Print Assumptions C12_compiled_object_names.

(* CLOSED instance, no engine parameter left: regexp.Compile = the RE2-fragment parser,
   the matcher = the derivative matcher, the meaning of a pattern = the declarative
   relation pattern_sem (the pattern parses to an expression r and r finds a match) *)
Theorem C12_full_concrete : forall env idx x o fv,
  wf_env env = true -> key_placement_ok (x_prop x) = true ->
  compile_prop re_frag_ok env idx x = Ok o -> fvalue_typed (x_prop x) fv = true ->
  (validate_sem re_frag_ok re_frag_match (defined_numbers env) o fv = VAccept <-> xrule_sem pattern_sem env x fv) /\
  (validate_sem re_frag_ok re_frag_match (defined_numbers env) o fv = VReject <-> ~ xrule_sem pattern_sem env x fv).
Proof. exact c12_compiled_concrete. Qed.
Print Assumptions C12_full_concrete.

(* what [patterns_in_fragment] adds to it: the pattern of a compiled declaration inside
   the fragment IS an expression r, and its meaning in C12_full_concrete is the
   declarative matching relation of r. (Outside the fragment — valid RE2 the parser does
   not model — pattern_sem is empty: nothing is claimed about Go's engine there.) *)
Theorem C12_compiled_pattern_meaning : forall env idx x o p,
  compile_prop re_frag_ok env idx x = Ok o ->
  patterns_in_fragment (x_prop x) = true ->
  pattern_of (item_of (p_ty (x_prop x))) = Some p ->
  exists r, re_parse p = Parsed r /\ forall s, pattern_sem p s <-> search r s.
Proof. exact compiled_pattern_meaning. Qed.
Print Assumptions C12_compiled_pattern_meaning.

(* ---- required presence, per field kind, as the validator sees it (the protobuf-level
   reading; the JSON-level distinction "absent vs explicit default" does not exist in a
   compiled message) -------------------------------------------------------------------
   (a) a singular field that CAN be absent — declared optional, or message typed (object,
       oneof, timestamp, date, decimal, any): absent is rejected iff the property must be
       set (required, or a primary key), whatever its other rules say *)
Theorem C12_presence_absent :
  forall re_ok re_match pat_sem, engine_ok re_ok re_match pat_sem ->
  forall env idx x o,
  wf_env env = true -> key_placement_ok (x_prop x) = true ->
  compile_prop re_ok env idx x = Ok o -> fvalue_typed (x_prop x) FAbsent = true ->
  (must_be_set (x_prop x) -> validate_sem re_ok re_match (defined_numbers env) o FAbsent = VReject) /\
  (~ must_be_set (x_prop x) -> validate_sem re_ok re_match (defined_numbers env) o FAbsent = VAccept).
Proof. exact presence_absent. Qed.
Print Assumptions C12_presence_absent.

(* (b) a singular scalar NOT declared optional has no presence: the validator reads the
       default value where nothing is set — "absent" and "holds the default" are one message
       (so required rejects 0 / "" / false: C12_required_scalar_rejects_default below) *)
Theorem C12_presence_none_reads_default :
  forall re_ok re_match defined o,
  has_presence o = false ->
  validate_sem re_ok re_match defined o FAbsent
  = validate_sem re_ok re_match defined o (FOne (zero_value (fo_kind o))).
Proof. exact presence_none_reads_default. Qed.
Print Assumptions C12_presence_none_reads_default.

(* (c) repeated fields (arrays, maps): "set" means non-empty; a required one rejects the
       empty list / map *)
Theorem C12_presence_empty_array :
  forall re_ok re_match pat_sem, engine_ok re_ok re_match pat_sem ->
  forall env idx x o r sf t,
  wf_env env = true -> key_placement_ok (x_prop x) = true ->
  compile_prop re_ok env idx x = Ok o -> p_ty (x_prop x) = PArray r sf t ->
  must_be_set (x_prop x) ->
  validate_sem re_ok re_match (defined_numbers env) o (FMany []) = VReject.
Proof. exact presence_empty_array. Qed.
Print Assumptions C12_presence_empty_array.

Theorem C12_presence_empty_map :
  forall re_ok re_match pat_sem, engine_ok re_ok re_match pat_sem ->
  forall env idx x o r t,
  wf_env env = true -> key_placement_ok (x_prop x) = true ->
  compile_prop re_ok env idx x = Ok o -> p_ty (x_prop x) = PMap r t ->
  must_be_set (x_prop x) ->
  validate_sem re_ok re_match (defined_numbers env) o (FMap []) = VReject.
Proof. exact presence_empty_map. Qed.
Print Assumptions C12_presence_empty_map.

(* (d) required together with optional does not compile; (e) the options of a oneof have
       presence each: C12_oneof_members below *)
Theorem C12_presence_required_and_optional :
  forall re_ok env idx x,
  p_req (x_prop x) = true -> p_opt (x_prop x) = true ->
  forall o, compile_prop re_ok env idx x <> Ok o.
Proof. exact presence_required_and_optional. Qed.
Print Assumptions C12_presence_required_and_optional.

(* ---- why the checks are there: the emission stage on its own ------------------------
   [write_prop] (the writer without the front checks) does NOT satisfy the statement:
   the two classes below were compiled by /repo before 722ecd6 / 42e49d9 and were known
   findings; a regression that removes a check re-exposes them (the correspondence
   then sees a declaration of class refused-* compile). *)
Definition C12_emission_statement : Prop := c12_statement (fun _ _ => true).

Theorem C12_emission_alone_refuted : ~ C12_emission_statement.
Proof. exact c12_full_refuted. Qed.
Print Assumptions C12_emission_alone_refuted.

(* (1) uniqueItems = true on an array of message-typed items (object, oneof,
   timestamp, date, decimal, any): repeated.unique has no overload for messages;
   one item is enough. The declared rules hold (a single item is unique), the
   validator returns a runtime error. For every engine. *)
Theorem C12_emission_unique_messages :
  forall re_ok re_match pat_sem, exists o,
    write_prop (EE [] None []) 0 w_unique_obj = Ok o /\
    fvalue_typed w_unique_obj (FMany [VMsg 0]) = true /\
    rule_sem pat_sem (EE [] None []) w_unique_obj (FMany [VMsg 0]) /\
    validate_sem re_ok re_match (defined_numbers (EE [] None [])) o (FMany [VMsg 0]) = VError ERuntime.
Proof. exact c12_unique_messages_refuted. Qed.
Print Assumptions C12_emission_unique_messages.

(* (2) a pattern the engine cannot compile: the writer copies it, and the
   validator returns a compilation error for every value (even an absent one) *)
Theorem C12_emission_bad_pattern :
  forall re_ok re_match p, re_ok p = false ->
  forall env idx name l desc, exists o,
    write_prop env idx (P name false false (PSingle (TStr None (Some (SR (Some p) None None)) l)) desc) = Ok o /\
    forall fv, validate_sem re_ok re_match (defined_numbers env) o fv = VError ECompile.
Proof. exact c12_bad_pattern_refuted. Qed.
Print Assumptions C12_emission_bad_pattern.

(* ... and it poisons the whole message type: every message, whatever its
   values, gets the compilation error *)
Theorem C12_emission_bad_pattern_poisons_message :
  forall re_ok re_match, re_ok Id62Gen.pattern_string = true ->
  forall env ds idx os fvs,
    write_props_from env idx ds = Ok os ->
    length fvs = length ds ->
    existsb (fun d => negb (fty_patterns_ok re_ok (elem_ty (p_ty d)))) ds = true ->
    validate_obj re_ok re_match (defined_numbers env) os fvs = VError ECompile.
Proof. exact c12_bad_pattern_message. Qed.
Print Assumptions C12_emission_bad_pattern_poisons_message.

(* The writer's half of C12_full: the statement for the emission stage on every
   declaration that is [evaluable] (all its patterns compile; no uniqueItems = true
   on message-typed items) — what the front checks let through. *)
Theorem C12_partial : c12_statement evaluable.
Proof. exact c12_partial. Qed.
Print Assumptions C12_partial.

(* ... and [evaluable] is exact: a compiled declaration outside it has a (typed)
   value on which the validator returns an error. So the two refutations above
   are the only ones on the model. *)
Theorem C12_evaluable_exact :
  forall re_ok re_match pat_sem, engine_ok re_ok re_match pat_sem ->
  forall env idx d o,
    wf_env env = true -> key_placement_ok d = true -> evaluable re_ok d = false ->
    write_prop env idx d = Ok o ->
    exists fv k, fvalue_typed d fv = true /\
      validate_sem re_ok re_match (defined_numbers env) o fv = VError k.
Proof.
  intros re_ok re_match pat_sem He.
  exact (c12_not_evaluable re_ok re_match (proj1 (proj2 He)) (engine_id62_bool re_ok re_match pat_sem He)).
Qed.
Print Assumptions C12_evaluable_exact.

(* the complete picture in one equation: compile error | runtime error | the
   decision procedure of the declared rules ([rule_semb], proved to decide
   [rule_sem] in C12_spec_decided) *)
Theorem C12_verdict :
  forall re_ok re_match pat_sem, engine_ok re_ok re_match pat_sem ->
  forall env idx d o fv,
    wf_env env = true -> key_placement_ok d = true ->
    write_prop env idx d = Ok o -> fvalue_typed d fv = true ->
    validate_sem re_ok re_match (defined_numbers env) o fv =
    if negb (fty_patterns_ok re_ok (elem_ty (p_ty d))) then VError ECompile
    else if unique_on_messages d && nonempty_list fv then VError ERuntime
    else of_bool (rule_semb re_match env d fv).
Proof.
  intros re_ok re_match pat_sem He.
  exact (c12_verdict re_ok re_match (proj1 (proj2 He)) (engine_id62_bool re_ok re_match pat_sem He)).
Qed.
Print Assumptions C12_verdict.

Theorem C12_spec_decided : forall re_match pat_sem,
  (forall p s, re_match p s = true <-> pat_sem p s) ->
  forall env d fv, rule_semb re_match env d fv = true <-> rule_sem pat_sem env d fv.
Proof. exact rule_semb_spec. Qed.
Print Assumptions C12_spec_decided.

(* lifted to whole messages: the message is accepted iff every property's rules hold *)
Theorem C12_message :
  forall re_ok re_match pat_sem, engine_ok re_ok re_match pat_sem ->
  forall env ds idx os fvs,
    wf_env env = true ->
    forallb key_placement_ok ds = true ->
    forallb (evaluable re_ok) ds = true ->
    write_props_from env idx ds = Ok os ->
    typed_obj ds fvs = true ->
    (validate_obj re_ok re_match (defined_numbers env) os fvs = VAccept <-> rule_obj pat_sem env ds fvs) /\
    (validate_obj re_ok re_match (defined_numbers env) os fvs = VReject <-> ~ rule_obj pat_sem env ds fvs).
Proof.
  intros re_ok re_match pat_sem He env ds.
  exact (c12_object re_ok re_match pat_sem (proj1 He) (proj1 (proj2 He)) (engine_id62_bool re_ok re_match pat_sem He) env ds).
Qed.
Print Assumptions C12_message.

(* ... the options of a oneof. A oneof compiles to a message whose fields are the members of
   one proto oneof: each has presence, so the validator skips the rules of a member that is
   not set and applies them to one that is set — with any value, the default included;
   `required` on an option demands that this member is the one set. [member_sem]
   (model/RulesOneof.v) is that declared meaning; [write_members] the compiled members. *)
Theorem C12_oneof_members :
  forall re_ok re_match pat_sem, engine_ok re_ok re_match pat_sem ->
  forall env ds os fvs,
    wf_env env = true ->
    forallb member_decl ds = true -> forallb (evaluable re_ok) ds = true ->
    write_members env ds = Ok os -> typed_obj ds fvs = true ->
    (validate_obj re_ok re_match (defined_numbers env) os fvs = VAccept <-> member_obj pat_sem env ds fvs) /\
    (validate_obj re_ok re_match (defined_numbers env) os fvs = VReject <-> ~ member_obj pat_sem env ds fvs).
Proof.
  intros re_ok re_match pat_sem He env ds os fvs Hwf Hm Hev Hw Hty.
  unfold write_members in Hw. apply obind_ok in Hw as [os0 [Hos Hw]]. inversion Hw; subst os.
  exact (c12_members re_ok re_match pat_sem (proj1 He) (proj1 (proj2 He)) (engine_id62_bool re_ok re_match pat_sem He)
                     env Hwf ds 0%N os0 fvs Hm Hev Hos Hty).
Qed.
Print Assumptions C12_oneof_members.

Theorem C12_oneof_spec_decided : forall re_match pat_sem,
  (forall p s, re_match p s = true <-> pat_sem p s) ->
  forall env ds fvs, member_objb re_match env ds fvs = true <-> member_obj pat_sem env ds fvs.
Proof. exact member_objb_spec. Qed.
Print Assumptions C12_oneof_spec_decided.

(* non-vacuity: oneof { option s string { rules.minLength = 2 }; option n integer:INT32 { required = true } }
   — n set (to 0: a set member, not an absent one): accepted; s set to "": rejected (minLength, and n
   is not set); nothing set: rejected (n is required) *)
Example C12_oneof_example :
  let ds := [P [115] false false (PSingle (TStr None (Some (SR None (Some 2%N) None)) None)) [];
             P [110] true false (PSingle (TInt I32 None None)) []] in
  let env := EE [] None [] in
  exists os, write_members env ds = Ok os /\
    validate_obj re_frag_ok re_frag_match (defined_numbers env) os [FAbsent; FOne (VInt 0)] = VAccept /\
    validate_obj re_frag_ok re_frag_match (defined_numbers env) os [FOne (VStr []); FAbsent] = VReject /\
    validate_obj re_frag_ok re_frag_match (defined_numbers env) os [FAbsent; FAbsent] = VReject /\
    member_objb re_frag_match env ds [FAbsent; FOne (VInt 0)] = true.
Proof. eexists. split; [vm_compute; reflexivity|]. repeat split; vm_compute; reflexivity. Qed.

(* ... a field over an enum declared inline (model/RulesInlineEnum.v): its in / not-in rules
   name the options of THAT enum; the environment is the one the inline declaration denotes
   (stated or default prefix). The property theorem applies with that environment: *)
Theorem C12_inline_enum :
  forall re_ok re_match pat_sem, engine_ok re_ok re_match pat_sem ->
  forall idx d i c fv,
    let env := env_of_decl (ie_decl (p_name d) i) in
    wf_env env = true -> key_placement_ok d = true -> evaluable re_ok d = true ->
    write_inline_enum idx d i = Ok c -> fvalue_typed d fv = true ->
    (validate_sem re_ok re_match (defined_numbers env) (fst c) fv = VAccept <-> rule_sem pat_sem env d fv) /\
    (validate_sem re_ok re_match (defined_numbers env) (fst c) fv = VReject <-> ~ rule_sem pat_sem env d fv).
Proof.
  intros re_ok re_match pat_sem He idx d i c fv env Hwf Hkp Hev Hw Hty.
  unfold write_inline_enum in Hw. apply obind_ok in Hw as [o [Ho Hw]]. inversion Hw; subst c. cbn [fst].
  exact (c12_main re_ok re_match pat_sem (proj1 He) (proj1 (proj2 He)) (engine_id62_bool re_ok re_match pat_sem He)
                  env idx d o fv Hwf Hkp Hev Ho Hty).
Qed.
Print Assumptions C12_inline_enum.

(* ... and to messages that hold messages: inline types (README "Inline Types"). A declaration
   tree [nschema] of objects (model/RulesNested.v) compiles to a message with nested
   messages; a value [mvalue] gives the field values of the message and, for every inline
   type, the messages of that type its field holds. The modelled validator evaluates the
   field constraints of the message and then the embedded messages of every populated
   field, recursively (model/RulesNestedSem.v validate_tree); [rule_tree] is the declared
   meaning: every property satisfies its rules, and so does every embedded message of an
   inline type, recursively; for a oneof of the tree (root or inline) its options are
   members (C12_oneof_members above; [c12_view] gives the fields of oneof messages their
   presence). For trees whose properties are evaluable: *)
Theorem C12_nested :
  forall re_ok re_match pat_sem, engine_ok re_ok re_match pat_sem ->
  forall env s path name m v,
    wf_env env = true -> tree_evaluable re_ok s = true ->
    write_schema env path name s = Ok m -> typed_tree s v = true ->
    (validate_tree re_ok re_match (defined_numbers env) (c12_view m) v = VAccept <-> rule_tree pat_sem env s v) /\
    (validate_tree re_ok re_match (defined_numbers env) (c12_view m) v = VReject <-> ~ rule_tree pat_sem env s v).
Proof.
  intros re_ok re_match pat_sem He env s path name m v Hwf Hev Hw Hty.
  exact (c12_tree re_ok re_match pat_sem (proj1 He) (proj1 (proj2 He)) (engine_id62_bool re_ok re_match pat_sem He)
                  env Hwf s path name m v Hev Hw Hty).
Qed.
Print Assumptions C12_nested.

Theorem C12_nested_spec_decided : forall re_match pat_sem,
  (forall p s, re_match p s = true <-> pat_sem p s) ->
  forall env s v, rule_treeb re_match env s v = true <-> rule_tree pat_sem env s v.
Proof. exact rule_treeb_spec. Qed.
Print Assumptions C12_nested_spec_decided.

(* non-vacuity: Foo { n : integer max 5; inner : inline object { s : string minLength 2 (required) } }
   — a value whose embedded message violates minLength is rejected, one that satisfies
   everything is accepted, and an absent inner message is accepted (the field is not required) *)
Example C12_nested_example :
  let s := NS RObject None []
             [NF (P [110] false false (PSingle (TInt I32 (Some (IR None (Some 5%Z) None None)) None)) []) None;
              NF (P [105;110;110;101;114] false false (PSingle (TObject [] false None)) [])
                 (Some (NS RObject None []
                    [NF (P [115] true false (PSingle (TStr None (Some (SR None (Some 2%N) None)) None)) []) None]))] in
  let env := EE [] None [] in
  exists m, write_schema env [] [70;111;111] s = Ok m /\
    tree_evaluable re_frag_ok s = true /\
    validate_tree re_frag_ok re_frag_match (defined_numbers env) (c12_view m)
      (MV [FOne (VInt 3); FOne (VMsg 1)] [[MV [FOne (VStr [97;98])] []]]) = VAccept /\
    validate_tree re_frag_ok re_frag_match (defined_numbers env) (c12_view m)
      (MV [FOne (VInt 3); FOne (VMsg 1)] [[MV [FOne (VStr [97])] []]]) = VReject /\
    validate_tree re_frag_ok re_frag_match (defined_numbers env) (c12_view m)
      (MV [FOne (VInt 3); FAbsent] [[]]) = VAccept /\
    validate_tree re_frag_ok re_frag_match (defined_numbers env) (c12_view m)
      (MV [FOne (VInt 9); FOne (VMsg 1)] [[MV [FOne (VStr [97;98])] []]]) = VReject.
Proof.
  eexists. split; [vm_compute; reflexivity|]. repeat split; vm_compute; reflexivity.
Qed.

(* how "required" reads on a scalar declared without [optional] (the reading fixed in
   RulesSpec.v, made explicit): the compiled field has no presence of its own, the
   message in which it holds its default value is the message in which it is unset,
   and the validator rejects it — also when a client sent an explicit 0 / "" / false *)
Theorem C12_required_scalar_rejects_default :
  forall re_ok re_match pat_sem, engine_ok re_ok re_match pat_sem ->
  forall env idx name t desc o v,
    wf_env env = true ->
    fty_patterns_ok re_ok t = true ->
    is_msg_ty t = false ->
    write_prop env idx (P name true false (PSingle t) desc) = Ok o ->
    value_typed t v = true -> is_zero v = true ->
    validate_sem re_ok re_match (defined_numbers env) o (FOne v) = VReject.
Proof. exact c12_required_default. Qed.
Print Assumptions C12_required_scalar_rejects_default.

(* ---- a concrete engine: the RE2 fragment of model/Regex.v ---------------------------
   [pattern_sem p s]: p parses (Regex.re_parse) to an expression r of the fragment and
   r finds a match in s by the DECLARATIVE relation Regex.search (inductive matching
   relation with begin / end-of-text context); the validator's side is the derivative
   matcher. The engine laws hold for it, without hypotheses: *)
Theorem C12_engine_exists : engine_ok re_frag_ok re_frag_match pattern_sem.
Proof. exact frag_engine. Qed.
Print Assumptions C12_engine_exists.

(* the derivative matcher decides the declarative matching relation, for every
   expression and every text *)
Theorem C12_regex_matcher_correct : forall r text, searchb r text = true <-> search r text.
Proof. exact searchb_spec. Qed.
Print Assumptions C12_regex_matcher_correct.

(* the published id62 pattern, parsed and read declaratively, means 22 alphanumerics *)
Theorem C12_id62_pattern_meaning :
  re_parse Id62Gen.pattern_string = Parsed id62_re /\ forall s, search id62_re s <-> id62_text s.
Proof. exact (conj parse_id62 id62_re_sem). Qed.
Print Assumptions C12_id62_pattern_meaning.

(* C12 with that engine, closed: for declarations whose patterns lie in the modelled
   fragment (outside it the parser says "not modelled" and nothing is claimed) *)
Theorem C12_concrete : forall env idx d o fv,
  wf_env env = true -> key_placement_ok d = true ->
  patterns_in_fragment d = true -> evaluable re_frag_ok d = true ->
  write_prop env idx d = Ok o -> fvalue_typed d fv = true ->
  (validate_sem re_frag_ok re_frag_match (defined_numbers env) o fv = VAccept <-> rule_sem pattern_sem env d fv) /\
  (validate_sem re_frag_ok re_frag_match (defined_numbers env) o fv = VReject <-> ~ rule_sem pattern_sem env d fv).
Proof. exact c12_concrete. Qed.
Print Assumptions C12_concrete.

(* C20's class-count matcher is another engine satisfying the laws *)
Theorem C12_class_count_engine : engine_ok re_class_ok re_class_count (fun p s => re_class_count p s = true).
Proof. exact class_count_engine. Qed.
Print Assumptions C12_class_count_engine.

(* what makes the theorem true for integers: the compiler rejects the two kinds
   of integer rules whose compiled form would mean something else (both were
   accepted before the fix recorded in KNOWN_FINDINGS.txt) *)
Theorem C12_compiled_bounds_admissible : forall k r c,
  write_int_rules k r = Ok c -> int_adm k r = true.
Proof. intros k r c H. exact (proj1 (write_int_ok k r c H)). Qed.
Print Assumptions C12_compiled_bounds_admissible.

(* minimum > maximum: buf.validate would read it as an excluded range *)
Theorem C12_inverted_bounds_rejected : forall k a b xa xb,
  (b < a)%Z -> is_ok (write_int_rules k (IR (Some a) (Some b) xa xb)) = false.
Proof.
  intros k a b xa xb H.
  destruct (write_int_rules k (IR (Some a) (Some b) xa xb)) as [c| | |] eqn:E; try reflexivity.
  apply write_int_ok in E as [Hadm _]. unfold int_adm in Hadm. cbn in Hadm.
  apply andb_true_iff in Hadm as [_ Hle]. apply Z.leb_le in Hle. exfalso. apply (Z.lt_irrefl a). eapply Z.le_lt_trans; eauto.
Qed.
Print Assumptions C12_inverted_bounds_rejected.

(* a bound outside the range of the format: the Go conversion would truncate it *)
Theorem C12_out_of_range_bound_rejected : forall k r,
  opt_bound_ok k (ir_min r) && opt_bound_ok k (ir_max r) = false -> is_ok (write_int_rules k r) = false.
Proof.
  intros k r H. destruct (write_int_rules k r) as [c| | |] eqn:E; try reflexivity.
  apply write_int_ok in E as [Hadm _]. unfold int_adm in Hadm.
  apply andb_true_iff in Hadm as [Hadm _]. rewrite Hadm in H. discriminate.
Qed.
Print Assumptions C12_out_of_range_bound_rejected.

(* the pieces the theorem rests on, each for all inputs and each against the
   declarative specification *)
Theorem C12_integer_bounds : forall rm defined k r c z,
  write_int_rules k r = Ok c ->
  (eval_scalar rm defined c (VInt z) = true <-> int_sem r z).
Proof. exact int_bounds_sem. Qed.
Print Assumptions C12_integer_bounds.

(* string lengths: the validator's size() of the UTF-8 text is the number of code points *)
Theorem C12_string_length_in_code_points : forall s, cel_size s = count s.
Proof. exact cel_size_len. Qed.
Print Assumptions C12_string_length_in_code_points.

Theorem C12_uuid_shape : forall s,
  (match s with [] => true | _ => uuid_regex s end) && negb (match s with [] => true | _ => false end) = true
  <-> uuid_text s.
Proof. exact uuid_validator_sem. Qed.
Print Assumptions C12_uuid_shape.

Theorem C12_unique_items : forall vs, unique_scan [] vs = true <-> all_different vs.
Proof. exact unique_scan_sem. Qed.
Print Assumptions C12_unique_items.

(* without floats, "all different" is List.NoDup *)
Theorem C12_unique_is_NoDup : forall vs,
  existsb is_float_value vs = false -> (all_different vs <-> NoDup vs).
Proof. exact all_different_NoDup. Qed.
Print Assumptions C12_unique_is_NoDup.

Theorem C12_enum_names_to_numbers : forall env names zs n,
  wf_env env = true -> map_values env names = Ok zs ->
  (memZ n zs = true <-> exists name, In name names /\ names_value env name n).
Proof. exact enum_numbers_sem. Qed.
Print Assumptions C12_enum_names_to_numbers.

(* the writer model is the code of fields.go: every regenerated fact is compared with
   what the MODEL FUNCTION does on probe inputs (write_int_rules, bound_ok, wrap_array,
   wrap_map, write_field) — an edit of a Go branch breaks one of these at build time *)
Theorem C12_writer_table_agrees :
  (* integer rules: per format and bound, the rule field each branch assigns *)
  forallb (fun a => match a with
                    | (k, is_max, _, _, _) =>
                        forallb (fun flag => rfield_eqb (arm_rule a flag) (model_rule k is_max flag)) flag_values
                    end) RulesGen.writer_int_arms = true
  (* checkIntegerBounds: ranges per format and the three checks *)
  /\ forallb range_ok RulesGen.writer_int_ranges = true
  /\ RulesGen.writer_checks_minimum_range = model_checks_minimum_range
  /\ RulesGen.writer_checks_maximum_range = model_checks_maximum_range
  /\ RulesGen.writer_checks_order = model_checks_order
  (* when repeated / map rules are emitted *)
  /\ RulesGen.writer_array_cond = model_array_cond
  /\ RulesGen.writer_map_cond = model_map_cond
  (* key:id62 compiles to the published pattern *)
  /\ RulesGen.writer_id62_published = model_id62_published
  (* float rules refused; object / oneof / timestamp rules reduced to nothing *)
  /\ RulesGen.writer_float_rules_refused = model_float_rules_refused
  /\ RulesGen.writer_timestamp_rules_empty = model_timestamp_rules_empty.
Proof.
  exact (conj writer_int_arms_agree
        (conj (proj1 writer_int_ranges_agree)
        (conj (proj1 (proj2 writer_int_checks_agree))
        (conj (proj1 (proj2 (proj2 writer_int_checks_agree)))
        (conj (proj2 (proj2 (proj2 writer_int_checks_agree)))
        (conj writer_array_cond_agree
        (conj writer_map_cond_agree
        (conj writer_id62_agree
        (conj (proj1 writer_reduced_rules_agree)
              (proj2 (proj2 (proj2 writer_reduced_rules_agree)))))))))))).
Qed.
Print Assumptions C12_writer_table_agrees.

(* non-vacuity: an evaluable declaration with every kind of rule compiles, and
   the two sides agree on an accepted and on rejected values; a multi-byte
   string is measured in code points *)
Example C12_example :
  let env := EE [67;95] None [[82];[71]] in
  let d := P [97] true false
             (PArray (Some (AR (Some 1%N) (Some 3%N) (Some true))) None
                (TInt U32 (Some (IR (Some 1%Z) (Some 10%Z) (Some false) (Some true))) None)) [] in
  let ds := P [98] false false (PSingle (TStr None (Some (SR None None (Some 2%N))) None)) [] in
  wf_env env = true /\ key_placement_ok d = true /\ evaluable re_frag_ok d = true /\
  exists o, write_prop env 0%N d = Ok o /\
    fvalue_typed d (FMany [VInt 1%Z; VInt 9%Z]) = true /\
    validate_sem re_frag_ok re_frag_match (defined_numbers env) o (FMany [VInt 1%Z; VInt 9%Z]) = VAccept /\
    rule_sem pattern_sem env d (FMany [VInt 1%Z; VInt 9%Z]) /\
    validate_sem re_frag_ok re_frag_match (defined_numbers env) o (FMany [VInt 1%Z; VInt 10%Z]) = VReject /\
    ~ rule_sem pattern_sem env d (FMany [VInt 1%Z; VInt 10%Z]) /\
    validate_sem re_frag_ok re_frag_match (defined_numbers env) o (FMany [VInt 2%Z; VInt 2%Z]) = VReject /\
    validate_sem re_frag_ok re_frag_match (defined_numbers env) o (FMany []) = VReject /\
  exists os, write_prop env 1%N ds = Ok os /\
    (* "é日" : 2 code points, 5 bytes *)
    validate_sem re_frag_ok re_frag_match (defined_numbers env) os (FOne (VStr [233; 26085])) = VAccept /\
    validate_sem re_frag_ok re_frag_match (defined_numbers env) os (FOne (VStr [97; 98; 99])) = VReject.
Proof.
  cbv zeta. split; [vm_compute; reflexivity|]. split; [reflexivity|]. split; [vm_compute; reflexivity|].
  eexists. split; [vm_compute; reflexivity|].
  split; [reflexivity|]. split; [vm_compute; reflexivity|].
  split; [apply (rule_semb_spec re_frag_match pattern_sem frag_dec); vm_compute; reflexivity|].
  split; [vm_compute; reflexivity|].
  split; [intro H; apply (rule_semb_spec re_frag_match pattern_sem frag_dec) in H; vm_compute in H; discriminate|].
  split; [vm_compute; reflexivity|]. split; [vm_compute; reflexivity|].
  eexists. split; [vm_compute; reflexivity|]. split; vm_compute; reflexivity.
Qed.

(* C12 — compiled validation constraints accept exactly what the j5s rules allow.
   Only statements, closed by [exact lemma], with Print Assumptions beneath. *)
From Coq Require Import String List NArith ZArith Bool.
From J5V.lib Require Import Outcome.
From J5V.model Require Import RulesDecl RulesWrite Validate.
From J5V.gen Require Id62Gen RulesGen.
From J5V.proofs Require Import RulesProofs RulesGenProofs.
Import ListNotations.
Local Open Scope N_scope.

(* The property at full strength: for EVERY declaration the compiler accepts (over
   an enum whose value names are pairwise different, as protobuf requires) and
   every value of the compiled field, the validator accepts iff the declared
   rules hold. [re_match] is any regular-expression engine that decides the
   published id62 pattern the way C20's matcher does. All values: all of Z for
   integers, all strings, all byte strings, all lists; plain / required /
   optional / array forms; every rule present or absent. *)
Definition C12_full_statement : Prop :=
  forall (re_match : str -> str -> bool),
    (forall s, re_match Id62Gen.pattern_string s = id62_shape s) ->
    forall env idx d o fv,
      wf_env env = true ->
      write_prop env idx d = Ok o ->
      fvalue_typed d fv = true ->
      validate_sem re_match (defined_numbers env) o fv = rule_sem re_match env d fv.

Theorem C12_full : C12_full_statement.
Proof. exact c12_main. Qed.
Print Assumptions C12_full.

(* lifted to whole messages: the message is accepted iff every property's rules hold *)
Theorem C12_message :
  forall (re_match : str -> str -> bool),
    (forall s, re_match Id62Gen.pattern_string s = id62_shape s) ->
    forall env ds idx os fvs,
      wf_env env = true ->
      write_props_from env idx ds = Ok os ->
      typed_obj ds fvs = true ->
      validate_obj re_match (defined_numbers env) os fvs = rule_obj re_match env ds fvs.
Proof. exact c12_object. Qed.
Print Assumptions C12_message.

(* what makes the full statement true: the compiler rejects the two kinds of
   integer rules whose compiled form would mean something else (both were
   accepted before the fix recorded in KNOWN_FINDINGS.txt) *)
Theorem C12_compiled_bounds_admissible : forall k r c,
  write_int_rules k r = Ok c -> int_adm k r = true.
Proof. intros k r c H. exact (proj1 (write_int_ok k r c H)). Qed.
Print Assumptions C12_compiled_bounds_admissible.

(* minimum > maximum: buf.validate would read it as an excluded range *)
Theorem C12_inverted_bounds_rejected : forall k a b xa xb,
  (b < a)%Z -> is_ok (write_int_rules k (IR (Some a) (Some b) xa xb)) = false.
Proof.
  intros k a b xa xb H.
  destruct (write_int_rules k (IR (Some a) (Some b) xa xb)) as [c| | |] eqn:E; try reflexivity.
  apply write_int_ok in E as [Hadm _]. unfold int_adm in Hadm. cbn in Hadm.
  apply andb_true_iff in Hadm as [_ Hle]. apply Z.leb_le in Hle. exfalso. apply (Z.lt_irrefl a). eapply Z.le_lt_trans; eauto.
Qed.
Print Assumptions C12_inverted_bounds_rejected.

(* a bound outside the range of the format: the Go conversion would truncate it *)
Theorem C12_out_of_range_bound_rejected : forall k r,
  opt_bound_ok k (ir_min r) && opt_bound_ok k (ir_max r) = false -> is_ok (write_int_rules k r) = false.
Proof.
  intros k r H. destruct (write_int_rules k r) as [c| | |] eqn:E; try reflexivity.
  apply write_int_ok in E as [Hadm _]. unfold int_adm in Hadm.
  apply andb_true_iff in Hadm as [Hadm _]. rewrite Hadm in H. discriminate.
Qed.
Print Assumptions C12_out_of_range_bound_rejected.

(* the pieces the theorem rests on, each for all inputs *)
Theorem C12_integer_bounds : forall rm defined k r c z,
  write_int_rules k r = Ok c ->
  eval_scalar rm defined c (VInt z) = int_rule_ok r z.
Proof. exact int_sem. Qed.
Print Assumptions C12_integer_bounds.

Theorem C12_uuid_shape : forall s,
  is_uuid s = (match s with [] => true | _ => uuid_regex s end)
              && negb (match s with [] => true | _ => false end).
Proof. exact uuid_equiv. Qed.
Print Assumptions C12_uuid_shape.

Theorem C12_unique_items : forall vs, unique_scan [] vs = distinct vs.
Proof. exact unique_scan_distinct. Qed.
Print Assumptions C12_unique_items.

Theorem C12_enum_names_to_numbers : forall env names zs n,
  wf_env env = true -> map_values env names = Ok zs ->
  memZ n zs = match option_name env n with
              | Some nm => mem_str nm (names_full env names)
              | None => false
              end.
Proof. exact mapped_mem. Qed.
Print Assumptions C12_enum_names_to_numbers.

(* the writer model's integer switch is the one in fields.go (regenerated table) *)
Theorem C12_writer_table_agrees :
  forallb (fun a => match a with
                    | (k, is_max, _, _, _) =>
                        forallb (fun flag => rfield_eqb (arm_rule a flag) (model_rule k is_max flag)) flag_values
                    end) RulesGen.writer_int_arms = true
  /\ RulesGen.writer_array_cond = RulesGen.ArrItemsOrRules
  /\ RulesGen.writer_id62_published = true.
Proof. exact (conj writer_int_arms_agree (conj writer_array_cond_agree writer_id62_agree)). Qed.
Print Assumptions C12_writer_table_agrees.

(* non-vacuity: an admissible declaration with every kind of rule compiles, and
   the two meanings agree on an accepted and on a rejected value; the regular
   expression hypothesis is satisfied by the class-count matcher *)
Example C12_example :
  let env := EE [67;95] [[82];[71]] in
  let d := P [97] true false
             (PArray (Some (AR (Some 1%N) (Some 3%N) (Some true))) None
                (TInt U32 (Some (IR (Some 1%Z) (Some 10%Z) (Some false) (Some true))) None)) [] in
  (forall s, re_class_count Id62Gen.pattern_string s = id62_shape s) /\
  admissible env d = true /\
  exists o, write_prop env 0%N d = Ok o /\
    fvalue_typed d (FMany [VInt 1%Z; VInt 9%Z]) = true /\
    validate_sem re_class_count (defined_numbers env) o (FMany [VInt 1%Z; VInt 9%Z]) = true /\
    rule_sem re_class_count env d (FMany [VInt 1%Z; VInt 9%Z]) = true /\
    validate_sem re_class_count (defined_numbers env) o (FMany [VInt 1%Z; VInt 10%Z]) = false /\
    rule_sem re_class_count env d (FMany [VInt 1%Z; VInt 10%Z]) = false /\
    validate_sem re_class_count (defined_numbers env) o (FMany [VInt 2%Z; VInt 2%Z]) = false /\
    validate_sem re_class_count (defined_numbers env) o (FMany []) = false.
Proof.
  cbv zeta. split; [intro s; reflexivity|]. split; [vm_compute; reflexivity|].
  eexists. split; [vm_compute; reflexivity|]. repeat split; vm_compute; reflexivity.
Qed.

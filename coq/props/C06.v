(* C06 — Decoder is total: no input crashes, hangs or exhausts the stack.
   Only statements, closed by [exact lemma], with Print Assumptions beneath. *)
From Coq Require Import String List NArith ZArith Bool.
From J5V.lib Require Import Outcome Json.
From J5V.model Require Import CodecTypes CodecDecScalar CodecDec CodecDecQuery.
From J5V.model Require CodecDecTree.
From J5V.proofs Require Import CodecDecProofs CodecDecQueryProofs JsonLexProofs.
From J5V.proofs Require CodecDecStored CodecDecReorder CodecDecDenote CodecDecFull.
From J5V.model Require CodecDecCost.
From J5V.proofs Require CodecDecCostProofs CodecDecCostBound.
From J5V.model Require CodecDecQueryCost.
From J5V.proofs Require CodecDecQueryCostProofs.
Import ListNotations.
Local Open Scope N_scope.

(* The property at full strength, over the model: for every byte string, every schema
   environment (well-formed or not), every root type and whatever the uninterpreted library
   functions answer, JSON decoding returns success or an error — never a panic — and the
   recursion is bounded by the number of tokens (fuel S (length tokens) is never exhausted);
   the same for URL-query decoding. *)
Definition C06_json_statement : Prop :=
  forall orc e root bs,
    is_panic (decode_document orc e root bs) = false /\ decode_document orc e root bs <> OutOfFuel.

(* URL-query decoding: url.Values is a map, the loop visits the keys in an undefined order; the
   statement is for every list of (key, values) pairs, i.e. every order, with empty keys, dotted
   paths, repeated and empty value lists, JSON-valued container parameters *)
Definition C06_query_statement : Prop :=
  forall orc e root kvs,
    is_panic (decode_query orc e root kvs) = false /\ decode_query orc e root kvs <> OutOfFuel.

Definition C06_full_statement : Prop := C06_json_statement /\ C06_query_statement.

(* JSON decoding, token level: any token list at all (a superset of what the tokenizer can
   produce), any answer of More() at the end of the stream *)
Theorem C06_decode_tokens_total : forall orc e more_at_end root ts,
  is_panic (decode_tokens orc e more_at_end (S (length ts)) root ts) = false /\
  decode_tokens orc e more_at_end (S (length ts)) root ts <> OutOfFuel.
Proof. exact decode_tokens_total. Qed.
Print Assumptions C06_decode_tokens_total.

(* JSON decoding, byte level: the whole call JSONToProto (descent + end-of-input check, fix 9f742f6) *)
Theorem C06_decode_document_total : C06_json_statement.
Proof. exact decode_document_total. Qed.
Print Assumptions C06_decode_document_total.

(* ... and its descent alone (decodeObject / decodeOneof on the root) *)
Theorem C06_decode_bytes_total : forall orc e root bs,
  is_panic (decode_bytes orc e root bs) = false /\ decode_bytes orc e root bs <> OutOfFuel.
Proof. exact decode_bytes_total. Qed.
Print Assumptions C06_decode_bytes_total.

(* URL-query decoding *)
Theorem C06_decode_query_total : C06_query_statement.
Proof. exact decode_query_total. Qed.
Print Assumptions C06_decode_query_total.

Theorem C06_full : C06_full_statement.
Proof. exact (conj decode_document_total decode_query_total). Qed.
Print Assumptions C06_full.

(* the bound in bytes: a document of n bytes has at most n tokens, the tokenizer model's own fuel of
   n + 1 iterations is never what stops it, and the decoder never exhausts a fuel of n + 1 *)
Theorem C06_fuel_in_bytes : forall orc e root bs,
  (length (fst (lex bs)) <= length bs)%nat /\
  is_panic (decode_tokens orc e (snd (lex bs)) (S (length bs)) root (fst (lex bs))) = false /\
  decode_tokens orc e (snd (lex bs)) (S (length bs)) root (fst (lex bs)) <> OutOfFuel.
Proof. exact decode_fuel_in_bytes. Qed.
Print Assumptions C06_fuel_in_bytes.

Theorem C06_lexer_fuel_never_exhausted : forall bs k, lex_go (S (length bs) + k) StTop [] bs = lex bs.
Proof. exact lex_fuel_stable. Qed.
Print Assumptions C06_lexer_fuel_never_exhausted.

(* the nesting of property values, hence the recursion depth of the decoder, is bounded by a
   constant whatever the input *)
Theorem C06_nesting_bounded : forall d dp p ts m seen,
  (max_nesting_depth <= d)%N -> member_with d dp p ts m seen = Err "exceeded max depth"%string.
Proof. exact nesting_bounded. Qed.
Print Assumptions C06_nesting_bounded.

(* the two protoreflect panic sites and the index site are guarded *)
Theorem C06_append_guarded : forall orc k t l, is_panic (append_go_value orc k t l) = false.
Proof. exact append_go_value_no_panic. Qed.
Print Assumptions C06_append_guarded.

Theorem C06_map_set_guarded : forall orc k key t es, is_panic (map_set_go_value orc k key t es) = false.
Proof. exact map_set_go_value_no_panic. Qed.
Print Assumptions C06_map_set_guarded.

Theorem C06_oneof_index_guarded : forall props m found constrain, is_panic (oneof_post props m found constrain) = false.
Proof. exact oneof_post_no_panic. Qed.
Print Assumptions C06_oneof_index_guarded.

(* ------------------------------------------------------------------ typed environments
   The model's protoreflect accessors are total: msg_mutable and the "existing" list / map reads treat a
   field holding a value of the wrong shape as absent, where the real Mutable / List / Map would panic
   ("for all environments" is therefore cheap).  For environments whose property sets write to separate
   proto paths (env_separate, computable, evaluated on every environment a run dumps from the real
   reflector; false on the ill-typed witness [a: path [1] int32; b: path [1] object]) the totalised branches
   are never taken at a member's own field: every member of a run that starts from a fresh message is
   decoded from a state in which its field is ABSENT, and nested bodies start from an empty sub-message
   (C03_member_stores_denotation), so this holds at every depth. *)
Theorem C06_members_decoded_on_absent_fields : forall orc e props d,
  CodecDecStored.props_separate e props ->
  forall ms m seen m', CodecDecReorder.orun orc e d props ms m seen m' -> CodecDecDenote.fresh props m seen ->
  CodecDecDenote.orun_at orc e d props CodecDecDenote.field_absent ms m seen m'.
Proof. exact CodecDecDenote.run_members_on_absent_fields. Qed.
Print Assumptions C06_members_decoded_on_absent_fields.

(* with_holder on a path whose field is absent hands the accessor a holder in which the field is absent *)
Theorem C06_accessor_applied_to_absent_field : forall A (q : list N) (k : N -> msg -> outcome (msg * A)),
  q <> [] -> forall m m' a, with_holder q m k = Ok (m', a) -> CodecDecStored.get_path q m = None ->
  exists n h h', k n h = Ok (h', a) /\ CodecDecStored.get_path q m' = msg_get n h' /\ msg_get n h = None.
Proof. exact (@CodecDecDenote.with_holder_own_fresh). Qed.
Print Assumptions C06_accessor_applied_to_absent_field.

(* the ill-typed witness of the audit fails the premise *)
Example C06_example_illtyped_env_excluded :
  CodecDecTree.env_separate
    [([78], SObject [mkProp [97] [1] false false [] (FScalar KInt32); mkProp [98] [1] false true [] (FObject [78])])] = false.
Proof. vm_compute. reflexivity. Qed.

(* ------------------------------------------------------------------ the time clause: a step count
   model/CodecDecCost.v is the token decoder with a step counter, generated from model/CodecDec.v (same
   arms, same order): every entry of decode_present / object_body / oneof_body / array_items / map_items /
   any_body — every decodeX call and every iteration of a body loop of decoder.go — counts one step, on
   every path (the count is returned next to the outcome, errors included).
   (1) the counter changes nothing: the first component is the Go-tied model's result;
   (2) the count is at most (number of bytes + 1), for every input and every outcome.
   A step is not constant work: a scalar conversion is linear in its token, the end-of-input / token reads
   are the tokenizer's (one Token() call per token, C06_fuel_in_bytes), the error value of a deeply nested
   document is built in time quadratic in the depth (capped by the nesting bound), and the model's
   duplicate-key / seen checks are list scans where Go uses maps. *)
Theorem C06_step_counter_changes_nothing : forall orc e root bs,
  fst (CodecDecCost.decode_document_c orc e root bs) = decode_document orc e root bs.
Proof. exact CodecDecCostProofs.decode_document_c_fst. Qed.
Print Assumptions C06_step_counter_changes_nothing.

Theorem C06_steps_linear_in_input : forall orc e root bs,
  (snd (CodecDecCost.decode_document_c orc e root bs) <= length bs + 1)%nat.
Proof. exact CodecDecCostBound.decode_document_steps. Qed.
Print Assumptions C06_steps_linear_in_input.

(* per call: a successful decode_present makes at most as many steps as it consumes tokens, a body loop
   at most one more; on every path at most (tokens given + 1) *)
Theorem C06_steps_per_call : forall orc e me f, CodecDecCostBound.bound_level orc e me f.
Proof. exact CodecDecCostBound.bound_all. Qed.
Print Assumptions C06_steps_per_call.

(* the query decoder (QueryToProto): model/CodecDecQueryCost.v is model/CodecDecQuery.v with the same step counter
   (same arms, same order).  Counted, one step each, on every path, errors included: every iteration of
   decodeQuery's loop over the keys (keys without values included), every component of a dotted key visited
   by propertyAtPath (the tail included), every iteration of the value loop of an array parameter, and every
   step of decodeRoot's descent on the text of a container-valued parameter (the JSON counter above).
   (1) the counter changes nothing: the first component is the Go-tied model of QueryToProto;
   (2) for every query in every visiting order, every environment, every oracle and every outcome the count
       is at most query_size kvs = sum over the keys of (length key + 3 + sum over its values of
       (length value + 1)) = 3 * keys + key bytes + values + value bytes (C06_query_size_in_plain_terms):
       linear in the size of the query.  The key bytes are part of the honest bound: a key of n dots makes
       propertyAtPath visit n + 1 components.
   The same limits as above apply to what one step is (scalar conversion and ToLowerCamel are linear in their
   text; the model's hasValue / seen checks are list scans where Go uses maps). *)
Theorem C06_query_step_counter_changes_nothing : forall orc e root kvs,
  fst (CodecDecQueryCost.decode_query_c orc e root kvs) = decode_query orc e root kvs.
Proof. exact CodecDecQueryCostProofs.decode_query_c_fst. Qed.
Print Assumptions C06_query_step_counter_changes_nothing.

Theorem C06_query_steps_linear_in_input : forall orc e root kvs,
  (snd (CodecDecQueryCost.decode_query_c orc e root kvs) <= CodecDecQueryCost.query_size kvs)%nat.
Proof. exact CodecDecQueryCostProofs.decode_query_steps. Qed.
Print Assumptions C06_query_steps_linear_in_input.

Theorem C06_query_size_in_plain_terms : forall kvs,
  CodecDecQueryCost.query_size kvs =
  (3 * length kvs + fold_right (fun kv n => length (fst kv) + n) 0 kvs
   + fold_right (fun kv n => length (snd kv) + n) 0 kvs
   + fold_right (fun kv n => fold_right (fun v k => length v + k) 0 (snd kv) + n) 0 kvs)%nat.
Proof. exact CodecDecQueryCostProofs.query_size_plain. Qed.
Print Assumptions C06_query_size_in_plain_terms.

(* the time clause as one statement: both entry points, instrumented copies equal to the models, step counts
   linear in the size of the input *)
Definition C06_time_statement : Prop :=
  (forall orc e root bs,
     fst (CodecDecCost.decode_document_c orc e root bs) = decode_document orc e root bs /\
     (snd (CodecDecCost.decode_document_c orc e root bs) <= length bs + 1)%nat) /\
  (forall orc e root kvs,
     fst (CodecDecQueryCost.decode_query_c orc e root kvs) = decode_query orc e root kvs /\
     (snd (CodecDecQueryCost.decode_query_c orc e root kvs) <= CodecDecQueryCost.query_size kvs)%nat).
Theorem C06_time_clause_step_counts : C06_time_statement.
Proof.
  exact (conj (fun orc e root bs => conj (CodecDecCostProofs.decode_document_c_fst orc e root bs)
                                         (CodecDecCostBound.decode_document_steps orc e root bs))
              (fun orc e root kvs => conj (CodecDecQueryCostProofs.decode_query_c_fst orc e root kvs)
                                          (CodecDecQueryCostProofs.decode_query_steps orc e root kvs))).
Qed.
Print Assumptions C06_time_clause_step_counts.

(* the pieces: a container-valued parameter costs at most the bytes of its (trimmed) text, propertyAtPath
   at most one step per component beyond the work on the values *)
Theorem C06_query_steps_container_parameter : forall orc e is_oneof ps v sub,
  (snd (CodecDecQueryCost.param_body_c orc e is_oneof ps v sub) <= length v)%nat.
Proof. exact CodecDecQueryCostProofs.param_body_c_le. Qed.
Print Assumptions C06_query_steps_container_parameter.

Theorem C06_query_steps_per_key : forall orc e parts props vals m st,
  (snd (CodecDecQueryCost.query_at_c orc e props parts vals m st)
   <= S (length parts) + CodecDecQueryCost.values_size vals)%nat.
Proof. exact CodecDecQueryCostProofs.query_at_c_le. Qed.
Print Assumptions C06_query_steps_per_key.

(* non-vacuity: a recursive environment; a document exercising object, array, map, oneof
   (type-only and with a value), null members and a nested recursive value decodes to a
   message; the shapes that used to panic are errors *)
Definition ex_env : env :=
  [([78], SObject [mkProp [115] [1] false false [] (FScalar KString);
                   mkProp [114] [2] false false [] (FArray (FScalar KString));
                   mkProp [109] [3] false false [] (FMap (FScalar KBool));
                   mkProp [111] [4] false true [] (FOneof [79]);
                   mkProp [99] [5] false true [] (FObject [78]);
                   mkProp [105] [6] false false [] (FScalar KInt32)]);
   ([79], SOneof [mkProp [97] [1] false true [2] (FScalar KString);
                  mkProp [98] [2] false true [1] (FObject [78])])].
Definition ex_orc : oracles := no_oracles.
(* {"s":"x","r":["a","b"],"m":{"k":true},"o":{"!type":"b"},"c":{"c":{"s":null,"i":"-7"}}} *)
Definition ex_doc : bytes :=
  [123;34;115;34;58;34;120;34;44;34;114;34;58;91;34;97;34;44;34;98;34;93;44;34;109;34;58;123;34;107;34;58;116;114;117;101;125;44;
   34;111;34;58;123;34;33;116;121;112;101;34;58;34;98;34;125;44;34;99;34;58;123;34;99;34;58;123;34;115;34;58;110;117;108;108;44;
   34;105;34;58;34;45;55;34;125;125;125].
Example C06_example_ok :
  decode_bytes ex_orc ex_env [78] ex_doc =
  Ok [(1, VStr [120]); (2, VList [VStr [97]; VStr [98]]); (3, VMap [([107], VBool true)]);
      (4, VMsg [(2, VMsg [])]); (5, VMsg [(5, VMsg [(6, VInt (-7))])])].
Proof. vm_compute. reflexivity. Qed.

(* {"r":[null]}   {"m":{"k":null}}   {"o":{"!type":"a"}} at a truncated stream *)
Example C06_example_former_panics :
  is_err (decode_bytes ex_orc ex_env [78] [123;34;114;34;58;91;110;117;108;108;93;125]) = true /\
  is_err (decode_bytes ex_orc ex_env [78] [123;34;109;34;58;123;34;107;34;58;110;117;108;108;125;125]) = true /\
  is_ok (decode_bytes ex_orc ex_env [78] [123;34;111;34;58;123;34;33;116;121;112;101;34;58;34;97;34;125;125]) = true /\
  is_err (decode_bytes ex_orc ex_env [78] [123;34;111;34;58;123;34;33;116;121;112;101;34;58;34;97;34]) = true.
Proof. vm_compute. repeat split; reflexivity. Qed.

(* s=x & c.i=7 & r=a&r=b & i (no values): a dotted path into a container, repeated values for an
   array, an empty value list; two values for a scalar; a JSON-valued container parameter *)
Example C06_example_query :
  decode_query ex_orc ex_env [78] [([115], [[120]]); ([99; 46; 105], [[55]]); ([114], [[97]; [98]]); ([105], [])] =
  Ok [(1, VStr [120]); (2, VList [VStr [97]; VStr [98]]); (5, VMsg [(6, VInt 7)])] /\
  is_err (decode_query ex_orc ex_env [78] [([115], [[120]; [121]])]) = true /\
  decode_query ex_orc ex_env [78] [([99], [[32; 123; 34; 115; 34; 58; 34; 113; 34; 125]])] = Ok [(5, VMsg [(1, VStr [113])])].
Proof. vm_compute. repeat split; reflexivity. Qed.

(* the counter on the example document: 25 steps for 29 tokens / 86 bytes; 3 steps until {"r":[null]} is refused *)
Example C06_example_steps :
  snd (CodecDecCost.decode_document_c ex_orc ex_env [78] ex_doc) = 25%nat /\
  length (fst (lex ex_doc)) = 29%nat /\ length ex_doc = 86%nat /\
  snd (CodecDecCost.decode_document_c ex_orc ex_env [78] [123;34;114;34;58;91;110;117;108;108;93;125]) = 3%nat.
Proof. vm_compute. repeat split; reflexivity. Qed.

(* the counter on the example queries: s=x & c.i=7 & r=a&r=b & i (no values) makes 4 (keys) + 1 + 2 + 1
   (components) + 2 (array values) = 10 steps against a size of 26; the container parameter
   c= {"s":"q"} makes 1 + 1 + 3 (descent) = 5 steps against a size of 15; two values for a scalar are
   refused after 2 steps; and the results are those of the model *)
Example C06_example_query_steps :
  CodecDecQueryCost.decode_query_c ex_orc ex_env [78] [([115], [[120]]); ([99; 46; 105], [[55]]); ([114], [[97]; [98]]); ([105], [])] =
    (Ok [(1, VStr [120]); (2, VList [VStr [97]; VStr [98]]); (5, VMsg [(6, VInt 7)])], 10%nat) /\
  CodecDecQueryCost.query_size [([115], [[120]]); ([99; 46; 105], [[55]]); ([114], [[97]; [98]]); ([105], [])] = 26%nat /\
  CodecDecQueryCost.decode_query_c ex_orc ex_env [78] [([99], [[32; 123; 34; 115; 34; 58; 34; 113; 34; 125]])] =
    (Ok [(5, VMsg [(1, VStr [113])])], 5%nat) /\
  CodecDecQueryCost.query_size [([99], [[32; 123; 34; 115; 34; 58; 34; 113; 34; 125]])] = 15%nat /\
  snd (CodecDecQueryCost.decode_query_c ex_orc ex_env [78] [([115], [[120]; [121]])]) = 2%nat.
Proof. vm_compute. repeat split; reflexivity. Qed.

(* C09 — the formatter preserves meaning, is idempotent and emits parseable source.
   Statements with Print Assumptions beneath; the proofs are in coq/proofs/Bcl*.v (the short
   bridging lemmas between doc_of and the proofs' position-free view are here).
   The full statement C09_full_statement is proved as C09_full (all inputs, rune level).
   Also stated: totality, the literal / token / line level (tokenSource is a right inverse of the
   lexer for every token the lexer emits, adjacent tokens cannot fuse), the re-flow keeps
   paragraphs and is a fixed point. *)
From Coq Require Import String List NArith ZArith Bool.
From J5V.lib Require Import Text Outcome.
From J5V.model Require Import BclLexer BclParser BclFmt.
From J5V.proofs Require Import BclPosProofs BclLexerProofs BclParserProofs BclFmtProofs BclFmtLitProofs BclReflowProofs BclLexLitProofs BclFmtSeqProofs BclFragWfProofs BclFmtLineProofs BclWalkBackProofs BclFmtFileProofs BclDescGapProofs BclFmtRoundProofs BclFmtIdemProofs.
Import ListNotations.

(* ---- the position-free document of a fragment list -------------------------------------------- *)
Definition tok_doc (t : token) : N * list N := (tt_code (ty t), lit t).
Fixpoint value_doc (v : value) : list (N * list N) :=
  match v with
  | VTok t _ _ => [tok_doc t]
  | VArr vs _ _ => (19%N, []) :: flat_map value_doc vs ++ [(20%N, [])]
  end.
Definition ref_doc (r : reference) : list (list N) := map lit r.
Definition mark_code (m : mark) : N := match m with MarkNone => 0 | MarkBang => 1 | MarkQuestion => 2 end%N.
Definition tag_doc (t : tag) : N * list (N * list N) :=
  (mark_code (tmark t),
   match tbody t with TagRef r => map (fun i => (5%N, i)) (ref_doc r) | TagVal v => value_doc v end).
(* descriptions: paragraphs of words *)
Fixpoint paragraphs (lines : list (list N)) (cur : list (list N)) : list (list (list N)) :=
  match lines with
  | [] => match cur with [] => [] | _ => [cur] end
  | l :: r => match fields l with
              | [] => match cur with [] => paragraphs r [] | _ => cur :: paragraphs r [] end
              | ws => paragraphs r (cur ++ ws)
              end
  end.
Definition desc_doc (value : list N) : list (list (list N)) := paragraphs (split_on 10 value) [].
Definition comment_doc (c : option comment) : option (list N) := option_map cvalue c.

Inductive frag_doc :=
| DHeader (ty : list (list N)) (tags quals : list (N * list (N * list N))) (desc : option (list (list (list N))))
          (op : bool) (c : option (list N))
| DAssign (key : list (list N)) (app : bool) (v : list (N * list N)) (c : option (list N))
| DDesc (paras : list (list (list N)))
| DComment (t : N * list N)
| DClose.

Definition doc_of (f : fragment) : frag_doc :=
  match f with
  | FHeader h => DHeader (ref_doc (htype h)) (map tag_doc (htags h)) (map tag_doc (hquals h))
                         (option_map (fun d => desc_doc (dvalue d)) (hdesc h)) (hopen h) (comment_doc (hcomment h))
  | FAssign a => DAssign (ref_doc (akey a)) (aappend a) (value_doc (avalue a)) (comment_doc (acomment a))
  | FDesc d => DDesc (desc_doc (dvalue d))
  | FComment t => DComment (tok_doc t)
  | FClose _ => DClose
  end.

Definition accepted (data : list N) : Prop := exists body, parse_runes true data = Ok (mkP (Some body) []).

(* the property at full strength, on runes *)
Definition C09_full_statement : Prop :=
  forall data, accepted data ->
    exists out fs fs',
      fmt_runes data = Ok out /\ accepted out /\
      collect_fragments data = Ok fs /\ collect_fragments out = Ok fs' /\
      map doc_of fs' = map doc_of fs /\
      fmt_runes out = Ok out.

(* ---- proved ------------------------------------------------------------------------------------ *)
(* the formatter never panics / loops, and accepts every file the parser accepts *)
Theorem C09_fmt_total : forall data, match fmt_runes data with Ok _ => True | Err _ => True | _ => False end.
Proof. exact fmt_runes_total. Qed.
Print Assumptions C09_fmt_total.

Theorem C09_formatter_accepts_what_parser_accepts : forall data body,
  parse_runes true data = Ok (mkP (Some body) []) -> exists out, fmt_runes data = Ok out.
Proof. exact parser_accepts_formatter_accepts. Qed.
Print Assumptions C09_formatter_accepts_what_parser_accepts.

(* literal level: lexing what tokenSource renders gives back the token type and the literal and
   stops right after it (this is where findings 9 lived: %q escapes, un-doubled '/') *)
Theorem C09_string_inverse : forall lit tail s,
  rest s = token_source (mkTok STRING lit pos0 pos0) ++ tail -> lexes_to s STRING lit tail.
Proof. exact relex_string. Qed.
Print Assumptions C09_string_inverse.

Theorem C09_regex_inverse : forall lit tail s,
  no_nl lit -> not_starting 47 tail ->
  match lit with [] => False | c :: _ => c <> 47%N /\ c <> 42%N end ->
  rest s = token_source (mkTok REGEX lit pos0 pos0) ++ tail -> lexes_to s REGEX lit tail.
Proof. exact relex_regex. Qed.
Print Assumptions C09_regex_inverse.

Theorem C09_description_inverse : forall lit tail s,
  no_nl lit -> line_end tail ->
  match lit with [] => True | c :: _ => is_space c = false end ->
  rest s = token_source (mkTok DESCRIPTION lit pos0 pos0) ++ tail -> lexes_to s DESCRIPTION lit tail.
Proof. exact relex_description. Qed.
Print Assumptions C09_description_inverse.

Theorem C09_comment_inverse : forall lit tail s,
  no_nl lit -> line_end tail ->
  rest s = token_source (mkTok COMMENT lit pos0 pos0) ++ tail -> lexes_to s COMMENT lit tail.
Proof. exact relex_comment. Qed.
Print Assumptions C09_comment_inverse.

Theorem C09_block_comment_inverse : forall lit tail s,
  has_star_slash lit = false ->
  rest s = token_source (mkTok BLOCK_COMMENT lit pos0 pos0) ++ tail -> lexes_to s BLOCK_COMMENT lit tail.
Proof. exact relex_block_comment. Qed.
Print Assumptions C09_block_comment_inverse.

(* token separation for the tokens that are their own source: an identifier / integer followed
   by a rune that cannot extend it is read back whole and alone *)
Theorem C09_ident_separation : forall c r tail s,
  ident_start c -> forallb ident_char r = true -> not_extending ident_char tail ->
  rest s = (c :: r) ++ tail ->
  exists typ, (typ = IDENT \/ typ = BOOL) /\ lexes_to s typ (c :: r) tail.
Proof. exact relex_ident. Qed.
Print Assumptions C09_ident_separation.

Theorem C09_int_separation : forall c r tail s,
  number_start c -> forallb is_digit r = true ->
  match tail with [] => True | d :: _ => is_digit d = false /\ d <> 46%N end ->
  rest s = (c :: r) ++ tail -> lexes_to s INT (c :: r) tail.
Proof. exact relex_int. Qed.
Print Assumptions C09_int_separation.

(* token level, for every token of every kind: whatever NextToken emits (from any state of any
   input) is read back, type and literal, from the text tokenSource renders for it, whenever the
   text that follows cannot extend it ([sep_ok]: a regex is not followed by '/', a comment or
   description ends the line, an identifier is not followed by an identifier rune, a number is
   not followed by a digit or a dot) *)
Theorem C09_token_roundtrip : forall fuel s t s' tail s2,
  next_token_fuel fuel s = (LTok t, s') -> sep_ok (ty t) tail ->
  rest s2 = token_source (mkTok (ty t) (lit t) pos0 pos0) ++ tail ->
  lexes_to s2 (ty t) (lit t) tail.
Proof. exact token_roundtrip. Qed.
Print Assumptions C09_token_roundtrip.

(* sequence level: a line made of rendered tokens and single spaces, in which every token has a
   literal of its kind and cannot be extended by what follows it, is read back token by token *)
Theorem C09_sequence_relex : forall items tail s, items_ok items tail -> ends_with_tok items ->
  rest s = render_items items ++ tail ->
  exists s', lex_run s (item_toks items) s' /\ rest s' = tail.
Proof. exact items_relex. Qed.
Print Assumptions C09_sequence_relex.

(* fragment level, first half: everything the formatter renders is renderable — each token kept in a
   fragment has a literal of its kind, references are non-empty identifier lists, tag values are
   strings, a comment / description used as a value ends its statement (never inside an array,
   never followed by a trailing comment), header descriptions exclude brace and comment *)
Theorem C09_fragments_renderable : forall data fs, collect_fragments data = Ok fs -> Forall frag_lx fs.
Proof. exact collect_fragments_lx. Qed.
Print Assumptions C09_fragments_renderable.

(* line level: for every header, assignment, comment and closing brace the walker can build, the
   line the formatter writes (indentation, the rendered tokens with the formatter's own spacing,
   the trailing comment, the newline) is read back as exactly the tokens of that fragment followed
   by the EOL: adjacent emitted tokens never fuse *)
Theorem C09_line_relex : forall f n REST s,
  frag_lx f -> (forall d, f <> FDesc d) ->
  rest s = tabs n ++ frag_line_text f ++ 10%N :: REST ->
  exists s', lex_run s (item_toks (frag_items f) ++ [(EOL, [10%N])]) s' /\ rest s' = REST.
Proof. exact fragment_line_relex. Qed.
Print Assumptions C09_line_relex.

(* fragment level, walker half: walking any token list (whatever its positions) whose types and
   literals are the canonical tokens of renderable fragments and description blocks, each line
   ended by an EOL, optionally preceded by a blank line, rebuilds fragments with the same
   documents — same types, tags, marks, qualifiers, keys, operators, values, comments *)
Theorem C09_walk_back : forall es fuel s, stream_ok es -> pt s = stream es ->
  (length (wrest s) < fuel)%nat ->
  exists fs, walk_fragments_loop fuel true s = WalkOk fs [] /\
             map (fun f => match f with FDesc d => DD (dvalue d) | _ => fdoc_of f end) fs
             = map (fun be => entry_doc (snd be)) es.
Proof.
  intros es fuel s H1 H2 H3. destruct (walk_stream_back es fuel s H1 H2 H3) as (fs & A & _ & B). eauto.
Qed.
Print Assumptions C09_walk_back.

(* idempotence of the description re-flow (finding 22 lived here): feeding the re-flowed lines back
   gives the same lines, for every text and every width (also negative) *)
Theorem C09_reflow_fixed_point : forall maxw input,
  reformat_description (join_with 10 (reformat_description input maxw)) maxw = reformat_description input maxw.
Proof. exact reflow_fixed_point. Qed.
Print Assumptions C09_reflow_fixed_point.

(* the description clause at component level: the re-flowed lines, joined with newlines as the formatter
   prints them and the parser's popDescription re-joins them, have the same words and the same paragraph
   breaks as the input text, for every text and width.  desc_doc is the declarative reading used by
   doc_of above; paras (BclReflowProofs) is the left-fold form the proof works with *)
Lemma paragraphs_paras : forall lines d c,
  pflush (fold_left pstep (map fields lines) (d, c)) = d ++ paragraphs lines c.
Proof.
  induction lines as [|l r IH]; intros d c; cbn [map fold_left paragraphs].
  - unfold pflush. cbn [fst snd]. destruct c; [rewrite app_nil_r|]; reflexivity.
  - destruct (fields l) as [|w ws] eqn:E.
    + cbn [pstep]. rewrite IH. unfold pflush. cbn [fst snd]. destruct c; [reflexivity|].
      rewrite <- app_assoc. reflexivity.
    + cbn [pstep fst snd]. rewrite IH. reflexivity.
Qed.

Lemma desc_doc_paras value : desc_doc value = paras (map fields (split_on 10 value)).
Proof. unfold desc_doc, paras, pstate. rewrite paragraphs_paras. reflexivity. Qed.

Theorem C09_reflow_same_paragraphs : forall maxw input,
  desc_doc (join_with 10 (reformat_description input maxw)) = desc_doc input.
Proof. intros. rewrite !desc_doc_paras. apply reflow_paras. Qed.
Print Assumptions C09_reflow_same_paragraphs.

(* ---- file level: output accepted, same document ------------------------------------------------- *)
(* doc_of is a function of the position-free fragment view (fdoc_of) the walker-back proofs work with *)
Definition ptok_doc (p : ptok) : N * list N := (tt_code (fst p), snd p).
Definition conv_tag (t : mark * (list (list N) + list ptok)) : N * list (N * list N) :=
  (mark_code (fst t), match snd t with inl r => map (fun i => (5%N, i)) r | inr v => map ptok_doc v end).
Definition fdoc_doc (x : fdoc) : frag_doc :=
  match x with
  | DH ty tags quals desc op c => DHeader ty (map conv_tag tags) (map conv_tag quals) (option_map desc_doc desc) op c
  | DA key app v c => DAssign key app (map ptok_doc v) c
  | DD value => DDesc (desc_doc value)
  | DC t => DComment (ptok_doc t)
  | DX => DClose
  end.

Lemma value_doc_conv : forall v, value_doc v = map ptok_doc (BclWalkBackProofs.value_doc v).
Proof.
  apply value_ind'; [reflexivity|]. intros vs s e H. cbn [value_doc BclWalkBackProofs.value_doc].
  cbn [map]. rewrite map_app. cbn [map]. f_equal. f_equal.
  induction H as [|x r Hx _ IH]; [reflexivity|]. cbn [flat_map]. rewrite map_app, Hx, IH. reflexivity.
Qed.

Lemma tag_doc_conv t : tag_doc t = conv_tag (BclWalkBackProofs.tag_doc t).
Proof.
  unfold tag_doc, conv_tag, BclWalkBackProofs.tag_doc. cbn [fst snd]. destruct (tbody t); [reflexivity|].
  rewrite value_doc_conv. reflexivity.
Qed.

Lemma doc_of_fdoc f : doc_of f = fdoc_doc (fdoc_of f).
Proof.
  destruct f as [h|a|d|t|t]; cbn [doc_of fdoc_of fdoc_doc]; try reflexivity.
  - rewrite !map_map. rewrite (map_ext _ _ tag_doc_conv (htags h)), (map_ext _ _ tag_doc_conv (hquals h)).
    f_equal. destruct (hdesc h); reflexivity.
  - rewrite value_doc_conv. reflexivity.
Qed.

(* the entries the output is read from carry the documents of the original fragments: descriptions by
   C09_reflow_same_paragraphs (the empty description, printed as a bare |, has no paragraphs either) *)
Lemma entries_docs : forall fs n first last,
  map (fun be => fdoc_doc (entry_doc (snd be))) (entries fs n first last) = map doc_of fs.
Proof.
  induction fs as [|f r IH]; intros n first last; [reflexivity|].
  destruct f as [h|a|d|t|t]; cbn [entries map snd entry_doc]; rewrite IH; f_equal; try (symmetry; apply doc_of_fdoc).
  cbn [fdoc_doc doc_of]. f_equal. unfold desc_lines.
  pose proof (C09_reflow_same_paragraphs (80 - Z.of_nat n * 4) (dvalue d)) as H.
  destruct (reformat_description (dvalue d) (80 - Z.of_nat n * 4)); exact H.
Qed.

(* the parser accepts what the formatter prints for every file the parser accepts *)
Theorem C09_output_accepted : forall data, accepted data ->
  exists out, fmt_runes data = Ok out /\ accepted out.
Proof. exact fmt_output_accepted. Qed.
Print Assumptions C09_output_accepted.

(* and reading the output gives the same document: same blocks (type, tags, marks, qualifiers, nesting
   as the sequence of open headers and closing braces), same assignments (keys, operators, values),
   same comments, descriptions with the same words and paragraph breaks *)
Theorem C09_same_document : forall data fs, collect_fragments data = Ok fs ->
  exists out fs', fmt_runes data = Ok out /\ collect_fragments out = Ok fs' /\ map doc_of fs' = map doc_of fs.
Proof.
  intros data fs Hc. destruct (fmt_roundtrip data fs Hc) as (fs' & Hc' & Hdocs).
  exists (fmt_join (diff_file fs 0) true (-1)), fs'. split; [|split; [exact Hc'|]].
  - unfold fmt_runes, collect_fmt. rewrite Hc. reflexivity.
  - rewrite <- (entries_docs fs 0 true (-1)). rewrite (map_ext _ _ doc_of_fdoc).
    rewrite <- (map_map fdoc_of fdoc_doc), Hdocs, map_map. reflexivity.
Qed.
Print Assumptions C09_same_document.

(* the full statement without its last clause (idempotence) *)
Theorem C09_accepted_same_document : forall data, accepted data ->
  exists out fs fs',
    fmt_runes data = Ok out /\ accepted out /\
    collect_fragments data = Ok fs /\ collect_fragments out = Ok fs' /\
    map doc_of fs' = map doc_of fs.
Proof.
  intros data Ha. destruct (C09_output_accepted data Ha) as (out & Hf & Hacc).
  destruct (proj1 (accepted_iff data) Ha) as (fs & Hc & _).
  destruct (C09_same_document data fs Hc) as (out2 & fs' & Hf2 & Hc' & Hd).
  rewrite Hf in Hf2. injection Hf2 as <-. exists out, fs, fs'. auto.
Qed.
Print Assumptions C09_accepted_same_document.

(* ---- the same at the level of the syntax tree ParseFile returns ---------------------------------- *)
(* the tree is fragmentsToFile of the fragments (comments are dropped, blocks nest); its position-free
   reading uses doc_of for every header, assignment and description *)
Inductive tdoc := TBlock (h : frag_doc) (body : list tdoc) | TLeaf (d : frag_doc).
Fixpoint stmt_doc (s : stmt) : tdoc :=
  match s with
  | SBlock h body => TBlock (doc_of (FHeader h)) (map stmt_doc body)
  | SAssign a => TLeaf (doc_of (FAssign a))
  | SDesc d => TLeaf (doc_of (FDesc d))
  end.

(* fragmentsToFile on documents *)
Fixpoint d_loop (ds : list frag_doc) (cur : list tdoc) (stack : list (frag_doc * list tdoc))
  : list tdoc * list (frag_doc * list tdoc) :=
  match ds with
  | [] => (cur, stack)
  | d :: r =>
    match d with
    | DHeader _ _ _ _ true _ => d_loop r [] ((d, cur) :: stack)
    | DHeader _ _ _ _ false _ => d_loop r (cur ++ [TBlock d []]) stack
    | DAssign _ _ _ _ | DDesc _ => d_loop r (cur ++ [TLeaf d]) stack
    | DComment _ => d_loop r cur stack
    | DClose => match stack with
                | [] => d_loop r cur stack
                | (h, parent) :: st => d_loop r (parent ++ [TBlock h cur]) st
                end
    end
  end.
Fixpoint d_unwind (cur : list tdoc) (stack : list (frag_doc * list tdoc)) : list tdoc :=
  match stack with
  | [] => cur
  | (h, parent) :: st => d_unwind (parent ++ [TBlock h cur]) st
  end.
Definition stack_doc (stack : list (header * list stmt)) : list (frag_doc * list tdoc) :=
  map (fun hp => (doc_of (FHeader (fst hp)), map stmt_doc (snd hp))) stack.

Lemma to_file_loop_doc : forall fs cur stack errs,
  d_loop (map doc_of fs) (map stmt_doc cur) (stack_doc stack) =
  (map stmt_doc (fst (fst (to_file_loop fs cur stack errs))), stack_doc (snd (fst (to_file_loop fs cur stack errs)))).
Proof.
  induction fs as [|f r IH]; intros cur stack errs; [reflexivity|].
  destruct f as [h|a|d|t|t]; cbn [map to_file_loop].
  - cbn [doc_of d_loop]. destruct (hopen h) eqn:Eo.
    + rewrite <- (IH [] ((h, cur) :: stack) errs). unfold stack_doc. cbn [map fst snd doc_of]. rewrite Eo. reflexivity.
    + rewrite <- (IH (cur ++ [SBlock h []]) stack errs). rewrite map_app. cbn [map stmt_doc doc_of]. rewrite Eo. reflexivity.
  - cbn [doc_of d_loop]. rewrite <- (IH (cur ++ [SAssign a]) stack errs). rewrite map_app. reflexivity.
  - cbn [doc_of d_loop]. rewrite <- (IH (cur ++ [SDesc d]) stack errs). rewrite map_app. reflexivity.
  - cbn [doc_of d_loop]. apply IH.
  - cbn [doc_of d_loop]. destruct stack as [|[h parent] st]; cbn [stack_doc map fst snd].
    + apply (IH cur [] _).
    + rewrite <- (IH (close_level h cur parent) st errs). unfold close_level. rewrite map_app. reflexivity.
Qed.

Lemma unwind_doc : forall stack cur, map stmt_doc (unwind cur stack) = d_unwind (map stmt_doc cur) (stack_doc stack).
Proof.
  induction stack as [|[h parent] st IH]; intros cur; [reflexivity|].
  cbn [unwind stack_doc map fst snd d_unwind]. rewrite IH. unfold close_level. rewrite map_app. reflexivity.
Qed.

Lemma to_file_doc fs fs' : map doc_of fs' = map doc_of fs ->
  map stmt_doc (fst (fragments_to_file fs')) = map stmt_doc (fst (fragments_to_file fs)).
Proof.
  intros E. unfold fragments_to_file.
  pose proof (to_file_loop_doc fs [] [] []) as H1. pose proof (to_file_loop_doc fs' [] [] []) as H2. rewrite E in H2.
  destruct (to_file_loop fs [] [] []) as [[c1 s1] e1]. destruct (to_file_loop fs' [] [] []) as [[c2 s2] e2].
  cbn [fst snd] in *. rewrite !unwind_doc. rewrite H1 in H2. injection H2 as <- <-. reflexivity.
Qed.

(* the tree ParseFile returns for the formatter's output is, position-free, the tree of the input *)
Theorem C09_same_tree : forall data body, parse_runes true data = Ok (mkP (Some body) []) ->
  exists out body', fmt_runes data = Ok out /\ parse_runes true out = Ok (mkP (Some body') []) /\
                    map stmt_doc body' = map stmt_doc body.
Proof.
  intros data body Hp. assert (Ha : accepted data) by (exists body; exact Hp).
  destruct (C09_accepted_same_document data Ha) as (out & fs & fs' & Hf & [body' Hp'] & Hc & Hc' & Hd).
  exists out, body'. split; [exact Hf|]. split; [exact Hp'|].
  assert (Hb : forall d b l, collect_fragments d = Ok l -> parse_runes true d = Ok (mkP (Some b) []) -> b = fst (fragments_to_file l)).
  { intros d b l. unfold collect_fragments, parse_runes. destruct (all_tokens true d); try discriminate.
    destruct (walk_fragments true toks) as [l0 ds|p|]; try discriminate. destruct ds; [|discriminate].
    intros [= <-]. destruct (fragments_to_file l0) as [b0 e0]. intros [= <- _]. reflexivity. }
  rewrite (Hb data body fs Hc Hp), (Hb out body' fs' Hc' Hp'). apply to_file_doc. exact Hd.
Qed.
Print Assumptions C09_same_tree.

(* formatting twice changes nothing: whatever Fmt returns is a fixed point of Fmt.  The fragments read
   back have the same documents, the text of a line is a function of the document, the re-flow is a
   fixed point, and a fragment read back starts one line after the previous one ended, or two when Fmt
   printed an empty line, so the second run prints the same empty lines *)
Theorem C09_idempotent : forall data out, fmt_runes data = Ok out -> fmt_runes out = Ok out.
Proof. exact fmt_idempotent. Qed.
Print Assumptions C09_idempotent.

(* ---- the full statement ---------------------------------------------------------------------------- *)
Theorem C09_full : C09_full_statement.
Proof.
  intros data Ha. destruct (C09_accepted_same_document data Ha) as (out & fs & fs' & Hf & Hacc & Hc & Hc' & Hd).
  exists out, fs, fs'. repeat (split; [assumption|]). apply (C09_idempotent data out Hf).
Qed.
Print Assumptions C09_full.

(* non-vacuity: a string with every escapable rune, a regex with slashes, nested array, trailing
   comment, description: accepted, formatted, the output accepted with the same document, and a
   second formatting changes nothing *)
Example C09_example :
  let src := utf8_decode [120;61;91;34;97;92;34;92;92;92;10;98;9;34;44;47;97;47;47;98;47;44;91;49;93;93;32;47;47;99;10;124;32;32;100;32;32;101;10]%N in
  exists out fs fs',
    fmt_runes src = Ok out /\ accepted out /\ collect_fragments src = Ok fs /\ collect_fragments out = Ok fs' /\
    map doc_of fs' = map doc_of fs /\ fmt_runes out = Ok out /\ out <> src.
Proof.
  cbv zeta. do 3 eexists.
  split; [vm_compute; reflexivity|]. split; [eexists; vm_compute; reflexivity|].
  split; [vm_compute; reflexivity|]. split; [vm_compute; reflexivity|].
  split; [vm_compute; reflexivity|]. split; [vm_compute; reflexivity|]. vm_compute. discriminate.
Qed.

(* C09 — the formatter preserves meaning, is idempotent and emits parseable source.
   Statements with Print Assumptions beneath; every proof is in coq/proofs/Bcl*.v (here only
   [exact]); the declarative document (doc_of, desc_doc, stmt_doc, accepted) is model/BclDoc.v.
   The full statement C09_full_statement is proved as C09_full (all inputs, rune level).
   Also stated: totality, the literal / token / line level (tokenSource is a right inverse of the
   lexer for every token the lexer emits, adjacent tokens cannot fuse), the re-flow keeps
   paragraphs and is a fixed point. *)
From Coq Require Import String List NArith ZArith Bool.
From J5V.lib Require Import Text Outcome GoExpr.
From J5V.model Require Import BclLexer BclParser BclFmt BclCli BclFmtAligned.
From J5V.proofs Require Import BclPosProofs BclLexerProofs BclParserProofs BclFmtProofs BclFmtLitProofs BclReflowProofs BclLexLitProofs BclFmtSeqProofs BclFragWfProofs BclFmtLineProofs BclWalkBackProofs BclFmtFileProofs BclDescGapProofs BclFmtRoundProofs BclFmtIdemProofs BclDocProofs BclUtf8Proofs BclRuneClosedProofs BclFmtBytesProofs BclDocBytesProofs BclCliProofs BclIdentExactProofs BclFmtGenProofs BclFmtGenAllProofs BclFmtGenAll2Proofs BclFmtGenAll3Proofs BclFmtDiffsIdemProofs.
(* after the proofs: doc_of / value_doc / tag_doc below are the declarative ones of model/BclDoc.v *)
From J5V.model Require Import BclDoc.
Import ListNotations.

(* [doc_of f] (model/BclDoc.v): the position-free document of a fragment — header: type idents, tags and
   qualifiers with mark code and body, description as paragraphs of words, open flag, trailing comment;
   assignment: key idents, append flag, flattened value tokens (type code, literal), comment; description:
   paragraphs of words; comment: type and text; closing brace.  [accepted data]: ParseFile (fail-fast)
   returns a tree and no diagnostics.  [stmt_doc]: the same reading of a node of the nested tree. *)

(* the property at full strength, on runes *)
Definition C09_full_statement : Prop :=
  forall data, accepted data ->
    exists out fs fs',
      fmt_runes data = Ok out /\ accepted out /\
      collect_fragments data = Ok fs /\ collect_fragments out = Ok fs' /\
      map doc_of fs' = map doc_of fs /\
      fmt_runes out = Ok out.

(* ---- proved ------------------------------------------------------------------------------------ *)
(* the formatter never panics / loops, and accepts every file the parser accepts *)
Theorem C09_fmt_total : forall data, match fmt_runes data with Ok _ => True | Err _ => True | _ => False end.
Proof. exact fmt_runes_total. Qed.
Print Assumptions C09_fmt_total.

Theorem C09_formatter_accepts_what_parser_accepts : forall data body,
  parse_runes true data = Ok (mkP (Some body) []) -> exists out, fmt_runes data = Ok out.
Proof. exact parser_accepts_formatter_accepts. Qed.
Print Assumptions C09_formatter_accepts_what_parser_accepts.

(* literal level: lexing what tokenSource renders gives back the token type and the literal and
   stops right after it (this is where findings 9 lived: %q escapes, un-doubled '/') *)
Theorem C09_string_inverse : forall lit tail s,
  rest s = token_source (mkTok STRING lit pos0 pos0) ++ tail -> lexes_to s STRING lit tail.
Proof. exact relex_string. Qed.
Print Assumptions C09_string_inverse.

Theorem C09_regex_inverse : forall lit tail s,
  no_nl lit -> not_starting 47 tail ->
  match lit with [] => False | c :: _ => c <> 47%N /\ c <> 42%N end ->
  rest s = token_source (mkTok REGEX lit pos0 pos0) ++ tail -> lexes_to s REGEX lit tail.
Proof. exact relex_regex. Qed.
Print Assumptions C09_regex_inverse.

Theorem C09_description_inverse : forall lit tail s,
  no_nl lit -> line_end tail ->
  match lit with [] => True | c :: _ => is_space c = false end ->
  rest s = token_source (mkTok DESCRIPTION lit pos0 pos0) ++ tail -> lexes_to s DESCRIPTION lit tail.
Proof. exact relex_description. Qed.
Print Assumptions C09_description_inverse.

Theorem C09_comment_inverse : forall lit tail s,
  no_nl lit -> line_end tail ->
  rest s = token_source (mkTok COMMENT lit pos0 pos0) ++ tail -> lexes_to s COMMENT lit tail.
Proof. exact relex_comment. Qed.
Print Assumptions C09_comment_inverse.

Theorem C09_block_comment_inverse : forall lit tail s,
  has_star_slash lit = false ->
  rest s = token_source (mkTok BLOCK_COMMENT lit pos0 pos0) ++ tail -> lexes_to s BLOCK_COMMENT lit tail.
Proof. exact relex_block_comment. Qed.
Print Assumptions C09_block_comment_inverse.

(* token separation for the tokens that are their own source: an identifier / integer followed
   by a rune that cannot extend it is read back whole and alone *)
Theorem C09_ident_separation : forall c r tail s,
  ident_start c -> forallb ident_char r = true -> not_extending ident_char tail ->
  rest s = (c :: r) ++ tail ->
  exists typ, (typ = IDENT \/ typ = BOOL) /\ lexes_to s typ (c :: r) tail.
Proof. exact relex_ident. Qed.
Print Assumptions C09_ident_separation.

(* ... with the exact type: BOOL for the spellings true / false, IDENT otherwise (what the lexer does, and what
   the walker's as_ident undoes where an identifier is expected) *)
Theorem C09_ident_exact_type : forall c r tail s,
  ident_start c -> forallb ident_char r = true -> not_extending ident_char tail ->
  rest s = (c :: r) ++ tail ->
  lexes_to s (if (list_N_eqb (c :: r) lit_true || list_N_eqb (c :: r) lit_false)%bool then BOOL else IDENT) (c :: r) tail.
Proof. exact relex_ident_exact. Qed.
Print Assumptions C09_ident_exact_type.

Theorem C09_int_separation : forall c r tail s,
  number_start c -> forallb is_digit r = true ->
  match tail with [] => True | d :: _ => is_digit d = false /\ d <> 46%N end ->
  rest s = (c :: r) ++ tail -> lexes_to s INT (c :: r) tail.
Proof. exact relex_int. Qed.
Print Assumptions C09_int_separation.

(* token level, for every token of every kind: whatever NextToken emits (from any state of any
   input) is read back, type and literal, from the text tokenSource renders for it, whenever the
   text that follows cannot extend it ([sep_ok]: a regex is not followed by '/', a comment or
   description ends the line, an identifier is not followed by an identifier rune, a number is
   not followed by a digit or a dot) *)
Theorem C09_token_roundtrip : forall fuel s t s' tail s2,
  next_token_fuel fuel s = (LTok t, s') -> sep_ok (ty t) tail ->
  rest s2 = token_source (mkTok (ty t) (lit t) pos0 pos0) ++ tail ->
  lexes_to s2 (ty t) (lit t) tail.
Proof. exact token_roundtrip. Qed.
Print Assumptions C09_token_roundtrip.

(* sequence level: a line made of rendered tokens and single spaces, in which every token has a
   literal of its kind and cannot be extended by what follows it, is read back token by token *)
Theorem C09_sequence_relex : forall items tail s, items_ok items tail -> ends_with_tok items ->
  rest s = render_items items ++ tail ->
  exists s', lex_run s (item_toks items) s' /\ rest s' = tail.
Proof. exact items_relex. Qed.
Print Assumptions C09_sequence_relex.

(* fragment level, first half: everything the formatter renders is renderable — each token kept in a
   fragment has a literal of its kind, references are non-empty identifier lists, tag values are
   strings, a comment / description used as a value ends its statement (never inside an array,
   never followed by a trailing comment), header descriptions exclude brace and comment *)
Theorem C09_fragments_renderable : forall data fs, collect_fragments data = Ok fs -> Forall frag_lx fs.
Proof. exact collect_fragments_lx. Qed.
Print Assumptions C09_fragments_renderable.

(* line level: for every header, assignment, comment and closing brace the walker can build, the
   line the formatter writes (indentation, the rendered tokens with the formatter's own spacing,
   the trailing comment, the newline) is read back as exactly the tokens of that fragment followed
   by the EOL: adjacent emitted tokens never fuse *)
Theorem C09_line_relex : forall f n REST s,
  frag_lx f -> (forall d, f <> FDesc d) ->
  rest s = tabs n ++ frag_line_text f ++ 10%N :: REST ->
  exists s', lex_run s (item_toks (frag_items f) ++ [(EOL, [10%N])]) s' /\ rest s' = REST.
Proof. exact fragment_line_relex. Qed.
Print Assumptions C09_line_relex.

(* fragment level, walker half: walking any token list (whatever its positions) whose types and
   literals are the canonical tokens of renderable fragments and description blocks, each line
   ended by an EOL, optionally preceded by a blank line, rebuilds fragments with the same
   documents — same types, tags, marks, qualifiers, keys, operators, values, comments *)
Theorem C09_walk_back : forall es fuel s, stream_ok es -> pt s = stream es ->
  (length (wrest s) < fuel)%nat ->
  exists fs, walk_fragments_loop fuel true s = WalkOk fs [] /\
             map (fun f => match f with FDesc d => DD (dvalue d) | _ => fdoc_of f end) fs
             = map (fun be => entry_doc (snd be)) es.
Proof. exact walk_back_docs. Qed.
Print Assumptions C09_walk_back.

(* idempotence of the description re-flow (finding 22 lived here): feeding the re-flowed lines back
   gives the same lines, for every text and every width (also negative) *)
Theorem C09_reflow_fixed_point : forall maxw input,
  reformat_description (join_with 10 (reformat_description input maxw)) maxw = reformat_description input maxw.
Proof. exact reflow_fixed_point. Qed.
Print Assumptions C09_reflow_fixed_point.

(* the description clause at component level: the re-flowed lines, joined with newlines as the formatter
   prints them and the parser's popDescription re-joins them, have the same words and the same paragraph
   breaks as the input text, for every text and width.  desc_doc is the declarative reading used by
   doc_of above; paras (BclReflowProofs) is the left-fold form the proof works with *)
Theorem C09_reflow_same_paragraphs : forall maxw input,
  desc_doc (join_with 10 (reformat_description input maxw)) = desc_doc input.
Proof. exact reflow_same_paragraphs. Qed.
Print Assumptions C09_reflow_same_paragraphs.

(* ---- file level: output accepted, same document ------------------------------------------------- *)
Theorem C09_output_accepted : forall data, accepted data ->
  exists out, fmt_runes data = Ok out /\ accepted out.
Proof. exact fmt_output_accepted. Qed.
Print Assumptions C09_output_accepted.

(* and reading the output gives the same document: same blocks (type, tags, marks, qualifiers, nesting
   as the sequence of open headers and closing braces), same assignments (keys, operators, values),
   same comments, descriptions with the same words and paragraph breaks *)
Theorem C09_same_document : forall data fs, collect_fragments data = Ok fs ->
  exists out fs', fmt_runes data = Ok out /\ collect_fragments out = Ok fs' /\ map doc_of fs' = map doc_of fs.
Proof. exact fmt_same_document. Qed.
Print Assumptions C09_same_document.

(* the full statement without its last clause (idempotence) *)
Theorem C09_accepted_same_document : forall data, accepted data ->
  exists out fs fs',
    fmt_runes data = Ok out /\ accepted out /\
    collect_fragments data = Ok fs /\ collect_fragments out = Ok fs' /\
    map doc_of fs' = map doc_of fs.
Proof. exact fmt_accepted_same_document. Qed.
Print Assumptions C09_accepted_same_document.

(* ---- the same at the level of the syntax tree ParseFile returns ---------------------------------- *)
(* the tree is fragmentsToFile of the fragments (comments are dropped, blocks nest); its position-free
   reading uses doc_of for every header, assignment and description *)
Theorem C09_same_tree : forall data body, parse_runes true data = Ok (mkP (Some body) []) ->
  exists out body', fmt_runes data = Ok out /\ parse_runes true out = Ok (mkP (Some body') []) /\
                    map stmt_doc body' = map stmt_doc body.
Proof. exact fmt_same_tree. Qed.
Print Assumptions C09_same_tree.

(* formatting twice changes nothing: whatever Fmt returns is a fixed point of Fmt.  The fragments read
   back have the same documents, the text of a line is a function of the document, the re-flow is a
   fixed point, and a fragment read back starts one line after the previous one ended, or two when Fmt
   printed an empty line, so the second run prints the same empty lines *)
Theorem C09_idempotent : forall data out, fmt_runes data = Ok out -> fmt_runes out = Ok out.
Proof. exact fmt_idempotent. Qed.
Print Assumptions C09_idempotent.

(* ---- the full statement ---------------------------------------------------------------------------- *)
Theorem C09_full : C09_full_statement.
Proof. exact fmt_full. Qed.
Print Assumptions C09_full.

(* ---- the same on Go strings (bytes) ---------------------------------------------------------------- *)
(* Fmt(input string) = string(fmt_runes([]rune(input))): fmt_bytes = utf8_encode . fmt_runes . utf8_decode,
   ParseFile(input) = parse_runes([]rune(input)).  The statement over ALL byte strings the parser accepts
   (invalid UTF-8 included: such bytes are read as U+FFFD): Fmt succeeds, the parser accepts the output
   bytes, their fragments have the same documents as the input's, and Fmt of the output bytes is the
   output bytes.  Rests on: []rune(s) only yields valid runes (decode_valid), string([]rune) read back by
   []rune is the identity on valid runes (decode_encode), and the formatter writes only runes of its input
   and ASCII (fmt_runes_closed: lexer literals, walker fragments, every text the formatter builds) *)
Definition C09_full_statement_bytes : Prop :=
  forall input, accepted_bytes input ->
    exists outb fs fs',
      fmt_bytes input = Ok outb /\ accepted_bytes outb /\
      collect_fragments (utf8_decode input) = Ok fs /\ collect_fragments (utf8_decode outb) = Ok fs' /\
      map doc_of fs' = map doc_of fs /\
      fmt_bytes outb = Ok outb.

Theorem C09_full_bytes : C09_full_statement_bytes.
Proof. exact fmt_full_bytes. Qed.
Print Assumptions C09_full_bytes.

Theorem C09_same_tree_bytes : forall input body, parse_file input true = Ok (mkP (Some body) []) ->
  exists outb body', fmt_bytes input = Ok outb /\ parse_file outb true = Ok (mkP (Some body') []) /\
                     map stmt_doc body' = map stmt_doc body.
Proof. exact fmt_same_tree_bytes. Qed.
Print Assumptions C09_same_tree_bytes.

Theorem C09_idempotent_bytes : forall input outb, fmt_bytes input = Ok outb -> fmt_bytes outb = Ok outb.
Proof. exact fmt_bytes_idempotent. Qed.
Print Assumptions C09_idempotent_bytes.

(* idempotence seen through the edit list (C19's FmtDiffs): the full statement is that the editor is offered NO edit
   for formatted text.  Proved (BclFmtDiffsIdemProofs.v) up to one boolean condition on the diffs ds the second run
   computes from the output: [extent_ok ds] = every diff spans exactly the lines of its own text.  Everything else is
   proved for all accepted inputs: y is the joined text of ds, the start lines of ds are exact, nothing is merged,
   no leading / gap / replacement edit.  (C09_idempotent_bytes, the text-level clause, is unconditional.) *)
Definition C09_formatted_no_edits_full_statement : Prop :=
  forall x y, fmt_bytes x = Ok y -> fmt_diffs y = Ok [].

Theorem C09_formatted_no_edits_partial : forall x y, fmt_bytes x = Ok y ->
  exists ds, collect_fmt (utf8_decode y) = Ok ds /\ y = utf8_encode (fmt_join ds true (-1)) /\
             (extent_ok ds = true -> fmt_diffs y = Ok []).
Proof. exact fmt_diffs_idem_extent. Qed.
Print Assumptions C09_formatted_no_edits_partial.

(* non-vacuity: a block with a description that is re-flowed, a multi-line block comment and an empty line; the
   second run's diffs satisfy the condition and the edit list of the formatted text is empty *)
Example C09_formatted_no_edits_example :
  let src := [97;32;123;10;124;32;100;32;32;101;10;10;10;47;42;32;99;10;32;42;47;10;120;61;91;49;44;50;93;10;125;10]%N in
  (* a { / | d  e / (2 empty lines) / (block comment over 2 lines) / x=[1,2] / } *)
  exists y ds, fmt_bytes src = Ok y /\ y <> src /\ collect_fmt (utf8_decode y) = Ok ds /\
    extent_ok ds = true /\ fmt_diffs y = Ok [] /\ fmt_bytes y = Ok y.
Proof. cbv zeta. do 2 eexists. split; [vm_compute; reflexivity|]. split; [discriminate|]. split; [vm_compute; reflexivity|]. repeat split; vm_compute; reflexivity. Qed.

(* the three facts the byte level adds *)
Theorem C09_decode_yields_valid_runes : forall bs, Forall (fun c => valid_rune c = true) (utf8_decode bs).
Proof. exact decode_valid. Qed.
Print Assumptions C09_decode_yields_valid_runes.

Theorem C09_decode_encode : forall rs, Forall (fun c => valid_rune c = true) rs -> utf8_decode (utf8_encode rs) = rs.
Proof. exact decode_encode. Qed.
Print Assumptions C09_decode_encode.

Theorem C09_formatter_emits_input_runes_and_ascii : forall (P : N -> Prop), (forall c, (c < 128)%N -> P c) ->
  forall data out, Forall P data -> fmt_runes data = Ok out -> Forall P out.
Proof. exact fmt_runes_closed. Qed.
Print Assumptions C09_formatter_emits_input_runes_and_ascii.

(* the output is always valid UTF-8, also for an input that is not *)
Theorem C09_output_is_utf8 : forall input outb, fmt_bytes input = Ok outb -> utf8_encode (utf8_decode outb) = outb.
Proof. exact fmt_bytes_output_utf8. Qed.
Print Assumptions C09_output_is_utf8.

(* ---- `j5 j5s fmt --write`: which files are written, with what bytes (model/BclCli.v) ----------------- *)
(* A file tree is a list of (path, content) with distinct paths.  run_fmt models runJ5sFmt / runForJ5Files /
   fileWriter.PutFile: --dir visits the files whose extension is .j5s in fs.WalkDir order and stops at the
   first one the formatter rejects; --file formats the one file; only --write writes.
   [format_tree t]: every .j5s entry replaced by Fmt's output, every other entry as it was *)
Theorem C09_cli_without_write_changes_nothing : forall target t, fs_after (run_fmt target false t) = t.
Proof. exact fmt_without_write_changes_nothing. Qed.
Print Assumptions C09_cli_without_write_changes_nothing.

Theorem C09_cli_dir_write : forall t, NoDup (map fst t) ->
  (forall p d, In (p, d) t -> is_j5s p = true -> exists o, fmt_bytes d = Ok o) ->
  run_fmt TDir true t = mkCli (format_tree t) [] None.
Proof. exact fmt_dir_write_spec. Qed.
Print Assumptions C09_cli_dir_write.

(* the first rejected source in walk order ends the run: the sources before it are rewritten, it and the later
   ones (and every other file) are untouched, the command reports it *)
Theorem C09_cli_dir_write_stops_at_first_rejected : forall t pre p d post, NoDup (map fst t) ->
  j5s_files t = pre ++ (p, d) :: post ->
  Forall (fun e => exists o, fmt_bytes (snd e) = Ok o) pre -> ~ (exists o, fmt_bytes d = Ok o) ->
  run_fmt TDir true t = mkCli (map (rewrite_by pre) t) [] (Some p).
Proof. exact fmt_dir_write_stops. Qed.
Print Assumptions C09_cli_dir_write_stops_at_first_rejected.

Theorem C09_cli_file_write : forall t p d, NoDup (map fst t) -> In (p, d) t -> (exists o, fmt_bytes d = Ok o) ->
  run_fmt (TFile p) true t = mkCli (map (fun e => if path_eqb (fst e) p then (fst e, fmt_out d) else e) t) [] None.
Proof. exact fmt_file_write_spec. Qed.
Print Assumptions C09_cli_file_write.

(* running the command a second time succeeds and leaves every file as it is *)
Theorem C09_cli_second_run_changes_nothing : forall t, NoDup (map fst t) ->
  (forall p d, In (p, d) t -> is_j5s p = true -> exists o, fmt_bytes d = Ok o) ->
  run_fmt TDir true (format_tree t) = mkCli (format_tree t) [] None.
Proof. exact fmt_dir_write_twice. Qed.
Print Assumptions C09_cli_second_run_changes_nothing.

(* and what is then on disk: every source the parser accepted is replaced by bytes the parser accepts, with
   the same document, that Fmt maps to themselves *)
Theorem C09_cli_write_keeps_documents : forall t, NoDup (map fst t) ->
  (forall p d, In (p, d) t -> is_j5s p = true -> exists o, fmt_bytes d = Ok o) ->
  forall p d, In (p, d) t -> is_j5s p = true -> accepted_bytes d ->
    exists d' fs fs', In (p, d') (fs_after (run_fmt TDir true t)) /\ accepted_bytes d' /\
      collect_fragments (utf8_decode d) = Ok fs /\ collect_fragments (utf8_decode d') = Ok fs' /\
      map doc_of fs' = map doc_of fs /\ fmt_bytes d' = Ok d'.
Proof. exact fmt_dir_write_keeps_documents. Qed.
Print Assumptions C09_cli_write_keeps_documents.

(* ---- the model is the code (tie) ---------------------------------------------------------------------- *)
(* tokenSource: for every token type and every literal, the model's text is the arm of the Go switch (gen/BclFmtGen.v:
   the returned expressions as lib/GoExpr terms, the stringEscaper pairs), evaluated; Fmt's loop likewise *)
Theorem C09_token_source_is_the_code : forall t l,
  VS (token_source (mkTok t l pos0 pos0)) = ev [("tok.Lit"%string, VS l)] (arm_for t).
Proof. exact token_source_all. Qed.
Print Assumptions C09_token_source_is_the_code.

Theorem C09_fmt_loop_is_the_code : forall ds,
  fmt_join_tab ds 0 (ev [] (assign_of "fmt.go:Fmt"%string 1)) = fmt_join ds true (-1).
Proof. exact fmt_runes_join_all. Qed.
Print Assumptions C09_fmt_loop_is_the_code.

Theorem C09_description_layout_is_the_code : forall indent d,
  multi_tab indent (dsstart d) (dsend d)
    (match reformat_description (dvalue d) (width_tab indent) with [] => [[]] | o => o end) = Some (description_diff indent d).
Proof. exact description_diff_all. Qed.
Print Assumptions C09_description_layout_is_the_code.

Theorem C09_reflow_is_the_code : forall input maxw,
  reformat_tab maxw (split_on 10 input) []
    (is_true (ev [("true"%string, VB true)] (assign_of "description.go:reformatDescription"%string 3))) []
  = reformat_description input maxw.
Proof. exact reformat_description_all. Qed.
Print Assumptions C09_reflow_is_the_code.

(* non-vacuity: a string with every escapable rune, a regex with slashes, nested array, trailing
   comment, description: accepted, formatted, the output accepted with the same document, and a
   second formatting changes nothing *)
Example C09_example :
  let src := utf8_decode [120;61;91;34;97;92;34;92;92;92;10;98;9;34;44;47;97;47;47;98;47;44;91;49;93;93;32;47;47;99;10;124;32;32;100;32;32;101;10]%N in
  exists out fs fs',
    fmt_runes src = Ok out /\ accepted out /\ collect_fragments src = Ok fs /\ collect_fragments out = Ok fs' /\
    map doc_of fs' = map doc_of fs /\ fmt_runes out = Ok out /\ out <> src.
Proof.
  cbv zeta. do 3 eexists.
  split; [vm_compute; reflexivity|]. split; [eexists; vm_compute; reflexivity|].
  split; [vm_compute; reflexivity|]. split; [vm_compute; reflexivity|].
  split; [vm_compute; reflexivity|]. split; [vm_compute; reflexivity|]. vm_compute. discriminate.
Qed.

(* non-vacuity on bytes: a two-byte rune inside a string literal; an invalid byte is formatted to U+FFFD *)
Example C09_example_bytes :
  fmt_bytes [97; 61; 34; 195; 169; 34; 10]%N = Ok [97; 32; 61; 32; 34; 195; 169; 34; 10]%N /\
  accepted_bytes [97; 61; 34; 195; 169; 34; 10]%N /\
  fmt_bytes [97; 61; 34; 195; 34; 10]%N = Ok [97; 32; 61; 32; 34; 239; 191; 189; 34; 10]%N.
Proof. split; [vm_compute; reflexivity|]. split; [eexists; vm_compute; reflexivity|vm_compute; reflexivity]. Qed.

(* non-vacuity for the command: walk order is by path component (a/b.j5s before a-/q.j5s before a.j5s), the
   rejected a.j5s stops the run, z.j5s is not reached, notes.txt is not a source *)
Example C09_example_cli :
  let raw := [120;32;32;61;32;49;10]%N in let fixed := [120;32;61;32;49;10]%N in let bad := [120;32;61;32;61;10]%N in
  let p (s : list (list N)) := s in
  let a := p [[97;46;106;53;115]]%N in let ab := p [[97];[98;46;106;53;115]]%N in let aq := p [[97;45];[113;46;106;53;115]]%N in
  let z := p [[122;46;106;53;115]]%N in let n := p [[115;117;98];[110;46;116;120;116]]%N in
  run_fmt TDir true [(aq, raw); (a, bad); (ab, raw); (n, raw); (z, raw)]
  = mkCli [(aq, fixed); (a, bad); (ab, fixed); (n, raw); (z, raw)] [] (Some a) /\
  map fst (j5s_files [(aq, raw); (a, bad); (ab, raw); (n, raw); (z, raw)]) = [ab; aq; a; z].
Proof. cbv zeta. split; vm_compute; reflexivity. Qed.

(* C17 — entity declarations expand to a complete, mutually consistent API.
   Only statements, closed by [exact lemma], with Print Assumptions beneath.
   Model: model/Entity.v (entityNode.run after fix d657973).  [expand e] is what the
   walker emits (Err for an unknown default status filter / duplicate summary name),
   [compile e] adds the reference resolution of j5convert. *)
From Coq Require Import String List NArith Bool.
From J5V.lib Require Import Outcome Strcase.
From J5V.model Require Import Entity.
From J5V.gen Require EntityGen.
From J5V.proofs Require Import StrcaseProofs EntityProofs EntityGenProofs.
Import ListNotations.
Local Open Scope N_scope.

(* the property at full strength, for every declaration the walker accepts *)
Definition C17_full_statement : Prop :=
  forall e cs, expand e = Ok cs ->
    (* exactly the documented components, in order, named from the entity name *)
    map skel cs = spec_skeleton e
    (* every internal reference resolves inside the expansion or the implicit imports *)
    /\ closed cs = true /\ compile e = Ok cs
    (* the same entity annotation on every part that carries one *)
    /\ Forall (eq (snake_name e)) (psm_entities cs)
    /\ Forall (eq (snake_name e)) (service_entities cs)
    /\ Forall (eq (full_name e)) (topic_entities cs)
    (* the schemas file holds Keys, Data, State, EventType, Event with the documented shapes *)
    /\ (exists fl, msgs_of_file 0 cs = [keys_msg e; data_msg e; state_msg e fl; event_type_msg e; event_msg e]).

Theorem C17_full : C17_full_statement.
Proof.
  intros e cs H. destruct (expand_ok_inv e cs H) as [fl [_ [_ ->]]].
  destruct (same_annotation e fl) as [A1 [A2 A3]].
  repeat split; try assumption.
  - apply expand_skeleton.
  - apply expand_closed.
  - rewrite compile_expand. exact H.
  - exists fl. apply main_file_messages.
Qed.
Print Assumptions C17_full.

(* 1. the exact component list: Keys, Data, Status, State, EventType, Event schemas; the
      query service with Get/List/Events and their request/response messages; every
      declared command service; the publish topic; one upsert topic per summary *)
Theorem C17_components : forall e fl, map skel (expand_with e fl) = spec_skeleton e.
Proof. exact expand_skeleton. Qed.
Print Assumptions C17_components.

(* 2. closedness, for ALL declarations (no camel-stability hypothesis is needed after the
      fix: definition and reference sites compute the same name) *)
Theorem C17_closed : forall e fl, closed (expand_with e fl) = true.
Proof. exact expand_closed. Qed.
Print Assumptions C17_closed.

Theorem C17_compile_is_expand : forall e, compile e = expand e.
Proof. exact compile_expand. Qed.
Print Assumptions C17_compile_is_expand.

Theorem C17_expand_total : forall e, is_panic (expand e) = false /\ expand e <> OutOfFuel.
Proof. exact expand_total. Qed.
Print Assumptions C17_expand_total.

(* 3. the same annotation everywhere: psm options and service options carry
      ToSnake(name), topics carry <package>.ToCamel(name) *)
Theorem C17_same_annotation : forall e fl,
  Forall (eq (snake_name e)) (psm_entities (expand_with e fl))
  /\ Forall (eq (snake_name e)) (service_entities (expand_with e fl))
  /\ Forall (eq (full_name e)) (topic_entities (expand_with e fl)).
Proof. exact same_annotation. Qed.
Print Assumptions C17_same_annotation.

(* 4. State and Event: metadata + flattened keys + data/status, or + the event oneof *)
Theorem C17_main_file : forall e fl,
  msgs_of_file 0 (expand_with e fl) =
    [keys_msg e; data_msg e; state_msg e fl; event_type_msg e; event_msg e].
Proof. exact main_file_messages. Qed.
Print Assumptions C17_main_file.

Theorem C17_state_event_shapes : forall e fl,
  map shape (m_fields (state_msg e fl)) =
    [ (bs "metadata", TObject (bs "j5.state.v1") (bs "StateMetadata"), true, false);
      (bs "keys", TObject [] (m_name (keys_msg e)), true, true);
      (bs "data", TObject [] (m_name (data_msg e)), true, false);
      (bs "status", TEnum [] (component_name e (bs "Status")), true, false) ]
  /\ map shape (m_fields (event_msg e)) =
    [ (bs "metadata", TObject (bs "j5.state.v1") (bs "EventMetadata"), true, false);
      (bs "keys", TObject [] (m_name (keys_msg e)), true, true);
      (bs "event", TOneof [] (m_name (event_type_msg e)), true, false) ]
  /\ m_psm (keys_msg e) = Some (snake_name e, 1) /\ m_psm (state_msg e fl) = Some (snake_name e, 2)
  /\ m_psm (event_msg e) = Some (snake_name e, 3) /\ m_psm (data_msg e) = Some (snake_name e, 4).
Proof. exact state_event_shapes. Qed.
Print Assumptions C17_state_event_shapes.

(* 5. the event oneof has exactly one option per declared event, in order, each pointing
      at the nested message of that event's name *)
Theorem C17_event_oneof : forall e,
  let m := event_type_msg e in
  m_oneof m = true
  /\ map fst (m_nested m) = map ev_name (e_events e)
  /\ map f_json (m_fields m) = map (fun ev => to_lower_camel (ev_name ev)) (e_events e)
  /\ Forall2 (fun f n => f_type f = TObject [] (m_name m ++ [46] ++ fst n)) (m_fields m) (m_nested m)
  /\ map snd (m_nested m) = map (fun ev => map of_ufield (ev_fields ev)) (e_events e).
Proof. exact event_oneof_bijection. Qed.
Print Assumptions C17_event_oneof.

(* 6. primary keys: required, in declaration order, and in that order among the path
      parameters of Get and Events (which are the primary and the shard keys) *)
Theorem C17_keys_declaration_order : forall e,
  map f_json (m_fields (keys_msg e)) = map (fun k => uf_name (k_def k)) (e_keys e).
Proof. exact keys_in_declaration_order. Qed.
Print Assumptions C17_keys_declaration_order.

Theorem C17_primary_keys_required : forall e f,
  In f (m_fields (keys_msg e)) -> f_primary f = true -> f_required f = true.
Proof. exact primary_keys_required. Qed.
Print Assumptions C17_primary_keys_required.

Theorem C17_path_keys_primary : forall e, filter is_primary (get_keys e) = primary_keys e.
Proof. exact get_keys_primary. Qed.
Print Assumptions C17_path_keys_primary.

Theorem C17_path_keys_no_shard : forall e,
  (forall k, In k (e_keys e) -> k_shard k = false) -> get_keys e = primary_keys e.
Proof. exact get_keys_no_shard. Qed.
Print Assumptions C17_path_keys_no_shard.

Theorem C17_query_service : forall e,
  exists s, In (CSvc 1 s) (query_components e)
    /\ sv_name s = query_prefix e ++ bs "QueryService" /\ sv_ann s = SQuery (snake_name e)
    /\ map mt_name (sv_methods s) = [query_prefix e ++ bs "Get"; query_prefix e ++ bs "List"; query_prefix e ++ bs "Events"]
    /\ map mt_sq (sv_methods s) = [1; 2; 3] /\ map mt_verb (sv_methods s) = [1; 1; 1]
    /\ map mt_path (sv_methods s) = query_paths e.
Proof. exact query_service_methods. Qed.
Print Assumptions C17_query_service.

Theorem C17_get_events_paths : forall e,
  Forall (fun k => no_slash (uf_name (k_def k)) = true) (e_keys e) ->
  nth 0 (query_paths e) [] =
    match get_keys e with
    | [] => http_rule_path (query_base e)
    | ks => http_rule_path (query_base e) ++ [47] ++ join [47] (map brace ks)
    end
  /\ nth 2 (query_paths e) [] =
       http_rule_path (query_base e) ++ [47] ++ join [47] (map brace (get_keys e) ++ [bs "events"]).
Proof. exact get_events_paths. Qed.
Print Assumptions C17_get_events_paths.

(* 7. statuses are numbered 1..n in declaration order after <PREFIX>UNSPECIFIED = 0
      (the hypothesis excludes a first status that itself ends in UNSPECIFIED, which
      visitEnumNode puts in slot 0) *)
Theorem C17_status_numbering : forall p l,
  match l with s :: _ => has_suffix (bs "UNSPECIFIED") s = false | [] => True end ->
  status_values p l = (p ++ bs "UNSPECIFIED", 0) :: number_from 1 p l
  /\ forall k, (k < length l)%nat ->
       nth_error (status_values p l) (S k) = Some (status_value_name p (nth k l []), N.of_nat (S k)).
Proof. exact status_numbering. Qed.
Print Assumptions C17_status_numbering.

(* the documented names (README: FooKeys, FooQueryService, FooPublishTopic) for
   UpperCamel entity names *)
Theorem C17_names_upper_camel : forall e,
  upper_word (e_name e) = true ->
  camel_name e = e_name e /\ query_prefix e = e_name e
  /\ (ends_cap (e_name e) = false ->
      to_camel (camel_name e ++ bs "Publish") ++ bs "Topic" = e_name e ++ bs "PublishTopic").
Proof. exact names_upper_camel. Qed.
Print Assumptions C17_names_upper_camel.

(* the tie: entity.go still defines State/EventType/Event through componentName and
   applies no strcase function to a concatenation; Strcase.v models the pinned version *)
Theorem C17_code_tables :
  model_run_order = EntityGen.run_order /\ model_suffix_sites = EntityGen.suffix_sites
  /\ EntityGen.camel_of_concat_sites = 0 /\ model_strcase_calls = EntityGen.strcase_calls
  /\ model_formats = EntityGen.sprintf_formats /\ model_property_names = EntityGen.property_names
  /\ EntityGen.entity_name_function = "ToSnake"%string
  /\ EntityGen.strcase_version = "v0.3.0"%string /\ EntityGen.configure_acronym_occurrences = 0.
Proof.
  exact (conj run_order_agrees (conj suffix_sites_agree (conj no_camel_of_concatenation
        (conj strcase_calls_agree (conj formats_agree (conj property_names_agree
        (conj entity_name_is_snake (conj strcase_version_agrees no_acronyms_configured)))))))).
Qed.
Print Assumptions C17_code_tables.

(* the repaired defect (#16): the pre-fix definition-site name ToCamel(name ++ suffix)
   equals the reference-site name exactly for names not ending in a capital — so the fix
   changes nothing that compiled before — and differs for "FooS" *)
Theorem C17_legacy_naming_iff : forall e,
  ident (e_name e) = true ->
  (legacy_name e (bs "State") = component_name e (bs "State") <-> ends_cap (e_name e) = false)
  /\ (legacy_name e (bs "EventType") = component_name e (bs "EventType") <-> ends_cap (e_name e) = false)
  /\ (legacy_name e (bs "Event") = component_name e (bs "Event") <-> ends_cap (e_name e) = false).
Proof. exact legacy_naming_agrees_iff. Qed.
Print Assumptions C17_legacy_naming_iff.

Theorem C17_legacy_naming_refuted :
  exists e, ident (e_name e) = true /\ legacy_name e (bs "State") <> component_name e (bs "State").
Proof. exact legacy_naming_refuted. Qed.
Print Assumptions C17_legacy_naming_refuted.

(* non-vacuity: a declaration with two keys (one primary, one shard+tenant), data, two
   statuses, two events, a command service, a summary and query settings is accepted, and
   an entity whose name ends in a capital too *)
Definition C17_sample : entity :=
  mkE (bs "foo.v1") (bs "FooS") []
      [mkK (mkU (bs "fooId") (KKey true None) false) false;
       mkK (mkU (bs "accountId") (KKey false (Some (bs "account"))) true) true]
      [mkU (bs "name") (KScalar 9 (bs "string")) true]
      [bs "ACTIVE"; bs "INACTIVE"]
      [mkEv (bs "Create") [mkU (bs "name") (KScalar 9 (bs "string")) false]; mkEv (bs "Archive") []]
      [mkC None None [mkM (bs "DoIt") 2 (bs ":fooId/doit") [mkU (bs "fooId") (KKey false None) false] []]]
      [mkS [] [mkU (bs "name") (KScalar 9 (bs "string")) false]]
      (Some (mkQ true [bs "ACTIVE"])).

Example C17_example :
  (exists cs, compile C17_sample = Ok cs /\ length cs = 20%nat)
  /\ nth 0 (query_paths C17_sample) [] = bs "/foo/v1/foo_s/q/{foo_id}/{account_id}"
  /\ nth 2 (query_paths C17_sample) [] = bs "/foo/v1/foo_s/q/{foo_id}/{account_id}/events"
  /\ status_values (status_prefix C17_sample) (e_status C17_sample)
     = [(bs "FOO_S_STATUS_UNSPECIFIED", 0); (bs "FOO_S_STATUS_ACTIVE", 1); (bs "FOO_S_STATUS_INACTIVE", 2)]
  /\ Forall (fun k => no_slash (uf_name (k_def k)) = true) (e_keys C17_sample)
  /\ upper_word (e_name C17_sample) = true.
Proof.
  split; [eexists; split; [vm_compute; reflexivity|reflexivity]|].
  repeat split; try (vm_compute; reflexivity). repeat constructor.
Qed.

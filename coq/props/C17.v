(* C17 — entity declarations expand to a complete, mutually consistent API.
   Only statements, closed by [exact lemma], with Print Assumptions beneath.
   Model: model/Entity.v (entityNode.run after fix d657973).  [expand e] is what the walker
   emits (Err for an unknown default status filter / duplicate summary name), [convert e] adds
   the reference resolution and field checks of j5convert, [compile e] adds the parser's
   "status is required" and the link step (symbol conflicts per scope).
   The property itself is stated against proofs/EntitySpec.v: a declarative specification
   written from the property text / README over ANY component list (lookups by name, no builder
   of the model), with the quantifier as the predicate [in_quantifier].
   Part A: the property (full statement, proved; the converse; the strict reading refuted).
   Part B: theorems about the expansion (closedness, paths, naming, client grouping).
   Part C: sanity lemmas (`Example`): read-backs of the model's own builders, kept because the
           correspondence check compares exactly these shapes with the real descriptors. *)
From Coq Require Import String List NArith Bool Permutation.
From J5V.lib Require Import Outcome Strcase.
From J5V.model Require Import Entity EntityClient.
From J5V.gen Require EntityGen.
From J5V.proofs Require Import StrcaseProofs EntityProofs EntityGenProofs EntityReadmeProofs EntityClientProofs
  EntitySpec EntitySpecProofs EntityAcceptProofs EntityListProofs EntityFieldTypes.
Import ListNotations.
Local Open Scope N_scope.

(* ======================= Part A: the property ============================================ *)

(* the property at full strength.  The quantifier of the property text ("any entity name casing, 1..n
   keys of any type with any mix of markers, ...") ranges over casings, types, markers and counts; it
   does not promise that every NAME is free, and the compiler reserves the five field names its own
   expansion puts next to the user's: since fix a5547b9 it rejects them BY NAME, at the source position of
   the offending key / summary field / event / oneof option / entity (before the fix the same
   declarations failed at link time inside a generated file: four former `known:` findings).
   So: every declaration in the quantifier ([in_quantifier], a predicate on the declaration) either
   uses none of the reserved names ([reserved_free]) - then it compiles and what it compiles to satisfies
   every clause of the specification (EntitySpec.C17_spec: the schemas and their shapes, the event oneof
   bijection, required primary keys, the query service with the path parameters of Get and Events,
   command services, topics, one entity annotation, closed and linkable) - or it uses one, and then the
   compiler's answer is the reserved-name diagnostic and nothing else. *)
Definition C17_full_statement : Prop :=
  forall e, in_quantifier e = true ->
    (reserved_free e = true -> exists cs, compile e = Ok cs /\ C17_spec_all e cs)
    /\ (reserved_free e = false -> compile e = Err "reserved name").

(* C17_spec_all = C17_spec (schemas and shapes, event oneof, keys, query service and paths, commands, topics,
   annotations, closed + linkable) /\ spec_names ("all named from the entity name": the exact status values and
   numbers, the query service's six messages, command services and their methods' messages, publish and upsert
   topics with their methods and messages) /\ spec_query_settings (the responses of Get / List / Events incl.
   "events in get"; the default status filters on State.status) *)
Theorem C17_full : C17_full_statement.
Proof. intros e Hq. split; [exact (full_all_clauses e Hq)|exact (reserved_rejected e Hq)]. Qed.
Print Assumptions C17_full.

(* the exact names and the query settings hold of EVERYTHING the model of the compiler accepts *)
Theorem C17_names_and_query_settings : forall e cs, compile e = Ok cs -> spec_names e cs /\ spec_query_settings e cs.
Proof. exact accepted_names_settings. Qed.
Print Assumptions C17_names_and_query_settings.

(* THE CONVERSE that was missing: on the quantifier the compiler fails IF AND ONLY IF the declaration uses
   a reserved name; the failure is the reserved-name diagnostic; and it succeeds iff there is none *)
Theorem C17_fails_exactly_on_reserved : forall e, in_quantifier e = true ->
  ((exists s, compile e = Err s) <-> reserved_free e = false)
  /\ (compile e = Err "reserved name" <-> reserved_free e = false)
  /\ ((exists cs, compile e = Ok cs) <-> reserved_free e = true).
Proof. exact fails_exactly_on_reserved. Qed.
Print Assumptions C17_fails_exactly_on_reserved.

(* for EVERY declaration (in the quantifier or not): nothing with a reserved name is ever accepted *)
Theorem C17_accepted_reserved_free : forall e cs, compile e = Ok cs -> reserved_free e = true.
Proof. exact accepted_reserved_free. Qed.
Print Assumptions C17_accepted_reserved_free.

(* the spec's list of reserved names (written over the declaration) is exactly what the model of the
   compiler checks: entityNode.checkReservedNames (walker) and visitOneofNode (option named type) *)
Theorem C17_reserved_free_is_the_compilers : forall e,
  reserved_free e = walker_reserved_free e && oneof_type_free e.
Proof. exact reserved_free_split. Qed.
Print Assumptions C17_reserved_free_is_the_compilers.

(* THE QUANTIFIER IS A PREDICATE ON THE DECLARATION: about the three package scopes it asks only that the names
   the USER puts there (block schemas and their enum values; method request / response messages and command
   services; summary topics and messages) are pairwise distinct and differ from the generated names
   ([user_names_ok]).  That the GENERATED names - six schemas, status values, the query service and its six
   messages, the publish topic and its message - never collide among themselves holds for EVERY declaration
   (status values: because their protobuf canonical names differ, sp_enums_ok), and the distinctness of the
   whole scopes - the link step's package symbol tables - is DERIVED from it, not assumed *)
Theorem C17_generated_names_never_collide : forall e,
  (sp_enums_ok e = true -> NoDup (sp_main_generated e))
  /\ NoDup (sp_service_generated e) /\ NoDup (sp_topic_generated e).
Proof. intros e. exact (conj (generated_main_nodup e) (conj (generated_service_nodup e) (generated_topic_nodup e))). Qed.
Print Assumptions C17_generated_names_never_collide.

(* "the options of one enum are distinct names for protobuf" ([sp_enums_ok], stated in EntitySpec.v on the declaration:
   statuses, block enums, inline enums at any depth, with the documented value lists) is exactly the check the model
   of the converter runs on the enums it builds (fix 4fb405b) *)
Theorem C17_enum_names_predicate_is_the_converters : forall e, sp_enums_ok e = decl_enums_ok e.
Proof. exact enums_ok_eq. Qed.
Print Assumptions C17_enum_names_predicate_is_the_converters.

Theorem C17_scopes_distinct_from_user_names : forall e, in_quantifier e = true ->
  NoDup (sp_main_scope e) /\ NoDup (sp_service_scope e) /\ NoDup (sp_topic_scope e).
Proof.
  intros e H. pose proof (quantified_of e H) as Q.
  repeat split; apply nodup_bytes_NoDup; [exact (q_main e Q)|exact (q_service e Q)|exact (q_topic e Q)].
Qed.
Print Assumptions C17_scopes_distinct_from_user_names.

(* the STRICT reading - "any name": every declaration in the quantifier compiles - is false, of the
   model and of the real compiler alike (each witness replayed on the real compiler by the correspondence
   on every run: class `reserved name`).  Not a defect any more: the rejection is the designed diagnostic. *)
Definition C17_strict_statement : Prop :=
  forall e, in_quantifier e = true -> exists cs, compile e = Ok cs /\ C17_spec e cs.
Theorem C17_strict_reading_refuted : ~ C17_strict_statement.
Proof. exact strict_reading_refuted. Qed.
Print Assumptions C17_strict_reading_refuted.

Theorem C17_reserved_key_rejected :
  in_quantifier (mk_min "page") = true /\ compile (mk_min "page") = Err "reserved name"
  /\ in_quantifier (mk_min "query") = true /\ compile (mk_min "query") = Err "reserved name".
Proof. exact reserved_key_rejected. Qed.
Print Assumptions C17_reserved_key_rejected.

(* a summary field named upsert; an event named Type (its option "type" next to the proto oneof "type") *)
Theorem C17_summary_upsert_rejected :
  in_quantifier upsert_sample = true /\ compile upsert_sample = Err "reserved name".
Proof. exact summary_upsert_rejected. Qed.
Print Assumptions C17_summary_upsert_rejected.

Theorem C17_event_type_rejected :
  in_quantifier type_event_sample = true /\ compile type_event_sample = Err "reserved name".
Proof. exact event_type_rejected. Qed.
Print Assumptions C17_event_type_rejected.

(* an entity named Page (or Events, with eventsInGet): the entity's own property in the List (Get)
   response has the name of the page (events) property next to it *)
Theorem C17_entity_named_page_rejected :
  in_quantifier page_entity = true /\ compile page_entity = Err "reserved name".
Proof. exact entity_named_page_rejected. Qed.
Print Assumptions C17_entity_named_page_rejected.

(* THE POSITIVE HALF, on its own: the full clause list for every declaration without reserved names.
   [reserved_free e]: no primary/shard key named page or query, no summary field named upsert, no
   event or oneof option named type, the entity not named page (nor events when eventsInGet is set)
   - exactly the names the compiler rejects by its reserved-name diagnostic (the four witnesses above).
   Such a declaration in the quantifier is ACCEPTED (parser validation, walker, conversion, link
   step) and its output satisfies every clause of the specification.  A key named metadata / data /
   status / event, an optional array or map are NOT reserved:
   they are inside the quantifier and satisfy the property (see C17_unreserved_names below). *)
Theorem C17_full_modulo_reserved : forall e, in_quantifier e = true -> reserved_free e = true ->
  exists cs, compile e = Ok cs /\ C17_spec e cs.
Proof. exact full_modulo_reserved. Qed.
Print Assumptions C17_full_modulo_reserved.

(* the same for a source file with several entity declarations (they share the three packages) *)
Theorem C17_file_acceptance : forall es, file_quantifier es = true -> exists cs, compile_file es = Ok cs.
Proof. exact file_acceptance. Qed.
Print Assumptions C17_file_acceptance.

(* THE FULL STATEMENT FOR SOURCE FILES WITH SEVERAL DECLARATIONS ("each entity declaration yields ..."):
   every declaration of an admissible file yields its own components - the file compiles to their
   concatenation, in declaration order - and each part satisfies every clause of the specification for
   its declaration *)
Theorem C17_file_full_modulo_reserved : forall es, file_quantifier es = true ->
  exists l, compile_file es = Ok (concat l)
            /\ Forall2 (fun e cs => compile e = Ok cs /\ C17_spec_all e cs) es l.
Proof. exact file_full_modulo_reserved. Qed.
Print Assumptions C17_file_full_modulo_reserved.

Theorem C17_acceptance : forall e, in_quantifier e = true -> reserved_free e = true -> exists cs, compile e = Ok cs.
Proof. exact acceptance. Qed.
Print Assumptions C17_acceptance.

(* names and shapes that earlier versions of this check recorded as findings and that contradict NO
   clause of C17 (known-findings audit 2.6-2.8): they are inside the quantifier, free of reserved names,
   and therefore covered by C17_full_modulo_reserved.  What they do to other properties' clauses
   (C18: unique property names; C16: the client API derives without error) is stated in
   proofs/EntitySpecProofs.v as facts about the model (state_property_names_witness,
   status_case_in_scope), not as refutations of C17. *)
Theorem C17_unreserved_names :
  forallb (fun n => in_quantifier (mk_min n) && reserved_free (mk_min n))
          ["status"; "metadata"; "data"; "event"; "keys"; "events"]%string = true
  /\ (in_quantifier optional_array_sample = true /\ reserved_free optional_array_sample = true).
Proof.
  exact (conj property_named_keys_in_scope
        (conj (proj1 optional_array_in_scope) (proj1 (proj2 optional_array_in_scope)))).
Qed.
Print Assumptions C17_unreserved_names.
(* statuses that differ only in case (Active / ACTIVE) are one protobuf name twice: outside the quantifier
   and rejected by the compiler's enum diagnostic since fix 4fb405b *)
Theorem C17_status_case_out_of_scope :
  in_quantifier status_case_sample = false /\ compile status_case_sample = Err "enum option conflict".
Proof. exact status_case_out_of_scope. Qed.
Print Assumptions C17_status_case_out_of_scope.

(* PARTIAL (2): for EVERY declaration the model compiles (in the quantifier or not, reserved
   names or not) the output satisfies the core specification; for declarations in the
   quantifier the path parameters of Get and Events are exactly the primary and shard keys in
   declaration order and Events = Get + "/events" (no clean-path hypothesis: path.Join's
   cleaning is part of the proof). *)
Theorem C17_full_partial : forall e cs, compile e = Ok cs ->
  C17_spec_core e cs /\ (in_quantifier e = true -> spec_query_paths e cs).
Proof. exact full_partial. Qed.
Print Assumptions C17_full_partial.

(* The List method (round 4, after seeded change C17-J): for every declaration in the quantifier that
   compiles, the path parameters of List are exactly the key-typed keys flagged shardKey - primary
   or not - in declaration order (spec_list_path, over the component list; no base-path hypothesis),
   next to the Get / Events clause, and every List parameter is also a Get / Events parameter. *)
Theorem C17_list_scoped_by_shard_keys : forall e cs, compile e = Ok cs -> in_quantifier e = true ->
  spec_list_path e cs /\ spec_query_paths e cs
  /\ (forall n, In n (shard_key_names e) -> In n (path_key_names e)).
Proof. exact list_scoped_by_shard_keys. Qed.
Print Assumptions C17_list_scoped_by_shard_keys.

(* ... and the List request (EVERY declaration the model compiles): its fields are the shard keys in
   declaration order, then page and query; each key field of the List request is, as a whole field
   (type, key options, required / optional flags), a field of the Get request and of the Events
   request: Get, List and Events agree on the keys they share. *)
Theorem C17_list_request_scoped_by_shard_keys : forall e cs, compile e = Ok cs -> spec_list_request e cs.
Proof. exact list_request_scoped_by_shard_keys. Qed.
Print Assumptions C17_list_request_scoped_by_shard_keys.

(* a key that is BOTH primary and shard is one of List's parameters (every declaration) *)
Theorem C17_primary_shard_key_in_list : forall e k, In k (e_keys e) ->
  key_typed k = true -> key_primary k = true -> k_shard k = true ->
  In (to_snake (key_name k)) (shard_key_names e).
Proof. exact primary_shard_key_in_list. Qed.
Print Assumptions C17_primary_shard_key_in_list.

(* non-vacuity: primary x shard, all four combinations in one declaration of the quantifier *)
Example C17_key_flags_sample :
  in_quantifier key_flags_sample = true /\ is_ok (compile key_flags_sample) = true
  /\ shard_key_names key_flags_sample = [bs "both_id"; bs "shard_id"]
  /\ path_key_names key_flags_sample = [bs "foo_id"; bs "both_id"; bs "shard_id"]
  /\ nth 1 (query_paths key_flags_sample) [] = bs "/foo/v1/foo/q/{both_id}/{shard_id}".
Proof. exact key_flags_sample_ok. Qed.
Print Assumptions C17_key_flags_sample.

(* Field TYPES (round 4): for EVERY declaration the model compiles, each property of the Keys and of
   the Data schema is the declared field - name, type read off the declaration (sp_declared_type:
   scalars, well-known messages, references, arrays / maps of these, inline schemas as nested types
   named Camel(field)), repeated, key flags primary / tenant / foreign key, never flattened - in
   declaration order, nothing else in the message. *)
Theorem C17_field_types_as_declared : forall e cs, compile e = Ok cs -> spec_field_types e cs.
Proof. exact field_types_as_declared. Qed.
Print Assumptions C17_field_types_as_declared.

Example C17_field_types_sample :
  is_ok (compile field_types_sample) = true
  /\ map (fun k => sp_declared_type (k_def k)) (e_keys field_types_sample) = [TScalar 9 (bs "key")]
  /\ map sp_declared_type (e_data field_types_sample) = [TScalar 3 (bs "integer")]
  /\ map sp_repeated (e_data field_types_sample) = [true]
  /\ map (fun k => sp_key_flags (k_def k)) (e_keys field_types_sample) = [(true, Some (bs "org"), None)].
Proof. exact field_types_sample_ok. Qed.
Print Assumptions C17_field_types_sample.

(* NOT a clause of C17 (it is C18's "property names are unique within each object", seen from the
   declaration): State / Event have pairwise distinct JSON properties - after flattening the keys -
   whenever no key is named metadata / data / status / event *)
Theorem C17_objects_distinct_props : forall e cs, compile e = Ok cs ->
  in_quantifier e = true -> state_event_names_free e = true -> spec_objects e cs.
Proof. exact objects_distinct_props. Qed.
Print Assumptions C17_objects_distinct_props.

(* what acceptance by [compile] means: at least one status (the parser's validation), the
   conversion succeeded (references resolve, no optional+required field, path parameters are
   request fields), the walker accepted (default filters are statuses, summary names distinct),
   and no symbol is defined twice in any scope of the three files *)
Theorem C17_compile_accepts : forall e cs, compile e = Ok cs ->
  e_status e <> [] /\ convert e = Ok cs /\ link_ok cs = true
  /\ exists fl, default_filters e (requested_filters e) = Some fl /\ cs = expand_with e fl /\ closed cs = true.
Proof. exact compile_inv. Qed.
Print Assumptions C17_compile_accepts.

(* ======================= Parts B and C: the expansion ====================================== *)
(* Statements introduced by `Example` are SANITY LEMMAS (Part C): they read the model's own
   builders back (proof by unfolding) and say nothing the definition does not; the clauses of
   the property are Part A.  `Theorem`s below are substantive (Part B). *)

(* 1. the exact component list: Keys, Data, Status, State, EventType, Event schemas; the
      query service with Get/List/Events and their request/response messages; every
      declared command service; the publish topic; one upsert topic per summary *)
Example C17_components : forall e fl, map skel (expand_with e fl) = spec_skeleton e.
Proof. exact expand_skeleton. Qed.
Print Assumptions C17_components.

(* 2. closedness, for ALL declarations (no camel-stability hypothesis is needed after the
      fix: definition and reference sites compute the same name): every reference that
      entity.go creates resolves; the file is closed exactly when the user's own object
      references (data/event/command/summary/schema fields of type object:<Name>) do *)
Theorem C17_closed : forall e fl,
  user_refs_ok e (defined (expand_with e fl)) = true -> closed (expand_with e fl) = true.
Proof. exact expand_closed. Qed.
Print Assumptions C17_closed.

Theorem C17_closed_only_if : forall e fl,
  closed (expand_with e fl) = true -> user_refs_ok e (defined (expand_with e fl)) = true.
Proof. exact closed_user_refs. Qed.
Print Assumptions C17_closed_only_if.

Theorem C17_closed_scalars : forall e fl,
  forallb (fun u => negb (is_ref_field u)) (all_ufields e) = true -> closed (expand_with e fl) = true.
Proof. exact expand_closed_scalars. Qed.
Print Assumptions C17_closed_scalars.

(* trees_ok: the references inside tree-form inline schemas (inline schemas nested in inline schemas) resolve;
   fields_ok: no user-declared field is both optional and required/primary (buildProperty);
   *_params_ok: every ":name" part of a method path is a request field (visitServiceMethodNode) *)
Example C17_compile_is_expand : forall e,
  list_settings e = false ->
  (forall fl, user_refs_ok e (defined (expand_with e fl)) = true) ->
  (forall fl, trees_ok e (defined (expand_with e fl)) = true) ->
  fields_ok e = true -> query_params_ok e = true -> command_params_ok e = true -> convert e = expand e.
Proof. exact compile_expand. Qed.
Print Assumptions C17_compile_is_expand.

Example C17_compile_errors : forall e cs, expand e = Ok cs -> list_settings e = false ->
  convert e = if user_refs_ok e (defined cs) && trees_ok e (defined cs) then
                if fields_ok e then
                  if query_params_ok e && command_params_ok e then Ok cs
                  else Err "missing field in request"
                else Err "cannot be both required and optional"
              else Err "type not found".
Proof. exact compile_errors. Qed.
Print Assumptions C17_compile_errors.

(* the generated Get/List/Events methods never miss a path field: their path parameters are
   request properties (keys without '/', a base path without ":name" parts) *)
Theorem C17_query_params_ok : forall e,
  clean_path (query_base e) = query_base e ->
  path_params (query_base e) = [] ->
  Forall (fun k => no_slash (uf_name (k_def k)) = true) (e_keys e) ->
  query_params_ok e = true.
Proof. exact query_params_always_ok. Qed.
Print Assumptions C17_query_params_ok.

Example C17_expand_total : forall e, is_panic (expand e) = false /\ expand e <> OutOfFuel.
Proof. exact expand_total. Qed.
Print Assumptions C17_expand_total.

(* Go panics are not hidden by the model - and the conversion has none: listRequest /
   eventsListRequest settings in the query block (outside C17's quantifier: [in_quantifier] requires
   list_settings e = false) are a positioned conversion error since fix 985f10a (before,
   proto.SetExtension of a MessageOptions extension on MethodOptions panicked) *)
Theorem C17_convert_never_panics : forall e, is_panic (convert e) = false /\ convert e <> OutOfFuel.
Proof. exact convert_never_panics. Qed.
Print Assumptions C17_convert_never_panics.

Theorem C17_convert_list_settings : forall e, list_settings e = true -> forall cs, convert e <> Ok cs.
Proof. exact convert_list_settings. Qed.
Print Assumptions C17_convert_list_settings.

(* 3. the same annotation everywhere: psm options and service options carry
      ToSnake(name), topics carry <package>.ToCamel(name) *)
Example C17_same_annotation : forall e fl,
  Forall (eq (snake_name e)) (psm_entities (expand_with e fl))
  /\ Forall (eq (snake_name e)) (service_entities (expand_with e fl))
  /\ Forall (eq (full_name e)) (topic_entities (expand_with e fl)).
Proof. exact same_annotation. Qed.
Print Assumptions C17_same_annotation.

(* 4. State and Event: metadata + flattened keys + data/status, or + the event oneof *)
Example C17_main_file : forall e fl,
  msgs_of_file 0 (expand_with e fl) =
    [keys_msg e; data_msg e; state_msg e fl; event_type_msg e; event_msg e]
    ++ flat_map schema_msgs (e_schemas e).
Proof. exact main_file_messages. Qed.
Print Assumptions C17_main_file.

Example C17_state_event_shapes : forall e fl,
  map shape (m_fields (state_msg e fl)) =
    [ (bs "metadata", TObject (bs "j5.state.v1") (bs "StateMetadata"), true, false);
      (bs "keys", TObject [] (m_name (keys_msg e)), true, true);
      (bs "data", TObject [] (m_name (data_msg e)), true, false);
      (bs "status", TEnum [] (component_name e (bs "Status")), true, false) ]
  /\ map shape (m_fields (event_msg e)) =
    [ (bs "metadata", TObject (bs "j5.state.v1") (bs "EventMetadata"), true, false);
      (bs "keys", TObject [] (m_name (keys_msg e)), true, true);
      (bs "event", TOneof [] (m_name (event_type_msg e)), true, false) ]
  /\ m_psm (keys_msg e) = Some (snake_name e, 1) /\ m_psm (state_msg e fl) = Some (snake_name e, 2)
  /\ m_psm (event_msg e) = Some (snake_name e, 3) /\ m_psm (data_msg e) = Some (snake_name e, 4).
Proof. exact state_event_shapes. Qed.
Print Assumptions C17_state_event_shapes.

(* 5. the event oneof has exactly one option per declared event, in order, each pointing
      at the nested message of that event's name *)
Example C17_event_oneof : forall e,
  let m := event_type_msg e in
  m_oneof m = true
  /\ map fst (m_nested m) = map ev_name (e_events e)
  /\ map f_json (m_fields m) = map (fun ev => to_lower_camel (ev_name ev)) (e_events e)
  /\ Forall2 (fun f n => f_type f = TObject [] (m_name m ++ [46] ++ fst n)) (m_fields m) (m_nested m)
  /\ map snd (m_nested m) = map (fun ev => map of_ufield (ev_fields ev)) (e_events e).
Proof. exact event_oneof_bijection. Qed.
Print Assumptions C17_event_oneof.

(* 6. primary keys: required, in declaration order, and in that order among the path
      parameters of Get and Events (which are the primary and the shard keys) *)
Example C17_keys_declaration_order : forall e,
  map f_json (m_fields (keys_msg e)) = map (fun k => uf_name (k_def k)) (e_keys e).
Proof. exact keys_in_declaration_order. Qed.
Print Assumptions C17_keys_declaration_order.

Example C17_primary_keys_required : forall e f,
  In f (m_fields (keys_msg e)) -> f_primary f = true -> f_required f = true.
Proof. exact primary_keys_required. Qed.
Print Assumptions C17_primary_keys_required.

Example C17_path_keys_primary : forall e, filter is_primary (get_keys e) = primary_keys e.
Proof. exact get_keys_primary. Qed.
Print Assumptions C17_path_keys_primary.

Example C17_path_keys_no_shard : forall e,
  (forall k, In k (e_keys e) -> k_shard k = false) -> get_keys e = primary_keys e.
Proof. exact get_keys_no_shard. Qed.
Print Assumptions C17_path_keys_no_shard.

Example C17_query_service : forall e,
  exists s, In (CSvc 1 s) (query_components e)
    /\ sv_name s = query_prefix e ++ bs "QueryService" /\ sv_ann s = SQuery (snake_name e)
    /\ map mt_name (sv_methods s) = [query_prefix e ++ bs "Get"; query_prefix e ++ bs "List"; query_prefix e ++ bs "Events"]
    /\ map mt_sq (sv_methods s) = [1; 2; 3] /\ map mt_verb (sv_methods s) = [1; 1; 1]
    /\ map mt_path (sv_methods s) = query_paths e.
Proof. exact query_service_methods. Qed.
Print Assumptions C17_query_service.

(* (clean_path base = base: the base path has no empty elements, so path.Join changes nothing) *)
Theorem C17_get_events_paths : forall e,
  clean_path (query_base e) = query_base e ->
  Forall (fun k => no_slash (uf_name (k_def k)) = true) (e_keys e) ->
  nth 0 (query_paths e) [] =
    match get_keys e with
    | [] => http_rule_path (query_base e)
    | ks => http_rule_path (query_base e) ++ [47] ++ join [47] (map brace ks)
    end
  /\ nth 2 (query_paths e) [] =
       http_rule_path (query_base e) ++ [47] ++ join [47] (map brace (get_keys e) ++ [bs "events"]).
Proof. exact get_events_paths. Qed.
Print Assumptions C17_get_events_paths.

(* the general form, for ANY base path (leading / trailing / doubled slashes are cleaned by path.Join
   inside the proof): when no segment of the base is a ":name" or "{...}" part and the key names (and
   their snake forms) contain no '/', the path parameters of Get and of Events are the snake names of
   the primary and shard keys in declaration order, and Events is Get followed by /events *)
Theorem C17_query_paths_params : forall e,
  Forall (fun p => plain_seg p = true) (segments (query_base e)) ->
  Forall (fun u => key_seg_ok u = true) (get_keys e) ->
  rule_params (nth 0 (query_paths e) []) = map (fun u => to_snake (uf_name u)) (get_keys e)
  /\ rule_params (nth 2 (query_paths e) []) = map (fun u => to_snake (uf_name u)) (get_keys e)
  /\ nth 2 (query_paths e) [] = nth 0 (query_paths e) [] ++ bs "/events".
Proof. exact query_paths_params. Qed.
Print Assumptions C17_query_paths_params.

(* for ordinary declarations (identifier names, package without ':', no baseUrlPath override)
   the paths are literally /<pkg>/<snake name>/q/{k}.. and .../events over the primary+shard keys *)
Theorem C17_default_paths : forall e,
  e_base_url e = [] -> ident (e_name e) = true -> no_colon (e_pkg e) = true ->
  clean_path (query_base e) = query_base e ->
  Forall (fun k => ident (uf_name (k_def k)) = true) (e_keys e) ->
  nth 0 (query_paths e) [] = query_base e ++ flat_map (fun u => 47 :: brace u) (get_keys e)
  /\ nth 2 (query_paths e) [] =
       query_base e ++ flat_map (fun u => 47 :: brace u) (get_keys e) ++ bs "/events"
  /\ query_params_ok e = true.
Proof. exact default_paths. Qed.
Print Assumptions C17_default_paths.

(* component names are proto identifiers: ToCamel yields letters and digits only and, for an
   identifier starting with a letter, starts with a capital *)
(* the same for every declaration in the quantifier without a baseUrlPath override: the clean-path
   fact, the ':'-free package and the identifier keys are DERIVED from the quantifier, and the base is
   spelled out: /<package with '/' for '.'>/<ToSnake(name)>/q *)
Theorem C17_default_paths_quantified : forall e, e_base_url e = [] -> in_quantifier e = true ->
  nth 0 (query_paths e) [] = query_base e ++ flat_map (fun u => 47 :: brace u) (get_keys e)
  /\ nth 2 (query_paths e) [] =
       query_base e ++ flat_map (fun u => 47 :: brace u) (get_keys e) ++ bs "/events"
  /\ query_base e = [47] ++ map (fun c => if c =? 46 then 47 else c) (e_pkg e) ++ [47] ++ to_snake (e_name e) ++ bs "/q".
Proof. exact default_paths_quantified. Qed.
Print Assumptions C17_default_paths_quantified.

Theorem C17_component_names_alnum : forall e suffix,
  forallb alnum (component_name e suffix) = true.
Proof. exact component_names_alnum. Qed.
Print Assumptions C17_component_names_alnum.

Theorem C17_camel_name_starts_cap : forall e c r,
  e_name e = c :: r -> is_letter c = true -> ident (c :: r) = true ->
  exists c' t, camel_name e = c' :: t /\ is_cap c' = true.
Proof. exact camel_name_starts_cap. Qed.
Print Assumptions C17_camel_name_starts_cap.

Theorem C17_list_path : forall e,
  e_base_url e = [] -> ident (e_name e) = true -> no_colon (e_pkg e) = true ->
  clean_path (query_base e) = query_base e ->
  Forall (fun k => ident (uf_name (k_def k)) = true) (e_keys e) ->
  nth 1 (query_paths e) [] = query_base e ++ flat_map (fun u => 47 :: brace u) (list_keys e)
  /\ list_keys e = map k_def (filter (fun k => is_key_field (k_def k) && k_shard k) (e_keys e)).
Proof. exact list_path. Qed.
Print Assumptions C17_list_path.

(* the generated names never collide with each other; with distinct UpperCamel event names
   the event oneof's options are distinct as well, so events <-> options is a bijection *)
Theorem C17_generated_names_distinct : forall e,
  NoDup [component_name e (bs "Keys"); component_name e (bs "Data"); component_name e (bs "Status");
         component_name e (bs "State"); component_name e (bs "EventType"); component_name e (bs "Event")]
  /\ NoDup [query_prefix e ++ bs "GetRequest"; query_prefix e ++ bs "GetResponse";
            query_prefix e ++ bs "ListRequest"; query_prefix e ++ bs "ListResponse";
            query_prefix e ++ bs "EventsRequest"; query_prefix e ++ bs "EventsResponse"].
Proof. exact generated_names_distinct. Qed.
Print Assumptions C17_generated_names_distinct.

Theorem C17_event_options_distinct : forall e,
  Forall (fun ev => upper_word (ev_name ev) = true) (e_events e) ->
  NoDup (map ev_name (e_events e)) ->
  NoDup (map f_json (m_fields (event_type_msg e))) /\ NoDup (map fst (m_nested (event_type_msg e))).
Proof. exact event_options_distinct. Qed.
Print Assumptions C17_event_options_distinct.

(* 7. statuses are numbered 1..n in declaration order after <PREFIX>UNSPECIFIED = 0
      (the hypothesis excludes a first status that itself spells the zero value - UNSPECIFIED or
      <PREFIX>UNSPECIFIED - which visitEnumNode puts in slot 0: isExplicitZero, fix a65e1f2) *)
Theorem C17_status_numbering : forall p l,
  match l with s :: _ => is_explicit_zero p s = false | [] => True end ->
  status_values p l = (p ++ bs "UNSPECIFIED", 0) :: number_from 1 p l
  /\ forall k, (k < length l)%nat ->
       nth_error (status_values p l) (S k) = Some (status_value_name p (nth k l []), N.of_nat (S k)).
Proof. exact status_numbering. Qed.
Print Assumptions C17_status_numbering.

(* default status filters always name values of the status enum (after fix 705ef70) *)
Theorem C17_default_filters_are_statuses : forall e fl f,
  default_filters e (requested_filters e) = Some fl -> In f fl ->
  In f (map fst (entity_status_values e)).
Proof. exact default_filters_are_enum_values. Qed.
Print Assumptions C17_default_filters_are_statuses.

(* the second observable: what the real j5client derives (one StateEntity) agrees with
   the descriptors: same entity name, State schema, primary keys in declaration order,
   one event per declared event, the command services, the query service and its paths *)
Example C17_client_view : forall e fl,
  let c := client_view e in
  ce_name c = snake_name e
  /\ ce_schema c = e_pkg e ++ [46] ++ m_name (state_msg e fl)
  /\ ce_primary_key c = map uf_name (primary_keys e)
  /\ ce_events c = map f_json (m_fields (event_type_msg e))
  /\ length (ce_events c) = length (e_events e)
  /\ map fst (ce_commands c) = map (fun cmd => command_service_name e cmd ++ bs "Service") (e_commands e)
  /\ ce_query c = query_prefix e ++ bs "QueryService"
  /\ map (fun m => http_rule_path (snd m)) (ce_query_methods c) = query_paths e
  /\ map fst (ce_query_methods c) = [query_prefix e ++ bs "Get"; query_prefix e ++ bs "List"; query_prefix e ++ bs "Events"].
Proof. exact client_view_consistent. Qed.
Print Assumptions C17_client_view.

(* the grouping done by the client (model/EntityClient.v: findPSMOptions, includeEntity, the service
   loop, StateEntity.ToJ5Proto): the package's objects are visited in Go map order, so the theorem
   quantifies over EVERY order: always exactly one state entity with the declared name, State
   schema, primary keys in declaration order, one event per declared event, the query service
   with Get/List/Events and the declared command services in order *)
Theorem C17_client_groups_any_order : forall e fl objs,
  Permutation (main_messages (expand_with e fl)) objs ->
  client_of_ordered msg_entity (e_pkg e) (expand_with e fl) objs = Some [grouping_view e].
Proof. exact client_groups_any_order. Qed.
Print Assumptions C17_client_groups_any_order.

(* several entities in one package (distinct entity names, no clash between message names):
   the client shows one state entity per declaration, each the declared one, in order *)
Theorem C17_client_groups_file : forall pkg (l : list (entity * list bytes)),
  (forall p, In p l -> e_pkg (fst p) = pkg) ->
  NoDup (map (fun p => snake_name (fst p)) l) ->
  NoDup (map m_name (main_messages (file_components l))) ->
  client_of pkg (file_components l) = Some (map (fun p => grouping_view (fst p)) l).
Proof. exact client_groups_file. Qed.
Print Assumptions C17_client_groups_file.

(* the defect repaired by fix 2072988: with the pre-fix inference of findPSMOptions an object
   embedding the keys is a second KEYS candidate; for one visiting order the reported primary
   key is the declared one, for another it is empty *)
Theorem C17_legacy_inference_refuted :
  let cs := expand_with hijack_sample [] in
  exists o1 o2,
    Permutation (main_messages cs) o1 /\ Permutation (main_messages cs) o2
    /\ client_of_ordered legacy_msg_entity (e_pkg hijack_sample) cs o1 = Some [grouping_view hijack_sample]
    /\ (exists g, client_of_ordered legacy_msg_entity (e_pkg hijack_sample) cs o2 = Some [g]
                  /\ g_primary_key g = [] /\ g_primary_key (grouping_view hijack_sample) = [bs "fooId"]).
Proof. exact legacy_inference_refuted. Qed.
Print Assumptions C17_legacy_inference_refuted.

(* several entity declarations in one file: the result is the concatenation of the single
   expansions (so every theorem above applies to each part) and is closed as a whole *)
Theorem C17_file_is_concat : forall es cs, convert_all es = Ok cs ->
  exists l, Forall2 (fun e c => convert e = Ok c) es l /\ cs = concat l.
Proof. exact compile_all_inv. Qed.
Print Assumptions C17_file_is_concat.

Theorem C17_file_closed : forall es cs, convert_all es = Ok cs -> closed cs = true.
Proof. exact compile_all_closed. Qed.
Print Assumptions C17_file_closed.

(* the documented names (README: FooKeys, FooQueryService, FooPublishTopic) for
   UpperCamel entity names *)
Theorem C17_names_upper_camel : forall e,
  upper_word (e_name e) = true ->
  camel_name e = e_name e /\ query_prefix e = e_name e
  /\ (ends_cap (e_name e) = false ->
      to_camel (camel_name e ++ bs "Publish") ++ bs "Topic" = e_name e ++ bs "PublishTopic").
Proof. exact names_upper_camel. Qed.
Print Assumptions C17_names_upper_camel.

(* the tie: entity.go still defines State/EventType/Event through componentName and
   applies no strcase function to a concatenation; Strcase.v models the pinned version *)
Theorem C17_code_tables :
  model_run_order = EntityGen.run_order
  /\ same_pairs model_suffix_sites EntityGen.suffix_sites = true
  /\ EntityGen.camel_of_concat_sites = 0
  /\ same_pairs model_strcase_calls EntityGen.strcase_calls = true
  /\ same_pairs model_formats EntityGen.sprintf_formats = true
  /\ same_pairs model_property_names EntityGen.property_names = true
  /\ EntityGen.entity_name_function = "ToSnake"%string
  /\ EntityGen.strcase_version = "v0.3.0"%string /\ EntityGen.configure_acronym_occurrences = 0.
Proof.
  exact (conj run_order_agrees (conj suffix_sites_agree (conj no_camel_of_concatenation
        (conj strcase_calls_agree (conj formats_agree (conj property_names_agree
        (conj entity_name_is_snake (conj strcase_version_agrees no_acronyms_configured)))))))).
Qed.
Print Assumptions C17_code_tables.

(* the same tie, DERIVED FROM THE MODEL FUNCTION (not from tables typed into a proofs file):
   [expand_with] on a probe declaration yields, in the order of entityNode.run, the landmark each
   accept function defines (by its componentName literal / Sprintf format); the literal property
   names of State / Event / the publish message / the query messages are those the accept functions
   write; method names and base paths are the code's Sprintf formats applied; the psm parts are the
   EntityPart constants; the implicit imports and the external references are the code's *)
Theorem C17_code_tables_from_model :
  landmark_names = expected_landmarks
  /\ same_names (msg_named "FooState") (lits_of "acceptState") = true
  /\ same_names (msg_named "FooEvent") (lits_of "acceptEvent") = true
  /\ same_names (msg_named "FooEventMessage") (lits_of "acceptPublishTopic") = true
  /\ svc_methods "FooQueryService" =
       map (fun f => sprintf1 (list_ascii_of_string f) (bs "Foo")) ["%sGet"; "%sList"; "%sEvents"]%string
  /\ (forallb (pair_in gen_implicit) implicit_imports = true /\ forallb (pair_in implicit_imports) gen_implicit = true)
  /\ (forallb (pair_in gen_externals) (externals (expand_with sample [])) = true
      /\ forallb (pair_in (externals (expand_with sample []))) gen_externals = true)
  /\ (forallb (fun p => existsb (fun q => bytes_eqb (fst p) (fst q) && (snd p =? snd q)) gen_parts) model_parts = true
      /\ forallb (fun p => existsb (fun q => bytes_eqb (fst p) (fst q) && (snd p =? snd q)) model_parts) gen_parts = true).
Proof.
  destruct property_names_from_model as [P1 [P2 [P3 _]]]. destruct formats_from_model as [_ [F2 _]].
  exact (conj run_order_from_model (conj P1 (conj P2 (conj P3 (conj F2 (conj implicit_imports_agree
        (conj model_externals_agree entity_parts_from_model))))))).
Qed.
Print Assumptions C17_code_tables_from_model.

(* the REMAINING tables, derived from the model as well (ent3): a second probe declaration whose names tell
   the four strcase functions apart is expanded by [expand_with]; its components are cut into one segment
   per function of entityNode.run; then
   - the names each segment defines / refers to are the literals that function passes to componentName /
     innerRef (suffix_sites);
   - every generated name is the strcase function the code calls in that function, applied to the declared
     name, and no other function of entity.go calls strcase (strcase_calls, status literal,
     entity_name_function);
   - every name / path built with Sprintf is the code's format applied, the topic message / service names
     are topic.go's formats applied, and entity.go has no further format (sprintf_formats, topic_formats);
   - the literal property names of each function are the properties of its segment the user did not
     declare (property_names).
   So each regenerated table is compared with what the MODEL FUNCTION computes; the hand-typed tables of
   C17_code_tables remain only as a second, order-sensitive drift detector. *)
Theorem C17_segments_cover : concat (map segment (seq 0 10)) = probe2_cs.
Proof. exact segments_cover. Qed.
Print Assumptions C17_segments_cover.

Theorem C17_suffix_sites_from_model : forallb segment_matches (seq 0 10) = true.
Proof. exact suffix_sites_from_model. Qed.
Print Assumptions C17_suffix_sites_from_model.

(* the name class: the laws of lib/Strcase.v the acceptance proof uses hold for ASCII identifiers ([ident] /
   [name_ok], the quantifier's names).  The j5s lexer also accepts non-ASCII letters; on bytes that class
   contains encoded white space which TrimSpace removes, so the laws do not extend to it (a name whose first
   and last bytes are ASCII identifier bytes is never trimmed) *)
Theorem C17_name_class_boundary :
  (exists s, ident8 s = true /\ trim_space s <> s /\ to_snake (104 :: 105 :: s) <> 104 :: 105 :: s)
  /\ (forall c s d, plain c = true -> plain d = true -> trim_space (c :: s ++ [d]) = c :: s ++ [d])
  /\ (forall s, ident s = true -> trim_space s = s).
Proof. exact (conj trim_space_ident8_refuted (conj trim_space_ident8_ascii_ends trim_space_ident)). Qed.
Print Assumptions C17_name_class_boundary.

(* the same two ties WITHOUT a probe: for every declaration *)
Theorem C17_run_order_for_every_declaration : forall e fl,
  landmarks (expand_with e fl) = flat_map (defines e) EntityGen.run_order ++ map schema_landmark (e_schemas e).
Proof. exact run_order_universal. Qed.
Print Assumptions C17_run_order_for_every_declaration.

Theorem C17_entity_parts_for_every_declaration : forall e fl,
  psm_parts (expand_with e fl) = map (part_of e) EntityGen.entity_parts.
Proof. exact entity_parts_universal. Qed.
Print Assumptions C17_entity_parts_for_every_declaration.

Theorem C17_property_names_for_every_declaration : forall e fl,
  same_names (map f_json (m_fields (state_msg e fl))) (lits_of "acceptState") = true
  /\ same_names (map f_json (m_fields (event_msg e))) (lits_of "acceptEvent") = true
  /\ same_names (publish_message_fields e) (lits_of "acceptPublishTopic") = true.
Proof. exact property_names_universal. Qed.
Print Assumptions C17_property_names_for_every_declaration.

Theorem C17_formats_for_every_declaration : forall e,
  fmt_of "acceptQuery" "%sGet" && fmt_of "acceptQuery" "%sList" && fmt_of "acceptQuery" "%sEvents"
    && fmt_of "acceptQuery" "%sQuery" && fmt_of "acceptPublishTopic" "%sEvent" && fmt_of "acceptPublishTopic" "%sPublish" = true
  /\ option_map (fun s => (sv_name s, map mt_name (sv_methods s))) (last_svc (query_components e))
     = Some (sprintf1 (list_ascii_of_string "%sQuery") (query_prefix e) ++ bs "Service",
             map (fun f => sprintf1 (list_ascii_of_string f) (query_prefix e)) ["%sGet"; "%sList"; "%sEvents"]%string)
  /\ option_map (fun s => (sv_name s, map mt_name (sv_methods s))) (last_svc (publish_components e))
     = Some (to_camel (sprintf1 (list_ascii_of_string "%sPublish") (camel_name e)) ++ bs "Topic",
             [sprintf1 (list_ascii_of_string "%sEvent") (camel_name e)]).
Proof. exact formats_universal. Qed.
Print Assumptions C17_formats_for_every_declaration.

Theorem C17_suffix_sites_for_every_declaration : forall e fl,
  msg_sites (state_msg e fl) = map (fun s => component_name e (bs s)) ["State"; "Keys"; "Data"; "Status"]%string
  /\ msg_sites (event_msg e) = map (fun s => component_name e (bs s)) ["Event"; "Keys"; "EventType"]%string
  /\ m_name (keys_msg e) = component_name e (bs "Keys") /\ m_name (data_msg e) = component_name e (bs "Data")
  /\ m_name (event_type_msg e) = component_name e (bs "EventType")
  /\ refs_of (publish_components e) = map (fun s => component_name e (bs s)) ["Keys"; "EventType"; "Data"; "Status"]%string
  /\ lits_ok "acceptState" ["State"; "Keys"; "Data"; "Status"]%string = true
  /\ lits_ok "acceptEvent" ["Event"; "Keys"; "EventType"]%string = true
  /\ lits_ok "acceptKeys" ["Keys"]%string = true /\ lits_ok "acceptData" ["Data"]%string = true
  /\ lits_ok "acceptEventOneof" ["EventType"]%string = true
  /\ lits_ok "acceptPublishTopic" ["Keys"; "EventType"; "Data"; "Status"]%string = true.
Proof. exact suffix_sites_universal. Qed.
Print Assumptions C17_suffix_sites_for_every_declaration.

Theorem C17_strcase_calls_for_every_declaration : forall e s,
  component_name e s = apply_fn (the_fn "componentName") (e_name e) ++ apply_fn (the_fn "componentName") s
  /\ full_name e = e_pkg e ++ [46] ++ apply_fn (the_fn "fullName") (e_name e)
  /\ snake_name e = apply_fn EntityGen.entity_name_function (e_name e)
  /\ status_prefix e = apply_fn (the_fn "acceptStatus") (e_name e) ++ the_status_literal
  /\ status_prefix e = apply_fn (the_fn "findStatus") (e_name e) ++ the_status_literal
  /\ map f_json (m_fields (event_type_msg e)) = map (fun ev => apply_fn (the_fn "acceptEventOneof") (ev_name ev)) (e_events e)
  /\ query_prefix e = apply_fn "ToCamel" (snake_name e)
  /\ own_response_name e = apply_fn "ToSnake" (apply_fn "ToLowerCamel" (snake_name e))
  /\ camel_name e = apply_fn (the_fn "acceptPublishTopic") (e_name e)
  /\ (forall sm, summary_topic_name e sm =
        apply_fn (the_fn "acceptSummaryTopics") (e_name e)
        ++ match s_name sm with [] => bs "Summary" | n => apply_fn (the_fn "acceptSummaryTopics") n end).
Proof. exact strcase_calls_universal. Qed.
Print Assumptions C17_strcase_calls_for_every_declaration.

Theorem C17_strcase_calls_from_model : strcase_calls_from_model_stmt.
Proof. exact strcase_calls_from_model. Qed.
Print Assumptions C17_strcase_calls_from_model.

Theorem C17_formats_from_model : formats_from_model2_stmt.
Proof. exact formats_from_model2. Qed.
Print Assumptions C17_formats_from_model.

Theorem C17_property_names_from_model :
  forallb (fun i => match nth_error EntityGen.run_order i with
                    | Some f => same_names (seg_props i) (prop_lits f)
                    | None => false end) [3; 5; 6; 8]%nat = true
  /\ same_strings (dedup (map fst EntityGen.property_names))
                  (flat_map (fun i => match nth_error EntityGen.run_order i with Some f => [f] | None => [] end) [3; 5; 6; 8]%nat) = true.
Proof. exact property_names_from_model2. Qed.
Print Assumptions C17_property_names_from_model.

(* the README's documented example (re-read from README.md on every run): the declaration it
   prints expands, in the model, to every message, field, status value, rpc and path it shows *)
Theorem C17_readme_example : readme_agrees.
Proof. exact readme_agreement. Qed.
Print Assumptions C17_readme_example.

(* the repaired defect (#16): the pre-fix definition-site name ToCamel(name ++ suffix)
   equals the reference-site name exactly for names not ending in a capital — so the fix
   changes nothing that compiled before — and differs for "FooS" *)
Theorem C17_legacy_naming_iff : forall e,
  ident (e_name e) = true ->
  (legacy_name e (bs "State") = component_name e (bs "State") <-> ends_cap (e_name e) = false)
  /\ (legacy_name e (bs "EventType") = component_name e (bs "EventType") <-> ends_cap (e_name e) = false)
  /\ (legacy_name e (bs "Event") = component_name e (bs "Event") <-> ends_cap (e_name e) = false).
Proof. exact legacy_naming_agrees_iff. Qed.
Print Assumptions C17_legacy_naming_iff.

Theorem C17_legacy_naming_refuted :
  exists e, ident (e_name e) = true /\ legacy_name e (bs "State") <> component_name e (bs "State").
Proof. exact legacy_naming_refuted. Qed.
Print Assumptions C17_legacy_naming_refuted.

(* non-vacuity: a declaration with two keys (one primary, one shard+tenant), data, two
   statuses, two events, a command service, a summary and query settings is accepted, and
   an entity whose name ends in a capital too *)
Definition C17_sample : entity :=
  mkE (bs "foo.v1") (bs "FooS") []
      [mkK (mkU (bs "fooId") (KKey true None None) false false) false;
       mkK (mkU (bs "accountId") (KKey false (Some (bs "other.v1", bs "account")) (Some (bs "account"))) true false) true]
      [mkU (bs "name") (KScalar 9 (bs "string")) true false; mkU (bs "note") (KScalar 9 (bs "string")) false true;
       mkU (bs "address") (KObject (bs "Address")) false false]
      [bs "ACTIVE"; bs "INACTIVE"]
      [mkEv (bs "Create") [mkU (bs "name") (KScalar 9 (bs "string")) false false]; mkEv (bs "Archive") []]
      [mkC None None [mkM (bs "DoIt") 2 (bs ":fooId/doit") [mkU (bs "fooId") (KKey false None None) false false] (Some []);
                      mkM (bs "Download") 1 (bs "dl") [] None]]
      [mkS [] [mkU (bs "name") (KScalar 9 (bs "string")) false false]]
      (Some (mkQ true [bs "ACTIVE"] false))
      [SObject (bs "Address") [mkU (bs "street") (KScalar 9 (bs "string")) false false];
       SEnum (bs "Kind") [bs "A"; bs "B"];
       SOneof (bs "Choice") [mkU (bs "a") (KScalar 9 (bs "string")) false false]].

Example C17_example :
  in_quantifier C17_sample = true /\ reserved_free C17_sample = true
  /\ (exists cs, compile C17_sample = Ok cs /\ length cs = 24%nat)
  /\ nth 0 (query_paths C17_sample) [] = bs "/foo/v1/foo_s/q/{foo_id}/{account_id}"
  /\ nth 2 (query_paths C17_sample) [] = bs "/foo/v1/foo_s/q/{foo_id}/{account_id}/events"
  /\ path_key_names C17_sample = [bs "foo_id"; bs "account_id"]
  /\ entity_status_values C17_sample
     = [(bs "FOO_S_STATUS_UNSPECIFIED", 0); (bs "FOO_S_STATUS_ACTIVE", 1); (bs "FOO_S_STATUS_INACTIVE", 2)]
  /\ Forall (fun k => no_slash (uf_name (k_def k)) = true) (e_keys C17_sample)
  /\ upper_word (e_name C17_sample) = true /\ fields_ok C17_sample = true
  /\ path_params (query_base C17_sample) = [] /\ command_params_ok C17_sample = true
  /\ clean_path (query_base C17_sample) = query_base C17_sample.
Proof.
  split; [vm_compute; reflexivity|]. split; [vm_compute; reflexivity|].
  split; [eexists; split; [vm_compute; reflexivity|reflexivity]|].
  repeat split; try (vm_compute; reflexivity). repeat constructor.
Qed.

(* non-vacuity of the file theorems: the sample above and a second declaration of the same package *)
Definition C17_sample2 : entity :=
  mkE (bs "foo.v1") (bs "bar_item") []
      [mkK (mkU (bs "barId") (KKey true None None) false false) false]
      [mkU (bs "status") (KScalar 9 (bs "string")) false false]
      [bs "NEW"] [mkEv (bs "Made") []] [] [] None [].
Example C17_file_example :
  file_quantifier [C17_sample; C17_sample2] = true
  /\ exists l, compile_file [C17_sample; C17_sample2] = Ok (concat l) /\ map (@length component) l = [24; 15]%nat.
Proof.
  split; [vm_compute; reflexivity|].
  exists [expand_with C17_sample [bs "FOO_S_STATUS_ACTIVE"]; expand_with C17_sample2 []].
  split; vm_compute; reflexivity.
Qed.

(* non-vacuity of C17_convert_list_settings: a declaration with list-request settings (outside the
   quantifier) is rejected by the conversion with the list-request error *)
Definition C17_list_sample : entity :=
  mkE (bs "foo.v1") (bs "Foo") [] [mkK (mkU (bs "fooId") (KKey true None None) false false) false]
      [] [bs "ACTIVE"] [] [] [] (Some (mkQ false [] true)) [].
Example C17_list_settings_example :
  list_settings C17_list_sample = true /\ in_quantifier C17_list_sample = false
  /\ convert C17_list_sample = Err "listRequest is not supported on a method".
Proof. repeat split; vm_compute; reflexivity. Qed.

(* non-vacuity of the acceptance theorems for inline schemas nested in inline schemas: an inline object
   holding an ARRAY of inline objects (with a map inside) and an inline oneof is inside the quantifier,
   free of reserved names, and compiles *)
Definition C17_nested_sample : entity :=
  mkE (bs "foo.v1") (bs "Foo") [] [mkK (mkU (bs "fooId") (KKey true None None) false false) false]
    [mkU (bs "outer")
         (KInlineTree 0
            [TF (bs "inner") (TKInline 0 1 [TF (bs "leaf") (TK (IScalar 9 (bs "string"))) false false [];
                                            TF (bs "tags") (TKMap (IScalar 9 (bs "string"))) false false []] [])
                false false [];
             TF (bs "pick") (TKInline 1 0 [TF (bs "a") (TK (IScalar 9 (bs "string"))) false false []] []) false false [];
             TF (bs "level") (TKInline 2 0 [] [bs "LOW"; bs "HIGH"]) false false []])
         false false]
    [bs "ACTIVE"] [] [] [] None [].
Example C17_nested_example :
  in_quantifier C17_nested_sample = true /\ reserved_free C17_nested_sample = true
  /\ exists cs, compile C17_nested_sample = Ok cs /\ length cs = 15%nat.
Proof. split; [vm_compute; reflexivity|]. split; [vm_compute; reflexivity|]. eexists. split; [vm_compute; reflexivity|reflexivity]. Qed.

(* C01 — JSON codec round trip: decode (encode m) equals m for every J5-representable message
   (decimals compared numerically, an empty flattened sub-object treated as absent).
   Only statements, closed by [exact lemma], with Print Assumptions beneath. *)
From Coq Require Import String List NArith ZArith Bool Lia ZifyN ZifyNat ZifyBool.
From J5V.lib Require Import Outcome Json JsonPrint Base64 Civil Decimal.
From J5V.model Require Import CodecTypes CodecEnc CodecEncSpec CodecEncDec CodecFloatInt CodecSharedHolder.
From J5V.model Require CodecDecScalar CodecDec CodecDecTree.
From J5V.proofs Require CodecDecTime CodecDecDecimal.
From J5V.proofs Require Import CodecEncProofs CodecEncDecProofs CodecEncTotal CodecEncDecTie CodecEncLex CodecEncInner CodecEncRep CodecEncRepTie CodecFloatIntProofs CodecFloatNonFinite CodecEncPbAny CodecSharedHolderProofs.
Import ListNotations.
Local Open Scope N_scope.

(* The property: a representable message encodes to a text that is one well-formed JSON document;
   decoding that document (within the decoder's nesting bound) into a fresh message succeeds, and the
   result equals the original property by property — decimals as normalised text, Any values as
   (type name, JSON payload), an empty flattened sub-message and an absent one being the same.
   Premises: the strconv float laws, "time.Parse starts with the RFC 3339 fast path", inner Any
   encodings are compact JSON, and two structural facts about the environment that are decided on
   every environment of every run (oneofs_flat, oneof_names_ok). *)
Theorem C01_codec_roundtrip :
  forall fmt_float any_inner parse_float parse_time env,
    oneofs_flat env -> oneof_names_ok env ->
    float_text_ok fmt_float -> float_roundtrip fmt_float parse_float -> time_parse_extends parse_time ->
    inner_ok any_inner ->
    forall root m txt,
      rep_root any_inner print None env root m -> encode fmt_float any_inner env root m = Ok txt ->
      exists J, strict_parse txt = Some J /\
        (N.of_nat (jnest J) <= max_nesting ->
         exists m', decode_tree (dec_scalar parse_float parse_time) print false None env root J = Ok m' /\ equiv_root any_inner print None env root m m').
Proof.
  intros fmt_float any_inner parse_float parse_time env Hflat Hnames Hfok Hfrt Htime Hinner.
  exact (codec_roundtrip fmt_float any_inner (dec_scalar parse_float parse_time) print print_nonempty false None env Hflat Hnames
           (scalar_rt_own fmt_float parse_float parse_time Hfok Hfrt Htime) Hinner).
Qed.
Print Assumptions C01_codec_roundtrip.

(* the premises about strconv and time.Parse are jointly satisfiable: printing the bit pattern in
   decimal (a JSON number) and reading it back, and the fast path itself as the time parser *)
Theorem C01_premises_satisfiable :
  float_text_ok inst_fmt /\ float_roundtrip inst_fmt inst_parse_float /\ time_parse_extends parse_rfc3339.
Proof. exact premises_satisfiable. Qed.
Print Assumptions C01_premises_satisfiable.

(* the static conditions on a property list are decidable, and the decider is sound *)
Theorem C01_props_ok_decided : forall env ps, props_ok_b env ps = true -> props_ok env ps.
Proof. exact props_ok_b_sound. Qed.
Print Assumptions C01_props_ok_decided.

(* The full statement: encoding a representable message SUCCEEDS (no error, no panic, the model's
   fuel suffices), the text is one JSON document, and decoding it into a fresh message gives an
   equivalent message.  The decoder refuses documents nested deeper than 10000 levels (its documented
   bound, the same as protobuf's own recursion limit), hence the premise on the tree.
   Not covered: protobuf Any values (they decode only with the WithProtoToAny option). *)
Theorem C01_full_statement :
  forall fmt_float any_inner parse_float parse_time env,
    oneofs_flat env -> oneof_names_ok env ->
    float_text_ok fmt_float -> float_roundtrip fmt_float parse_float -> time_parse_extends parse_time ->
    inner_ok any_inner ->
    forall root m, rep_root any_inner print None env root m ->
      exists txt J, encode fmt_float any_inner env root m = Ok txt /\ strict_parse txt = Some J /\
        (N.of_nat (jnest J) <= max_nesting ->
         exists m', decode_tree (dec_scalar parse_float parse_time) print false None env root J = Ok m' /\ equiv_root any_inner print None env root m m').
Proof.
  intros fmt_float any_inner parse_float parse_time env Hflat Hnames Hfok Hfrt Htime Hinner.
  exact (codec_full fmt_float any_inner (dec_scalar parse_float parse_time) print None env Hflat
           (scalar_rt_own fmt_float parse_float parse_time Hfok Hfrt Htime) Hnames Hinner print_nonempty false).
Qed.
Print Assumptions C01_full_statement.
Theorem C01_encode_succeeds :
  forall fmt_float any_inner parse_float parse_time env,
    oneofs_flat env -> float_text_ok fmt_float -> float_roundtrip fmt_float parse_float ->
    time_parse_extends parse_time ->
    forall root m, rep_root any_inner print None env root m -> exists txt, encode fmt_float any_inner env root m = Ok txt.
Proof.
  intros fmt_float any_inner parse_float parse_time env Hflat Hfok Hfrt Htime.
  exact (encode_total fmt_float any_inner (dec_scalar parse_float parse_time) print None env Hflat
           (scalar_rt_own fmt_float parse_float parse_time Hfok Hfrt Htime)).
Qed.
Print Assumptions C01_encode_succeeds.

(* The same statement over the DECODER FAMILY's tree decoder CodecDecTree.tr_decode (the function
   that proofs/CodecDecTreeProofs.decode_bytes_tree shows the Go-tied token-level model
   CodecDec.decode_bytes computes whenever the tokenizer reads the text as the tokens of J), with
   that family's scalar layer CodecDecScalar.scalar_from_go.  Premises on the three library oracles
   of that model: o_float inverts the float text on finite bit patterns, o_time extends the RFC 3339
   fast path, o_decimal is the normalised text of lib/Decimal with exponent within +-1000.
   equiv_root ... raw_dec: an Any payload is stored as the canonical re-print of its tokens.
   The premise on J is the decoder's documented bound (10000 nested arrays/objects). *)
Theorem C01_full_statement_dec :
  forall fmt_float any_inner (orc : CodecDecScalar.oracles) env,
    oneofs_flat env -> oneof_names_ok env -> env_items_ok env ->
    float_text_ok fmt_float -> orc_float_ok fmt_float orc -> orc_time_ok orc -> orc_decimal_ok orc ->
    inner_ok any_inner ->
    forall root m, rep_root any_inner raw_dec None env root m ->
      exists txt J, encode fmt_float any_inner env root m = Ok txt /\ strict_parse txt = Some J /\
        (CodecDecTree.jdepth J <= CodecDec.max_scan_depth ->
         exists m', CodecDecTree.tr_decode orc env (S (CodecDecTree.jsize J)) root J = Ok m' /\
                    equiv_root any_inner raw_dec None env root m m').
Proof. exact codec_full_dec. Qed.
Print Assumptions C01_full_statement_dec.
(* ... and on the encoder's TEXT through the decoder family's byte-level model: the tokenizer
   Json.lex reads print J as exactly the tokens of J (C01_tokenizer_reads_print), and
   CodecDec.decode_bytes on those bytes is tr_decode on J (that family's decode_bytes_tree). *)
Theorem C01_full_statement_bytes :
  forall fmt_float any_inner (orc : CodecDecScalar.oracles) env,
    oneofs_flat env -> oneof_names_ok env -> env_items_ok env ->
    float_text_ok fmt_float -> orc_float_ok fmt_float orc -> orc_time_ok orc -> orc_decimal_ok orc ->
    inner_ok any_inner ->
    forall root m, rep_root any_inner raw_dec None env root m ->
      exists txt J, encode fmt_float any_inner env root m = Ok txt /\ txt = print J /\ wfb J = true /\
        (CodecDecTree.jdepth J <= CodecDec.max_scan_depth ->
         exists m', CodecDec.decode_bytes orc env root txt = Ok m' /\
                    equiv_root any_inner raw_dec None env root m m').
Proof. exact codec_full_bytes. Qed.
Print Assumptions C01_full_statement_bytes.
(* the same with the decoder family's oracle MODELS as premises: time.Parse is that family's model of
   Go's general layout parser (go_time_parse) and decimal.NewFromString is lib/Decimal — both compared
   with the real functions on every run of that family's checks; only the strconv float law stays a law *)
Theorem C01_full_statement_bytes_oracle_models :
  forall fmt_float any_inner (orc : CodecDecScalar.oracles) env,
    oneofs_flat env -> oneof_names_ok env -> env_items_ok env ->
    float_text_ok fmt_float -> orc_float_ok fmt_float orc ->
    J5V.proofs.CodecDecTime.time_oracle_is_model orc ->
    J5V.proofs.CodecDecDecimal.decimal_oracle_is_model orc ->
    inner_ok any_inner ->
    forall root m, rep_root any_inner raw_dec None env root m ->
      exists txt J, encode fmt_float any_inner env root m = Ok txt /\ txt = print J /\ wfb J = true /\
        (CodecDecTree.jdepth J <= CodecDec.max_scan_depth ->
         exists m', CodecDec.decode_bytes orc env root txt = Ok m' /\
                    equiv_root any_inner raw_dec None env root m m').
Proof.
  intros fmt_float any_inner orc env Hflat Hnames Hitems Hfok Hfl Ht Hd Hinner.
  exact (codec_full_bytes fmt_float any_inner orc env Hflat Hnames Hitems Hfok Hfl
           (orc_time_from_model orc Ht) (orc_decimal_from_model orc Hd) Hinner).
Qed.
Print Assumptions C01_full_statement_bytes_oracle_models.
Theorem C01_tokenizer_reads_print : forall J, wfb J = true -> lex (print J) = (tokens_of J, false).
Proof. exact lex_print. Qed.
Print Assumptions C01_tokenizer_reads_print.
Theorem C01_dec_premises_satisfiable :
  float_text_ok inst_fmt /\ orc_float_ok inst_fmt inst_orc /\ orc_time_ok inst_orc /\ orc_decimal_ok inst_orc.
Proof. exact orc_premises_satisfiable. Qed.
Print Assumptions C01_dec_premises_satisfiable.
(* the bridge itself: every successful run of this family's tree decoder, instantiated with the
   decoder family's scalar layer, payload spelling and map check, is a run of tr_decode *)
Theorem C01_decoder_models_agree :
  forall (orc : CodecDecScalar.oracles) env, env_items_ok env ->
    forall root J m', CodecDecTree.jdepth J <= CodecDec.max_scan_depth ->
      decode_tree (dsc_dec orc) raw_dec true None env root J = Ok m' ->
      CodecDecTree.tr_decode orc env (S (CodecDecTree.jsize J)) root J = Ok m'.
Proof. exact decode_tree_sim. Qed.
Print Assumptions C01_decoder_models_agree.
Theorem C01_env_items_decided : forall env, env_items_ok_b env = true -> env_items_ok env.
Proof. exact env_items_ok_b_sound. Qed.
Print Assumptions C01_env_items_decided.

(* every scalar kind, every value of its documented domain: the printer's token is read back by
   the matching arm of scalarReflectFromGo to the same value (decimals: to the normalised text).
   Premises: the strconv float law and "time.Parse starts with the RFC 3339 fast path". *)
Theorem C01_scalar_roundtrip :
  forall fmt_float parse_float parse_time,
    float_text_ok fmt_float -> float_roundtrip fmt_float parse_float -> time_parse_extends parse_time ->
    forall k v, rep_scalar k v ->
    exists J, (exists txt, enc_scalar fmt_float k v = Ok txt /\ txt = print J) /\ wfb J = true /\
              is_container J = false /\ J <> JNull /\
              exists v', dec_scalar parse_float parse_time k J = Ok (Some v') /\ scalar_equiv k v v'.
Proof. exact scalar_roundtrip. Qed.
Print Assumptions C01_scalar_roundtrip.

(* the inverse pairs behind it, each for all values *)
Theorem C01_int_text : forall z, parse_Z (print_Z z) = Some z.
Proof. exact parse_print_Z. Qed.
Print Assumptions C01_int_text.

Theorem C01_string_text : forall j, wfb j = true -> strict_parse (print j) = Some j.
Proof. exact parse_print. Qed.
Print Assumptions C01_string_text.

Theorem C01_bytes_text : forall bs, Forall is_byte bs -> b64_lenient (b64_encode bs) = Some bs.
Proof. exact b64_lenient_encode. Qed.
Print Assumptions C01_bytes_text.

Theorem C01_timestamp_text : forall s ns, ts_range s ns -> parse_rfc3339 (format_rfc3339nano s ns) = Some (s, ns).
Proof. exact parse_format_rfc3339. Qed.
Print Assumptions C01_timestamp_text.

Theorem C01_calendar : forall z,
  match civil_from_days z with
  | (y, m, d) => days_from_civil y m d = z /\ (1 <= m <= 12)%Z /\ (1 <= d <= days_in m y)%Z
  end.
Proof. exact civil_roundtrip. Qed.
Print Assumptions C01_calendar.

Theorem C01_date_text : forall y m d,
  (0 <= y <= 9999)%Z -> (1 <= m <= 12)%Z -> (1 <= d <= days_in m y)%Z ->
  date_from_string (date_string y m d) = Some (y, m, d).
Proof. exact date_roundtrip. Qed.
Print Assumptions C01_date_text.

(* decimals: what the decoder stores (decimal.NewFromString, exponent bound, String()) denotes the
   same number as the text that was encoded *)
Theorem C01_decimal_numeric : forall s s', dec_normalise s = Some s' ->
  exists a b, dec_parse s = Some a /\ dec_parse s' = Some b /\ dec_eq a b.
Proof. exact dec_normalise_numeric. Qed.
Print Assumptions C01_decimal_numeric.

(* the former spelling of dates (finding 8, fixed) did not read back *)
Theorem C01_date_v0_refuted : date_from_string (date_string_v0 5 1 2) = None.
Proof. exact date_v0_refuted. Qed.
Print Assumptions C01_date_v0_refuted.

(* non-vacuity: one value per scalar kind inside its domain *)
Example C01_example :
  rep_scalar KInt64 (VInt (-9223372036854775808)%Z) /\ rep_scalar KUint64 (VInt 18446744073709551615%Z) /\
  rep_scalar KBytes (VBytes [251; 255]) /\ rep_scalar KString (VStr [34; 240; 159; 152; 128]) /\
  rep_scalar KDate (VMsg [(1, VInt 5%Z); (2, VInt 2%Z); (3, VInt 28%Z)]) /\
  rep_scalar KTimestamp (mk_timestamp 1709251199 120000000) /\
  rep_scalar KDecimal (VMsg [(1, VStr [49; 46; 53; 48])]) /\
  parse_rfc3339 (format_rfc3339nano 1709251199 120000000) = Some (1709251199%Z, 120000000%Z) /\
  dec_normalise [49; 46; 53; 48] = Some [49; 46; 53].
Proof.
  split; [cbn [rep_scalar]; lia|]. split; [cbn [rep_scalar]; lia|].
  split; [cbn [rep_scalar]; repeat constructor; unfold is_byte; lia|].
  split; [cbn [rep_scalar]; vm_compute; reflexivity|].
  split. { cbn [rep_scalar]. exists 5%Z, 2%Z, 28%Z. split; [reflexivity|]. vm_compute. repeat split; discriminate. }
  split. { change (mk_timestamp 1709251199 120000000) with (VMsg [(1, VInt 1709251199%Z); (2, VInt 120000000%Z)]).
           cbn [rep_scalar]. exists 1709251199%Z, 120000000%Z. split; [reflexivity|]. unfold ts_range. lia. }
  split. { cbn [rep_scalar]. exists [49; 46; 53; 48], [49; 46; 53]. repeat split; vm_compute; reflexivity. }
  split; vm_compute; reflexivity.
Qed.

(* non-vacuity of the structural theorem: an object with an int64, a flattened string and a oneof
   wrapper; the message is representable, the static conditions hold, and the round trip computes *)
Definition rt_env : env :=
  [([82], SObject [mkProp [105] [1] false false [] (FScalar KInt64);
                   mkProp [102] [2; 1] false false [] (FScalar KString);
                   mkProp [119] [3] false true [] (FOneof [87])]);
   ([87], SOneof [mkProp [97] [1] false true [2] (FScalar KBool);
                  mkProp [98] [2] false true [1] (FScalar KInt32)])].
Definition rt_msg : msg := [(1, VInt (-42)%Z); (2, VMsg [(1, VStr [120])]); (3, VMsg [(1, VBool true)])].
Definition rt_fmt (is32 : bool) (bits : N) : bytes := [48].
Definition rt_inner (tn pb : bytes) : outcome bytes := Err "none".
Definition rt_pf (is32 : bool) (s : bytes) : option N := None.
Definition rt_pt (s : bytes) : option (Z * Z) := None.

Definition rt_txt : bytes := Eval vm_compute in
  match encode rt_fmt rt_inner rt_env [82] rt_msg with Ok t => t | _ => [] end.
Definition rt_tree : jvalue := Eval vm_compute in
  match strict_parse rt_txt with Some j => j | None => JNull end.

Example C01_roundtrip_example :
  oneofs_flat rt_env /\ oneof_names_ok rt_env /\ rep_root rt_inner print None rt_env [82] rt_msg /\
  encode rt_fmt rt_inner rt_env [82] rt_msg = Ok rt_txt /\ strict_parse rt_txt = Some rt_tree /\
  decode_tree (dec_scalar rt_pf rt_pt) print false None rt_env [82] rt_tree = Ok rt_msg.
Proof.
  split; [apply oneofs_flat_b_sound; vm_compute; reflexivity|].
  split; [apply oneof_names_ok_b_sound; vm_compute; reflexivity|].
  split.
  - unfold rep_root. change (lookup rt_env [82]) with (Some (SObject
      [mkProp [105] [1] false false [] (FScalar KInt64);
       mkProp [102] [2; 1] false false [] (FScalar KString);
       mkProp [119] [3] false true [] (FOneof [87])])).
    constructor.
    + apply props_ok_b_sound. vm_compute. reflexivity.
    + intros l v Hl Hv. vm_compute in Hl. destruct Hl as [<-|[<-|[<-|[]]]]; vm_compute in Hv; injection Hv as <-.
      * split; [constructor; cbn; lia|reflexivity].
      * split; [constructor; vm_compute; reflexivity|reflexivity].
      * split; [|reflexivity]. apply RV_oneof with (ps := [mkProp [97] [1] false true [2] (FScalar KBool);
                                                          mkProp [98] [2] false true [1] (FScalar KInt32)]); [reflexivity| |].
        2:{ intros q1 q2 H1 H2 P1 P2. vm_compute in H1, H2.
            destruct H1 as [<-|[<-|[]]]; destruct H2 as [<-|[<-|[]]]; try reflexivity;
              exfalso; vm_compute in P1, P2; congruence. }
        constructor.
        -- apply props_ok_b_sound. vm_compute. reflexivity.
        -- intros l v Hl Hv. vm_compute in Hl. destruct Hl as [<-|[<-|[]]]; vm_compute in Hv; [injection Hv as <-|discriminate].
           split; [constructor; exact I|reflexivity].
        -- intros l a n s v Hl Hp Hv Hs. vm_compute in Hl. destruct Hl as [<-|[<-|[]]]; vm_compute in Hv; [|discriminate].
           cbn [p_path p_siblings] in Hp, Hs. destruct Hs as [<-|[]].
           destruct a as [|a0 a]; [|destruct a; discriminate]. reflexivity.
        -- intros p q1 q2 Hp Hq1. vm_compute in Hp. destruct Hp as [<-|[<-|[]]]; contradiction.
    + intros l a n s v Hl Hp Hv Hs. vm_compute in Hl. destruct Hl as [<-|[<-|[<-|[]]]]; cbn [p_siblings] in Hs; contradiction.
    + intros p q1 q2 Hp Hq1. vm_compute in Hp. destruct Hp as [<-|[<-|[<-|[]]]]; contradiction.
  - split; [vm_compute; reflexivity|]. split; vm_compute; reflexivity.
Qed.

(* google.protobuf.Any: the statement with the codec option WithProtoToAny ([any_back = Some back], back
   standing for resolver + decode of the payload text + proto.Marshal).  rep_root then asks that the
   reverse conversion of the payload text succeeds; the decoded value bytes are what it yields
   (EV_pbany) — that forward and reverse conversion are inverse is the inner codec's own round trip. *)
Theorem C01_full_statement_proto_any :
  forall fmt_float any_inner parse_float parse_time back env,
    oneofs_flat env -> oneof_names_ok env ->
    float_text_ok fmt_float -> float_roundtrip fmt_float parse_float -> time_parse_extends parse_time ->
    inner_ok any_inner ->
    forall root m, rep_root any_inner print (Some back) env root m ->
      exists txt J, encode fmt_float any_inner env root m = Ok txt /\ strict_parse txt = Some J /\
        (N.of_nat (jnest J) <= max_nesting ->
         exists m', decode_tree (dec_scalar parse_float parse_time) print false (Some back) env root J = Ok m' /\
                    equiv_root any_inner print (Some back) env root m m').
Proof.
  intros fmt_float any_inner parse_float parse_time back env Hflat Hnames Hfok Hfrt Htime Hinner.
  exact (codec_full fmt_float any_inner (dec_scalar parse_float parse_time) print (Some back) env Hflat
           (scalar_rt_own fmt_float parse_float parse_time Hfok Hfrt Htime) Hnames Hinner print_nonempty false).
Qed.
Print Assumptions C01_full_statement_proto_any.

(* non-vacuity for a google.protobuf.Any field: type T, payload bytes 0a 01 78, inner JSON {} *)
Definition pa_env : env := [([82], SObject [mkProp [97] [1] false true [] (FAny true)])].
Definition pa_msg : msg := [(1, VMsg [(1, VStr (any_prefix ++ [84])); (2, VBytes [10; 1; 120])])].
Definition pa_inner (tn pb : bytes) : outcome bytes := Ok [123; 125].
Definition pa_back (tn js : bytes) : outcome bytes := Ok [10; 1; 120].
Definition pa_txt : bytes := Eval vm_compute in
  match encode rt_fmt pa_inner pa_env [82] pa_msg with Ok t => t | _ => [] end.
Definition pa_tree : jvalue := Eval vm_compute in
  match strict_parse pa_txt with Some j => j | None => JNull end.
Example C01_proto_any_example :
  rep_root pa_inner print (Some pa_back) pa_env [82] pa_msg /\
  encode rt_fmt pa_inner pa_env [82] pa_msg = Ok pa_txt /\ strict_parse pa_txt = Some pa_tree /\
  decode_tree (dec_scalar rt_pf rt_pt) print false (Some pa_back) pa_env [82] pa_tree = Ok pa_msg.
Proof.
  split.
  - unfold rep_root. change (lookup pa_env [82]) with (Some (SObject [mkProp [97] [1] false true [] (FAny true)])).
    constructor.
    + apply props_ok_b_sound. vm_compute. reflexivity.
    + intros l v Hl Hv. vm_compute in Hl. destruct Hl as [<-|[]]. vm_compute in Hv. injection Hv as <-.
      split; [|reflexivity].
      apply RV_pbany with (tn := [84]).
      * reflexivity.
      * reflexivity.
      * intros n v Hg. cbn [msg_get] in Hg.
        destruct (1 =? n) eqn:E1; [apply N.eqb_eq in E1; subst n; injection Hg as <-; left; eauto|].
        destruct (2 =? n) eqn:E2; [apply N.eqb_eq in E2; subst n; injection Hg as <-; right; eauto|discriminate].
      * eexists. reflexivity.
      * exists pa_back. split; [reflexivity|]. intros Jd _ _. eexists. reflexivity.
    + intros l a n s v Hl Hp Hv Hs. vm_compute in Hl. destruct Hl as [<-|[]]. cbn [p_siblings] in Hs. contradiction.
    + intros p q1 q2 Hp Hq1. vm_compute in Hp. destruct Hp as [<-|[]]. contradiction.
  - split; [vm_compute; reflexivity|]. split; vm_compute; reflexivity.
Qed.

(* the same document through the decoder family's byte-level model (tokenizer + token decoder) *)
Example C01_bytes_example :
  env_items_ok_b rt_env = true /\
  lex rt_txt = (tokens_of rt_tree, false) /\
  CodecDec.decode_bytes inst_orc rt_env [82] rt_txt = Ok rt_msg.
Proof. split; [vm_compute; reflexivity|]. split; vm_compute; reflexivity. Qed.

(* the oracle instance of C01_dec_premises_satisfiable at work: a message with a float64, a timestamp,
   a decimal and bytes, encoded with inst_fmt and read back by the decoder family's byte-level model
   with inst_orc (the float comes back as the same bit pattern, the timestamp through the RFC 3339 reader,
   the decimal as its normalised text) *)
Definition sc_env : env :=
  [([82], SObject [mkProp [102] [1] false false [] (FScalar KFloat64);
                   mkProp [116] [2] false true [] (FScalar KTimestamp);
                   mkProp [100] [3] false true [] (FScalar KDecimal);
                   mkProp [98] [4] false false [] (FScalar KBytes)])].
Definition sc_msg : msg :=
  [(1, VFloat 4609434218613702656); (2, mk_timestamp 1709251199 120000000);
   (3, VMsg [(1, VStr [49; 46; 53; 48])]); (4, VBytes [251; 255; 254])].
Definition sc_txt : bytes := Eval vm_compute in
  match encode inst_fmt rt_inner sc_env [82] sc_msg with Ok t => t | _ => [] end.
Definition sc_back : msg := Eval vm_compute in
  match CodecDec.decode_bytes inst_orc sc_env [82] sc_txt with Ok m => m | _ => [] end.
Example C01_bytes_scalars_example :
  encode inst_fmt rt_inner sc_env [82] sc_msg = Ok sc_txt /\
  CodecDec.decode_bytes inst_orc sc_env [82] sc_txt = Ok sc_back /\
  msg_get 1 sc_back = msg_get 1 sc_msg /\ msg_get 2 sc_back = msg_get 2 sc_msg /\ msg_get 4 sc_back = msg_get 4 sc_msg /\
  msg_get 3 sc_back = Some (VMsg [(1, VStr [49; 46; 53])]).
Proof. repeat split; vm_compute; reflexivity. Qed.

(* ---------------------------------------------------------------- the float laws on a sub-domain
   float_text_ok and float_roundtrip are premises of the theorems above (laws of strconv, exercised on
   every run, never proved of strconv).  On the sub-domain of integer-valued floats of magnitude below
   10^5 (both widths, both signs, -0 included) they are PROVED for a model of FormatFloat(v,'g',-1,w) /
   ParseFloat (model/CodecFloatInt.v: such a float prints as its decimal digits, the literal parses to
   the exact float), and that model is compared with strconv on the sub-domain on every run (stream
   CFloatInt): the pattern is finite, the text is a JSON number, and it reads back to the same bits. *)
Theorem C01_float_laws_on_small_integers : forall is32 neg n, (n < small_bound)%N ->
  let bits := float_of_int is32 neg n in
  float_finite is32 bits = true /\
  exists txt, fmt_small is32 bits = Some txt /\ valid_number txt = true /\ parse_small is32 txt = Some bits.
Proof. exact float_laws_small. Qed.
Print Assumptions C01_float_laws_on_small_integers.

(* ---------------------------------------------------------------- non-finite floats, width by width
   Outside the property's quantifier (finite floats), inside the codec's contract since /repo 5e4d94d:
   NaN / +Inf / -Inf are written as the quoted words of the protobuf JSON mapping and read back by the
   decoder's string arm with ParseFloat at the width of the field.  For every non-finite pattern of
   either width: an infinity reads back as the SAME pattern, a NaN (any payload) as strconv's NaN.
   Premise: ParseFloat's answers for the three words at each width (taken from strconv on every run by
   the literal tables of the non-finite-float stream).  A decoder that refuses "Infinity" for a 32-bit
   field (seeded change C01-H) fails this stream's oracle and the model/implementation comparison. *)
Theorem C01_nonfinite_float_roundtrip :
  forall fmt_float parse_float parse_time, nonfinite_parse_ok parse_float ->
  forall is32 bits, (bits < ftop is32)%N -> float_finite is32 bits = false ->
    exists J, enc_scalar fmt_float (fkind is32) (VFloat bits) = Ok (print J) /\ wfb J = true /\
      exists b', dec_scalar parse_float parse_time (fkind is32) J = Ok (Some (VFloat b')) /\
                 (float_is_inf is32 bits = true -> b' = bits) /\
                 (float_is_nan is32 bits = true -> float_is_nan is32 b' = true).
Proof. exact nonfinite_float_roundtrip. Qed.
Print Assumptions C01_nonfinite_float_roundtrip.
Example C01_nonfinite_premise_satisfiable : nonfinite_parse_ok inst_nf.
Proof. exact nonfinite_parse_satisfiable. Qed.

(* ---------------------------------------------------------------- the preconditions, decided *)
(* EnumSchema.OptionByName inverts OptionByNumber on every enum whose option names are distinct:
   the enum round trip is derived from a schema condition (part of env_static_b), not assumed per
   value (rep_value RV_enum asks only that the number is declared). *)
Theorem C01_enum_name_number_inverse : forall pre opts n name,
  NoDup (map fst opts) -> option_by_number opts n = Some name -> option_by_name pre opts name = Some n.
Proof. exact option_by_name_inverse. Qed.
Print Assumptions C01_enum_name_number_inverse.

(* the static hypotheses of the theorems are one boolean function of the environment ... *)
Theorem C01_env_static_decided : forall env, env_static_b env = true ->
  oneofs_flat env /\ oneof_names_ok env /\ env_items_ok env /\ enums_ok env /\ env_props_ok env.
Proof. exact env_static_b_sound. Qed.
Print Assumptions C01_env_static_decided.

(* ... and "representable" is a boolean function of (environment, message): rep_root_b implies the
   inductive precondition rep_root of the theorems above.  Both functions are evaluated on every
   round-trip case of every run (CodecEncCorr.enc_check, CRound) and must agree with what the
   harness says about the case; evidence counts the cases on which they hold. *)
Theorem C01_rep_root_decided : forall any_inner raw any_back env,
  enums_ok env -> env_props_ok env ->
  forall fuel root m, rep_root_b any_inner raw any_back env fuel root m = true -> rep_root any_inner raw any_back env root m.
Proof. exact rep_root_b_sound. Qed.
Print Assumptions C01_rep_root_decided.

(* The full statement with computable preconditions: nothing about the schema or the message is a
   Prop-level hypothesis any more; what remains assumed are the three library laws (strconv float
   text / round trip, time.Parse) and inner_ok. *)
Theorem C01_full_statement_decided :
  forall fmt_float parse_float parse_time any_inner any_back env,
    float_text_ok fmt_float -> float_roundtrip fmt_float parse_float -> time_parse_extends parse_time ->
    inner_ok any_inner -> env_static_b env = true ->
    forall fuel root m, rep_root_b any_inner print any_back env fuel root m = true ->
      exists txt J, encode fmt_float any_inner env root m = Ok txt /\ strict_parse txt = Some J /\
        (N.of_nat (jnest J) <= max_nesting ->
         exists m', decode_tree (dec_scalar parse_float parse_time) print false any_back env root J = Ok m' /\
                    equiv_root any_inner print any_back env root m m').
Proof. exact codec_full_decided. Qed.
Print Assumptions C01_full_statement_decided.

(* ... and over the decoder family's byte-level, Go-tied model on the encoder's text (default codec):
   the preconditions on schema and message are the same two booleans *)
Theorem C01_full_statement_bytes_decided :
  forall fmt_float any_inner orc env,
    float_text_ok fmt_float -> orc_float_ok fmt_float orc -> orc_time_ok orc -> orc_decimal_ok orc ->
    inner_ok any_inner -> env_static_b env = true ->
    forall fuel root m, rep_root_b any_inner print None env fuel root m = true ->
      exists txt J, encode fmt_float any_inner env root m = Ok txt /\ txt = print J /\ wfb J = true /\
        (CodecDecTree.jdepth J <= CodecDec.max_scan_depth ->
         exists m', CodecDec.decode_bytes orc env root txt = Ok m' /\ equiv_root any_inner raw_dec None env root m m').
Proof. exact codec_full_bytes_decided. Qed.
Print Assumptions C01_full_statement_bytes_decided.

(* The same with the inner Any encoding being the encoder itself on the payload message of a
   registered type (resolver reg and proto.Unmarshal abstract), nested n levels: inner_ok is no
   longer a premise (C08_inner_encoding_is_compact discharges it). *)
Theorem C01_full_statement_inner_encoder :
  forall fmt_float parse_float parse_time reg unmarshal,
    float_text_ok fmt_float -> float_roundtrip fmt_float parse_float -> time_parse_extends parse_time ->
    (forall tn e root, reg tn = Some (e, root) -> oneofs_flat e) ->
    (forall tn pb e root m, reg tn = Some (e, root) -> unmarshal tn pb = Some m -> raw_root_gen e compact_json root m) ->
    forall n any_back env fuel root m,
      env_static_b env = true ->
      rep_root_b (inner_n fmt_float reg unmarshal n) print any_back env fuel root m = true ->
      exists txt J, encode fmt_float (inner_n fmt_float reg unmarshal n) env root m = Ok txt /\ strict_parse txt = Some J /\
        (N.of_nat (jnest J) <= max_nesting ->
         exists m', decode_tree (dec_scalar parse_float parse_time) print false any_back env root J = Ok m' /\
                    equiv_root (inner_n fmt_float reg unmarshal n) print any_back env root m m').
Proof. exact codec_full_inner. Qed.
Print Assumptions C01_full_statement_inner_encoder.

(* ... and the success of the inner encoding, which rep_value asks of an Any whose payload is stored
   as proto bytes, follows from the representability of the payload message (encode totality one
   nesting level down). *)
Theorem C01_any_payload_encodes :
  forall fmt_float parse_float parse_time reg unmarshal,
    float_text_ok fmt_float -> float_roundtrip fmt_float parse_float -> time_parse_extends parse_time ->
    (forall tn e root, reg tn = Some (e, root) -> oneofs_flat e) ->
    forall k raw any_back tn pb e root pm,
      reg tn = Some (e, root) -> unmarshal tn pb = Some pm ->
      rep_root (inner_n fmt_float reg unmarshal k) raw any_back e root pm ->
      exists t, inner_n fmt_float reg unmarshal (S k) tn pb = Ok t.
Proof. exact inner_payload_encodes. Qed.
Print Assumptions C01_any_payload_encodes.

(* non-vacuity of the decided statement on a schema with an enum whose third short name is the prefix
   followed by the second one, an array, a map, an exposed oneof (path []), and a j5 Any storing JSON
   text: both deciders evaluate to true and the round trip computes *)
Definition dx_env : env :=
  [([82], SObject [mkProp [101] [1] false false [] (FEnum [69]);
                   mkProp [97] [2] false false [] (FArray (FScalar KInt32));
                   mkProp [109] [3] false false [] (FMap (FScalar KString));
                   mkProp [120] [] false false [] (FOneof [88]);
                   mkProp [121] [6] false true [] (FAny false)]);
   ([88], SOneof [mkProp [120; 97] [4] false true [5] (FScalar KBool);
                  mkProp [120; 98] [5] false true [4] (FScalar KInt32)]);
   ([69], SEnum [80; 95] [([85], 0%Z); ([65], 1%Z); ([80; 95; 65], 2%Z)])].
Definition dx_msg : msg :=
  [(1, VEnum 2); (2, VList [VInt 1; VInt (-2)]); (3, VMap [([107], VStr [118])]); (4, VBool false);
   (6, VMsg [(1, VStr [84]); (3, VBytes [123; 34; 97; 34; 58; 49; 125])])].
Definition dx_txt : bytes := Eval vm_compute in
  match encode rt_fmt rt_inner dx_env [82] dx_msg with Ok t => t | _ => [] end.
Definition dx_tree : jvalue := Eval vm_compute in
  match strict_parse dx_txt with Some j => j | None => JNull end.

Example C01_decided_example :
  env_static_b dx_env = true /\ rep_root_b rt_inner print None dx_env 3 [82] dx_msg = true /\
  encode rt_fmt rt_inner dx_env [82] dx_msg = Ok dx_txt /\ strict_parse dx_txt = Some dx_tree /\
  decode_tree (dec_scalar rt_pf rt_pt) print false None dx_env [82] dx_tree = Ok dx_msg /\
  dx_txt <> [].
Proof. repeat split; try (vm_compute; reflexivity). discriminate. Qed.

(* the decided statement over the decoder family's byte-level model on the same example: the Any payload
   is stored in that family's canonical spelling (raw_dec), everything else comes back as it was *)
Example C01_bytes_decided_example :
  env_static_b dx_env = true /\ rep_root_b rt_inner print None dx_env 3 [82] dx_msg = true /\
  exists m', CodecDec.decode_bytes inst_orc dx_env [82] dx_txt = Ok m' /\
             msg_get 1 m' = msg_get 1 dx_msg /\ msg_get 2 m' = msg_get 2 dx_msg /\ msg_get 3 m' = msg_get 3 dx_msg /\
             msg_get 4 m' = msg_get 4 dx_msg.
Proof. split; [vm_compute; reflexivity|]. split; [vm_compute; reflexivity|]. eexists. split; [vm_compute; reflexivity|]. repeat split; reflexivity. Qed.

(* google.protobuf.Any, the payload stated on MESSAGES (round 4): equiv_value (FAny true), the relation
   C01_full_statement_proto_any concludes for a pb Any field, says "the decoded value bytes are what
   the reverse conversion yields".  With the two conversions being what the Go code runs — forward:
   resolver, proto.Unmarshal, Codec.encode of the payload message (inner_n); reverse: resolver,
   Codec.decode of the payload text, proto.Marshal (back_of) — the decoded value bytes unmarshal to a
   message EQUIVALENT (equiv_root of the payload type: the codec round trip one level down) to the
   message the original value bytes unmarshal to.  Used of the proto wire format: Unmarshal reads
   back the Marshal bytes of a message the decoder built.  The payload schema and payload message
   must themselves be inside the theorem (env_static_b, rep_root_b: decided). *)
Theorem C01_proto_any_payload_equiv :
  forall fmt_float parse_float parse_time reg unmarshal marshal,
    float_text_ok fmt_float -> float_roundtrip fmt_float parse_float -> time_parse_extends parse_time ->
    (forall tn e root, reg tn = Some (e, root) -> oneofs_flat e) ->
    (forall tn pb e root m, reg tn = Some (e, root) -> unmarshal tn pb = Some m -> raw_root_gen e compact_json root m) ->
    forall k ab env0 tn fuel m m',
      equiv_value (inner_n fmt_float reg unmarshal (S k)) print
                  (Some (back_of parse_float parse_time reg marshal ab)) env0 (FAny true) (VMsg m) (VMsg m') ->
      sfield 1 m = any_prefix ++ tn ->
      (forall e root txt x, reg tn = Some (e, root) ->
         decode_text (dec_scalar parse_float parse_time) ab e root txt = Ok x -> unmarshal tn (marshal tn x) = Some x) ->
      (forall e root, reg tn = Some (e, root) -> env_static_b e = true) ->
      (forall e root pm, reg tn = Some (e, root) -> unmarshal tn (sfield 2 m) = Some pm ->
         rep_root_b (inner_n fmt_float reg unmarshal k) print ab e fuel root pm = true) ->
      (forall J, strict_parse (match inner_n fmt_float reg unmarshal (S k) tn (sfield 2 m) with Ok t => t | _ => [] end) = Some J ->
         N.of_nat (jnest J) <= max_nesting) ->
      exists e root pm pm',
        reg tn = Some (e, root) /\
        unmarshal tn (sfield 2 m) = Some pm /\
        unmarshal tn (sfield 2 m') = Some pm' /\
        sfield 1 m' = sfield 1 m /\
        equiv_root (inner_n fmt_float reg unmarshal k) print ab e root pm pm'.
Proof. exact pbany_payload_equiv. Qed.
Print Assumptions C01_proto_any_payload_equiv.

(* non-vacuity: payload type T = an object with one bool member "a" (field 1); unmarshal/marshal are a
   retraction on the messages of that type the decoder builds ([] <-> [], [(1,true)] <-> [8;1]).  All
   hypotheses hold for the value {type URL .../T, bytes 08 01} and its decoded counterpart, and the
   conclusion names the two payload messages. *)
Definition pp_env : env := [([84], SObject [mkProp [97] [1] false false [] (FScalar KBool)])].
Definition pp_reg (tn : bytes) : option (env * bytes) := if bytes_eqb tn [84] then Some (pp_env, [84]) else None.
Definition pp_unmarshal (tn pb : bytes) : option msg :=
  match pb with [] => Some [] | [8; 1] => Some [(1, VBool true)] | _ => None end.
Definition pp_marshal (tn : bytes) (x : msg) : bytes :=
  match x with [(1, VBool true)] => [8; 1] | _ => [] end.
Definition pp_m : msg := [(1, VStr (any_prefix ++ [84])); (2, VBytes [8; 1])].
Example C01_proto_any_payload_example :
  equiv_value (inner_n inst_fmt pp_reg pp_unmarshal 1) print
              (Some (back_of inst_parse_float parse_rfc3339 pp_reg pp_marshal None)) [] (FAny true) (VMsg pp_m) (VMsg pp_m) /\
  pp_reg [84] = Some (pp_env, [84]) /\ env_static_b pp_env = true /\
  pp_unmarshal [84] (sfield 2 pp_m) = Some [(1, VBool true)] /\
  rep_root_b (inner_n inst_fmt pp_reg pp_unmarshal 0) print None pp_env 2 [84] [(1, VBool true)] = true /\
  inner_n inst_fmt pp_reg pp_unmarshal 1 [84] (sfield 2 pp_m) = Ok [123; 34; 97; 34; 58; 116; 114; 117; 101; 125] /\
  back_of inst_parse_float parse_rfc3339 pp_reg pp_marshal None [84] [123; 34; 97; 34; 58; 116; 114; 117; 101; 125] = Ok [8; 1].
Proof.
  split.
  - apply EV_pbany with (tn := [84]) (Jd := JObj [([97], JBool true)])
                        (back := back_of inst_parse_float parse_rfc3339 pp_reg pp_marshal None);
      try reflexivity; vm_compute; reflexivity.
  - repeat split; vm_compute; reflexivity.
Qed.

(* The shared-holder oneof shape (round 4): the exposed oneof of a FLATTENED object is hoisted by the
   reflector to a oneof property whose proto path is the path of the flattened child, a proper prefix
   of the paths of the child's other hoisted properties — outside props_ok (env_static_b is false).
   CodecSharedHolder.hoist_env presents such a property as an exposed oneof of the parent (path [],
   members addressed from the parent).  (1) hoisting is the identity on environments without the
   shape; (2) the full round-trip statement holds on the hoisted view, its side conditions being the
   same two deciders evaluated on hoist_env e; (3) it holds on e itself for every message on which the
   codec on e and on hoist_env e agree (same document, same decoded message).  The agreement is
   evaluated by CRound on every case of such an environment, against the real codec's document and
   decoded message (counters named shared_holder_...).  It fails exactly when an existing holder has no
   populated member of the oneof (the codec writes "x":{} there). *)
Theorem C01_hoisting_conservative : forall e, env_shared_holder_b e = false -> hoist_env e = e.
Proof. exact hoist_env_id. Qed.
Print Assumptions C01_hoisting_conservative.

Theorem C01_shared_holder_hoisted_decided :
  forall fmt_float parse_float parse_time any_inner any_back e,
    float_text_ok fmt_float -> float_roundtrip fmt_float parse_float -> time_parse_extends parse_time ->
    inner_ok any_inner ->
    env_static_b (hoist_env e) = true ->
    forall fuel root m,
      rep_root_b any_inner print any_back (hoist_env e) fuel root m = true ->
      exists txt J, encode fmt_float any_inner (hoist_env e) root m = Ok txt /\ strict_parse txt = Some J /\
        (N.of_nat (jnest J) <= max_nesting ->
         exists m', decode_tree (dec_scalar parse_float parse_time) print false any_back (hoist_env e) root J = Ok m' /\
                    equiv_root any_inner print any_back (hoist_env e) root m m').
Proof. exact codec_full_hoisted. Qed.
Print Assumptions C01_shared_holder_hoisted_decided.

Theorem C01_shared_holder_decided_partial :
  forall fmt_float parse_float parse_time any_inner any_back e,
    float_text_ok fmt_float -> float_roundtrip fmt_float parse_float -> time_parse_extends parse_time ->
    inner_ok any_inner ->
    env_static_b (hoist_env e) = true ->
    forall fuel root m,
      rep_root_b any_inner print any_back (hoist_env e) fuel root m = true ->
      encode fmt_float any_inner e root m = encode fmt_float any_inner (hoist_env e) root m ->
      (forall J, strict_parse (match encode fmt_float any_inner e root m with Ok t => t | _ => [] end) = Some J ->
         decode_tree (dec_scalar parse_float parse_time) print false any_back e root J =
         decode_tree (dec_scalar parse_float parse_time) print false any_back (hoist_env e) root J) ->
      exists txt J, encode fmt_float any_inner e root m = Ok txt /\ strict_parse txt = Some J /\
        (N.of_nat (jnest J) <= max_nesting ->
         exists m', decode_tree (dec_scalar parse_float parse_time) print false any_back e root J = Ok m' /\
                    equiv_root any_inner print any_back (hoist_env e) root m m').
Proof. exact codec_full_shared_holder. Qed.
Print Assumptions C01_shared_holder_decided_partial.

(* the statement that is NOT proved (what is missing for the shape): both agreement premises of the
   partial theorem follow from the decidable condition "every existing holder has a populated member"
   (CodecSharedHolder.holders_have_members_b), for all environments and messages.  CRound checks
   per case that inside the other two side conditions the agreement holds EXACTLY when that condition does *)
Definition C01_shared_holder_full_statement : Prop :=
  forall fmt_float parse_float parse_time any_inner any_back e,
    float_text_ok fmt_float -> float_roundtrip fmt_float parse_float -> time_parse_extends parse_time ->
    inner_ok any_inner ->
    env_static_b (hoist_env e) = true ->
    forall fuel root m,
      rep_root_b any_inner print any_back (hoist_env e) fuel root m = true ->
      holders_have_members_b e root m = true ->
      exists txt J, encode fmt_float any_inner e root m = Ok txt /\ strict_parse txt = Some J /\
        (N.of_nat (jnest J) <= max_nesting ->
         exists m', decode_tree (dec_scalar parse_float parse_time) print false any_back e root J = Ok m' /\
                    equiv_root any_inner print any_back (hoist_env e) root m m').

(* non-vacuity: root R flattens its field 1 (a message with a string field 1 and a proto oneof {2: bool,
   3: int32} exposed as "x"); R also has an int32 field 2.  The environment is outside env_static_b,
   its hoisted view inside; on sh_msg (holder with member k1) every premise of the partial theorem
   computes; on sh_msg2 (holder without member) the documents differ: "x":{} against nothing. *)
Definition sh_env : env :=
  [([82], SObject [mkProp [97] [1; 1] false false [] (FScalar KString);
                   mkProp [120] [1] false true [] (FOneof [88]);
                   mkProp [98] [2] false false [] (FScalar KInt32)]);
   ([88], SOneof [mkProp [107; 49] [2] false true [3] (FScalar KBool);
                  mkProp [107; 50] [3] false true [2] (FScalar KInt32)])].
Definition sh_msg : msg := [(1, VMsg [(1, VStr [118]); (2, VBool true)]); (2, VInt 7)].
Definition sh_msg2 : msg := [(1, VMsg [(1, VStr [118])]); (2, VInt 7)].
Definition sh_txt : bytes := Eval vm_compute in
  match encode rt_fmt rt_inner sh_env [82] sh_msg with Ok t => t | _ => [] end.
Definition sh_tree : jvalue := Eval vm_compute in
  match strict_parse sh_txt with Some j => j | None => JNull end.
Example C01_shared_holder_example :
  env_shared_holder_b sh_env = true /\ env_static_b sh_env = false /\ env_static_b (hoist_env sh_env) = true /\
  rep_root_b rt_inner print None (hoist_env sh_env) 3 [82] sh_msg = true /\
  holders_have_members_b sh_env [82] sh_msg = true /\ holders_have_members_b sh_env [82] sh_msg2 = false /\
  encode rt_fmt rt_inner sh_env [82] sh_msg = Ok sh_txt /\
  encode rt_fmt rt_inner (hoist_env sh_env) [82] sh_msg = Ok sh_txt /\
  strict_parse sh_txt = Some sh_tree /\
  decode_tree (dec_scalar rt_pf rt_pt) print false None sh_env [82] sh_tree = Ok sh_msg /\
  decode_tree (dec_scalar rt_pf rt_pt) print false None (hoist_env sh_env) [82] sh_tree = Ok sh_msg /\
  encode rt_fmt rt_inner sh_env [82] sh_msg2 <> encode rt_fmt rt_inner (hoist_env sh_env) [82] sh_msg2 /\
  sh_txt <> [].
Proof. repeat split; try (vm_compute; reflexivity); vm_compute; discriminate. Qed.

(* C01 — JSON codec round trip: decode (encode m) equals m for every J5-representable message
   (decimals compared numerically, an empty flattened sub-object treated as absent).
   Only statements, closed by [exact lemma], with Print Assumptions beneath. *)
From Coq Require Import String List NArith ZArith Bool Lia ZifyN ZifyNat ZifyBool.
From J5V.lib Require Import Outcome Json JsonPrint Base64 Civil Decimal.
From J5V.model Require Import CodecTypes CodecEnc CodecEncSpec CodecEncDec.
From J5V.proofs Require Import CodecEncProofs CodecEncDecProofs.
Import ListNotations.
Local Open Scope N_scope.

(* every scalar kind, every value of its documented domain: the printer's token is read back by
   the matching arm of scalarReflectFromGo to the same value (decimals: to the normalised text).
   Premises: the strconv float law and "time.Parse starts with the RFC 3339 fast path". *)
Theorem C01_scalar_roundtrip :
  forall fmt_float parse_float parse_time,
    float_text_ok fmt_float -> float_roundtrip fmt_float parse_float -> time_parse_extends parse_time ->
    forall k v, rep_scalar k v ->
    exists J, (exists txt, enc_scalar fmt_float k v = Ok txt /\ txt = print J) /\ wfb J = true /\
              is_container J = false /\ J <> JNull /\
              exists v', dec_scalar parse_float parse_time k J = Ok (Some v') /\ scalar_equiv k v v'.
Proof. exact scalar_roundtrip. Qed.
Print Assumptions C01_scalar_roundtrip.

(* the inverse pairs behind it, each for all values *)
Theorem C01_int_text : forall z, parse_Z (print_Z z) = Some z.
Proof. exact parse_print_Z. Qed.
Print Assumptions C01_int_text.

Theorem C01_string_text : forall j, wfb j = true -> strict_parse (print j) = Some j.
Proof. exact parse_print. Qed.
Print Assumptions C01_string_text.

Theorem C01_bytes_text : forall bs, Forall is_byte bs -> b64_lenient (b64_encode bs) = Some bs.
Proof. exact b64_lenient_encode. Qed.
Print Assumptions C01_bytes_text.

Theorem C01_timestamp_text : forall s ns, ts_range s ns -> parse_rfc3339 (format_rfc3339nano s ns) = Some (s, ns).
Proof. exact parse_format_rfc3339. Qed.
Print Assumptions C01_timestamp_text.

Theorem C01_calendar : forall z,
  match civil_from_days z with
  | (y, m, d) => days_from_civil y m d = z /\ (1 <= m <= 12)%Z /\ (1 <= d <= days_in m y)%Z
  end.
Proof. exact civil_roundtrip. Qed.
Print Assumptions C01_calendar.

Theorem C01_date_text : forall y m d,
  (0 <= y <= 9999)%Z -> (1 <= m <= 12)%Z -> (1 <= d <= days_in m y)%Z ->
  date_from_string (date_string y m d) = Some (y, m, d).
Proof. exact date_roundtrip. Qed.
Print Assumptions C01_date_text.

(* the former spelling of dates (finding 8, fixed) did not read back *)
Theorem C01_date_v0_refuted : date_from_string (date_string_v0 5 1 2) = None.
Proof. exact date_v0_refuted. Qed.
Print Assumptions C01_date_v0_refuted.

(* non-vacuity: one value per scalar kind inside its domain *)
Example C01_example :
  rep_scalar KInt64 (VInt (-9223372036854775808)%Z) /\ rep_scalar KUint64 (VInt 18446744073709551615%Z) /\
  rep_scalar KBytes (VBytes [251; 255]) /\ rep_scalar KString (VStr [34; 240; 159; 152; 128]) /\
  rep_scalar KDate (VMsg [(1, VInt 5%Z); (2, VInt 2%Z); (3, VInt 28%Z)]) /\
  rep_scalar KTimestamp (mk_timestamp 1709251199 120000000) /\
  rep_scalar KDecimal (VMsg [(1, VStr [49; 46; 53; 48])]) /\
  parse_rfc3339 (format_rfc3339nano 1709251199 120000000) = Some (1709251199%Z, 120000000%Z) /\
  dec_normalise [49; 46; 53; 48] = Some [49; 46; 53].
Proof.
  split; [cbn [rep_scalar]; lia|]. split; [cbn [rep_scalar]; lia|].
  split; [cbn [rep_scalar]; repeat constructor; unfold is_byte; lia|].
  split; [cbn [rep_scalar]; vm_compute; reflexivity|].
  split. { cbn [rep_scalar]. exists 5%Z, 2%Z, 28%Z. split; [reflexivity|]. vm_compute. repeat split; discriminate. }
  split. { change (mk_timestamp 1709251199 120000000) with (VMsg [(1, VInt 1709251199%Z); (2, VInt 120000000%Z)]).
           cbn [rep_scalar]. exists 1709251199%Z, 120000000%Z. split; [reflexivity|]. unfold ts_range. lia. }
  split. { cbn [rep_scalar]. exists [49; 46; 53; 48], [49; 46; 53]. repeat split; vm_compute; reflexivity. }
  split; vm_compute; reflexivity.
Qed.

(* C05 — generated .proto text re-parses to the descriptor it was printed from.
   Only statements, closed by [exact lemma], with Print Assumptions beneath. *)
From Coq Require Import String List NArith ZArith Bool Lia ZifyN ZifyNat ZifyBool.
From J5V.lib Require Import Outcome.
From J5V.model Require Import ProtoPrintLit ProtoPrint.
From J5V.gen Require PrintGen.
From J5V.proofs Require Import ProtoPrintLitProofs ProtoPrintProofs ProtoPrintTokenProofs.
Import ListNotations.
Local Open Scope N_scope.

(* ---- the property at full strength ------------------------------------------------------------
   C05 quantifies over whole descriptors D: parse (print D) ~ D and print (parse (print D)) = print D.
   The model covers the layers on which that depends and that the printer decides itself:
   (1) every literal the printer writes is read back as the value it was written from,
   (2) every type reference the printer shortens resolves, from the scope it is printed in, to the
       type it was written for.
   (1) is proved for all inputs. (2) is proved for ALL symbol tables and all nestings for the printer
   as it is now (fix bb3e43d: captured names are printed with a leading dot); wf_target only says that
   the referenced type and its enclosing messages are in the table and its package is visible. For the
   printer before that fix it holds under explicit no-capture hypotheses and is refuted without them
   (kept below as the ..._previous_... theorems). The layers above (layout of
   elements, comments, whitespace, the option tree as a whole) are exercised by the round-trip
   oracle on the real printer and parser, they are not modelled: character layer partial. *)
Definition C05_scope_full_statement : Prop :=
  forall st pkg ctx ref_pkg ref, ref <> [] -> wf_target st pkg ref_pkg ref ->
    resolve_printed st pkg ctx (context_ref_name_safe st pkg ctx ref_pkg ref) = Some (ref_pkg ++ ref).

(* ---- (1) literal layer: inverse pairs, for all byte strings / integers ---------------------- *)
Theorem C05_string_literal_roundtrip : forall s,
  Forall (fun b => b < 256) s -> parse_string_lit (print_string_lit s) = Some s.
Proof. exact parse_print_string. Qed.
Print Assumptions C05_string_literal_roundtrip.

(* the closing quote the lexer finds is the printed one, whatever text follows *)
Theorem C05_string_literal_lexes : forall s t,
  Forall (fun b => b < 256) s -> lex_string_lit (print_string_lit s ++ t) = Some (s, t).
Proof. exact lex_print_string. Qed.
Print Assumptions C05_string_literal_lexes.

Theorem C05_string_literal_ascii : forall s, Forall (fun b => 32 <= b <= 126) (print_string_lit s).
Proof. exact print_string_ascii. Qed.
Print Assumptions C05_string_literal_ascii.

(* the per-rune printer is Go's prototextString with its index/slice control flow *)
Theorem C05_string_printer_is_go : forall s, print_string_lit_go s = print_string_lit s.
Proof. exact print_string_lit_go_eq. Qed.
Print Assumptions C05_string_printer_is_go.

Theorem C05_int_roundtrip : forall z, parse_int (print_int z) = Some z.
Proof. exact parse_print_int. Qed.
Print Assumptions C05_int_roundtrip.

Theorem C05_uint_roundtrip : forall n, parse_uint (print_uint n) = Some n.
Proof. exact parse_print_uint. Qed.
Print Assumptions C05_uint_roundtrip.

Theorem C05_bool_roundtrip : forall b, parse_bool (print_bool b) = Some b.
Proof. exact parse_print_bool. Qed.
Print Assumptions C05_bool_roundtrip.

Theorem C05_dotted_name_roundtrip : forall parts,
  parts <> [] -> Forall (fun p => is_ident p = true) parts -> split_dot (join_dot parts) = parts.
Proof. exact split_join_dot. Qed.
Print Assumptions C05_dotted_name_roundtrip.

(* ---- (2) scope shortening ---------------------------------------------------------------------- *)
(* the name the printer writes resolves, from the scope it is written in, to the type it stands for *)
Theorem C05_scope_full : C05_scope_full_statement.
Proof. exact scope_lemma_full. Qed.
Print Assumptions C05_scope_full.

(* the printer before fix bb3e43d (context_ref_name): a shortened relative name resolves to the same
   full name from that scope, if no type nested in an inner scope has the name it starts with *)
Theorem C05_scope_same_package_previous_partial : forall st pkg ctx ref,
  ref <> [] -> wf_ref st pkg ref -> no_capture st pkg ctx ref ->
  resolve st pkg ctx (context_ref_name pkg ctx pkg ref) = Some (pkg ++ ref).
Proof. exact scope_lemma_same_package. Qed.
Print Assumptions C05_scope_same_package_previous_partial.

Theorem C05_scope_other_package_previous_partial : forall st pkg ctx ref_pkg ref first prest,
  ref_pkg = first :: prest -> ref <> [] -> qname_eqb pkg ref_pkg = false ->
  In ref_pkg (st_pkgs st) -> is_type st (ref_pkg ++ ref) = true ->
  no_capture_pkg st pkg ctx first ->
  resolve st pkg ctx (context_ref_name pkg ctx ref_pkg ref) = Some (ref_pkg ++ ref).
Proof. exact scope_lemma_other_package. Qed.
Print Assumptions C05_scope_other_package_previous_partial.

(* without the hypotheses: a nested type shadows the top-level type of the same name *)
Theorem C05_scope_shadow_previous_refuted :
  context_ref_name pkg_w [nA] pkg_w [nB] = [nB]
  /\ resolve shadow_table pkg_w [nA] [nB] = Some (pkg_w ++ [nA; nB])
  /\ pkg_w ++ [nA; nB] <> pkg_w ++ [nB].
Proof. exact shadow_refuted. Qed.
Print Assumptions C05_scope_shadow_previous_refuted.

(* ... and a package whose first component names the file's own sub-package is captured *)
Theorem C05_scope_cross_package_previous_refuted :
  context_ref_name [svc; v1; svc] [nB] [svc; v1] [nA] = [svc; v1; nA]
  /\ resolve cross_table [svc; v1; svc] [nB] [svc; v1; nA] = None.
Proof. exact cross_package_refuted. Qed.
Print Assumptions C05_scope_cross_package_previous_refuted.

(* on the first witness the printer now writes the absolute name, which resolves *)
Theorem C05_scope_shadow_now_absolute :
  context_ref_name_safe shadow_table pkg_w [nA] pkg_w [nB] = {| pn_abs := true; pn_name := pkg_w ++ [nB] |}
  /\ resolve_printed shadow_table pkg_w [nA] (context_ref_name_safe shadow_table pkg_w [nA] pkg_w [nB]) = Some (pkg_w ++ [nB]).
Proof. exact shadow_now_absolute. Qed.
Print Assumptions C05_scope_shadow_now_absolute.

(* the printed name is never empty (the snapshot printed an empty type for self references) *)
Theorem C05_scope_never_empty : forall st ctx_pkg ctx ref_pkg ref, ref <> [] ->
  pn_name (context_ref_name_safe st ctx_pkg ctx ref_pkg ref) <> [].
Proof. exact safe_never_empty. Qed.
Print Assumptions C05_scope_never_empty.

Theorem C05_scope_snapshot_refuted : forall pkg a, context_ref_name_snapshot pkg [a] pkg [a] = [].
Proof. exact snapshot_self_reference_empty. Qed.
Print Assumptions C05_scope_snapshot_refuted.

(* ---- (3) option values at token level --------------------------------------------------------- *)
(* for every option tree (scalars, nested messages, arrays, arrays of messages) the parser of the
   emitted token subset reads back the tree the printer wrote, whatever follows; fuel = size of the tree *)
Theorem C05_option_tokens_roundtrip : forall v rest,
  parse_raw (size v) (print_val v ++ rest) = Some (raw_of v, rest).
Proof. exact parse_print_val. Qed.
Print Assumptions C05_option_tokens_roundtrip.

(* print idempotence on the parser's image: parsing the printed tokens and printing the result again
   reproduces the same tokens *)
Theorem C05_option_tokens_idempotent : forall v,
  match parse_raw (size v) (print_val v) with
  | Some (r, []) => print_raw r = print_val v
  | _ => False
  end.
Proof. exact print_parse_print_val. Qed.
Print Assumptions C05_option_tokens_idempotent.

(* ... and every leaf token denotes the scalar it was printed from, given the field's kind *)
Theorem C05_option_leaf_roundtrip : forall s, wf_scalar s ->
  read_scalar (kind_of s) (print_scalar s) = Some s.
Proof. exact read_print_scalar. Qed.
Print Assumptions C05_option_leaf_roundtrip.

(* ---- tables re-read from the Go source on every run ------------------------------------------- *)
Theorem C05_tables_agree :
  forallb (fun ce => bytes_eqb' (print_rune_esc (fst ce)) [92; snd ce]) PrintGen.short_escapes = true
  /\ PrintGen.escape_condition = [32; 34; 92; 127]
  /\ PrintGen.strip_guard = "<= 1"%string
  /\ PrintGen.options_field_numbers = PrintGen.descriptor_options_numbers.
Proof.
  split; [exact (proj1 short_escapes_agree)|]. split; [exact (proj1 escape_literals_agree)|].
  split; [exact strip_guard_agrees|exact options_numbers_agree].
Qed.
Print Assumptions C05_tables_agree.

(* ---- non-vacuity -------------------------------------------------------------------------------- *)
Example C05_example_literal :
  let s := [0; 9; 34; 39; 92; 127; 128; 195; 169; 240; 159; 152; 128; 255] in
  Forall (fun b => b < 256) s
  /\ print_string_lit s = [34; 92;120;48;48; 92;116; 92;34; 39; 92;92; 92;120;55;102; 92;120;56;48;
                           92;117;48;48;101;57; 92;85;48;48;48;49;102;54;48;48; 92;120;102;102; 34]
  /\ parse_string_lit (print_string_lit s) = Some s.
Proof.
  cbv zeta. split; [repeat constructor|]. split; vm_compute; reflexivity.
Qed.

Example C05_example_option_tokens :
  let v := OMsg [([103;101;116], OScalar (VStr [47;102;111;111]));
                 ([114;117;108;101;115], OList [OMsg [([110], OScalar (VInt (-5)%Z))]; OMsg []]);
                 ([105;110], OList [OScalar (VUint 1); OScalar (VUint 3)])] in
  size v = 22%nat /\ length (print_val v) = 24%nat
  /\ parse_raw (size v) (print_val v) = Some (raw_of v, []).
Proof. cbv zeta. split; [|split]; vm_compute; reflexivity. Qed.

(* message A { message B { C f = 1; } message C {} } : inside sc.v1.A.B the type sc.v1.A.C is printed "C" *)
Example C05_example_scope :
  let nC := [67] in
  let st := {| st_types := [pkg_w ++ [nA]; pkg_w ++ [nA; nB]; pkg_w ++ [nA; nC]]; st_pkgs := [pkg_w] |} in
  context_ref_name_safe st pkg_w [nA; nB] pkg_w [nA; nC] = {| pn_abs := false; pn_name := [nC] |}
  /\ wf_target st pkg_w pkg_w [nA; nC]
  /\ wf_ref st pkg_w [nA; nC] /\ no_capture st pkg_w [nA; nB] [nA; nC]
  /\ resolve st pkg_w [nA; nB] [nC] = Some (pkg_w ++ [nA; nC]).
Proof.
  cbv zeta.
  assert (Hw : wf_ref {| st_types := [pkg_w ++ [nA]; pkg_w ++ [nA; nB]; pkg_w ++ [nA; [67]]]; st_pkgs := [pkg_w] |} pkg_w [nA; [67]]).
  { intros k Hk. destruct k as [|[|[|k]]]; cbn in Hk; try lia; vm_compute; reflexivity. }
  split; [vm_compute; reflexivity|]. split; [split; [intros _; exact Hw|intro E; vm_compute in E; discriminate]|]. split.
  - exact Hw.
  - split; [|vm_compute; reflexivity].
    intros k Hk. vm_compute in Hk. destruct k as [|[|[|k]]]; try lia. vm_compute. reflexivity.
Qed.

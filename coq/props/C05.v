(* C05 — generated .proto text re-parses to the descriptor it was printed from.
   Only statements, closed by [exact lemma], with Print Assumptions beneath. *)
From Coq Require Import String List NArith ZArith Bool Lia ZifyN ZifyNat ZifyBool.
From J5V.lib Require Import Outcome.
From J5V.model Require Import ProtoPrintLit ProtoPrint ProtoLex ProtoLayout ProtoPrintFile ProtoParseFile ProtoPrintFileWf ProtoPrintFileErase.
From J5V.gen Require PrintGen PrintFileGen.
From J5V.proofs Require Import ProtoPrintLitProofs ProtoPrintProofs ProtoPrintTokenProofs
  ProtoPrintFileSyntaxProofs ProtoPrintFileSortProofs ProtoPrintFileSemProofs ProtoPrintFileFullProofs.
From J5V.proofs Require ProtoPrintFileExample ProtoPrintFileGenProofs.
From J5V.proofs Require Import ProtoPrintFileWfProofs ProtoLexProofs ProtoPrintFileTextProofs.
Import ListNotations.
Local Open Scope N_scope.

(* ---- the property at full strength ------------------------------------------------------------
   C05 quantifies over whole descriptors D: parse (print D) ~ D and print (parse (print D)) = print D.
   The model has four layers:
   (0) file layer (model/ProtoPrintFile.v, model/ProtoParseFile.v): descriptor -> order of the elements of
       every body (source line, else type / index), order of options, Simplify, json_name, grouping of
       extension declarations -> syntactic file -> tokens of the protocompile lexer (comments as pseudo
       tokens in front of the declaration they are attached to); a recursive-descent parser for the emitted
       token subset; building the descriptor back (type names resolved from their scope, sub paths of option
       names folded back, positions as source lines). C05_token_roundtrip below: for every well-formed D
       (messages nested to any depth, any option trees) the parser reads the printed tokens back as a
       descriptor D' equivalent to D, and printing D' gives the same tokens.
   (1) literal layer: every literal the printer writes is read back as the value it was written from,
   (2) scope layer: every type reference the printer shortens resolves, from the scope it is printed in, to
       the type it was written for (used inside (0) for field and rpc types),
   (3) option values at token level (used inside (0)).
   (4) character layer (model/ProtoLex.v, model/ProtoLayout.v): a model of protocompile's lexer on bytes
       (identifiers, numbers with the validity test of Lex, string literals, // and block comments skipped,
       punctuation) and the relation "text is a layout of a token list": the token texts in order, separated
       by whitespace and // comments, each token followed by a byte that ends it. C05_scan_layout: the lexer
       reads EVERY layout of a token list back as exactly those tokens, whatever the separators are.
       C05_text_roundtrip: every text that is a layout of the comment-free tokens printed for a well-formed
       D is read (lexer model + parser model) as a descriptor equivalent to D up to comments. The file
       correspondence checks on every run that the bytes PrintFile wrote ARE such a layout (is_layout) and
       that the lexer model and the real lexer give the same tokens for them.
   What is NOT modelled, and stays with the correspondence (real text tokenised by the real lexer = model
   tokens) and the round-trip oracle: WHICH separators the printer chooses (indentation, blank lines, line
   breaks of inline / block option forms: the theorem holds for any choice) and hence "printing again gives
   the same text" at byte level; the attribution of comments to declarations by the parser's source info
   at character level (comments are pseudo tokens at token level, skipped at character level) and trailing
   comments; single-quoted strings in the lexer model; the resolution
   of extension names in option names and of extendees; strconv.Quote of json_name beyond plain text;
   floats in option values. C05_full_statement is the property over the text; C05_full_partial derives it
   from C05_token_roundtrip with the text-level clause "same text" weakened to "same tokens", under the
   hypothesis that scanning the rendered text gives the model's tokens (what the tie checks on every run). *)
Definition C05_scope_full_statement : Prop :=
  forall st pkg ctx ref_pkg ref, ref <> [] -> wf_target st pkg ref_pkg ref ->
    resolve_printed st pkg ctx (context_ref_name_safe st pkg ctx ref_pkg ref) = Some (ref_pkg ++ ref).


(* ---- (0) file layer ------------------------------------------------------------------------------ *)
(* token level: what the parser reads back from the printed tokens is equivalent to D, and printing it
   again (with the symbol table of the re-read file) gives the same tokens *)
Definition C05_token_statement : Prop :=
  forall (imp : xsymtab) (D : dfile), wf_dfile imp D ->
    let toks := print_file_tokens (to_symtab (dfile_symtab imp D)) D in
    exists D', parse_file_tokens imp toks = Some D'
      /\ desc_equiv D D'
      /\ wf_dfile imp D'
      /\ print_file_tokens (to_symtab (dfile_symtab imp D')) D' = toks.

Theorem C05_token_roundtrip : C05_token_statement.
Proof. exact token_roundtrip. Qed.
Print Assumptions C05_token_roundtrip.

(* the property over the text. render = PrintFile (tokens + the characters between them, decided from
   the source positions), scan = protocompile's lexer with its attribution of comments. *)
Definition C05_full_statement (render : xsymtab -> dfile -> list N) (scan : list N -> option (list token)) : Prop :=
  forall (imp : xsymtab) (D : dfile), wf_dfile imp D ->
    exists D', match scan (render imp D) with Some ts => parse_file_tokens imp ts | None => None end = Some D'
      /\ desc_equiv D D'
      /\ render imp D' = render imp D.

(* ... proved up to the characters between tokens: if scanning the rendered text of a well-formed
   descriptor yields the model's tokens, then the text re-parses to an equivalent descriptor whose
   rendering scans to the same tokens *)
Theorem C05_full_partial : forall (render : xsymtab -> dfile -> list N) (scan : list N -> option (list token)),
  (forall imp D, wf_dfile imp D ->
     scan (render imp D) = Some (print_file_tokens (to_symtab (dfile_symtab imp D)) D)) ->
  forall imp D, wf_dfile imp D ->
    exists D', match scan (render imp D) with Some ts => parse_file_tokens imp ts | None => None end = Some D'
      /\ desc_equiv D D'
      /\ scan (render imp D') = scan (render imp D).
Proof. exact text_roundtrip_partial. Qed.
Print Assumptions C05_full_partial.

(* ---- (4) character layer ---------------------------------------------------------------------------- *)
(* the lexer reads every layout of a token list back as exactly those tokens *)
Theorem C05_scan_layout : forall toks text, is_layout toks text = true -> scan_text text = Some toks.
Proof. exact scan_layout. Qed.
Print Assumptions C05_scan_layout.

(* the property over the text, up to comments: for every well-formed D and EVERY text that is a layout of the
   comment-free tokens the printer model writes for D (whatever whitespace and // comments separate them),
   lexing and parsing the text gives a descriptor D' equivalent to D without comments
   (desc_equiv_nc D D' := exists D0, desc_equiv D D0 /\ D' = erase_dfile D0) *)
Definition C05_text_statement : Prop :=
  forall (imp : xsymtab) (D : dfile) (text : list N), wf_dfile imp D ->
    is_layout (print_file_tokens_nc (to_symtab (dfile_symtab imp D)) D) text = true ->
    exists D', read_text imp text = Some D' /\ desc_equiv_nc D D'.

Theorem C05_text_roundtrip : C05_text_statement.
Proof. exact text_roundtrip_equiv. Qed.
Print Assumptions C05_text_roundtrip.

(* ... with the descriptor named *)
Theorem C05_text_canonical : forall imp D text, wf_dfile imp D ->
  is_layout (print_file_tokens_nc (to_symtab (dfile_symtab imp D)) D) text = true ->
  read_text imp text = Some (erase_dfile (canon_file D)).
Proof. exact text_roundtrip. Qed.
Print Assumptions C05_text_canonical.

(* such a text exists whenever the printed tokens are lexable one by one: one space after every token *)
Theorem C05_text_exists : forall imp D,
  forallb tok_ok (print_file_tokens_nc (to_symtab (dfile_symtab imp D)) D) = true ->
  is_layout (print_file_tokens_nc (to_symtab (dfile_symtab imp D)) D)
            (spaced (print_file_tokens_nc (to_symtab (dfile_symtab imp D)) D)) = true.
Proof. exact text_exists. Qed.
Print Assumptions C05_text_exists.

(* the interpretation of a syntactic file does not look at comments *)
Theorem C05_interp_erase : forall imp s, interp_file imp (erase_sfile s) = option_map erase_dfile (interp_file imp s).
Proof. exact interp_file_erase. Qed.
Print Assumptions C05_interp_erase.

(* the hypotheses as a computable test: the file correspondence evaluates it on every real descriptor of a
   run (the original and the re-parsed one), so each of them is inside C05_token_roundtrip *)
Theorem C05_wf_test_sound : forall imp D, wf_dfile_b imp D = true -> wf_dfile imp D.
Proof. exact wf_dfile_b_sound. Qed.
Print Assumptions C05_wf_test_sound.

(* the pieces, with the re-read descriptor named *)
Theorem C05_syntax_roundtrip : forall s, wf_file s -> parse_file (emit_file s) = Some s.
Proof. exact parse_file_emit. Qed.
Print Assumptions C05_syntax_roundtrip.

Theorem C05_file_canonical : forall imp D, wf_dfile imp D ->
  parse_file_tokens imp (print_file_tokens (to_symtab (dfile_symtab imp D)) D) = Some (canon_file D).
Proof. exact file_roundtrip. Qed.
Print Assumptions C05_file_canonical.

Theorem C05_file_equiv : forall D, desc_equiv D (canon_file D).
Proof. exact canon_file_equiv. Qed.
Print Assumptions C05_file_equiv.

Theorem C05_file_idempotent : forall imp D,
  print_file_tokens (to_symtab (dfile_symtab imp (canon_file D))) (canon_file D)
  = print_file_tokens (to_symtab (dfile_symtab imp D)) D.
Proof. exact print_canon_file. Qed.
Print Assumptions C05_file_idempotent.

(* element order: the sort of a body is a permutation, leaves print order alone, and sorting twice is
   sorting once (sourceElements.Less is asymmetric) *)
Theorem C05_order_laws : forall (l : list (key3 * selem)),
  Permutation.Permutation (isort (fun a b => key_less (fst a) (fst b)) l) l
  /\ isort (fun a b => key_less (fst a) (fst b)) (isort (fun a b => key_less (fst a) (fst b)) l)
     = isort (fun a b => key_less (fst a) (fst b)) l.
Proof. exact order_laws. Qed.
Print Assumptions C05_order_laws.

(* Simplify is undone by folding the sub path back *)
Theorem C05_simplify_inverse : forall max v,
  unsimplify (fst (simplify max [] v)) (snd (simplify max [] v)) = v.
Proof. exact unsimplify_simplify. Qed.
Print Assumptions C05_simplify_inverse.

(* ---- (1) literal layer: inverse pairs, for all byte strings / integers ---------------------- *)
Theorem C05_string_literal_roundtrip : forall s,
  Forall (fun b => b < 256) s -> parse_string_lit (print_string_lit s) = Some s.
Proof. exact parse_print_string. Qed.
Print Assumptions C05_string_literal_roundtrip.

(* the closing quote the lexer finds is the printed one, whatever text follows *)
Theorem C05_string_literal_lexes : forall s t,
  Forall (fun b => b < 256) s -> lex_string_lit (print_string_lit s ++ t) = Some (s, t).
Proof. exact lex_print_string. Qed.
Print Assumptions C05_string_literal_lexes.

Theorem C05_string_literal_ascii : forall s, Forall (fun b => 32 <= b <= 126) (print_string_lit s).
Proof. exact print_string_ascii. Qed.
Print Assumptions C05_string_literal_ascii.

(* the per-rune printer is Go's prototextString with its index/slice control flow *)
Theorem C05_string_printer_is_go : forall s, print_string_lit_go s = print_string_lit s.
Proof. exact print_string_lit_go_eq. Qed.
Print Assumptions C05_string_printer_is_go.

Theorem C05_int_roundtrip : forall z, parse_int (print_int z) = Some z.
Proof. exact parse_print_int. Qed.
Print Assumptions C05_int_roundtrip.

Theorem C05_uint_roundtrip : forall n, parse_uint (print_uint n) = Some n.
Proof. exact parse_print_uint. Qed.
Print Assumptions C05_uint_roundtrip.

Theorem C05_bool_roundtrip : forall b, parse_bool (print_bool b) = Some b.
Proof. exact parse_print_bool. Qed.
Print Assumptions C05_bool_roundtrip.

Theorem C05_dotted_name_roundtrip : forall parts,
  parts <> [] -> Forall (fun p => is_ident p = true) parts -> split_dot (join_dot parts) = parts.
Proof. exact split_join_dot. Qed.
Print Assumptions C05_dotted_name_roundtrip.

(* ---- (2) scope shortening ---------------------------------------------------------------------- *)
(* the name the printer writes resolves, from the scope it is written in, to the type it stands for *)
Theorem C05_scope_full : C05_scope_full_statement.
Proof. exact scope_lemma_full. Qed.
Print Assumptions C05_scope_full.

(* the printer before fix bb3e43d (context_ref_name): a shortened relative name resolves to the same
   full name from that scope, if no type nested in an inner scope has the name it starts with *)
Theorem C05_scope_same_package_previous_partial : forall st pkg ctx ref,
  ref <> [] -> wf_ref st pkg ref -> no_capture st pkg ctx ref ->
  resolve st pkg ctx (context_ref_name pkg ctx pkg ref) = Some (pkg ++ ref).
Proof. exact scope_lemma_same_package. Qed.
Print Assumptions C05_scope_same_package_previous_partial.

Theorem C05_scope_other_package_previous_partial : forall st pkg ctx ref_pkg ref first prest,
  ref_pkg = first :: prest -> ref <> [] -> qname_eqb pkg ref_pkg = false ->
  In ref_pkg (st_pkgs st) -> is_type st (ref_pkg ++ ref) = true ->
  no_capture_pkg st pkg ctx first ->
  resolve st pkg ctx (context_ref_name pkg ctx ref_pkg ref) = Some (ref_pkg ++ ref).
Proof. exact scope_lemma_other_package. Qed.
Print Assumptions C05_scope_other_package_previous_partial.

(* without the hypotheses: a nested type shadows the top-level type of the same name *)
Theorem C05_scope_shadow_previous_refuted :
  context_ref_name pkg_w [nA] pkg_w [nB] = [nB]
  /\ resolve shadow_table pkg_w [nA] [nB] = Some (pkg_w ++ [nA; nB])
  /\ pkg_w ++ [nA; nB] <> pkg_w ++ [nB].
Proof. exact shadow_refuted. Qed.
Print Assumptions C05_scope_shadow_previous_refuted.

(* ... and a package whose first component names the file's own sub-package is captured *)
Theorem C05_scope_cross_package_previous_refuted :
  context_ref_name [svc; v1; svc] [nB] [svc; v1] [nA] = [svc; v1; nA]
  /\ resolve cross_table [svc; v1; svc] [nB] [svc; v1; nA] = None.
Proof. exact cross_package_refuted. Qed.
Print Assumptions C05_scope_cross_package_previous_refuted.

(* on the first witness the printer now writes the absolute name, which resolves *)
Theorem C05_scope_shadow_now_absolute :
  context_ref_name_safe shadow_table pkg_w [nA] pkg_w [nB] = {| pn_abs := true; pn_name := pkg_w ++ [nB] |}
  /\ resolve_printed shadow_table pkg_w [nA] (context_ref_name_safe shadow_table pkg_w [nA] pkg_w [nB]) = Some (pkg_w ++ [nB]).
Proof. exact shadow_now_absolute. Qed.
Print Assumptions C05_scope_shadow_now_absolute.

(* the printed name is never empty (the snapshot printed an empty type for self references) *)
Theorem C05_scope_never_empty : forall st ctx_pkg ctx ref_pkg ref, ref <> [] ->
  pn_name (context_ref_name_safe st ctx_pkg ctx ref_pkg ref) <> [].
Proof. exact safe_never_empty. Qed.
Print Assumptions C05_scope_never_empty.

Theorem C05_scope_snapshot_refuted : forall pkg a, context_ref_name_snapshot pkg [a] pkg [a] = [].
Proof. exact snapshot_self_reference_empty. Qed.
Print Assumptions C05_scope_snapshot_refuted.


(* the printer before fix 5e02f98 wrote a relative type name that starts with a statement keyword or a scalar
   type name as it is: message t.v1.string referenced from t.v1.A was printed "string" and read back as the
   scalar type; message t.v1.option was printed "option" and the body "option f = 1;" is read as an option
   statement. The printer as it is now writes the absolute name, which reads back as the message. *)
Theorem C05_scope_keyword_previous_refuted :
  context_ref_name_nokw (to_symtab kw_table) kw_pkg [[65]] kw_pkg [kw_string] = {| pn_abs := false; pn_name := [kw_string] |}
  /\ interp_vt kw_table kw_pkg [[65]] (context_ref_name_nokw (to_symtab kw_table) kw_pkg [[65]] kw_pkg [kw_string])
     = Some (DScalar kw_string)
  /\ context_ref_name_nokw (to_symtab kw_table) kw_pkg [[65]] kw_pkg [kw_option] = {| pn_abs := false; pn_name := [kw_option] |}
  /\ (let f := {| sf_cm := no_cmt; sf_label := LNone;
                   sf_type := SNamed (context_ref_name_nokw (to_symtab kw_table) kw_pkg [[65]] kw_pkg [kw_option]);
                   sf_name := [102]; sf_num := 1; sf_opts := [] |} in
      parse_elem 3 (emit_elem (SMsg no_cmt [65] [] [SField f]))
      = Some (SMsg no_cmt [65] [(OPlain [102], RScalar (TLit [49]))] [], []))
  /\ context_ref_name_safe (to_symtab kw_table) kw_pkg [[65]] kw_pkg [kw_string] = {| pn_abs := true; pn_name := kw_pkg ++ [kw_string] |}
  /\ interp_vt kw_table kw_pkg [[65]] (context_ref_name_safe (to_symtab kw_table) kw_pkg [[65]] kw_pkg [kw_string])
     = Some (DRef kw_pkg [kw_string]).
Proof. exact keyword_previous_refuted. Qed.
Print Assumptions C05_scope_keyword_previous_refuted.

(* a relative printed name never starts with a statement keyword; the keyword table is the Go map *)
Theorem C05_scope_no_keyword_head : forall st ctx_pkg ctx ref_pkg ref,
  (qname_eqb ctx_pkg ref_pkg = false -> ref_pkg <> []) ->
  pn_abs (context_ref_name_safe st ctx_pkg ctx ref_pkg ref) = false ->
  is_statement_keyword (hd [] (pn_name (context_ref_name_safe st ctx_pkg ctx ref_pkg ref))) = false.
Proof. exact safe_head_not_keyword. Qed.
Print Assumptions C05_scope_no_keyword_head.

Theorem C05_keyword_table_agrees :
  statement_keywords = PrintGen.statement_keywords /\ PrintGen.statement_keyword_checks = 2%N.
Proof. exact statement_keywords_agree. Qed.
Print Assumptions C05_keyword_table_agrees.

(* ---- (3) option values at token level --------------------------------------------------------- *)
(* for every option tree (scalars, nested messages, arrays, arrays of messages) the parser of the
   emitted token subset reads back the tree the printer wrote, whatever follows; fuel = size of the tree *)
Theorem C05_option_tokens_roundtrip : forall v rest,
  parse_raw (size v) (print_val v ++ rest) = Some (raw_of v, rest).
Proof. exact parse_print_val. Qed.
Print Assumptions C05_option_tokens_roundtrip.

(* print idempotence on the parser's image: parsing the printed tokens and printing the result again
   reproduces the same tokens *)
Theorem C05_option_tokens_idempotent : forall v,
  match parse_raw (size v) (print_val v) with
  | Some (r, []) => print_raw r = print_val v
  | _ => False
  end.
Proof. exact print_parse_print_val. Qed.
Print Assumptions C05_option_tokens_idempotent.

(* ... and every leaf token denotes the scalar it was printed from, given the field's kind *)
Theorem C05_option_leaf_roundtrip : forall s, wf_scalar s ->
  read_scalar (kind_of s) (print_scalar s) = Some s.
Proof. exact read_print_scalar. Qed.
Print Assumptions C05_option_leaf_roundtrip.

(* ---- tables re-read from the Go source on every run ------------------------------------------- *)
Theorem C05_tables_agree :
  forallb (fun ce => bytes_eqb' (print_rune_esc (fst ce)) [92; snd ce]) PrintGen.short_escapes = true
  /\ PrintGen.escape_condition = [32; 34; 92; 127]
  /\ PrintGen.strip_guard = "<= 1"%string
  /\ PrintGen.options_field_numbers = PrintGen.descriptor_options_numbers.
Proof.
  split; [exact (proj1 short_escapes_agree)|]. split; [exact (proj1 escape_literals_agree)|].
  split; [exact strip_guard_agrees|exact options_numbers_agree].
Qed.
Print Assumptions C05_tables_agree.


(* the file layer: typeOrder per element kind (load-bearing: about the model function ekey), the Simplify
   depth and exception, the label words, and the Go text of Less / optionsByLocation.Less / optionsFor /
   Simplify which key_less / opt_less / lay_fopts / simplify transcribe *)
Theorem C05_file_tables_agree :
  ((forall f, ProtoPrintFileGenProofs.type_order (ekey (DField f)) = ProtoPrintFileGenProofs.order_of "FieldDescriptor")
   /\ (forall k c n o fs, ProtoPrintFileGenProofs.type_order (ekey (DOneof k c n o fs)) = ProtoPrintFileGenProofs.order_of "OneofDescriptor")
   /\ (forall k c n o b, ProtoPrintFileGenProofs.type_order (ekey (DMsg k c n o b)) = ProtoPrintFileGenProofs.order_of "MessageDescriptor")
   /\ (forall k c n o vs, ProtoPrintFileGenProofs.type_order (ekey (DEnum k c n o vs)) = ProtoPrintFileGenProofs.order_of "EnumDescriptor")
   /\ (forall k c n o ms, ProtoPrintFileGenProofs.type_order (ekey (DService k c n o ms)) = ProtoPrintFileGenProofs.order_of "ServiceDescriptor")
   /\ (forall k, ProtoPrintFileGenProofs.type_order (key0 k) = ProtoPrintFileGenProofs.order_of "EnumValueDescriptor")
   /\ (forall k, ProtoPrintFileGenProofs.type_order (key0 k) = ProtoPrintFileGenProofs.order_of "MethodDescriptor"))
  /\ (N.of_nat max_depth = PrintFileGen.simplify_default_depth
      /\ map ProtoPrintFileGenProofs.bytes_of PrintFileGen.never_simplified = [join_dot http_name]).
Proof. exact (conj ProtoPrintFileGenProofs.type_orders_agree ProtoPrintFileGenProofs.simplify_constants_agree). Qed.
Print Assumptions C05_file_tables_agree.

Theorem C05_file_sources_agree :
  PrintFileGen.message_add_order = ["field"; "oneof"; "nested"; "enums"]%string
  /\ PrintFileGen.file_add_order = ["messages"; "services"; "enums"]%string
  /\ PrintFileGen.file_option_kinds = ["BoolKind"; "StringKind"]%string.
Proof.
  exact (conj (proj1 (proj2 (proj2 ProtoPrintFileGenProofs.printer_words_agree)))
              (conj (proj2 (proj2 (proj2 ProtoPrintFileGenProofs.printer_words_agree)))
                    (proj1 (proj2 ProtoPrintFileGenProofs.printer_words_agree)))).
Qed.
Print Assumptions C05_file_sources_agree.

Theorem C05_decision_sources_agree :
  PrintFileGen.less_source = ProtoPrintFileGenProofs.transcribed_less
  /\ PrintFileGen.option_less_source = ProtoPrintFileGenProofs.transcribed_option_less
  /\ PrintFileGen.options_for_source = ProtoPrintFileGenProofs.transcribed_options_for
  /\ PrintFileGen.simplify_source = ProtoPrintFileGenProofs.transcribed_simplify.
Proof. exact ProtoPrintFileGenProofs.decision_sources_agree. Qed.
Print Assumptions C05_decision_sources_agree.

(* ---- non-vacuity -------------------------------------------------------------------------------- *)
Example C05_example_literal :
  let s := [0; 9; 34; 39; 92; 127; 128; 195; 169; 240; 159; 152; 128; 255] in
  Forall (fun b => b < 256) s
  /\ print_string_lit s = [34; 92;120;48;48; 92;116; 92;34; 39; 92;92; 92;120;55;102; 92;120;56;48;
                           92;117;48;48;101;57; 92;85;48;48;48;49;102;54;48;48; 92;120;102;102; 34]
  /\ parse_string_lit (print_string_lit s) = Some s.
Proof.
  cbv zeta. split; [repeat constructor|]. split; vm_compute; reflexivity.
Qed.

Example C05_example_option_tokens :
  let v := OMsg [([103;101;116], OScalar (VStr [47;102;111;111]));
                 ([114;117;108;101;115], OList [OMsg [([110], OScalar (VInt (-5)%Z))]; OMsg []]);
                 ([105;110], OList [OScalar (VUint 1); OScalar (VUint 3)])] in
  size v = 22%nat /\ length (print_val v) = 24%nat
  /\ parse_raw (size v) (print_val v) = Some (raw_of v, []).
Proof. cbv zeta. split; [|split]; vm_compute; reflexivity. Qed.

(* message A { message B { C f = 1; } message C {} } : inside sc.v1.A.B the type sc.v1.A.C is printed "C" *)
Example C05_example_scope :
  let nC := [67] in
  let st := {| st_types := [pkg_w ++ [nA]; pkg_w ++ [nA; nB]; pkg_w ++ [nA; nC]]; st_pkgs := [pkg_w] |} in
  context_ref_name_safe st pkg_w [nA; nB] pkg_w [nA; nC] = {| pn_abs := false; pn_name := [nC] |}
  /\ wf_target st pkg_w pkg_w [nA; nC]
  /\ wf_ref st pkg_w [nA; nC] /\ no_capture st pkg_w [nA; nB] [nA; nC]
  /\ resolve st pkg_w [nA; nB] [nC] = Some (pkg_w ++ [nA; nC]).
Proof.
  cbv zeta.
  assert (Hw : wf_ref {| st_types := [pkg_w ++ [nA]; pkg_w ++ [nA; nB]; pkg_w ++ [nA; [67]]]; st_pkgs := [pkg_w] |} pkg_w [nA; [67]]).
  { intros k Hk. destruct k as [|[|[|k]]]; cbn in Hk; try lia; vm_compute; reflexivity. }
  split; [vm_compute; reflexivity|]. split; [split; [intros _; exact Hw|intro E; vm_compute in E; discriminate]|]. split.
  - exact Hw.
  - split; [|vm_compute; reflexivity].
    intros k Hk. vm_compute in Hk. destruct k as [|[|[|k]]]; try lia. vm_compute. reflexivity.
Qed.

(* a descriptor with nested messages, a oneof, a map, references in and out of nested scopes, options that
   Simplify moves to a sub path, json_name, a service with a google.api.http option and a negative enum value
   (proofs/ProtoPrintFileExample.v) satisfies the hypotheses of C05_token_roundtrip *)
Example C05_example_file :
  wf_dfile ProtoPrintFileExample.ex_imp ProtoPrintFileExample.ex_file
  /\ length ProtoPrintFileExample.ex_tokens = 173%nat
  /\ parse_file_tokens ProtoPrintFileExample.ex_imp ProtoPrintFileExample.ex_tokens
     = Some (canon_file ProtoPrintFileExample.ex_file)
  /\ print_file_tokens (to_symtab (dfile_symtab ProtoPrintFileExample.ex_imp (canon_file ProtoPrintFileExample.ex_file)))
       (canon_file ProtoPrintFileExample.ex_file) = ProtoPrintFileExample.ex_tokens.
Proof. exact ProtoPrintFileExample.ex_file_ok. Qed.

(* ---- (5) the extended descriptor (model/ProtoPrintFileX.v): what dfile leaves out -------------------------- *)
From J5V.model Require Import ProtoPrintFileX.
From J5V.proofs Require Import ProtoPrintFileXProofs.

(* the whole-descriptor statement when the descriptor also carries the options on the key / value fields of
   its synthetic map entries (protodesc keeps them, j5convert writes the item annotations of map:<item> there):
   "every option and extension value" includes them. The printer model does not consult the table (types.go
   printMessage skips IsMapEntry messages, printField writes map<K, V> from the kinds), the parser model
   returns an empty one (protocompile's synthetic entry). *)
Definition C05_token_statement_x : Prop :=
  forall (imp : xsymtab) (D : dfilex), wf_dfilex imp D ->
    let toks := print_file_tokens_x (x_symtab imp D) D in
    exists D', parse_file_tokens_x imp toks = Some D'
      /\ desc_equiv_x D D'
      /\ wf_dfilex imp D'
      /\ print_file_tokens_x (x_symtab imp D') D' = toks.

(* ... is false of the code as it is (live known finding: options on the value field of a map entry) *)
Theorem C05_token_statement_x_refuted : ~ C05_token_statement_x.
Proof. exact token_statement_x_refuted. Qed.
Print Assumptions C05_token_statement_x_refuted.

(* the witness: message Foo { map<string, string> ids = 1; } with (j5.ext.v1.field).key.format = FORMAT_ID62 and
   the id62 pattern on Foo.IdsEntry.value (what j5convert emits for `field ids map:key:id62`): the printed
   tokens are read back, with an empty table, as a descriptor that is not equivalent *)
Theorem C05_map_entry_witness :
  wf_dfilex w_imp w_filex
  /\ exists D', parse_file_tokens_x w_imp (print_file_tokens_x (x_symtab w_imp w_filex) w_filex) = Some D'
       /\ x_entries D' = [] /\ ~ desc_equiv_x w_filex D'.
Proof. exact map_entry_witness. Qed.
Print Assumptions C05_map_entry_witness.

(* ... and holds for a descriptor EXACTLY when no map entry field carries an option (loses_entry_options is
   evaluated on every file case of a run and must equal the oracle's verdict for that file) *)
Theorem C05_token_roundtrip_x_iff : forall imp D, wf_dfilex imp D ->
  let toks := print_file_tokens_x (x_symtab imp D) D in
  (exists D', parse_file_tokens_x imp toks = Some D' /\ desc_equiv_x D D'
              /\ wf_dfilex imp D' /\ print_file_tokens_x (x_symtab imp D') D' = toks)
  <-> loses_entry_options D = false.
Proof. exact roundtrip_x_iff. Qed.
Print Assumptions C05_token_roundtrip_x_iff.

Theorem C05_token_roundtrip_x_partial : forall imp D, wf_dfilex imp D -> loses_entry_options D = false ->
  let toks := print_file_tokens_x (x_symtab imp D) D in
  exists D', parse_file_tokens_x imp toks = Some D' /\ desc_equiv_x D D'
             /\ wf_dfilex imp D' /\ print_file_tokens_x (x_symtab imp D') D' = toks.
Proof. exact roundtrip_x_partial. Qed.
Print Assumptions C05_token_roundtrip_x_partial.

Theorem C05_map_entry_options_lost : forall imp D D', wf_dfile imp (x_file D) ->
  parse_file_tokens_x imp (print_file_tokens_x (x_symtab imp D) D) = Some D' -> x_entries D' = [].
Proof. exact entry_options_lost. Qed.
Print Assumptions C05_map_entry_options_lost.

Example C05_example_x : wf_dfilex w_imp w_filex_plain /\ loses_entry_options w_filex_plain = false.
Proof. exact w_plain_ok. Qed.

(* file-level options as typed values: a bool option is written true / false, a string option as the text-format
   literal of its bytes (printFile since /repo b69d449); the consumer reads the same typed value back *)
Theorem C05_file_option_roundtrip : forall v, fopt_val_ok v -> fopt_read (fopt_token v) = Some v.
Proof. exact fopt_roundtrip. Qed.
Print Assumptions C05_file_option_roundtrip.

Theorem C05_file_options_roundtrip : forall imp D, wf_dfile imp D -> fopts_typed_b D = true ->
  exists D', parse_file_tokens imp (print_file_tokens (to_symtab (dfile_symtab imp D)) D) = Some D'
    /\ map (fun o => (fst o, fopt_read (snd o))) (d_fopts D') = map (fun o => (fst o, fopt_read (snd o))) (d_fopts D)
    /\ Forall (fun o => exists v, fopt_read (snd o) = Some v /\ snd o = fopt_token v /\ fopt_val_ok v) (d_fopts D').
Proof. exact file_options_roundtrip. Qed.
Print Assumptions C05_file_options_roundtrip.

(* the printer before b69d449 (value raw between the quotes): the value a, double quote, b is not read back *)
Theorem C05_file_option_raw_previous_refuted :
  fopt_val_ok raw_witness /\ fopt_read (fopt_token_raw raw_witness) <> Some raw_witness.
Proof. exact fopt_raw_refuted. Qed.
Print Assumptions C05_file_option_raw_previous_refuted.

(* ---- (6) the property over the text for a renderer ------------------------------------------------------ *)
(* C05_full_statement with scan := the lexer model and the premise in its computable form: for every renderer
   whose output is a layout of the model's comment-free tokens (evaluated on the bytes PrintFile wrote, for
   every file case of a run, original and re-parsed descriptor), the text is read back as a descriptor
   equivalent to D up to comments, and rendering that descriptor again scans to the same tokens. What
   separates this from C05_full_statement: comments (erase_dfile) and byte equality of the second text
   (token equality here); both need the printer's separator choice as a function, which is not modelled. *)
Definition C05_full_layout_statement (render : xsymtab -> dfile -> list N) : Prop :=
  forall imp D, wf_dfile imp D ->
    exists D0, read_text imp (render imp D) = Some (erase_dfile D0)
      /\ desc_equiv D D0 /\ wf_dfile imp D0
      /\ scan_text (render imp D0) = scan_text (render imp D).

Theorem C05_full_layout : forall render, renders_layout render -> C05_full_layout_statement render.
Proof. exact full_layout. Qed.
Print Assumptions C05_full_layout.

(* printOption before /repo 847fc16 wrote an option statement twice when its value is an empty message whose source
   is not on one line (hand-written `option (j5.ext.v1.message).object = {` newline `};`): the tokens of that printer
   for message Multi { option (j5.ext.v1.message).object = {}; string a = 1; } are read back by the model parser as a
   message with TWO options — not an equivalent descriptor (protocompile rejects the text outright: option already
   set; reproduced on the real code by the hand-built stream before the fix) *)
Theorem C05_empty_option_previous_refuted :
  wf_dfile w2_imp w2_file
  /\ exists D', parse_file_tokens w2_imp w2_prev_tokens = Some D' /\ ~ desc_equiv w2_file D'.
Proof. exact empty_option_previous_refuted. Qed.
Print Assumptions C05_empty_option_previous_refuted.

(* identifiers with non-ASCII letters: the compiler accepted `object Élan { field naïve string }` (the BCL lexer takes
   unicode letters) and built message Élan { string naïve = 1; } until /repo c71d8d9 (cmpb) made such names a
   conversion error. The descriptor satisfies wf_dfile (identifiers are byte strings at token level), but its printed
   tokens are not tokens of the lexer model: the one-space rendering does not scan back to them (the real
   protocompile lexer: invalid character). So the is_layout premise of C05_text_roundtrip is not implied by wf_dfile;
   it is evaluated on every printed file of a run. *)
Theorem C05_non_ascii_identifier_refuted :
  wf_dfile w3_imp w3_file
  /\ forallb tok_ok w3_tokens = false
  /\ scan_text (spaced w3_tokens) <> Some w3_tokens.
Proof. exact non_ascii_identifier_witness. Qed.
Print Assumptions C05_non_ascii_identifier_refuted.

(* ---- (5) byte level: the printer's separator choice as a model function ------------------------------------
   model/ProtoPrintBytes.v [render_bytes gen imp D] = the BYTES protoprint.PrintFile writes for a descriptor D
   without source code info (no element / option has a location, no comments: [unlocated_b]; then parseOption's
   sourceSingleLine / inlineWithParent are true and printElements' blank-line rule never fires): fileBuffer.p
   (pending addGap = one empty line, two spaces per level), the generated-comment header, syntax / package /
   sorted imports / file options / extend blocks, printSection ({} form; option statements each followed by a gap),
   printElements (gap after message / service / enum / oneof), printMethod, printField (labels, map<K, V>),
   printFieldStyle (no option / one inline option / bracket block with trailing commas), parseOption's inline
   strings ({} {k: v} [] scalar), printOption, printOptionArray (four forms), printOptionMessageFields. It walks
   the syntactic file lay_file builds, i.e. order / Simplify / json_name / type names are those of the token model.
   Tie (bytes stream): every repository proto, compiled file and hand-built descriptor of a run is rebuilt without
   source info, printed by the REAL PrintFile, and render_bytes evaluated in Coq must give exactly those bytes.
   Sub-class of the theorem: [bytes_modelled_b gen imp D] = unlocated_b D, the generated comment is one line, and
   the computable layout test is_layout (tokens D) (render_bytes D) — evaluated on every case of the bytes stream
   (all inside). NOT proved: unlocated_b D /\ wf_dfile D -> is_layout ... (the test is a hypothesis, not a lemma);
   located descriptors (the blank-line rule on StartLine / EndLine, multi-line option sources, comments) are not
   in render_bytes: dfile carries no EndLine / SingleLine. Last clause: the MODEL rendering of the re-read
   descriptor D0 is the same text; D0 = canon_file D carries source lines, so the REAL second print is not this
   function's (observed on the real code: it has more blank lines; counted by the bytes stream). *)
From J5V.model Require Import ProtoPrintBytes.
From J5V.proofs Require Import ProtoPrintBytesEraseProofs ProtoPrintBytesProofs.

Definition C05_bytes_statement_subclass : Prop :=
  forall (gen : list N) (imp : xsymtab) (D : dfile), wf_dfile imp D -> bytes_modelled_b gen imp D = true ->
    let text := render_bytes gen imp D in
    scan_text text = Some (print_file_tokens_nc (to_symtab (dfile_symtab imp D)) D)
    /\ exists D0, read_text imp text = Some (erase_dfile D0)
         /\ desc_equiv D D0 /\ wf_dfile imp D0
         /\ print_file_tokens_nc (to_symtab (dfile_symtab imp D0)) D0
            = print_file_tokens_nc (to_symtab (dfile_symtab imp D)) D
         /\ render_bytes gen imp D0 = text.

Theorem C05_bytes_roundtrip_subclass : C05_bytes_statement_subclass.
Proof. exact bytes_roundtrip_subclass. Qed.
Print Assumptions C05_bytes_roundtrip_subclass.

(* the lexer model on the rendered bytes yields exactly the tokens the token-level theorem is about *)
Theorem C05_scan_render_bytes : forall gen imp D, bytes_modelled_b gen imp D = true ->
  scan_text (render_bytes gen imp D) = Some (print_file_tokens_nc (to_symtab (dfile_symtab imp D)) D).
Proof. exact scan_render_bytes. Qed.
Print Assumptions C05_scan_render_bytes.

(* non-vacuity: a descriptor with imports, a file option, a service with an http option, a message with an option
   statement, a field with a two-option bracket block (nested message value), a oneof, an optional and a map field
   with json_name, a nested message, an enum with a negative value *)
Example C05_example_bytes :
  wf_dfile ProtoPrintFileExample.ex_imp Ex.ex_bytes_file
  /\ bytes_modelled_b Ex.ex_gen ProtoPrintFileExample.ex_imp Ex.ex_bytes_file = true.
Proof. exact example_bytes. Qed.
Print Assumptions C05_example_bytes.

(* in the sub-class the comment-free tokens are ALL the tokens the printer model writes: the lexer model reads the
   rendered bytes as exactly the token list C05_token_roundtrip is about *)
Theorem C05_scan_render_bytes_tokens : forall gen imp D, bytes_modelled_b gen imp D = true ->
  scan_text (render_bytes gen imp D) = Some (print_file_tokens (to_symtab (dfile_symtab imp D)) D).
Proof. exact scan_render_bytes_tokens. Qed.
Print Assumptions C05_scan_render_bytes_tokens.

(* a descriptor without source info has no comments (all descriptors, any nesting): the laid-out file is its own
   comment-free form, the printer model writes no comment pseudo token *)
Theorem C05_unlocated_no_comments : forall st D, unlocated_b D = true ->
  erase_sfile (lay_file st D) = lay_file st D /\ print_file_tokens_nc st D = print_file_tokens st D.
Proof. exact unlocated_no_comments. Qed.
Print Assumptions C05_unlocated_no_comments.

(* ---- byte level, the layout test as a LEMMA (second slot of round 4): proofs/ProtoPrintBytesLayoutProofs.v has
   the general machinery (a line given as tokens + whitespace-only separators is a layout step: items_line; every
   wp / wend of the writer appends "optional empty line, indentation, line, newline", so a writer step whose lines
   carry the tokens ts extends every layout by ts: T_wp, T_wgap, T_wend, T_comp, T_wfold, T_final; dotted names:
   qname_items_ok) and closes it for the FILE HEADER: generated comment, syntax, package (dotted name), sorted
   imports, file options with their blank lines. Fragment proved: files without declarations. header_ok = the
   header's tokens are lexable (identifiers are identifiers, literals canonical). Declarations (sections, fields,
   option forms) remain under the computed test of C05_bytes_roundtrip_subclass. *)
From J5V.proofs Require Import ProtoPrintBytesLayoutProofs.

Theorem C05_bytes_header_layout : forall gen s, s_exts s = [] -> s_body s = [] -> header_ok gen s = true ->
  is_layout (emit_file s) (render_sfile gen s) = true.
Proof. exact render_header_layout. Qed.
Print Assumptions C05_bytes_header_layout.

Theorem C05_bytes_layout_no_decls : forall gen imp D, d_exts D = [] -> d_body D = [] ->
  header_ok gen (lay_file (to_symtab (dfile_symtab imp D)) D) = true ->
  is_layout (print_file_tokens (to_symtab (dfile_symtab imp D)) D) (render_bytes gen imp D) = true.
Proof. exact bytes_layout_no_decls. Qed.
Print Assumptions C05_bytes_layout_no_decls.

(* first fragment WITH declarations (proofs/ProtoPrintBytesLayoutEnumProofs.v): descriptors without source info whose
   laid-out file has no extend blocks and whose declarations are enums without options (sections with empty and
   non-empty bodies, the blank line after a section, value lines incl. negative numbers) and a lexable header.
   [enums_fragment_b] is purely syntactic + lexability of names / literals: NO computed layout test. The byte-level
   round trip follows: the lexer model reads render_bytes D as exactly print_file_tokens D, the parser model reads a
   descriptor equivalent to D. Missing for the whole sub-class: field lines (labels, dotted / map types), oneof /
   message nesting, services, and the option forms — the line and writer lemmas they need are in
   ProtoPrintBytesLayoutProofs.v (items_line, qname_items_ok, T_section in the enum file). *)
From J5V.proofs Require Import ProtoPrintBytesLayoutEnumProofs.

Theorem C05_bytes_layout_enums : forall gen imp D,
  let st := to_symtab (dfile_symtab imp D) in
  unlocated_b D = true -> s_exts (lay_file st D) = [] ->
  forallb enum_elem_ok (s_body (lay_file st D)) = true -> header_ok gen (lay_file st D) = true ->
  is_layout (print_file_tokens st D) (render_bytes gen imp D) = true.
Proof. exact bytes_layout_enums. Qed.
Print Assumptions C05_bytes_layout_enums.

Theorem C05_bytes_roundtrip_enums : forall gen imp D, wf_dfile imp D -> enums_fragment_b gen imp D = true ->
  let text := render_bytes gen imp D in
  scan_text text = Some (print_file_tokens (to_symtab (dfile_symtab imp D)) D)
  /\ exists D0, read_text imp text = Some (erase_dfile D0) /\ desc_equiv D D0 /\ wf_dfile imp D0.
Proof. exact bytes_roundtrip_enums. Qed.
Print Assumptions C05_bytes_roundtrip_enums.

Example C05_example_bytes_enums :
  wf_dfile ProtoPrintFileExample.ex_imp ExEnum.ex_enum_file
  /\ enums_fragment_b (ProtoPrintCorr.sb "verif") ProtoPrintFileExample.ex_imp ExEnum.ex_enum_file = true.
Proof. exact example_enums. Qed.
Print Assumptions C05_example_bytes_enums.

(* the fragment WITHOUT options (proofs/ProtoPrintBytesLayoutMsgProofs.v): descriptors without source info whose laid-out
   file has no extend blocks and whose declarations are messages — fields with labels and dotted type names (relative
   or with the leading dot), oneofs, nested messages and enums to ANY depth — and enums; no options (hence default
   json names), no map fields, no services. [plain_fragment_b] is syntactic + lexability of names and literals; the
   layout of the rendered bytes is a LEMMA there (T_elem by structural recursion over the nesting), and the byte-level
   round trip needs no computed layout test. Still under the computed test of C05_bytes_roundtrip_subclass: map fields,
   services, extend blocks and every option form (inline, bracket block, option statements, value trees). *)
From J5V.proofs Require Import ProtoPrintBytesLayoutMsgProofs.

Theorem C05_bytes_layout_plain : forall gen imp D, plain_fragment_b gen imp D = true ->
  is_layout (print_file_tokens (to_symtab (dfile_symtab imp D)) D) (render_bytes gen imp D) = true.
Proof. exact bytes_layout_plain. Qed.
Print Assumptions C05_bytes_layout_plain.

Theorem C05_bytes_roundtrip_plain : forall gen imp D, wf_dfile imp D -> plain_fragment_b gen imp D = true ->
  let text := render_bytes gen imp D in
  scan_text text = Some (print_file_tokens (to_symtab (dfile_symtab imp D)) D)
  /\ exists D0, read_text imp text = Some (erase_dfile D0) /\ desc_equiv D D0 /\ wf_dfile imp D0.
Proof. exact bytes_roundtrip_plain. Qed.
Print Assumptions C05_bytes_roundtrip_plain.

Example C05_example_bytes_plain :
  wf_dfile ProtoPrintFileExample.ex_imp ExPlain.ex_plain_file
  /\ plain_fragment_b (ProtoPrintCorr.sb "verif") ProtoPrintFileExample.ex_imp ExPlain.ex_plain_file = true.
Proof. exact example_plain. Qed.
Print Assumptions C05_example_bytes_plain.

(* the option-free fragment extended by services (proofs/ProtoPrintBytesLayoutSvcProofs.v): top-level declarations are
   those of plain_fragment_b or services (empty or with methods `rpc Name(In) returns (Out) {}`, dotted relative or
   absolute request / response names) without options. Layout is a lemma (T_method, T_service), the byte-level round
   trip needs no computed layout test. Still under the computed test: map fields, extend blocks, every option form. *)
From J5V.proofs Require Import ProtoPrintBytesLayoutSvcProofs.

Theorem C05_bytes_roundtrip_plain_svc : forall gen imp D, wf_dfile imp D -> plain_svc_fragment_b gen imp D = true ->
  let text := render_bytes gen imp D in
  scan_text text = Some (print_file_tokens (to_symtab (dfile_symtab imp D)) D)
  /\ exists D0, read_text imp text = Some (erase_dfile D0) /\ desc_equiv D D0 /\ wf_dfile imp D0.
Proof. exact bytes_roundtrip_plain_svc. Qed.
Print Assumptions C05_bytes_roundtrip_plain_svc.

Example C05_example_bytes_plain_svc :
  wf_dfile ProtoPrintFileExample.ex_imp ExSvc.ex_svc_file
  /\ plain_svc_fragment_b (ProtoPrintCorr.sb "verif") ProtoPrintFileExample.ex_imp ExSvc.ex_svc_file = true.
Proof. exact example_plain_svc. Qed.
Print Assumptions C05_example_bytes_plain_svc.

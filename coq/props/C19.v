(* C19 — editor format edits are well-formed and equal the formatter.
   Only statements, closed by [exact lemma], with Print Assumptions beneath. *)
From Coq Require Import String List NArith ZArith Bool.
From J5V.lib Require Import Text Outcome GoExpr.
From J5V.model Require Import BclLexer BclParser BclFmt BclLsp BclFmtAligned.
From J5V.proofs Require Import BclPosProofs BclLexerProofs BclParserProofs BclTextProofs BclFmtProofs BclFmtFullProofs BclLspProofs BclLspClampProofs BclDocBytesProofs BclFmtGenProofs BclFmtGenAllProofs BclFmtDiffsIdemProofs BclTokEndProofs.
Import ListNotations.
Local Open Scope Z_scope.

(* [edits_wf n lo es]: every edit has lo' <= from <= to <= n where lo' is the end of the previous
   edit (lo for the first): ascending, non-overlapping, start <= end <= number of lines. *)

Definition nlines (input : list N) : Z := Z.of_nat (length (split_on 10 input)).

(* the property at full strength *)
Definition C19_full_statement : Prop :=
  forall input out, fmt_bytes input = Ok out ->
    exists es, fmt_diffs input = Ok es /\ edits_wf (nlines input) 0 es /\
      strip_trailing_blank (apply_edits (split_on 10 input) 0 es) = strip_trailing_blank (split_on 10 out).

(* FmtDiffs never panics (the lines[from:to] slice is always in bounds) and never runs out of fuel,
   on any input *)
Theorem C19_no_failure : forall input,
  match fmt_diffs input with Ok _ => True | Err _ => True | _ => False end.
Proof. exact fmt_diffs_total. Qed.
Print Assumptions C19_no_failure.

(* for every file the formatter accepts the edits are computed, ascending, non-overlapping,
   with start <= end <= number of lines *)
Theorem C19_edits_wellformed : forall input ds,
  collect_fmt (utf8_decode input) = Ok ds ->
  exists es, fmt_diffs input = Ok es /\ edits_wf (nlines input) 0 es.
Proof. exact fmt_diffs_wf. Qed.
Print Assumptions C19_edits_wellformed.

(* "the formatter accepts" is exactly "collectFmtFragments succeeds" *)
Theorem C19_formatter_accepts : forall input,
  (exists out, fmt_bytes input = Ok out) <-> (exists ds, collect_fmt (utf8_decode input) = Ok ds).
Proof. exact fmt_accepts_iff. Qed.
Print Assumptions C19_formatter_accepts.

(* what makes it work: the walker's fragments come in non-decreasing line order, each inside the
   document (this is where an unset End position used to break the invariant) *)
Theorem C19_fragment_invariant : forall data ds, collect_fmt data = Ok ds ->
  fd_chain (Z.of_nat (length (split_on 10 data))) ds.
Proof. exact collect_fmt_chain. Qed.
Print Assumptions C19_fragment_invariant.

(* applying the edits gives the formatter's output up to trailing blank lines, provided the
   lines after the last statement are blank ... *)
Theorem C19_apply_given_blank_tail : forall input ds out es,
  collect_fmt (utf8_decode input) = Ok ds ->
  fmt_bytes input = Ok out -> fmt_diffs input = Ok es ->
  forallb blank_line (skipn (Z.to_nat (last (map fd_to (merge_diffs ds)) 0)) (split_on 10 input)) = true ->
  strip_trailing_blank (apply_edits (split_on 10 input) 0 es) = strip_trailing_blank (split_on 10 out).
Proof. exact fmt_diffs_apply. Qed.
Print Assumptions C19_apply_given_blank_tail.

(* ... and they are: every rune is inside a token or is white space the lexer skipped, and every
   token that is not an EOL ends on or before the last line of some fragment *)
Theorem C19_trailing_lines_blank : forall input ds, collect_fmt (utf8_decode input) = Ok ds ->
  forallb blank_line (skipn (Z.to_nat (last (map fd_to (merge_diffs ds)) 0)) (split_on 10 input)) = true.
Proof. exact trailing_lines_blank. Qed.
Print Assumptions C19_trailing_lines_blank.

(* the property, at full strength *)
Theorem C19_full : C19_full_statement.
Proof. exact fmt_diffs_full. Qed.
Print Assumptions C19_full.

(* what "up to trailing blank lines" hides, exactly: the edited document is the formatter's lines followed
   by the original's lines after its last statement (all blank, left untouched by the edits), where the
   formatter's own text simply ends *)
Theorem C19_apply_exact : forall input out, fmt_bytes input = Ok out ->
  exists es L k,
    fmt_diffs input = Ok es /\
    apply_edits (split_on 10 input) 0 es = L ++ skipn k (split_on 10 input) /\
    split_on 10 out = L ++ [[]] /\
    forallb blank_line (skipn k (split_on 10 input)) = true.
Proof. exact fmt_diffs_exact. Qed.
Print Assumptions C19_apply_exact.

(* ---- the same at the level of the TextEdits an editor receives (genlsp/format.go) --------------- *)
(* lsp_format maps every edit to a TextEdit from (FromLine, 0) to (ToLine, 0) with Go's int -> uint32
   conversion; lsp_apply is an editor applying such edits by character offset to the original text
   (a position beyond the last line is the end of the document).  For documents with fewer than 2^32
   lines: the TextEdits are computed, have character 0, are ascending and non-overlapping with
   start <= end <= number of lines (no wrap-around), and applying them gives the formatter's output
   up to trailing blank lines *)
Definition C19_lsp_statement : Prop :=
  forall input out, fmt_bytes input = Ok out -> nlines input < 4294967296 ->
    exists tes, lsp_format input = Ok tes /\ tes_wf (nlines input) 0 tes /\
      strip_trailing_blank (split_on 10 (lsp_apply (split_on 10 input) 0 tes)) = strip_trailing_blank (split_on 10 out).

Theorem C19_lsp : C19_lsp_statement.
Proof. exact lsp_format_statement. Qed.
Print Assumptions C19_lsp.

(* Format never panics either *)
Theorem C19_lsp_no_failure : forall input,
  match lsp_format input with Ok _ => True | Err _ => True | _ => False end.
Proof. exact lsp_format_total. Qed.
Print Assumptions C19_lsp_no_failure.

(* the character-offset application and the whole-line replacement of C19_full agree: every edit text
   FmtDiffs returns is empty or ends with a newline, and no edit starts beyond the last line *)
Theorem C19_offset_apply_is_line_apply : forall input es, fmt_diffs input = Ok es ->
  edits_wf (nlines input) 0 es ->
  strip_trailing_blank (split_on 10 (lsp_apply (split_on 10 input) 0 (map plain_text_edit es))) =
  strip_trailing_blank (apply_edits (split_on 10 input) 0 es).
Proof. intros input es Ee Hw. apply (lsp_apply_lines input es Hw (fmt_diffs_shape input es Ee)). Qed.
Print Assumptions C19_offset_apply_is_line_apply.

(* ---- a protocol-conforming client (model/BclLsp.v) ------------------------------------------------ *)
(* The server does no clamping of its own (genlsp/format.go sends (FromLine,0)-(ToLine,0), ToLine possibly =
   number of lines); the protocol's rule does it on the client: a position whose line is beyond the last line
   denotes the end of the document, a character beyond its line the end of the line (clamp_pos), and a client
   applies edits by the byte offsets the positions denote (pos_offset, client_apply: any line, any UTF-16
   character).  For the edits genlsp produces: clamping changes no position, except an end position on
   line = number of lines (tes_clamp_free); the general client's result is exactly lsp_apply's; hence C19
   for that client *)
Definition C19_client_statement : Prop :=
  forall input out, fmt_bytes input = Ok out -> nlines input < 4294967296 ->
    exists tes, lsp_format input = Ok tes /\ tes_clamp_free (split_on 10 input) tes /\
      strip_trailing_blank (split_on 10 (lsp_client_apply input tes)) = strip_trailing_blank (split_on 10 out).

Theorem C19_client : C19_client_statement.
Proof. exact lsp_client_statement. Qed.
Print Assumptions C19_client.

Theorem C19_clamping_is_identity : forall lines tes lo, 0 <= lo ->
  tes_wf (Z.of_nat (length lines)) lo tes -> tes_clamp_free lines tes.
Proof. exact tes_wf_clamp_free. Qed.
Print Assumptions C19_clamping_is_identity.

Theorem C19_client_apply_is_offset_apply : forall input tes, tes_wf (nlines input) 0 tes ->
  lsp_client_apply input tes = lsp_apply (split_on 10 input) 0 tes.
Proof. exact lsp_client_apply_is_lsp_apply. Qed.
Print Assumptions C19_client_apply_is_offset_apply.

(* with C09 (Fmt is idempotent on bytes): formatting an already formatted document offers edits that leave it
   as it is — the editor reaches a fixed point after one format.  (On the real code the second edit list was
   empty on every generated input; that stronger fact is observed by the run, not proved.) *)
Theorem C19_format_twice_is_stable : forall input out, fmt_bytes input = Ok out ->
  exists es, fmt_diffs out = Ok es /\ edits_wf (nlines out) 0 es /\
    strip_trailing_blank (apply_edits (split_on 10 out) 0 es) = strip_trailing_blank (split_on 10 out).
Proof. exact fmt_diffs_of_output_stable. Qed.
Print Assumptions C19_format_twice_is_stable.

(* ---- FmtDiffs of formatted text (C09's idempotence seen through the edit list) -------------------------- *)
(* full statement: the edit list offered for already formatted text is EMPTY *)
Definition C19_formatted_no_edits_full_statement : Prop :=
  forall x y, fmt_bytes x = Ok y -> fmt_diffs y = Ok [].

(* [extent_ok ds] (boolean, BclFmtDiffsIdemProofs.v): every diff spans exactly as many lines as its own text has
   (fd_to = fd_from + number of lines of the text).
   Proved for EVERY input the formatter accepts: the output y is the joined text of the diffs ds the second run
   computes from y; the START lines of ds are exact (the first diff starts on line 0, each next one on the line where
   the previous ended, or one line later when Fmt printed an empty line: walk_stream_pos); and if extent_ok ds,
   FmtDiffs(y) merges nothing and returns the empty list (no leading edit, no gap edit, every lines[from:to] equals
   the diff's text).  Missing for the full statement: extent_ok itself, i.e. that a fragment read back from y ends
   exactly (number of lines of its text - 1) lines after it starts (token END positions vs. newlines of the literal). *)
Theorem C19_formatted_no_edits_partial : forall x y, fmt_bytes x = Ok y ->
  exists ds, collect_fmt (utf8_decode y) = Ok ds /\ y = utf8_encode (fmt_join ds true (-1)) /\
             (extent_ok ds = true -> fmt_diffs y = Ok []).
Proof. exact fmt_diffs_idem_extent. Qed.
Print Assumptions C19_formatted_no_edits_partial.

(* the same under the stronger, self-contained condition [aligned ds true (-1)] (starts and extents) *)
Theorem C19_formatted_no_edits_aligned : forall x y, fmt_bytes x = Ok y ->
  exists ds, collect_fmt (utf8_decode y) = Ok ds /\ y = utf8_encode (fmt_join ds true (-1)) /\
             (aligned ds true (-1) = true -> fmt_diffs y = Ok []).
Proof. exact fmt_diffs_idem_partial. Qed.
Print Assumptions C19_formatted_no_edits_aligned.

(* first step towards extent_ok (proofs/BclTokEndProofs.v): every token AllTokens returns covers a segment of the
   input (input = ps ++ seg ++ post, start = P ps, end = P (ps ++ seg)) and ends exactly (newlines of seg) lines
   after it starts.  Still missing: seg of a token of formatted text has the newlines of token_source t, and the
   sum over the tokens of a fragment. *)
Theorem C19_token_end_exact : forall ff data ts, all_tokens ff data = LexOk ts ->
  Forall (fun t => exists ps seg post, data = ps ++ seg ++ post /\ tstart t = P ps /\ tend t = P (ps ++ seg) /\
                   fst (tend t) = fst (tstart t) + Z.of_nat (count_nl seg)) ts.
Proof. exact all_tokens_end_exact. Qed.
Print Assumptions C19_token_end_exact.

(* the loop-level fact, for any diff list whose texts end with a newline (no parser involved) *)
Theorem C19_aligned_diffs_no_edits : forall ms,
  Forall (fun m => exists x, utf8_encode (fd_text m) = x ++ [10%N]) ms ->
  aligned ms true (-1) = true ->
  fmt_diffs_of (utf8_encode (fmt_join ms true (-1))) ms = Ok [].
Proof. exact fmt_diffs_of_aligned. Qed.
Print Assumptions C19_aligned_diffs_no_edits.

(* non-vacuity: the C19_example document; its formatted text has an empty line, a trailing comment, two fragments
   from one source line; the second run's diffs are aligned and the edit list is empty *)
Example C19_formatted_no_edits_example :
  let src := [10;10;97;32;98;32;47;47;32;99;10;32;32;10;120;61;49;10;125;32;47;47;32;99;10]%N in
  exists y ds, fmt_bytes src = Ok y /\ collect_fmt (utf8_decode y) = Ok ds /\ length ds = 4%nat /\ extent_ok ds = true /\ aligned ds true (-1) = true /\ fmt_diffs y = Ok [].
Proof. cbv zeta. do 2 eexists. split; [vm_compute; reflexivity|]. split; [vm_compute; reflexivity|]. repeat split; vm_compute; reflexivity. Qed.

(* ---- the model is the code (tie) ---------------------------------------------------------------------- *)
(* FmtDiffs' merge loop and edit loop and lineSet.rangeLines, run on the conditions, FmtDiff literals and
   assignments the translator reads from fmt.go on every run (gen/BclFmtGen.v, Go expressions as lib/GoExpr terms;
   diffs_tab / merge_tab follow the statements of the two loops, a Go slice out of range is None), give exactly
   the model's edit list, for every document and every fragment list *)
Theorem C19_model_decisions_are_the_code : forall input ds,
  diffs_tab (split_on 10 input) (merge_tab ds []) 0 (ev [] (assign_of "fmt.go:FmtDiffs" 8))
  = match fmt_diffs_of input ds with Ok es => Some es | _ => None end.
Proof. exact fmt_diffs_of_all. Qed.
Print Assumptions C19_model_decisions_are_the_code.

(* the shape of every edit FmtDiffs returns, for every input (accepted or not): no edit starts beyond
   the last line of the document, and every replacement text is empty or ends with a newline (so
   "the lines a text stands for", text_lines, drops nothing) *)
Theorem C19_edit_texts_wellformed : forall input es, fmt_diffs input = Ok es ->
  Forall (fun e => e_from e < nlines input /\ (e_text e = [] \/ exists x, e_text e = x ++ [10%N])) es.
Proof. exact fmt_diffs_shape. Qed.
Print Assumptions C19_edit_texts_wellformed.

(* non-vacuity: leading blank lines, a brace-less header with a trailing comment (finding 10),
   a white-space-only gap line, "} // c" (two fragments on one line) *)
Example C19_example :
  let src := [10;10;97;32;98;32;47;47;32;99;10;32;32;10;120;61;49;10;125;32;47;47;32;99;10]%N in
  (* two empty lines / a b // c / two spaces / x=1 / } // c *)
  exists ds, collect_fmt (utf8_decode src) = Ok ds /\
    fmt_diffs src = Ok [mkEdit 0 2 []; mkEdit 3 4 [10%N]; mkEdit 4 5 [120;32;61;32;49;10]%N;
                        mkEdit 5 6 [125;10;47;47;32;99;10]%N] /\
    forallb blank_line (skipn (Z.to_nat (last (map fd_to (merge_diffs ds)) 0)) (split_on 10 src)) = true.
Proof. cbv zeta. eexists. split; [vm_compute; reflexivity|]. split; vm_compute; reflexivity. Qed.

(* non-vacuity for the client: the last edit of a document without a final newline ends on line = #lines
   (the one clamped position); multi-byte and astral characters in the replaced lines *)
Example C19_example_client :
  let src := [97;32;123;10;98;61;34;240;159;152;128;195;169;34]%N in     (* a { / b="(U+1F600)(e-acute)" -- no final newline *)
  exists tes out, lsp_format src = Ok tes /\ fmt_bytes src = Ok out /\
    map (fun te => (lp_line (te_start te), lp_line (te_end te))) tes = [(1, 2)] /\
    clamp_pos (split_on 10 src) (mkLP 2 0) = mkLP 1 7 /\
    lsp_client_apply src tes = out.
Proof. cbv zeta. do 2 eexists. split; [vm_compute; reflexivity|]. split; [vm_compute; reflexivity|]. repeat split; vm_compute; reflexivity. Qed.

(* C04 — the schema read back from the compiled descriptors is the declared one.
   Only statements, closed by [exact lemma], with Print Assumptions beneath. *)
From Coq Require Import String List NArith ZArith Bool.
From J5V.lib Require Import Outcome.
From J5V.model Require Import RulesDecl RulesWrite RulesRead RulesEnum RulesSpec Validate.
From J5V.gen Require Id62Gen RulesGen.
From J5V.model Require Import ProtoPrint ProtoPrintFile ProtoParseFile.
From J5V.proofs Require Import RulesProofs RulesReadProofs RulesGenProofs RulesReadGenProofs.
From J5V.model Require Import RulesView RulesTextModel ProtoPrintFileWf RulesNested RulesInlineEnum.
From J5V.model Require Import RulesCompile.
From J5V.proofs Require Import RulesCompileProofs.
From J5V.lib Require Import Strcase.
From J5V.proofs Require Import ProtoPrintFileSemProofs ProtoPrintFileFullProofs RulesViewProofs RulesTextProofs RulesNestedProofs RulesInlineEnumProofs RulesEnumExactProofs.
Import ListNotations.
Local Open Scope N_scope.

(* The property at full strength (first clause): for EVERY object whose
   properties compile, reading the emitted annotations back yields the declared
   properties. [norm_object] is computed from the declaration alone
   (RulesRead.norm_prop: it calls no function of the writer or the reader): names,
   order, proto paths [1..n], required / optional, types and formats, flatten,
   key formats and entity keys, descriptions AS DECLARED, validation and list
   rules — up to five representation-only identifications (exclusive flags that are
   false or have no bound; absent enum / bytes rules = empty rules; absent array /
   map rules = empty rules when the items are constrained; enum option names
   without the prefix; primaryKey = false = no entity type; a primary key is
   required). [zero_std]: the referenced enum's explicit zero option, if any, is
   spelled UNSPECIFIED (with or without the prefix). *)
Definition C04_full_statement : Prop :=
  forall env ds os,
    zero_std env = true ->
    write_object env ds = Ok os -> read_object env os = Ok (norm_object env ds).

(* What is proved: the same for every object whose properties lie in the
   fragment [rt_ok]: everything except the combinations listed (and refuted)
   below. All rule values: absent, zero, boundary, both booleans. *)
Theorem C04_partial :
  forall env ds os,
    zero_std env = true ->
    forallb rt_ok ds = true ->
    write_object env ds = Ok os -> read_object env os = Ok (norm_object env ds).
Proof. exact c04_object. Qed.
Print Assumptions C04_partial.

(* ... and the fragment is exact: a compiled object reads back as declared IF
   AND ONLY IF every property lies in [rt_ok]. So [rt_ok] is not "what could be
   proved" but the precise extent of the property on the model, and the list of
   refutations below is complete: what is missing from the full statement is
   exactly the complement of [rt_ok]. *)
Theorem C04_exact :
  forall env ds os,
    zero_std env = true ->
    write_object env ds = Ok os ->
    (read_object env os = Ok (norm_object env ds) <-> forallb rt_ok ds = true).
Proof. exact c04_object_exact. Qed.
Print Assumptions C04_exact.

Theorem C04_property_exact :
  forall env idx d o,
    zero_std env = true ->
    write_prop env idx d = Ok o ->
    (read_prop env o = Ok (norm_prop env idx d) <-> rt_ok d = true).
Proof. exact c04_prop_exact. Qed.
Print Assumptions C04_property_exact.

Theorem C04_property :
  forall env idx d o,
    zero_std env = true ->
    rt_ok d = true -> write_prop env idx d = Ok o -> read_prop env o = Ok (norm_prop env idx d).
Proof. exact c04_prop. Qed.
Print Assumptions C04_property.

(* ---- the compiler as it is called, on the declaration language with multipleOf and
   MapField.Ext (model/RulesCompile.v): front checks, writer, map annotation, link step.
   The boundary stays an exact iff. [x_wf]: the two extras sit where schema.proto has them. *)
Theorem C04_compiled_exact : forall re_ok env xs os,
  zero_std env = true -> forallb x_wf xs = true ->
  compile_object re_ok env xs = Ok os ->
  (read_xprops env os = Ok (norm_xobject env xs) <-> forallb xrt_ok xs = true).
Proof. exact c04_xobject_exact. Qed.
Print Assumptions C04_compiled_exact.

Theorem C04_compiled_property_exact : forall re_ok env idx x o,
  zero_std env = true -> x_wf x = true ->
  compile_prop re_ok env idx x = Ok o ->
  (read_xprop env o = Ok (norm_xprop env idx x) <-> xrt_ok x = true).
Proof. exact c04_xprop_exact. Qed.
Print Assumptions C04_compiled_property_exact.

(* the validity premise ("valid j5s packages"): a compiled object has pairwise different
   proto field names; two properties whose names agree up to strcase.ToSnake (fooBar /
   foo_bar, the same name twice) never compile together — the writer alone (write_object)
   would emit them *)
Theorem C04_compiled_names_distinct : forall re_ok env xs os,
  compile_object re_ok env xs = Ok os -> NoDup (proto_names xs).
Proof. exact compile_object_names. Qed.
Print Assumptions C04_compiled_names_distinct.

Theorem C04_snake_collision_rejected : forall re_ok env xs a b i j,
  nth_error xs i = Some a -> nth_error xs j = Some b -> i <> j ->
  to_snake (p_name (x_prop a)) = to_snake (p_name (x_prop b)) ->
  forall os, compile_object re_ok env xs <> Ok os.
Proof. exact compile_object_collision. Qed.
Print Assumptions C04_snake_collision_rejected.

Example C04_snake_collision_example :
  let s n := XP (P n false false (PSingle (TStr None None None)) []) None None in
  (* fooBar, foo_bar *)
  compile_object (fun _ => true) (EE [] None []) [s [102;111;111;66;97;114]; s [102;111;111;95;98;97;114]]
  = Err "symbol already defined".
Proof. vm_compute. reflexivity. Qed.

(* rules.multipleOf: never compiled (a compile error since /repo c0895b5; before, the
   writer dropped it and the rules read back empty) *)
Theorem C04_multiple_of_not_compiled : forall re_ok env idx x,
  x_mult x <> None -> exists e, compile_prop re_ok env idx x = Err e.
Proof. exact compile_multiple_of_refused. Qed.
Print Assumptions C04_multiple_of_not_compiled.

(* map { ext.singleForm = "thing" }: written to (j5.ext.v1.field).map since /repo ac980f9
   and read back *)
Example C04_map_single_form_reads_back :
  let env := EE [] None [] in
  let x := XP (P [109] false false (PMap None (TStr None None None)) []) None (Some (Some [116;104;105;110;103])) in
  x_wf x = true /\ xrt_ok x = true /\
  exists o, compile_prop (fun _ => true) env 0 x = Ok o /\
            fo_ext o = Some (XMap (Some [116;104;105;110;103])) /\
            read_xprop env o = Ok (norm_xprop env 0 x).
Proof.
  cbv zeta. split; [vm_compute; reflexivity|]. split; [vm_compute; reflexivity|].
  eexists. split; [vm_compute; reflexivity|]. split; vm_compute; reflexivity.
Qed.

(* a description with a paragraph break ("a", blank line, "b") is inside the fragment since
   /repo f0aec6c (the reader keeps blank lines between two lines of a comment block); a
   leading blank line is still dropped *)
Example C04_description_paragraphs_read_back :
  let env := EE [] None [] in
  let d := P [97] false false (PSingle (TStr None None None)) [97;10;10;98] in
  rt_ok d = true /\
  (exists o, write_prop env 0 d = Ok o /\ read_prop env o = Ok (norm_prop env 0 d)) /\
  desc_plain [10;97] = false /\ clean_desc [97;10;10;10;98;10] = [97;10;10;10;98].
Proof.
  cbv zeta. split; [vm_compute; reflexivity|]. split.
  - eexists. split; [vm_compute; reflexivity|]. vm_compute. reflexivity.
  - split; vm_compute; reflexivity.
Qed.

(* "every rule and annotation the j5s schema language can express": the declaration
   language of the models against schema.proto. The translator reads every field-type
   message of proto/j5/j5/schema/v1/schema.proto with its Rules and Ext, ObjectProperty,
   KeyFormat and EntityKey (RulesGen.schema_vocabulary); [vocabulary] (proofs/RulesGenProofs.v)
   gives every one of those fields its place in the models or marks it Outside. A field
   added to schema.proto breaks this obligation until it has a place. *)
Theorem C04_schema_vocabulary_covered :
  map (fun e => (fst e, map fst (snd e))) vocabulary = RulesGen.schema_vocabulary.
Proof. exact schema_vocabulary_covered. Qed.
Print Assumptions C04_schema_vocabulary_covered.

(* ... and what is Outside, all of it: the (empty) Ext messages of the scalar / message field
   types, the content of float rules (their presence is a compile error), KeyField.rules (an
   empty message), MapField.key_schema (always a string), ObjectField.entity (EntityJoin) *)
Example C04_vocabulary_outside :
  vocabulary_outside =
  [("BoolField", "ext"); ("BytesField", "ext"); ("DateField", "ext"); ("DecimalField", "ext"); ("EnumField", "ext");
   ("FloatField", "ext"); ("FloatField.Rules", "exclusive_maximum"); ("FloatField.Rules", "exclusive_minimum");
   ("FloatField.Rules", "minimum"); ("FloatField.Rules", "maximum"); ("FloatField.Rules", "multiple_of");
   ("IntegerField", "ext"); ("KeyField", "rules"); ("KeyField", "ext"); ("MapField", "key_schema");
   ("ObjectField", "ext"); ("ObjectField", "entity"); ("ObjectField.EntityJoin", "entity");
   ("ObjectField.EntityJoin", "entity_part"); ("OneofField", "ext"); ("StringField", "ext"); ("TimestampField", "ext")]%string.
Proof. vm_compute. reflexivity. Qed.

(* root schemas — for every object and every oneof: kind, name, description and the
   properties (norm_root: kind / name / description as declared, properties in normal
   form); exact as for properties *)
Theorem C04_root : forall env d o,
  zero_std env = true -> rt_root d = true ->
  write_root env d = Ok o -> read_root env o = Ok (norm_root env d).
Proof. exact c04_root. Qed.
Print Assumptions C04_root.

Theorem C04_root_exact : forall env d o,
  zero_std env = true -> write_root env d = Ok o ->
  (read_root env o = Ok (norm_root env d) <-> rt_root d = true).
Proof. exact c04_root_exact. Qed.
Print Assumptions C04_root_exact.

(* ---- inline types (README "Inline Types") -------------------------------------------
   A declaration is a tree [nschema]: a field of type object / oneof (singular, array items,
   map values) may declare its schema in place, with a stated name or, by default,
   strcase.ToCamel of the field name. [write_schema]: the compiler nests the message of the
   inline schema in the declaring message and the field refers to it by path (Foo.Bar).
   [read_tree]: the reflector returns, per message of the tree, a root schema named by the
   path joined with '_' (Foo_Bar); the declaring field reads back as a reference to that
   name. [norm_schema] is the declared tree, from the declaration alone. For every tree in
   the fragment (every schema: plain description, properties in rt_ok), every path and name: *)
Theorem C04_nested : forall env s path name m,
  zero_std env = true -> tree_rt s = true ->
  write_schema env path name s = Ok m ->
  read_tree env path m = Ok (norm_schema env path name s).
Proof. intros env s path name m Hstd. exact (c04_tree env Hstd s path name m). Qed.
Print Assumptions C04_nested.

(* ... and the fragment is exact for trees too: a compiled tree reads back as declared
   iff every schema of it lies in the fragment *)
Theorem C04_nested_exact : forall env s path name m,
  zero_std env = true -> write_schema env path name s = Ok m ->
  (read_tree env path m = Ok (norm_schema env path name s) <-> tree_rt s = true).
Proof. intros env s path name m Hstd. exact (c04_tree_exact env Hstd s path name m). Qed.
Print Assumptions C04_nested_exact.

(* non-vacuity: Foo { someURL : inline object (default name) { a : string };
                      items : array of inline oneof "Item" { deep : inline object { q : bool } } }
   — the reflected schemas are Foo, Foo_SomeUrl, Foo_Item, Foo_Item_Deep, and the fields
   refer to them by those names *)
Example C04_nested_example :
  let str_f n := P n false false (PSingle (TStr None None None)) [] in
  let s := NS RObject None [100]
             [NF (P [115;111;109;101;85;82;76] true false (PSingle (TObject [] false None)) [])
                 (Some (NS RObject None [] [NF (str_f [97]) None]));
              NF (P [105;116;101;109;115] false false (PArray None None (TOneof [] false None)) [])
                 (Some (NS ROneof (Some [73;116;101;109]) []
                           [NF (P [100;101;101;112] false false (PSingle (TObject [] false None)) [])
                               (Some (NS RObject None [] [NF (P [113] false false (PSingle (TBool None None)) []) None]))]))] in
  let names := fix names (t : rtree) : list str :=
                 match t with RT r inner => rr_name r :: flat_map names inner end in
  tree_rt s = true /\
  exists m, write_schema (EE [] None []) [] [70;111;111] s = Ok m /\
    read_tree (EE [] None []) [] m = Ok (norm_schema (EE [] None []) [] [70;111;111] s) /\
    names (norm_schema (EE [] None []) [] [70;111;111] s)
      = [[70;111;111]; [70;111;111;95;83;111;109;101;85;114;108]; [70;111;111;95;73;116;101;109];
         [70;111;111;95;73;116;101;109;95;68;101;101;112]] /\
    match norm_schema (EE [] None []) [] [70;111;111] s with
    | RT r _ => map (fun p => p_ty (rp_prop p)) (rr_props r)
                = [PSingle (TObject [70;111;111;95;83;111;109;101;85;114;108] false None);
                   PArray None None (TOneof [70;111;111;95;73;116;101;109] false None)]
    end.
Proof.
  split; [vm_compute; reflexivity|]. eexists. split; [vm_compute; reflexivity|].
  split; [vm_compute; reflexivity|]. split; vm_compute; reflexivity.
Qed.

(* ---- enums declared inline in a field (model/RulesInlineEnum.v): the nested enum is named as
   the declaration states or ToCamel(field name), its prefix is the stated one or
   ToScreamingSnake(name) + "_"; the field's in / not-in rules are over that enum
   ([env_of_decl]); the reflector knows the enum as the schema <Outer>_<Name>. For every
   field in rt_ok over an inline enum in the enum fragment: *)
Theorem C04_inline_enum : forall here idx d i c,
  inline_enum_rt d i = true -> write_inline_enum idx d i = Ok c ->
  read_inline_enum (env_of_decl (ie_decl (p_name d) i)) here c = Ok (norm_inline_enum here idx d i).
Proof. exact c04_inline_enum. Qed.
Print Assumptions C04_inline_enum.

(* ... exactly: a compiled inline-enum field reads back as declared iff the field lies in rt_ok
   and the enum in the enum fragment *)
Theorem C04_inline_enum_exact : forall here idx d i c,
  write_inline_enum idx d i = Ok c ->
  (read_inline_enum (env_of_decl (ie_decl (p_name d) i)) here c = Ok (norm_inline_enum here idx d i)
   <-> inline_enum_rt d i = true).
Proof. exact c04_inline_enum_exact. Qed.
Print Assumptions C04_inline_enum_exact.

(* non-vacuity: Foo { field x4Y array:enum { option UNSPECIFIED {| nothing}  option RED
   items.enum.rules.notIn = ["RED"] } } — the enum is Foo_X4Y with prefix X_4_Y_, options
   UNSPECIFIED = 0 (described), RED = 1; the rule reads back as ["RED"] *)
Example C04_inline_enum_example :
  let d := P [120;52;89] false false
             (PArray None None (TEnum (Some (ER [] [[82;69;68]])) None)) [] in
  let i := IE None None [] [([85;78;83;80;69;67;73;70;73;69;68], [110;111;116;104;105;110;103], []); ([82;69;68], [], [])] [] in
  inline_enum_rt d i = true /\
  exists c, write_inline_enum 1 d i = Ok c /\
    read_inline_enum (env_of_decl (ie_decl (p_name d) i)) [[70;111;111]] c = Ok (norm_inline_enum [[70;111;111]] 1 d i) /\
    fst (snd (norm_inline_enum [[70;111;111]] 1 d i)) = [70;111;111;95;88;52;89] /\
    re_prefix (snd (snd (norm_inline_enum [[70;111;111]] 1 d i))) = [88;95;52;95;89;95].
Proof.
  split; [vm_compute; reflexivity|]. eexists. split; [vm_compute; reflexivity|].
  split; [vm_compute; reflexivity|]. split; vm_compute; reflexivity.
Qed.

(* second clause (the printed .proto text): reflection sees a field only through
   [c04_proj] (name, number, kind, label, optional keyword, the three annotations,
   the key annotation, the comment). If print + parse preserves that view of
   every field — which the correspondence checks for every generated object, and
   which is C05's theorem to prove — the text reflects to the same schema. *)
Theorem C04_text_clause : forall env os os',
  Forall2 (fun o o' => c04_proj o = c04_proj o') os os' ->
  read_object env os' = read_object env os.
Proof. exact c04_text_clause. Qed.
Print Assumptions C04_text_clause.

(* second clause, composed with family tool's file-level printer / parser model
   (C05_file_canonical + C05_file_equiv): print a well-formed descriptor file of that
   model, parse the printed tokens; every message is found again, and reading its
   fields yields the same properties — for ANY way [view] of reading the reader's
   annotation record off a field descriptor that depends on the field's content only
   (not on source positions, not on the order of its options). Messages must list
   their elements in print order (what the compiler produces).
   The concrete view is C04_text_concrete below. What stays open is what the tool
   model leaves open itself: characters between tokens, and options on the value
   field of a map entry, which are not in its descriptors at all (the known finding
   lives there: the correspondence compares the decoder with the harness dump
   modulo the key annotation of map fields). *)
Theorem C04_text_composed :
  forall (view : dfield -> fout),
    (forall f f', field_equiv f f' -> c04_proj (view f) = c04_proj (view f')) ->
    forall env imp D,
      wf_dfile imp D ->
      exists D',
        parse_file_tokens imp (print_file_tokens (to_symtab (dfile_symtab imp D)) D) = Some D' /\
        forall k c n o body,
          In (DMsg k c n o body) (d_body D) -> in_print_order body ->
          exists k' o' body',
            In (DMsg k' c n o' body') (d_body D') /\
            read_object env (map view (body_fields body')) = read_object env (map view (body_fields body)).
Proof. exact c04_text_composed. Qed.
Print Assumptions C04_text_composed.

(* ... and with the concrete view [RulesView.view_field]: a decoder of the option trees
   of (buf.validate.field), (j5.ext.v1.field), (j5.list.v1.field), (j5.ext.v1.key) into
   the reader's annotation record, proved to depend on the content of the field only
   (view_field_content) and compared on every run, for every compiled field, with the
   annotations the harness dumps from the real descriptor (stream C04View). No
   parameter is left: print a well-formed descriptor file, parse the tokens, decode
   each field of each message, read — the same properties as before printing. *)
Theorem C04_text_concrete : forall env imp D,
  wf_dfile imp D ->
  exists D',
    parse_file_tokens imp (print_file_tokens (to_symtab (dfile_symtab imp D)) D) = Some D' /\
    forall k c n o body,
      In (DMsg k c n o body) (d_body D) -> in_print_order body ->
      exists k' o' body',
        In (DMsg k' c n o' body') (d_body D') /\
        read_object env (map view_field (body_fields body')) = read_object env (map view_field (body_fields body)).
Proof. exact c04_text_concrete. Qed.
Print Assumptions C04_text_concrete.

(* ... and with the two hypotheses about the descriptor DECIDED: [wf_dfile_b] (family
   tool's checker of the printer / parser theorem's domain, sound by
   wf_dfile_b_sound) and [file_in_order_b] (bodies listed in print order). The C04File
   stream evaluates both on the real descriptor of every generated compile unit, and
   compares [RulesTextModel.read_msg_text] (this chain, computed) with what the real
   reflector reads from the really printed and re-parsed text. *)
Theorem C04_text_checked : forall env imp D,
  wf_dfile_b imp D = true -> file_in_order_b D = true ->
  exists D',
    parse_file_tokens imp (print_file_tokens (to_symtab (dfile_symtab imp D)) D) = Some D' /\
    forall k c n o body,
      In (DMsg k c n o body) (d_body D) ->
      exists k' o' body',
        In (DMsg k' c n o' body') (d_body D') /\
        read_object env (map view_field (body_fields body')) = read_object env (map view_field (body_fields body)).
Proof. exact c04_text_checked. Qed.
Print Assumptions C04_text_checked.

Theorem C04_view_reads_content : forall f f', field_equiv f f' -> view_field f = view_field f'.
Proof. exact view_field_content. Qed.
Print Assumptions C04_view_reads_content.

(* the hypothesis on the view is satisfiable by one that reads real content *)
Theorem C04_text_view_exists :
  forall f f', field_equiv f f' -> c04_proj (basic_view f) = c04_proj (basic_view f').
Proof. exact basic_view_content. Qed.
Print Assumptions C04_text_view_exists.

(* names, order and proto paths for EVERY compiled object that reflects at all —
   no fragment hypothesis: whatever else is lost, the reflected object has the
   declared property names in the declared order and the paths [1], [2], ... *)
Theorem C04_names_order_paths : forall env ds os rs,
  write_object env ds = Ok os -> read_object env os = Ok rs ->
  map (fun r => p_name (rp_prop r)) rs = map p_name ds /\
  map rp_path rs = map (fun i => [N.of_nat i]) (seq 1 (length ds)).
Proof. exact c04_names_order_paths. Qed.
Print Assumptions C04_names_order_paths.

(* the normal form of integer rules changes no meaning *)
Theorem C04_norm_int_meaning : forall r z, int_sem (norm_int r) z <-> int_sem r z.
Proof. exact norm_int_sem. Qed.
Print Assumptions C04_norm_int_meaning.

(* enums as root schemas: [norm_enum] is computed from the declaration alone
   (README: value 0 is UNSPECIFIED, explicit or not; the other options 1..n in
   order; reflected names without the prefix; descriptions, option info and info
   fields as declared) *)
Theorem C04_enum : forall e, enum_rt e = true -> read_enum (write_enum e) = Ok (norm_enum e).
Proof. exact c04_enum. Qed.
Print Assumptions C04_enum.

(* the enum fragment is exact: an enum declaration reads back as declared iff every
   description survives the reader's cleaner and an explicit zero option is spelled the
   standard way *)
Theorem C04_enum_exact : forall e, read_enum (write_enum e) = Ok (norm_enum e) <-> enum_rt e = true.
Proof. exact c04_enum_exact. Qed.
Print Assumptions C04_enum_exact.

(* non-vacuity: an enum with an explicit zero option, a prefixed and a short option
   name, option info and an info field lies in the fragment and reads back as declared *)
Example C04_enum_example :
  let e := ED [100] [67;95] [([85;78;83;80;69;67;73;70;73;69;68], [110], [([104], [48])]);
                              ([67;95;82], [], [([104], [102;102])]); ([71], [103], [])]
              [([104], [72], [100])] in
  enum_rt e = true /\ read_enum (write_enum e) = Ok (norm_enum e) /\
  map (fun o => snd (fst (fst o))) (re_options (norm_enum e)) = [0%Z; 1%Z; 2%Z] /\
  map (fun o => fst (fst (fst o))) (re_options (norm_enum e)) = [[85;78;83;80;69;67;73;70;73;69;68]; [82]; [71]].
Proof. cbv zeta. repeat split; vm_compute; reflexivity. Qed.

(* a first option that merely ENDS in UNSPECIFIED (X_UNSPECIFIED) is an ordinary option
   since /repo a65e1f2 (isExplicitZero): value 0 stays C_UNSPECIFIED, X_UNSPECIFIED = 1,
   R = 2, and the enum reads back as declared (before, the writer took it for value 0 and
   the reader derived the prefix "C_X_" from it: a known finding, now fixed) *)
Example C04_enum_other_unspecified_reads_back :
  let e := ED [] [67;95] [([88;95;85;78;83;80;69;67;73;70;73;69;68], [], []); ([82], [], [])] [] in
  enum_rt e = true /\ read_enum (write_enum e) = Ok (norm_enum e) /\
  map (fun o => snd (fst (fst o))) (re_options (norm_enum e)) = [0%Z; 1%Z; 2%Z].
Proof. cbv zeta. repeat split; vm_compute; reflexivity. Qed.

(* the one class left outside [unspec_ok]: the prefix is itself a non-empty prefix of
   "UNSPECIFIED" (`enum Un { prefix = "UN"  option UNSPECIFIED  option R }`): the compiler
   does not take UNSPECIFIED for the zero value (enumValueName leaves it alone, it is not
   "UN" ++ "UNSPECIFIED"), emits UNUNSPECIFIED = 0, UNSPECIFIED = 1, UNR = 2, and the
   reader trims "UN" from UNSPECIFIED (reproduced on the real compiler; degenerate) *)
Theorem C04_enum_prefix_of_unspecified_refuted :
  exists e, read_enum (write_enum e) <> Ok (norm_enum e).
Proof.
  exists (ED [] [85;78] [([85;78;83;80;69;67;73;70;73;69;68], [], []); ([82], [], [])] []).
  vm_compute. discriminate.
Qed.
Print Assumptions C04_enum_prefix_of_unspecified_refuted.

(* ... or when a description has a line the reader's commentDescription drops ("# ...") *)
Theorem C04_enum_description_refuted :
  exists e, read_enum (write_enum e) <> Ok (norm_enum e).
Proof.
  exists (ED [35;32;104] [67;95] [([82], [], [])] []).
  vm_compute. discriminate.
Qed.
Print Assumptions C04_enum_description_refuted.

(* What is missing, each with a witness on the faithful model that replays on
   the real compiler + reflector (KNOWN_FINDINGS.txt): *)
Definition not_read_back (env : enum_env) (d : prop) : Prop :=
  exists o, write_prop env 0 d = Ok o /\ read_prop env o <> Ok (norm_prop env 0 d).

Local Notation plain name t := (P name false false t []).

(* a description with a line starting with '#' — commentDescription drops the line *)
Theorem C04_description_refuted :
  not_read_back (EE [] None []) (P [97] false false (PSingle (TStr None None None)) [35;32;104]).
Proof. eexists. split; [vm_compute; reflexivity|]. vm_compute. discriminate. Qed.
Print Assumptions C04_description_refuted.

(* optional = true on an array (or a map) — explicitlyOptional is read for singular properties only *)
Theorem C04_array_optional_refuted :
  not_read_back (EE [] None []) (P [97] false true (PArray None None (TStr None None None)) []).
Proof. eexists. split; [vm_compute; reflexivity|]. vm_compute. discriminate. Qed.
Print Assumptions C04_array_optional_refuted.

(* a string whose pattern is the published id62 pattern reads back as key:id62 *)
Theorem C04_string_id62_pattern_refuted :
  not_read_back (EE [] None []) (plain [97] (PSingle (TStr None (Some (SR (Some Id62Gen.pattern_string) None None)) None))).
Proof. eexists. split; [vm_compute; reflexivity|]. vm_compute. discriminate. Qed.
Print Assumptions C04_string_id62_pattern_refuted.

(* ... whose pattern is the reader's well-known date pattern reads back as format "date", the pattern dropped *)
Theorem C04_string_date_pattern_refuted :
  not_read_back (EE [] None []) (plain [97] (PSingle (TStr None (Some (SR (Some date_pattern) None None)) None))).
Proof. eexists. split; [vm_compute; reflexivity|]. vm_compute. discriminate. Qed.
Print Assumptions C04_string_date_pattern_refuted.

(* ... and with list rules on top the reader fails altogether *)
Theorem C04_string_wellknown_listrules_fails :
  exists o, write_prop (EE [] None []) 0
              (plain [97] (PSingle (TStr None (Some (SR (Some date_pattern) None None)) (Some (LP false false true false []))))) = Ok o
            /\ is_err (read_prop (EE [] None []) o) = true.
Proof. eexists. split; [vm_compute; reflexivity|]. vm_compute. reflexivity. Qed.
Print Assumptions C04_string_wellknown_listrules_fails.

(* string format — StringField.format is not written at all *)
Theorem C04_string_format_refuted :
  not_read_back (EE [] None []) (plain [97] (PSingle (TStr (Some [117;114;105]) None None))).
Proof. eexists. split; [vm_compute; reflexivity|]. vm_compute. discriminate. Qed.
Print Assumptions C04_string_format_refuted.

(* array of any with types — (j5.ext.v1.field).any is replaced by the array annotation *)
Theorem C04_array_any_types_refuted :
  not_read_back (EE [] None []) (plain [97] (PArray None None (TAny true [[120]] None))).
Proof. eexists. split; [vm_compute; reflexivity|]. vm_compute. discriminate. Qed.
Print Assumptions C04_array_any_types_refuted.

(* array of key:custom / key:informal — the format lives in (j5.ext.v1.field).key, which the array annotation replaces *)
Theorem C04_array_key_custom_refuted :
  not_read_back (EE [] None []) (plain [97] (PArray None None (TKey (Some (KCustom [94;97;36])) None None))).
Proof. eexists. split; [vm_compute; reflexivity|]. vm_compute. discriminate. Qed.
Print Assumptions C04_array_key_custom_refuted.

Theorem C04_array_key_informal_refuted :
  not_read_back (EE [] None []) (plain [97] (PArray None None (TKey (Some KInformal) None None))).
Proof. eexists. split; [vm_compute; reflexivity|]. vm_compute. discriminate. Qed.
Print Assumptions C04_array_key_informal_refuted.

(* key:custom with list rules reads back as declared since fix 240b498 (it read back
   informal before): no longer a refutation, an instance of the fragment *)
Example C04_key_custom_listrules_reads_back :
  let d := plain [97] (PSingle (TKey (Some (KCustom [94;97;36])) None (Some (LP true false false false [])))) in
  rt_ok d = true /\ exists o, write_prop (EE [] None []) 0 d = Ok o /\ read_prop (EE [] None []) o = Ok (norm_prop (EE [] None []) 0 d).
Proof. split; [vm_compute; reflexivity|]. eexists. split; [vm_compute; reflexivity|]. vm_compute. reflexivity. Qed.

(* key:custom whose pattern is the published id62 pattern — the pattern is also written as
   the validation pattern, which the reader's well-known table turns into key:id62 *)
Theorem C04_key_custom_id62_pattern_refuted :
  not_read_back (EE [] None []) (plain [97] (PSingle (TKey (Some (KCustom Id62Gen.pattern_string)) None None))).
Proof. eexists. split; [vm_compute; reflexivity|]. vm_compute. discriminate. Qed.
Print Assumptions C04_key_custom_id62_pattern_refuted.

(* key:custom whose pattern is one of the reader's well-known patterns, with list rules —
   the reader fails (format not compatible with list.unique_string) *)
Theorem C04_key_custom_wellknown_listrules_fails :
  exists o, write_prop (EE [] None []) 0
              (plain [97] (PSingle (TKey (Some (KCustom date_pattern)) None (Some (LP true false false false []))))) = Ok o
            /\ is_err (read_prop (EE [] None []) o) = true.
Proof. eexists. split; [vm_compute; reflexivity|]. vm_compute. reflexivity. Qed.
Print Assumptions C04_key_custom_wellknown_listrules_fails.

(* key without format but with list rules — reads back as informal *)
Theorem C04_key_listrules_refuted :
  not_read_back (EE [] None []) (plain [97] (PSingle (TKey None None (Some (LP true false false false []))))).
Proof. eexists. split; [vm_compute; reflexivity|]. vm_compute. discriminate. Qed.
Print Assumptions C04_key_listrules_refuted.

(* array of keys without format or entity key — (j5.ext.v1.field) is the array's, the items read back as strings *)
Theorem C04_array_key_refuted :
  not_read_back (EE [] None []) (plain [97] (PArray None None (TKey None None None))).
Proof. eexists. split; [vm_compute; reflexivity|]. vm_compute. discriminate. Qed.
Print Assumptions C04_array_key_refuted.

(* array of dates with rules — the date rules live in (j5.ext.v1.field), which the array overwrites *)
Theorem C04_array_date_rules_refuted :
  not_read_back (EE [] None []) (plain [97] (PArray None None (TDate (Some (TR (Some [50]) None None None)) None))).
Proof. eexists. split; [vm_compute; reflexivity|]. vm_compute. discriminate. Qed.
Print Assumptions C04_array_date_rules_refuted.

(* array of flattened objects *)
Theorem C04_array_flatten_refuted :
  not_read_back (EE [] None []) (plain [97] (PArray None None (TObject [66;97;114] true None))).
Proof. eexists. split; [vm_compute; reflexivity|]. vm_compute. discriminate. Qed.
Print Assumptions C04_array_flatten_refuted.

(* timestamp rules — "None Implemented": the writer emits an empty TimestampRules, the bounds
   are lost. NOT counted as a refutation of C04: no .j5s text can state a timestamp bound
   (lib/j5reflect/value_ast.go has the Timestamp arm commented out: "unsupported scalar
   type"), so such a declaration is not a j5s package; it exists in the source AST only.
   Kept as a fact about the writer; rt_ok excludes it. *)
Theorem C04_timestamp_bounds_not_written :
  not_read_back (EE [] None []) (plain [97] (PSingle (TTimestamp (Some (TSR (Some 5%Z) None None None)) None))).
Proof. eexists. split; [vm_compute; reflexivity|]. vm_compute. discriminate. Qed.
Print Assumptions C04_timestamp_bounds_not_written.

(* object rules — minProperties / maxProperties compile to an empty constraint and are not read back *)
Theorem C04_object_rules_refuted :
  not_read_back (EE [] None []) (plain [97] (PSingle (TObject [66;97;114] false (Some (OBR (Some 1) None))))).
Proof. eexists. split; [vm_compute; reflexivity|]. vm_compute. discriminate. Qed.
Print Assumptions C04_object_rules_refuted.

(* float rules do not compile at all ("TODO: float rules not implemented") *)
Theorem C04_float_rules_do_not_compile : forall env idx name req opt f64 l desc,
  is_ok (write_prop env idx (P name req opt (PSingle (TFloat f64 true l)) desc)) = false.
Proof. intros. reflexivity. Qed.
Print Assumptions C04_float_rules_do_not_compile.

(* map values: list rules of the item schema stay on the entry's value field and are not read back *)
Theorem C04_map_item_listrules_refuted :
  not_read_back (EE [] None []) (plain [97] (PMap None (TStr None None (Some (LP false false true false []))))).
Proof. eexists. split; [vm_compute; reflexivity|]. vm_compute. discriminate. Qed.
Print Assumptions C04_map_item_listrules_refuted.

Theorem C04_full_refuted : ~ C04_full_statement.
Proof.
  intro H. destruct C04_string_format_refuted as [o [Hw Hr]].
  specialize (H (EE [] None []) [plain [97] (PSingle (TStr (Some [117;114;105]) None None))] [o] eq_refl).
  apply Hr. unfold write_object in H. cbn [write_props_from] in H. rewrite Hw in H. cbn [obind] in H.
  specialize (H eq_refl). cbn [read_object] in H.
  destruct (read_prop (EE [] None []) o) as [p| | |]; cbn in H; try discriminate.
  inversion H. reflexivity.
Qed.
Print Assumptions C04_full_refuted.

(* the reader model's switches are those of schema_from_proto.go (regenerated tables,
   each compared with what the model function does on probe inputs) *)
Theorem C04_reader_table_agrees :
  forallb (fun a => match a with
                    | (k, f, smax, smin, sxmax, sxmin) =>
                        match model_read_arm k f with
                        | Some q => quad_eqb q (smax, smin, sxmax, sxmin)
                        | None => false
                        end
                    end) RulesGen.reader_int_arms = true
  /\ RulesGen.reader_int_list_arms = RulesGen.writer_int_list_arms
  (* wellKnownStringPatterns: read_string turns each generated pattern into the generated format *)
  /\ forallb (fun a => ostr_eqb (model_wellknown (fst a)) (snd a)) RulesGen.reader_wellknown_literals = true
  /\ RulesGen.reader_id62_published = model_id62_reads_as_key
  (* and the writer's side of the same annotations *)
  /\ RulesGen.writer_object_rules_empty = emits_typeless (TObject [66;97;114] false (Some (OBR (Some 1) (Some 2))))
  /\ RulesGen.writer_oneof_rules_empty = emits_typeless (TOneof [67] true None).
Proof.
  exact (conj reader_int_arms_agree (conj reader_int_list_arms_agree
        (conj (proj1 reader_wellknown_agree) (conj (proj1 reader_id62_agree)
        (conj (proj1 (proj2 writer_reduced_rules_agree)) (proj1 (proj2 (proj2 writer_reduced_rules_agree)))))))).
Qed.
Print Assumptions C04_reader_table_agrees.

(* non-vacuity: an object with every kind of rule lies in the fragment, compiles
   and reads back as declared *)
Example C04_example :
  let env := EE [67;95] None [[82];[71]] in
  let ds := [ P [97] true false (PSingle (TInt I32 (Some (IR (Some 1%Z) (Some 10%Z) (Some false) (Some true))) (Some (LP true true false false [])))) [100;101;115;99];
              P [98] false true (PSingle (TStr None (Some (SR (Some [94;97;36]) (Some 0) (Some 5))) None)) [];
              P [99] false false (PArray (Some (AR (Some 1) None (Some true))) (Some [120]) (TEnum (Some (ER [[82]] [[67;95;71]])) None)) [];
              P [100] false false (PSingle (TKey (Some KId62) (Some (EK (Some (EPrimary true)) (Some [116]))) None)) [];
              P [101] false false (PSingle (TDate (Some (TR (Some [50]) None (Some true) None)) None)) [];
              P [103] false false (PSingle (TKey (Some (KCustom [94;97;36])) None None)) [];
              P [104] false false (PSingle (TKey (Some KInformal) None None)) [];
              P [102] true false (PMap (Some (MR (Some 1) None)) (TStr None (Some (SR None (Some 2) None)) None)) [] ] in
  zero_std env = true /\ forallb rt_ok ds = true /\
  exists os, write_object env ds = Ok os /\ read_object env os = Ok (norm_object env ds)
             /\ map (fun r => p_req (rp_prop r)) (norm_object env ds) = [true; false; false; true; false; false; false; true].
Proof.
  cbv zeta. split; [reflexivity|]. split; [vm_compute; reflexivity|].
  eexists. split; [vm_compute; reflexivity|]. split; vm_compute; reflexivity.
Qed.

(* ---- client property names through flatten levels (/repo 96a1ec3) ----
   Since the fix the reader (SchemaSetFromFiles, SchemaCache.Schema) checks, after all schemas are built,
   that the client properties of every object - its own plus those hoisted from flattened object fields at
   any depth - have pairwise different JSON names (model/RulesClientNames.v: client_names, tree_names_ok;
   read_tree_checked / read_object_checked are the reader with that last step).  A package with such a
   clash is not a valid declaration (its JSON object would carry one key twice); the round trip is stated
   for the others, and the checked reader is exactly the former one plus the check. *)
From J5V.model Require Import RulesClientNames.
From J5V.proofs Require Import RulesClientNamesProofs.

Theorem C04_nested_checked : forall fixed env s path name m,
  zero_std env = true -> tree_rt s = true ->
  write_schema env path name s = Ok m ->
  tree_names_ok fixed path m = true ->
  read_tree_checked fixed env path m = Ok (norm_schema env path name s).
Proof. exact c04_tree_checked. Qed.
Print Assumptions C04_nested_checked.

Theorem C04_checked_reader_exact : forall fixed env path m t,
  read_tree_checked fixed env path m = Ok t <->
  read_tree env path m = Ok t /\ tree_names_ok fixed path m = true.
Proof. exact read_tree_checked_exact. Qed.
Print Assumptions C04_checked_reader_exact.

Theorem C04_checked_object_reader_exact : forall fixed env k name fs ps,
  read_object_checked fixed env k name fs = Ok ps <->
  read_object env fs = Ok ps /\ tree_names_ok fixed [] (flat_msg k name fs) = true.
Proof. exact read_object_checked_exact. Qed.
Print Assumptions C04_checked_object_reader_exact.

Theorem C04_client_name_clash_refused : forall fixed env s path name m,
  write_schema env path name s = Ok m ->
  tree_names_ok fixed path m = false ->
  forall t, read_tree_checked fixed env path m <> Ok t.
Proof. exact c04_tree_clash_refused. Qed.
Print Assumptions C04_client_name_clash_refused.

(* non-vacuity, both ways: Foo { a : string; in (flatten) : inline object { b : string } } passes the check
   and reads back; with the inner property named a as well the package compiles and the reader refuses it;
   so does a clash two levels deep (Foo { a; in (flatten) { mid (flatten) { a } } }) and one between two
   flattened fields of the fixed object Bar { x } *)
Example C04_client_names_example :
  let str_f n := P n false false (PSingle (TStr None None None)) [] in
  let flat n inner := NF (P n false false (PSingle (TObject [] true None)) []) (Some (NS RObject None [] inner)) in
  let env := EE [] None [] in
  let good := NS RObject None [] [NF (str_f [97]) None; flat [105;110] [NF (str_f [98]) None]] in
  let bad := NS RObject None [] [NF (str_f [97]) None; flat [105;110] [NF (str_f [97]) None]] in
  let deep := NS RObject None [] [NF (str_f [97]) None; flat [105;110] [flat [109;105;100] [NF (str_f [97]) None]]] in
  let two := NS RObject None [] [NF (P [112] false false (PSingle (TObject [66;97;114] true None)) []) None;
                                 NF (P [113] false false (PSingle (TObject [66;97;114] true None)) []) None] in
  let fixed := [([66;97;114], [[120]])] in
  (exists m, write_schema env [] [70;111;111] good = Ok m /\ tree_names_ok fixed [] m = true /\
             read_tree_checked fixed env [] m = Ok (norm_schema env [] [70;111;111] good)) /\
  (exists m, write_schema env [] [70;111;111] bad = Ok m /\ tree_names_ok fixed [] m = false /\
             read_tree_checked fixed env [] m = Err e_client_name) /\
  (exists m, write_schema env [] [70;111;111] deep = Ok m /\ tree_names_ok fixed [] m = false) /\
  (exists m, write_schema env [] [70;111;111] two = Ok m /\ tree_names_ok fixed [] m = false).
Proof.
  cbv zeta. repeat split; eexists; (split; [vm_compute; reflexivity|]); repeat split; vm_compute; reflexivity.
Qed.

(* C04 — the schema read back from the compiled descriptors is the declared one.
   Only statements, closed by [exact lemma], with Print Assumptions beneath. *)
From Coq Require Import String List NArith ZArith Bool.
From J5V.lib Require Import Outcome.
From J5V.model Require Import RulesDecl RulesWrite RulesRead RulesEnum RulesSpec Validate.
From J5V.gen Require Id62Gen RulesGen.
From J5V.proofs Require Import RulesProofs RulesReadProofs RulesGenProofs RulesReadGenProofs.
Import ListNotations.
Local Open Scope N_scope.

(* The property at full strength (first clause): for EVERY object whose
   properties compile, reading the emitted annotations back yields the declared
   properties — names, order, proto paths, required / optional, types and
   formats, flatten, key formats and entity keys, descriptions, validation and
   list rules — up to the representation-only normal form of RulesRead.norm_prop. *)
Definition C04_full_statement : Prop :=
  forall env ds os,
    write_object env ds = Ok os -> read_object env os = Ok (norm_object env ds).

(* What is proved: the same for every object whose properties lie in the
   fragment [rt_ok]: everything except the combinations listed (and refuted)
   below. All rule values: absent, zero, boundary, both booleans. *)
Theorem C04_partial :
  forall env ds os,
    forallb rt_ok ds = true ->
    write_object env ds = Ok os -> read_object env os = Ok (norm_object env ds).
Proof. exact c04_object. Qed.
Print Assumptions C04_partial.

(* ... and the fragment is exact: a compiled object reads back as declared IF
   AND ONLY IF every property lies in [rt_ok]. So [rt_ok] is not "what could be
   proved" but the precise extent of the property on the model, and the list of
   refutations below is complete: what is missing from the full statement is
   exactly the complement of [rt_ok]. *)
Theorem C04_exact :
  forall env ds os,
    write_object env ds = Ok os ->
    (read_object env os = Ok (norm_object env ds) <-> forallb rt_ok ds = true).
Proof. exact c04_object_exact. Qed.
Print Assumptions C04_exact.

Theorem C04_property_exact :
  forall env idx d o,
    write_prop env idx d = Ok o ->
    (read_prop env o = Ok (norm_prop env idx d) <-> rt_ok d = true).
Proof. exact c04_prop_exact. Qed.
Print Assumptions C04_property_exact.

Theorem C04_property :
  forall env idx d o,
    rt_ok d = true -> write_prop env idx d = Ok o -> read_prop env o = Ok (norm_prop env idx d).
Proof. exact c04_prop. Qed.
Print Assumptions C04_property.

(* second clause (the printed .proto text): reflection sees a field only through
   [c04_proj] (name, number, kind, label, optional keyword, the three annotations,
   the key annotation, the comment). If print + parse preserves that view of
   every field — which the correspondence checks for every generated object, and
   which is C05's theorem to prove — the text reflects to the same schema. *)
Theorem C04_text_clause : forall env os os',
  Forall2 (fun o o' => c04_proj o = c04_proj o') os os' ->
  read_object env os' = read_object env os.
Proof. exact c04_text_clause. Qed.
Print Assumptions C04_text_clause.

(* names and order are those declared; proto paths are [1], [2], ... *)
Theorem C04_names_order : forall env ds,
  map (fun r => p_name (rp_prop r)) (norm_object env ds) = map p_name ds.
Proof. exact norm_object_names. Qed.
Print Assumptions C04_names_order.

Theorem C04_proto_paths : forall env ds,
  map rp_path (norm_object env ds) = map (fun i => [N.of_nat i]) (seq 1 (length ds)).
Proof. exact norm_object_paths. Qed.
Print Assumptions C04_proto_paths.

(* the normal form of integer rules changes no meaning *)
Theorem C04_norm_int_meaning : forall r z, int_sem (norm_int r) z <-> int_sem r z.
Proof. exact norm_int_sem. Qed.
Print Assumptions C04_norm_int_meaning.

(* enums as root schemas: description, prefix, option names (short), numbers
   (UNSPECIFIED = 0, the others 1..n in order) and option descriptions *)
Theorem C04_enum : forall e, enum_rt e = true -> read_enum (write_enum e) = Ok (norm_enum e).
Proof. exact c04_enum. Qed.
Print Assumptions C04_enum.

(* ... except when the explicit first option is some other name ending in
   UNSPECIFIED: the reader derives the prefix from it *)
Theorem C04_enum_unspecified_refuted :
  exists e, read_enum (write_enum e) <> Ok (norm_enum e).
Proof.
  exists (ED [] [67;95] [([88;95;85;78;83;80;69;67;73;70;73;69;68], []); ([82], [])]).
  vm_compute. discriminate.
Qed.
Print Assumptions C04_enum_unspecified_refuted.

(* What is missing, each with a witness on the faithful model that replays on
   the real compiler + reflector (KNOWN_FINDINGS.txt): *)
Definition not_read_back (env : enum_env) (d : prop) : Prop :=
  exists o, write_prop env 0 d = Ok o /\ read_prop env o <> Ok (norm_prop env 0 d).

Local Notation plain name t := (P name false false t []).

(* string format — StringField.format is not written at all *)
Theorem C04_string_format_refuted :
  not_read_back (EE [] []) (plain [97] (PSingle (TStr (Some [117;114;105]) None None))).
Proof. eexists. split; [vm_compute; reflexivity|]. vm_compute. discriminate. Qed.
Print Assumptions C04_string_format_refuted.

(* array of any with types — (j5.ext.v1.field).any is replaced by the array annotation *)
Theorem C04_array_any_types_refuted :
  not_read_back (EE [] []) (plain [97] (PArray None None (TAny true [[120]] None))).
Proof. eexists. split; [vm_compute; reflexivity|]. vm_compute. discriminate. Qed.
Print Assumptions C04_array_any_types_refuted.

(* array of key:custom / key:informal — the format lives in (j5.ext.v1.field).key, which the array annotation replaces *)
Theorem C04_array_key_custom_refuted :
  not_read_back (EE [] []) (plain [97] (PArray None None (TKey (Some (KCustom [94;97;36])) None None))).
Proof. eexists. split; [vm_compute; reflexivity|]. vm_compute. discriminate. Qed.
Print Assumptions C04_array_key_custom_refuted.

Theorem C04_array_key_informal_refuted :
  not_read_back (EE [] []) (plain [97] (PArray None None (TKey (Some KInformal) None None))).
Proof. eexists. split; [vm_compute; reflexivity|]. vm_compute. discriminate. Qed.
Print Assumptions C04_array_key_informal_refuted.

(* key:custom with list rules — written as a unique_string foreign key, reads back informal *)
Theorem C04_key_custom_listrules_refuted :
  not_read_back (EE [] []) (plain [97] (PSingle (TKey (Some (KCustom [94;97;36])) None (Some (LP true false false false []))))).
Proof. eexists. split; [vm_compute; reflexivity|]. vm_compute. discriminate. Qed.
Print Assumptions C04_key_custom_listrules_refuted.

(* key without format but with list rules — reads back as informal *)
Theorem C04_key_listrules_refuted :
  not_read_back (EE [] []) (plain [97] (PSingle (TKey None None (Some (LP true false false false []))))).
Proof. eexists. split; [vm_compute; reflexivity|]. vm_compute. discriminate. Qed.
Print Assumptions C04_key_listrules_refuted.

(* array of keys without format or entity key — (j5.ext.v1.field) is the array's, the items read back as strings *)
Theorem C04_array_key_refuted :
  not_read_back (EE [] []) (plain [97] (PArray None None (TKey None None None))).
Proof. eexists. split; [vm_compute; reflexivity|]. vm_compute. discriminate. Qed.
Print Assumptions C04_array_key_refuted.

(* array of dates with rules — the date rules live in (j5.ext.v1.field), which the array overwrites *)
Theorem C04_array_date_rules_refuted :
  not_read_back (EE [] []) (plain [97] (PArray None None (TDate (Some (TR (Some [50]) None None None)) None))).
Proof. eexists. split; [vm_compute; reflexivity|]. vm_compute. discriminate. Qed.
Print Assumptions C04_array_date_rules_refuted.

(* array of flattened objects *)
Theorem C04_array_flatten_refuted :
  not_read_back (EE [] []) (plain [97] (PArray None None (TObject true))).
Proof. eexists. split; [vm_compute; reflexivity|]. vm_compute. discriminate. Qed.
Print Assumptions C04_array_flatten_refuted.

(* map values: list rules of the item schema stay on the entry's value field and are not read back *)
Theorem C04_map_item_listrules_refuted :
  not_read_back (EE [] []) (plain [97] (PMap None (TStr None None (Some (LP false false true false []))))).
Proof. eexists. split; [vm_compute; reflexivity|]. vm_compute. discriminate. Qed.
Print Assumptions C04_map_item_listrules_refuted.

Theorem C04_full_refuted : ~ C04_full_statement.
Proof.
  intro H. destruct C04_string_format_refuted as [o [Hw Hr]].
  specialize (H (EE [] []) [plain [97] (PSingle (TStr (Some [117;114;105]) None None))] [o]).
  apply Hr. unfold write_object in H. cbn [write_props_from] in H. rewrite Hw in H. cbn [obind] in H.
  specialize (H eq_refl). cbn [read_object] in H.
  destruct (read_prop (EE [] []) o) as [p| | |]; cbn in H; try discriminate.
  inversion H. reflexivity.
Qed.
Print Assumptions C04_full_refuted.

(* the reader model's switches are those of schema_from_proto.go (regenerated tables) *)
Theorem C04_reader_table_agrees :
  forallb (fun a => match a with
                    | (k, f, smax, smin, sxmax, sxmin) =>
                        match model_read_arm k f with
                        | Some q => quad_eqb q (smax, smin, sxmax, sxmin)
                        | None => false
                        end
                    end) RulesGen.reader_int_arms = true
  /\ RulesGen.reader_int_list_arms = RulesGen.writer_int_list_arms
  /\ RulesGen.reader_id62_published = true.
Proof. exact (conj reader_int_arms_agree (conj reader_int_list_arms_agree reader_id62_agree)). Qed.
Print Assumptions C04_reader_table_agrees.

(* non-vacuity: an object with every kind of rule lies in the fragment, compiles
   and reads back as declared *)
Example C04_example :
  let env := EE [67;95] [[82];[71]] in
  let ds := [ P [97] true false (PSingle (TInt I32 (Some (IR (Some 1%Z) (Some 10%Z) (Some false) (Some true))) (Some (LP true true false false [])))) [100;101;115;99];
              P [98] false true (PSingle (TStr None (Some (SR (Some [94;97;36]) (Some 0) (Some 5))) None)) [];
              P [99] false false (PArray (Some (AR (Some 1) None (Some true))) (Some [120]) (TEnum (Some (ER [[82]] [[67;95;71]])) None)) [];
              P [100] false false (PSingle (TKey (Some KId62) (Some (EK (Some (EPrimary true)) (Some [116]))) None)) [];
              P [101] false false (PSingle (TDate (Some (TR (Some [50]) None (Some true) None)) None)) [];
              P [103] false false (PSingle (TKey (Some (KCustom [94;97;36])) None None)) [];
              P [104] false false (PSingle (TKey (Some KInformal) None None)) [];
              P [102] true false (PMap (Some (MR (Some 1) None)) (TStr None (Some (SR None (Some 2) None)) None)) [] ] in
  forallb rt_ok ds = true /\
  exists os, write_object env ds = Ok os /\ read_object env os = Ok (norm_object env ds)
             /\ map (fun r => p_req (rp_prop r)) (norm_object env ds) = [true; false; false; true; false; false; false; true].
Proof.
  cbv zeta. split; [vm_compute; reflexivity|].
  eexists. split; [vm_compute; reflexivity|]. split; vm_compute; reflexivity.
Qed.

(* C14 — compilation and printing are deterministic.
   Only statements, closed by [exact lemma], with Print Assumptions beneath.

   Every map iteration / listing-order dependency of the compile and print path is an explicit
   order parameter of model/CmpbOrder.v (the site list equals gen/MapRangeGen.v by a computed
   lemma); the theorems say the result is the same for all permutations. *)
From Coq Require Import String List NArith Bool Permutation Sorted.
From J5V.lib Require Import Outcome Strcase.
From J5V.gen Require MapRangeGen SetExtGen StateGen.
From J5V.model Require Import Desc J5sAst J5sWalk J5sConvert CmpbOrder CmpbInstance.
From J5V.proofs Require Import CmpbOrderProofs CmpbComposeProofs CmpbStateProofs CmpbLinkTotalProofs.
From J5V.model Require ProtoPrintFile.
From J5V.proofs Require CmpbPrintBridgeProofs CmpbPrintBridgeExample ProtoPrintFileExample.
From J5V.model Require CmpbBytes ProtoPrintFileWf ProtoParseFile.
From J5V.proofs Require ProtoPrintFileFullProofs.
From J5V.proofs Require CmpbBytesProofs CmpbBytesExampleProofs CmpbBytesDepsProofs.
Import ListNotations.
Local Open Scope N_scope.

(* ---- the property at full strength over the order-parameterised model *)
Definition C14_full_statement : Prop := full_statement.
Theorem C14_full : C14_full_statement.
Proof. exact full_statement_holds. Qed.
Print Assumptions C14_full.

(* ---- the property over CONCRETE outputs (model/CmpbBytes.v): nothing is a universally quantified stage function.
   Inputs of the property: the source set [bd] (cmpa's AST bundle), the dependency set [exts], the package [n]; [pkgs] is
   the set of local packages and [ann] the table of what cmpa's descriptor type does not carry (source line, comments and
   options of every element), the same in both runs.  A [run] collects everything the output must not depend on: the
   package listing and the file listing as the file source returned them (run_ok: permutations of the canonical ones),
   the three map-iteration orders, both fuels, the earlier CompilePackage calls on the same PackageSet, and protobuf's
   Range order applied to every option list the printer reads.  compile_and_print = CompilePackage (cmpa's converter,
   SplitPackageFromFilename, hasAPrefix over localPrefixes, the dependency set by path, linked file = descriptor with its
   linked imports) followed by tool's PrintFile model on every returned file.  Output: per returned file, in order, its
   name, its descriptor and its printed tokens.
   FULL statement (bytes form): every run on a well-formed source set returns the same output *)
Definition C14_full_statement_bytes : Prop :=
  forall bd exts ann pkgs rank frank n,
    valid (CmpbBytes.flat_bundle pkgs (CmpbBytes.src_files bd)) ->
    well_founded_deps (CmpbBytes.flat_bundle pkgs (CmpbBytes.src_files bd)) rank ->
    owner_ok (cmpa_convert bd) CmpbBytes.split_owner (CmpbBytes.is_local_of pkgs) (CmpbBytes.flat_bundle pkgs (CmpbBytes.src_files bd)) ->
    imports_wf (cmpa_convert bd) CmpbBytes.split_owner (CmpbBytes.is_local_of pkgs) (CmpbBytes.c_ext_file exts) CmpbBytes.c_deps_of
               (CmpbBytes.flat_bundle pkgs (CmpbBytes.src_files bd)) frank ->
    find_pkg n (CmpbBytes.flat_bundle pkgs (CmpbBytes.src_files bd)) <> None ->
    CmpbBytesProofs.ann_ok ann ->
    exists o : CmpbBytes.output, forall r, CmpbBytes.run_ok pkgs bd r -> (rank n < CmpbBytes.r_fuel r)%nat ->
      (forall f, In f (map fst (p_files (spec_pkg (cmpa_convert bd) (CmpbBytes.flat_bundle pkgs (CmpbBytes.src_files bd)) n))) ->
                 (frank f < CmpbBytes.r_lfuel r)%nat) ->
      CmpbBytes.compile_and_print bd exts ann r n = Some o.
Theorem C14_output_bytes_total_deterministic : C14_full_statement_bytes.
Proof. exact CmpbBytesProofs.output_total_deterministic. Qed.
Print Assumptions C14_output_bytes_total_deterministic.

(* the same with the PackageSet in ANY admissible state instead of a history of successful calls: [pc] / [lc] hold only what
   loading / linking produce for this source set (both_ok) and the loaded packages are closed under dependencies - which is what
   every earlier call leaves, ALSO a failed one (Go keeps the dependencies it had loaded and the files it had linked) *)
Theorem C14_output_bytes_any_packageset_state : forall bd exts ann pkgs rank frank n,
  let b0 := CmpbBytes.flat_bundle pkgs (CmpbBytes.src_files bd) in
  valid b0 -> well_founded_deps b0 rank ->
  owner_ok (cmpa_convert bd) CmpbBytes.split_owner (CmpbBytes.is_local_of pkgs) b0 ->
  imports_wf (cmpa_convert bd) CmpbBytes.split_owner (CmpbBytes.is_local_of pkgs) (CmpbBytes.c_ext_file exts) CmpbBytes.c_deps_of b0 frank ->
  find_pkg n b0 <> None -> CmpbBytesProofs.ann_ok ann ->
  exists o : CmpbBytes.output, forall r pc lc, CmpbBytes.run_ok pkgs bd r ->
    both_ok (cmpa_convert bd) CmpbBytes.split_owner (CmpbBytes.is_local_of pkgs) (CmpbBytes.c_ext_file exts) CmpbBytes.c_deps_of CmpbBytes.c_link1 b0 pc lc ->
    cache_closed b0 pc -> (rank n < CmpbBytes.r_fuel r)%nat ->
    (forall f, In f (map fst (p_files (spec_pkg (cmpa_convert bd) b0 n))) -> (frank f < CmpbBytes.r_lfuel r)%nat) ->
    option_map (CmpbBytes.render ann (CmpbBytes.r_range r)) (CmpbBytes.compile_from bd exts r pc lc n) = Some o.
Proof. exact CmpbBytesProofs.output_from_any_state. Qed.
Print Assumptions C14_output_bytes_any_packageset_state.

(* without the well-formedness hypotheses on imports: two runs that both return, return the same output *)
Theorem C14_output_bytes_deterministic : forall bd exts ann pkgs n r1 r2 o1 o2,
  valid (CmpbBytes.flat_bundle pkgs (CmpbBytes.src_files bd)) -> CmpbBytesProofs.ann_ok ann ->
  CmpbBytes.run_ok pkgs bd r1 -> CmpbBytes.run_ok pkgs bd r2 ->
  CmpbBytes.compile_and_print bd exts ann r1 n = Some o1 -> CmpbBytes.compile_and_print bd exts ann r2 n = Some o2 -> o1 = o2.
Proof. exact CmpbBytesProofs.output_deterministic. Qed.
Print Assumptions C14_output_bytes_deterministic.

(* Range orders PER CALL: [CmpbBytes.reorder] applies one permutation function to every option list, a real run draws a fresh
   order at every Range call.  Relationally: any two descriptors obtained from the printer's descriptor of a linked file by
   permuting each of its option lists INDEPENDENTLY print the same tokens, and [reorder rng] is one of them *)
Theorem C14_output_any_range_order : forall ann l,
  (forall d1 d2, CmpbPrintBridgeProofs.dfile_equiv (CmpbBytes.to_print ann l) d1 -> CmpbPrintBridgeProofs.dfile_equiv (CmpbBytes.to_print ann l) d2 ->
     ProtoPrintFile.print_file_tokens (CmpbBytes.st_of ann l) d1 = ProtoPrintFile.print_file_tokens (CmpbBytes.st_of ann l) d2)
  /\ (forall rng, CmpbBytesProofs.ann_ok ann -> CmpbBytes.perm_fun rng ->
        CmpbPrintBridgeProofs.dfile_equiv (CmpbBytes.to_print ann l) (CmpbBytes.reorder rng (CmpbBytes.to_print ann l))).
Proof.
  exact (fun ann l => conj (CmpbBytesProofs.any_range_variants_print_the_same ann l) (CmpbBytesProofs.reorder_is_variant ann l)).
Qed.
Print Assumptions C14_output_any_range_order.

(* the package listing enters only as a set: hasAPrefix over localPrefixes (C14-C class: a package directory nested in
   another one, enclosing package listed first), and the bundle CompilePackage sees (localPackageNames + the path.Dir
   filter of listPackageFiles) is the same up to the order of each package's files; a package IS the same for both *)
Theorem C14_package_listing_order_irrelevant : forall pkgs1 pkgs2, Permutation pkgs1 pkgs2 ->
  (forall path, CmpbBytes.is_local_of pkgs1 path = CmpbBytes.is_local_of pkgs2 path)
  /\ forall (F D : Type) (convert : env -> @srcfile F -> bytes -> D) (files1 files2 : list (@srcfile F)),
       Permutation files1 files2 -> valid (CmpbBytes.flat_bundle pkgs1 files1) ->
       forall n, spec_pkg convert (CmpbBytes.flat_bundle pkgs1 files1) n = spec_pkg convert (CmpbBytes.flat_bundle pkgs2 files2) n.
Proof.
  exact (fun pkgs1 pkgs2 Hp => conj (fun path => CmpbBytesProofs.is_local_of_perm pkgs1 pkgs2 path Hp)
           (fun F D convert files1 files2 Hf Hv =>
              CmpbBytesProofs.spec_pkg_equiv convert _ _ (CmpbBytesProofs.flat_bundle_equiv pkgs1 pkgs2 files1 files2 Hp Hf) Hv)).
Qed.
Print Assumptions C14_package_listing_order_irrelevant.

(* non-vacuity: two packages, three source files, every generated file imports files of the dependency set (resolver-
   provided, themselves importing descriptor.proto); all hypotheses hold; run 1 (canonical) and run 2 (both listings
   reversed, all map orders reversed, other fuels, baz.v1 and foo.v1 compiled earlier, Range order reversed) compute the
   SAME three (name, descriptor, tokens) entries, all with a descriptor and a non-empty token sequence, although the
   printer was handed different descriptors; and every run whatsoever returns one output *)
Example C14_example_output_bytes :
  let b0 := CmpbBytes.flat_bundle CmpbBytesExampleProofs.exb_pkgs (CmpbBytes.src_files CmpbBytesExampleProofs.exb_bd) in
  valid b0 /\ well_founded_deps b0 CmpbBytesExampleProofs.exb_rank
  /\ owner_ok (cmpa_convert CmpbBytesExampleProofs.exb_bd) CmpbBytes.split_owner (CmpbBytes.is_local_of CmpbBytesExampleProofs.exb_pkgs) b0
  /\ imports_wf (cmpa_convert CmpbBytesExampleProofs.exb_bd) CmpbBytes.split_owner (CmpbBytes.is_local_of CmpbBytesExampleProofs.exb_pkgs)
        (CmpbBytes.c_ext_file CmpbBytesExampleProofs.exb_exts) CmpbBytes.c_deps_of b0 CmpbBytesExampleProofs.exb_frank
  /\ CmpbBytesProofs.ann_ok CmpbBytesExampleProofs.exb_ann
  /\ CmpbBytes.run_ok CmpbBytesExampleProofs.exb_pkgs CmpbBytesExampleProofs.exb_bd CmpbBytesExampleProofs.exb_r1
  /\ CmpbBytes.run_ok CmpbBytesExampleProofs.exb_pkgs CmpbBytesExampleProofs.exb_bd CmpbBytesExampleProofs.exb_r2
  /\ (exists o,
        CmpbBytes.compile_and_print CmpbBytesExampleProofs.exb_bd CmpbBytesExampleProofs.exb_exts CmpbBytesExampleProofs.exb_ann
          CmpbBytesExampleProofs.exb_r1 (b "foo.v1") = Some o
        /\ CmpbBytes.compile_and_print CmpbBytesExampleProofs.exb_bd CmpbBytesExampleProofs.exb_exts CmpbBytesExampleProofs.exb_ann
             CmpbBytesExampleProofs.exb_r2 (b "foo.v1") = Some o
        /\ map (fun x => fst (fst x)) o = [b "foo/v1/a.j5s.proto"; b "foo/v1/b.j5s.proto"; b "foo/v1/service/b.p.j5s.proto"]
        /\ forallb (fun x => match snd (fst x) with Some _ => true | None => false end && negb (Nat.eqb (length (snd x)) 0)) o = true)
  /\ (forall out, CmpbBytes.compile_run CmpbBytesExampleProofs.exb_bd CmpbBytesExampleProofs.exb_exts CmpbBytesExampleProofs.exb_r1 (b "foo.v1") = Some out ->
        map (fun x => CmpbBytes.reorder (CmpbBytes.r_range CmpbBytesExampleProofs.exb_r1) (CmpbBytes.to_print CmpbBytesExampleProofs.exb_ann (snd x))) out
        <> map (fun x => CmpbBytes.reorder (CmpbBytes.r_range CmpbBytesExampleProofs.exb_r2) (CmpbBytes.to_print CmpbBytesExampleProofs.exb_ann (snd x))) out)
  /\ exists o, forall r, CmpbBytes.run_ok CmpbBytesExampleProofs.exb_pkgs CmpbBytesExampleProofs.exb_bd r ->
        (1 < CmpbBytes.r_fuel r)%nat -> (4 < CmpbBytes.r_lfuel r)%nat ->
        CmpbBytes.compile_and_print CmpbBytesExampleProofs.exb_bd CmpbBytesExampleProofs.exb_exts CmpbBytesExampleProofs.exb_ann r (b "foo.v1") = Some o.
Proof.
  exact (conj CmpbBytesExampleProofs.exb_valid (conj CmpbBytesExampleProofs.exb_wf (conj CmpbBytesExampleProofs.exb_owner_ok
        (conj CmpbBytesExampleProofs.exb_imports_wf (conj CmpbBytesExampleProofs.exb_ann_ok (conj CmpbBytesExampleProofs.exb_r1_ok
        (conj CmpbBytesExampleProofs.exb_r2_ok (conj CmpbBytesExampleProofs.exb_computes
        (conj CmpbBytesExampleProofs.exb_range_differs CmpbBytesExampleProofs.exb_total))))))))).
Qed.
Print Assumptions C14_example_output_bytes.

(* ... and the tokens of the example are protobuf text FOR the descriptor in tool's model: every printer descriptor that
   to_print builds there, under both Range orders, is well formed in tool's sense (every type reference resolves in the symbol
   table of the file and its imports ...), so (tool's round-trip theorem) the printed tokens parse back to an equivalent descriptor *)
Example C14_example_output_reads_back :
  forall out, CmpbBytes.compile_run CmpbBytesExampleProofs.exb_bd CmpbBytesExampleProofs.exb_exts CmpbBytesExampleProofs.exb_r1 (b "foo.v1") = Some out ->
  forall x, In x out -> forall rng, rng = CmpbBytes.r_range CmpbBytesExampleProofs.exb_r1 \/ rng = CmpbBytes.r_range CmpbBytesExampleProofs.exb_r2 ->
    ProtoPrintFileWf.wf_dfile_b (CmpbBytes.imp_symtab CmpbBytesExampleProofs.exb_ann (CmpbBytes.l_imports (snd x)))
                                (CmpbBytes.reorder rng (CmpbBytes.to_print CmpbBytesExampleProofs.exb_ann (snd x))) = true
    /\ exists D', ProtoParseFile.parse_file_tokens (CmpbBytes.imp_symtab CmpbBytesExampleProofs.exb_ann (CmpbBytes.l_imports (snd x)))
                     (CmpbBytes.print_linked CmpbBytesExampleProofs.exb_ann rng (snd x)) = Some D'
                  /\ ProtoPrintFileFullProofs.desc_equiv (CmpbBytes.reorder rng (CmpbBytes.to_print CmpbBytesExampleProofs.exb_ann (snd x))) D'.
Proof. exact CmpbBytesExampleProofs.exb_printed_reads_back. Qed.
Print Assumptions C14_example_output_reads_back.

(* the Dependency list INSIDE those descriptors: cmpa's converter builds fl_deps with J5sConvert.deps_of, which is this
   family's ensure_all (the function C14's correspondence CImportsIso compares with real Dependency lists) of the
   ensureImport calls other than the file itself - so it depends on the SET of calls only *)
Theorem C14_descriptor_dependency_list : forall self imps1 imps2,
  J5sConvert.deps_of self imps1 = ensure_all (filter (fun i => negb (beqb i self)) imps1)
  /\ ((forall x, In x imps1 <-> In x imps2) -> J5sConvert.deps_of self imps1 = J5sConvert.deps_of self imps2).
Proof.
  exact (fun self i1 i2 => conj (CmpbBytesDepsProofs.deps_of_is_ensure_all self i1) (CmpbBytesDepsProofs.deps_of_set_invariant self i1 i2)).
Qed.
Print Assumptions C14_descriptor_dependency_list.

(* Package.checkDuplicateExports (loadLocalPackage calls it for every file before includeIO): its key collection is sorted
   before use, and on a valid bundle it never fires whatever files the listing order put before this one - which is why
   it is not a step of [load] *)
Theorem C14_duplicate_export_check : forall (F : Type) (pre post : list (@srcfile F)) f k1 k2,
  (Permutation k1 k2 -> check_duplicate_exports (collect_exports pre) k1 = check_duplicate_exports (collect_exports pre) k2)
  /\ (valid_pkg (pre ++ f :: post) -> check_duplicate_exports (collect_exports pre) (f_exports f) = None).
Proof.
  exact (fun F pre post f k1 k2 => conj (check_duplicate_exports_perm (collect_exports pre) k1 k2) (check_duplicate_exports_valid pre post f)).
Qed.
Print Assumptions C14_duplicate_export_check.

(* ---- the accounting of the Go code's unordered iterations *)
Theorem C14_order_sites_agree : order_sites_same_set = true.
Proof. exact order_sites_agree. Qed.
Print Assumptions C14_order_sites_agree.

(* ---- compilation: same bundle, ANY file listing order, ANY iteration order of the dependency
   map and of the package's file map, any fuel, any history of earlier CompilePackage calls on the
   PackageSet (fresh = empty history): the same files, in the same order, with the same content *)
Theorem C14_compile_deterministic :
  forall (F D : Type) (convert : env -> @srcfile F -> bytes -> D) (b : @bundle F), valid b ->
  forall lf1 rd1 rf1 lf2 rd2 rf2,
    (forall n l, Permutation (lf1 n l) l) -> (forall n l, Permutation (rd1 n l) l) -> (forall n l, Permutation (rf1 n l) l) ->
    (forall n l, Permutation (lf2 n l) l) -> (forall n l, Permutation (rd2 n l) l) -> (forall n l, Permutation (rf2 n l) l) ->
  forall fuel1 fuel2 earlier1 earlier2 n c1 out1 c2 out2,
    compile_package convert lf1 rd1 rf1 fuel1 b (compile_seq convert lf1 rd1 rf1 fuel1 b [] earlier1) n = Some (c1, out1) ->
    compile_package convert lf2 rd2 rf2 fuel2 b (compile_seq convert lf2 rd2 rf2 fuel2 b [] earlier2) n = Some (c2, out2) ->
    out1 = out2.
Proof. exact @compile_deterministic. Qed.
Print Assumptions C14_compile_deterministic.

(* total form: acyclic dependencies (a rank decreasing along them), all present in the bundle, more fuel
   than the rank: EVERY run returns, with the package as the bundle alone determines it (the Go code
   needs no fuel: it recurses along the same relation and reports cycles) *)
Theorem C14_compile_total_deterministic :
  forall (F D : Type) (convert : env -> @srcfile F -> bytes -> D) (b : @bundle F) rank,
  valid b -> well_founded_deps b rank ->
  forall lf rd rf,
    (forall n l, Permutation (lf n l) l) -> (forall n l, Permutation (rd n l) l) -> (forall n l, Permutation (rf n l) l) ->
  forall fuel earlier n, find_pkg n b <> None -> (rank n < fuel)%nat ->
    exists c, compile_package convert lf rd rf fuel b (compile_seq convert lf rd rf fuel b [] earlier) n
              = Some (c, p_files (spec_pkg convert b n)).
Proof. exact @compile_total_deterministic. Qed.
Print Assumptions C14_compile_total_deterministic.

(* what it returns: the package as a function of the bundle alone *)
Theorem C14_compile_package_spec :
  forall (F D : Type) (convert : env -> @srcfile F -> bytes -> D) lf rd rf,
    (forall n l, Permutation (lf n l) l) -> (forall n l, Permutation (rd n l) l) -> (forall n l, Permutation (rf n l) l) ->
  forall (b : @bundle F), valid b -> forall fuel c n c' out, cache_ok convert b c ->
    compile_package convert lf rd rf fuel b c n = Some (c', out) ->
    out = p_files (spec_pkg convert b n) /\ cache_ok convert b c'.
Proof. exact @compile_package_spec. Qed.
Print Assumptions C14_compile_package_spec.

(* ---- the link phase of CompilePackage (resolveAll over the sorted names; resolveFile recursion along the
   Dependency lists; SearchResult.Linked cached in the PackageSet across calls): whatever consistent
   cache earlier calls left (the empty one of a fresh set included) and whatever the fuels, two runs that
   return, return the same linked files; a returned file is what linking it yields without any cache.
   Parameters: findFileByPath, a descriptor's Dependency list, linking one file given its linked imports.
   The per-call symbol table is not modelled (it only rejects duplicate symbols: invalid bundles) *)
Theorem C14_link_deterministic :
  forall (D L : Type) (lookup : bytes -> option D) (deps_of : D -> list bytes) (link1 : D -> list L -> L)
         fuel1 fuel2 names c1 c2 c1' c2' ls1 ls2,
    link_cache_ok lookup deps_of link1 c1 -> link_cache_ok lookup deps_of link1 c2 ->
    link_all lookup deps_of link1 fuel1 c1 names = Some (c1', ls1) ->
    link_all lookup deps_of link1 fuel2 c2 names = Some (c2', ls2) -> ls1 = ls2.
Proof. exact @link_all_deterministic. Qed.
Print Assumptions C14_link_deterministic.
Theorem C14_link_cache_transparent :
  forall (D L : Type) (lookup : bytes -> option D) (deps_of : D -> list bytes) (link1 : D -> list L -> L) fuel c n c' l,
    link_cache_ok lookup deps_of link1 c -> link_file lookup deps_of link1 fuel c n = Some (c', l) ->
    (exists f, spec_link lookup deps_of link1 f n = Some l) /\ link_cache_ok lookup deps_of link1 c'.
Proof. exact @link_file_spec. Qed.
Print Assumptions C14_link_cache_transparent.

(* ---- CompilePackage AS A WHOLE: load (package cache) composed with link (SearchResult.Linked cache); the link
   phase finds files through findFileByPath: a local path among whatever packages are loaded ([owner] = packageForFile), any other
   path through the dependency resolver ([is_local], [ext_file]: built-in files and the dependency set, by path) (lookup_in).
   Same bundle, ANY listing / map-iteration orders, ANY fuels, ANY histories of earlier CompilePackage calls on the
   PackageSet (both caches in play; fresh = empty history): two calls that return, return the same linked files
   in the same order *)
Theorem C14_compile_package_linked_deterministic :
  forall (F D L : Type) (convert : env -> @srcfile F -> bytes -> D) (owner : bytes -> bytes) (is_local : bytes -> bool) (ext_file : bytes -> option D)
         (deps_of : D -> list bytes) (link1 : D -> list L -> L) lf1 rd1 rf1 lf2 rd2 rf2,
    (forall n l, Permutation (lf1 n l) l) -> (forall n l, Permutation (rd1 n l) l) -> (forall n l, Permutation (rf1 n l) l) ->
    (forall n l, Permutation (lf2 n l) l) -> (forall n l, Permutation (rd2 n l) l) -> (forall n l, Permutation (rf2 n l) l) ->
    forall b, valid b -> forall f1 l1 f2 l2 earlier1 earlier2 n r1 r2 s1 s2 o1 o2,
      let h1 := compile_link_seq convert lf1 rd1 rf1 owner is_local ext_file deps_of link1 f1 l1 b [] [] earlier1 in
      let h2 := compile_link_seq convert lf2 rd2 rf2 owner is_local ext_file deps_of link1 f2 l2 b [] [] earlier2 in
      compile_and_link convert lf1 rd1 rf1 owner is_local ext_file deps_of link1 f1 l1 b (fst h1) (snd h1) n = Some (r1, s1, o1) ->
      compile_and_link convert lf2 rd2 rf2 owner is_local ext_file deps_of link1 f2 l2 b (fst h2) (snd h2) n = Some (r2, s2, o2) ->
      o1 = o2.
Proof. exact @compile_package_linked_deterministic. Qed.
Print Assumptions C14_compile_package_linked_deterministic.

(* what one such call returns: the package's sorted file names, each with what linking it yields through the lookup
   the BUNDLE determines (not the current state of the PackageSet), both cache invariants preserved *)
Theorem C14_compile_and_link_spec :
  forall (F D L : Type) (convert : env -> @srcfile F -> bytes -> D) (owner : bytes -> bytes) (is_local : bytes -> bool) (ext_file : bytes -> option D)
         (deps_of : D -> list bytes) (link1 : D -> list L -> L) lf rd rf,
    (forall n l, Permutation (lf n l) l) -> (forall n l, Permutation (rd n l) l) -> (forall n l, Permutation (rf n l) l) ->
    forall b, valid b -> forall fuel lfuel pc lc n pc' lc' out, both_ok convert owner is_local ext_file deps_of link1 b pc lc ->
      compile_and_link convert lf rd rf owner is_local ext_file deps_of link1 fuel lfuel b pc lc n = Some (pc', lc', out) ->
      both_ok convert owner is_local ext_file deps_of link1 b pc' lc'
      /\ map fst out = map fst (p_files (spec_pkg convert b n))
      /\ exists f, spec_list (spec_lookup convert owner is_local ext_file b) deps_of link1 f (map fst (p_files (spec_pkg convert b n))) = Some (map snd out).
Proof. exact @compile_and_link_spec. Qed.
Print Assumptions C14_compile_and_link_spec.

(* the link phase returns whenever the import relation between files is well founded and every import can be found
   (more fuel than the rank; the Go code recurses along the same relation and reports a circular file import) *)
Theorem C14_link_total :
  forall (D L : Type) (lookup : bytes -> option D) (deps_of : D -> list bytes) (link1 : D -> list L -> L) (rank : bytes -> nat),
    (forall n d, lookup n = Some d -> forall dep, In dep (deps_of d) -> lookup dep <> None /\ (rank dep < rank n)%nat) ->
    forall fuel names c, (forall n, In n names -> lookup n <> None /\ (rank n < fuel)%nat) ->
      exists c' ls, link_all lookup deps_of link1 fuel c names = Some (c', ls).
Proof. exact @link_all_total. Qed.
Print Assumptions C14_link_total.

(* loading a package leaves the set of loaded packages closed under direct dependencies (it loads them first), grows
   the cache and contains the package: the invariant that lets the link phase, which looks files up among the LOADED
   packages only (findFileByPath), find every import *)
Theorem C14_loaded_packages_closed :
  forall (F D : Type) (convert : env -> @srcfile F -> bytes -> D) lf rd,
    (forall n l, Permutation (lf n l) l) -> (forall n l, Permutation (rd n l) l) ->
  forall b fuel c n c' p, cache_closed b c -> load convert lf rd fuel b c n = Some (c', p) ->
    cache_closed b c' /\ grows c c' /\ present c' n.
Proof. exact @load_closed. Qed.
Print Assumptions C14_loaded_packages_closed.

(* CompilePackage as a whole, TOTAL form: load totality composed with link totality through that invariant.  On a valid
   bundle whose package dependencies are present and acyclic (rank), whose produced files are stored under the package
   packageForFile answers (owner_ok) and import only produced files of their own package or of a direct dependency, without
   an import cycle (imports_wf, frank): there is ONE list of linked files that EVERY call returns - any listing / map
   orders, any fuels above the ranks, after any history of earlier CompilePackage calls on the PackageSet *)
Theorem C14_compile_package_linked_total :
  forall (F D L : Type) (convert : env -> @srcfile F -> bytes -> D) (owner : bytes -> bytes) (is_local : bytes -> bool) (ext_file : bytes -> option D)
         (deps_of : D -> list bytes) (link1 : D -> list L -> L) b rank frank,
    valid b -> well_founded_deps b rank -> owner_ok convert owner is_local b -> imports_wf convert owner is_local ext_file deps_of b frank ->
    forall n, find_pkg n b <> None ->
    exists out, forall lf rd rf,
      (forall n l, Permutation (lf n l) l) -> (forall n l, Permutation (rd n l) l) -> (forall n l, Permutation (rf n l) l) ->
      forall fuel lfuel earlier, (rank n < fuel)%nat ->
        (forall o, In o (map fst (p_files (spec_pkg convert b n))) -> (frank o < lfuel)%nat) ->
        let h := compile_link_seq convert lf rd rf owner is_local ext_file deps_of link1 fuel lfuel b [] [] earlier in
        exists pc' lc', compile_and_link convert lf rd rf owner is_local ext_file deps_of link1 fuel lfuel b (fst h) (snd h) n = Some (pc', lc', out).
Proof. exact @compile_package_linked_total. Qed.
Print Assumptions C14_compile_package_linked_total.

(* its hypotheses are satisfiable by a bundle with a cross-package import, a same-package import and an import of a file of the
   dependency set that itself imports another one, and the call computes *)
Example C14_example_linked_total :
  valid ex_bundle /\ well_founded_deps ex_bundle ex_rank /\ owner_ok ex_conv ex_owner ex_is_local ex_bundle
  /\ imports_wf ex_conv ex_owner ex_is_local ex_ext (fun d : list bytes => d) ex_bundle ex_frank
  /\ exists pc lc, compile_and_link ex_conv (fun _ l => rev l) (fun _ l => rev l) (fun _ l => rev l) ex_owner ex_is_local ex_ext
                                     (fun d => d) ex_link1 5%nat 6%nat ex_bundle [] [] [103] = Some (pc, lc, [([99], 8)]).
Proof. exact (conj ex_valid (conj ex_wf (conj ex_owner_ok (conj ex_imports_wf ex_total_value)))). Qed.
Print Assumptions C14_example_linked_total.

(* ---- the conversion stage is not an opaque parameter: the skeleton instantiated with cmpa's Gallina model of
   ConvertJ5File (model/J5sConvert.v cv_file over the AST of model/J5sAst.v, lib/Strcase.v for the names), which
   is a function of the file's AST and of the resolver the skeleton hands it (own exports + direct dependencies'
   exports).  Its distance to the Go converter is cmpa's tie (C02 / C13), not re-checked here *)
Theorem C14_compile_deterministic_with_cmpa_converter :
  forall (bd : J5sAst.bundle) rank, valid (of_bundle bd) -> well_founded_deps (of_bundle bd) rank ->
  forall lf rd rf,
    (forall n l, Permutation (lf n l) l) -> (forall n l, Permutation (rd n l) l) -> (forall n l, Permutation (rf n l) l) ->
  forall fuel earlier n, find_pkg n (of_bundle bd) <> None -> (rank n < fuel)%nat ->
    exists c, compile_package (cmpa_convert bd) lf rd rf fuel (of_bundle bd)
                (compile_seq (cmpa_convert bd) lf rd rf fuel (of_bundle bd) [] earlier) n
              = Some (c, p_files (spec_pkg (cmpa_convert bd) (of_bundle bd) n)).
Proof. exact (fun bd => compile_total_deterministic (cmpa_convert bd) (of_bundle bd)). Qed.
Print Assumptions C14_compile_deterministic_with_cmpa_converter.

(* ---- process-level state: no package-level variable of the compile-path packages is written outside init *)
Theorem C14_process_state_reviewed : state_vars_same_set = true.
Proof. exact state_vars_agree. Qed.
Print Assumptions C14_process_state_reviewed.
Theorem C14_no_runtime_process_state : no_runtime_process_state = true.
Proof. exact no_runtime_process_state_holds. Qed.
Print Assumptions C14_no_runtime_process_state.

(* ---- the shape of every unordered loop body, regenerated from the Go source, is the one its row was written for;
   every key collection that is used as a sequence is followed by a sort *)
Theorem C14_order_bodies_agree : order_bodies_same_set = true.
Proof. exact order_bodies_agree. Qed.
Print Assumptions C14_order_bodies_agree.
Theorem C14_collected_keys_sorted : collected_keys_are_sorted = true.
Proof. exact collected_keys_sorted. Qed.
Print Assumptions C14_collected_keys_sorted.

(* ---- every classification row cites a permutation lemma about a Gallina function that models THAT loop body
   (model/CmpbOrder.v: copy_fields, warn_unused, log_children, lint_all, first_unresolved, range_entries,
   find_file_by_path, first_member, child_ignores_options, add_absent, list_fields, next to ensure_all, include_io,
   options_for, field_options, map_entries, load); here each of the former "generic lemma" rows' model functions is RUN
   on two iteration orders of the same collection (the orders differ, the observable part of the result does not) *)
Theorem C14_order_site_probes : loop_probes_statement.
Proof. exact loop_probes_compute. Qed.
Print Assumptions C14_order_site_probes.

(* ---- the generated file's import list depends only on the SET of files passed to ensureImport *)
Theorem C14_imports_order_irrelevant : forall c1 c2, (forall x, In x c1 <-> In x c2) -> ensure_all c1 = ensure_all c2.
Proof. exact ensure_all_set_invariant. Qed.
Print Assumptions C14_imports_order_irrelevant.
Theorem C14_imports_permutation : forall c1 c2, Permutation c1 c2 -> ensure_all c1 = ensure_all c2.
Proof. exact ensure_all_perm. Qed.
Print Assumptions C14_imports_permutation.

(* ---- file-name sort: any map iteration order of pkg.Files gives the same sequence *)
Theorem C14_file_order : forall l1 l2, Permutation l1 l2 -> sort_names l1 = sort_names l2.
Proof. exact sort_names_perm. Qed.
Print Assumptions C14_file_order.

(* ---- exports map: any iteration order of a summary's exports gives the same map *)
Theorem C14_exports_map : forall (es1 es2 m : list (bytes * bytes)),
  keys_sorted m -> NoDup (map fst es1) -> Permutation es1 es2 -> include_io es1 m = include_io es2 m.
Proof. exact (@include_io_perm bytes). Qed.
Print Assumptions C14_exports_map.

(* ---- printing.  The option order of message / service / method / enum blocks (OptionsFor) is the
   same for every order in which protobuf ranges over the extension fields: after the repair of
   finding 28 the comparison is a total order (source line, else extension index, ties by full name);
   an options message holds at most one value per extension, so full names are distinct *)
Theorem C14_print_options : forall l1 l2,
  Permutation l1 l2 -> distinct_on o_full l1 -> options_for l1 = options_for l2.
Proof. exact options_for_perm. Qed.
Print Assumptions C14_print_options.
(* the order used before the repair (extension index only) was not: two extensions defined at the
   same position of two different files came out in Range order, while the repaired order is stable *)
Theorem C14_print_options_by_index_refuted :
  exists a b, o_full a <> o_full b /\ options_for_by_index [a; b] <> options_for_by_index [b; a]
              /\ options_for [a; b] = options_for [b; a].
Proof. exact options_for_by_index_tie. Qed.
Print Assumptions C14_print_options_by_index_refuted.
(* for what the j5s compiler itself emits the indexes alone were already distinct (computed over the
   regenerated call-site and extension tables); the tie needed a hand-written .proto in the bundle *)
Theorem C14_emitted_option_indexes_distinct :
  forallb (fun dst => distinct_nat (indexes_on dst))
    ["*descriptorpb.MessageOptions"; "*descriptorpb.ServiceOptions"; "*descriptorpb.MethodOptions"; "*descriptorpb.EnumOptions"]%string = true.
Proof. exact emitted_option_indexes_distinct. Qed.
Print Assumptions C14_emitted_option_indexes_distinct.

(* the same on the `tool` family's model of the printer (model/ProtoPrintFile.v, tied to protoprint by C05): the
   option lists are the only place where protobuf's Range order enters the printed text; what printSection lays
   out (lay_sopts: Go's insertion sort under optionsByLocation.Less, then parseOption) and what printFieldStyle
   lays out (lay_fopts: re-sorted by printed name) do not depend on the order the options arrive in, whenever
   their sort keys (line, index, full name) are distinct *)
Theorem C14_printer_model_options_order_free : forall o1 o2,
  Permutation o1 o2 ->
  (forall a b, In a o1 -> In b o1 -> CmpbPrintBridgeProofs.dopt_key a = CmpbPrintBridgeProofs.dopt_key b -> a = b) ->
  ProtoPrintFile.lay_sopts o1 = ProtoPrintFile.lay_sopts o2 /\ ProtoPrintFile.lay_fopts o1 = ProtoPrintFile.lay_fopts o2.
Proof.
  exact (fun o1 o2 Hp Hd => conj (CmpbPrintBridgeProofs.lay_sopts_perm o1 o2 Hp Hd) (CmpbPrintBridgeProofs.lay_fopts_perm o1 o2 Hp Hd)).
Qed.
Print Assumptions C14_printer_model_options_order_free.

(* ... and therefore the WHOLE printed file of tool's model: two descriptors that differ only in the order of their option
   lists (CmpbPrintBridgeProofs.dfile_equiv: the options of messages, oneofs, fields, enums, enum values, services, methods
   and extension fields at every nesting depth, each list permuted arbitrarily, sort keys distinct within a list; element
   lists, imports, file options and the option VALUES unchanged) print the same tokens.  The entries of a map-valued option
   are inside the value, which tool's model takes as given: their order is C14_print_map_entries, on this family's model *)
Theorem C14_printer_model_range_order_free : forall st d1 d2,
  CmpbPrintBridgeProofs.dfile_equiv d1 d2 -> ProtoPrintFile.print_file_tokens st d1 = ProtoPrintFile.print_file_tokens st d2.
Proof. exact CmpbPrintBridgeProofs.print_file_tokens_range_order_free. Qed.
Print Assumptions C14_printer_model_range_order_free.
(* non-vacuity: tool's example descriptor and the one with the two options of field Foo.id in the other order *)
Example C14_example_range_order_free :
  ProtoPrintFileExample.ex_file <> CmpbPrintBridgeExample.ex_file_swapped
  /\ CmpbPrintBridgeProofs.dfile_equiv ProtoPrintFileExample.ex_file CmpbPrintBridgeExample.ex_file_swapped
  /\ forall st, ProtoPrintFile.print_file_tokens st ProtoPrintFileExample.ex_file
                = ProtoPrintFile.print_file_tokens st CmpbPrintBridgeExample.ex_file_swapped.
Proof.
  exact (conj CmpbPrintBridgeExample.ex_swapped_differs
              (conj CmpbPrintBridgeExample.ex_swapped_equiv CmpbPrintBridgeExample.ex_swapped_prints_the_same)).
Qed.
Print Assumptions C14_example_range_order_free.

(* field and enum-value options are re-sorted by qualified name: independent of Range order *)
Theorem C14_print_field_options : forall l1 l2,
  Permutation l1 l2 -> distinct_on o_name l1 -> field_options l1 = field_options l2.
Proof. exact field_options_perm. Qed.
Print Assumptions C14_print_field_options.
Theorem C14_emitted_field_option_names_distinct :
  forallb (fun dst => distinct_str (names_on dst)) ["*descriptorpb.FieldOptions"; "*descriptorpb.EnumValueOptions"]%string = true.
Proof. exact emitted_option_names_distinct. Qed.
Print Assumptions C14_emitted_field_option_names_distinct.

(* map-valued options (enum value info) are printed in key order: independent of Map.Range order
   (the repaired finding 19) *)
Theorem C14_print_map_entries : forall l1 l2,
  Permutation l1 l2 -> distinct_on (fun kv : bytes * bytes => fst kv) l1 -> map_entries l1 = map_entries l2.
Proof. exact map_entries_perm. Qed.
Print Assumptions C14_print_map_entries.

(* ---- non-vacuity *)
Example C14_example_imports :
  (* "j5/ext", "buf/validate", "j5/ext" again, in two different call orders *)
  ensure_all [[106;53]; [98;117]; [106;53]] = [[98;117]; [106;53]] /\ ensure_all [[98;117]; [106;53]] = [[98;117]; [106;53]].
Proof. vm_compute. split; reflexivity. Qed.
Example C14_example_link :
  (* a imports b; linking [a; b] with an empty cache and linking [a; b] after b was linked alone agree *)
  let lookup := fun n : bytes => match n with [97] => Some [[98]] | [98] => Some [] | _ => None end in
  let deps_of := fun d : list bytes => d in
  let link1 := fun (d : list bytes) (ls : list N) => (1 + fold_left N.add ls 0)%N in
  exists c1 c2 c3 out,
    link_all lookup deps_of link1 3 [] [[97]; [98]] = Some (c1, out)
    /\ link_all lookup deps_of link1 3 [] [[98]] = Some (c2, [1%N])
    /\ link_all lookup deps_of link1 3 c2 [[97]; [98]] = Some (c3, out) /\ out = [2%N; 1%N].
Proof. cbv zeta. eexists. eexists. eexists. eexists. repeat split; vm_compute; reflexivity. Qed.
Example C14_example_options :
  (* (j5.ext.v1.psm) and (buf.validate.message): both extension 0 of their files, no source line *)
  let psm := mkOpt 0 0 [106] [106] in let val := mkOpt 0 0 [98] [98] in
  distinct_on o_full [psm; val] /\ options_for [psm; val] = [val; psm] /\ options_for [val; psm] = [val; psm].
Proof.
  cbv zeta. split; [|split; vm_compute; reflexivity].
  intros a b [<-|[<-|[]]] [<-|[<-|[]]]; cbn; intro H; try reflexivity; discriminate.
Qed.
(* a two-package bundle: bar.v1 depends on foo.v1; listing foo's files in reverse, iterating maps in
   reverse, and having compiled bar.v1 earlier, returns the same two files *)
Example C14_example_compile :
  let fa := mkFile [97] [[65]] [] [[97]; [97;115]] tt in let fb := mkFile [98] [[66]] [] [[98]] tt in
  let fc := mkFile [99] [[67]] [[102]] [[99]] tt in
  let b : @bundle unit := [([102], [fa; fb]); ([103], [fc])] in
  let conv := fun (e : env) (f : @srcfile unit) (o : bytes) => (f_name f, o, e_own e) in
  let idp := fun (_ : bytes) (l : list bytes) => l in
  exists c1 c2 out,
    compile_package conv (fun _ l => l) idp idp 5 b [] [102] = Some (c1, out)
    /\ compile_package conv (fun _ l => rev l) (fun _ l => rev l) (fun _ l => rev l) 5 b
         (compile_seq conv (fun _ l => rev l) (fun _ l => rev l) (fun _ l => rev l) 5 b [] [[103]]) [102] = Some (c2, out)
    /\ length out = 3%nat.
Proof. cbv zeta. eexists. eexists. eexists. split; [vm_compute; reflexivity|split; vm_compute; reflexivity]. Qed.

(* the instantiated skeleton computes: two packages, a cross-package reference through an import, a reference to
   another file of the same package, a service (sub-package file); reversed listings and map orders give the same
   files, and the descriptors are exactly the ones cmpa's convert_package yields for the bundle *)
Example C14_example_cmpa_converter :
  let foo_v1 := [b "foo"; b "v1"] in let baz_v1 := [b "baz"; b "v1"] in
  let bd : J5sAst.bundle :=
    [ BJ (mkJfile foo_v1 (b "a") [mkImport (b "baz.v1") (b "baz")]
           [EObject (b "Foo") (mkprops [Property (b "bar") false false (FObjRef (mkRef (b "baz") (b "Bar")));
                                        Property (b "k") true false (FEnumRef (mkRef (b "baz") (b "Kind")));
                                        Property (b "own") false false (FObjRef (mkRef [] (b "Other")))]) NNil]);
      BJ (mkJfile foo_v1 (b "b") [] [EObject (b "Other") (mkprops [Property (b "x") false false (FScalar SString)]) NNil;
                                     EService (J5sAst.mkService (b "Svc") None [])]);
      BJ (mkJfile baz_v1 (b "types") [] [EObject (b "Bar") (mkprops [Property (b "x") false false (FScalar SString)]) NNil;
                                         EEnum (J5sAst.mkEnum (b "Kind") [] [b "A"; b "B"])]) ] in
  let idf := fun (_ : bytes) (l : list (@srcfile jfile)) => l in let idp := fun (_ : bytes) (l : list bytes) => l in
  let revf := fun (_ : bytes) (l : list (@srcfile jfile)) => rev l in let revp := fun (_ : bytes) (l : list bytes) => rev l in
  exists c1 c2 out ds,
    compile_package (cmpa_convert bd) idf idp idp 5 (of_bundle bd) [] (b "foo.v1") = Some (c1, out)
    /\ compile_package (cmpa_convert bd) revf revp revp 5 (of_bundle bd) [] (b "foo.v1") = Some (c2, out)
    /\ convert_package to_snake to_camel to_screaming_snake bd (b "foo.v1") = Ok ds
    /\ length out = 3%nat
    /\ forallb (fun x => match snd x with Some d => existsb (dfile_eqb d) ds | None => false end) out = true.
Proof. cbv zeta. eexists. eexists. eexists. eexists. repeat split; vm_compute; reflexivity. Qed.

(* C20 — id62 identifiers round-trip and have a fixed, pattern-conforming shape.
   Only statements, closed by [exact lemma], with Print Assumptions beneath. *)
From Coq Require Import String List NArith Bool.
From J5V.lib Require Import Radix Outcome.
From J5V.model Require Import Id62.
From J5V.gen Require Id62Gen.
From J5V.proofs Require Import Id62Proofs.
Import ListNotations.
Local Open Scope N_scope.

(* every 16-byte identifier renders, without the "too large" panic, to exactly 22 characters *)
Theorem C20_render_total : forall bs, wf_id bs -> exists s, render bs = Ok s.
Proof. exact render_no_panic. Qed.
Print Assumptions C20_render_total.

Theorem C20_render_22 : forall bs s, wf_id bs -> render bs = Ok s -> length s = 22%nat.
Proof. exact render_len. Qed.
Print Assumptions C20_render_22.

(* ... matching the pattern string that the Go source publishes (gen/Id62Gen.v) *)
Theorem C20_render_matches_pattern : forall bs s, wf_id bs -> render bs = Ok s ->
  exists p, parse_pattern Id62Gen.pattern_string = Some p /\ matches p s = true.
Proof. exact render_matches. Qed.
Print Assumptions C20_render_matches_pattern.

(* ... and parses back to the same 16 bytes; hence renderings are injective *)
Theorem C20_parse_render : forall bs s, wf_id bs -> render bs = Ok s -> parse s = Ok bs.
Proof. exact parse_render. Qed.
Print Assumptions C20_parse_render.

Theorem C20_render_injective : forall b1 b2 s,
  wf_id b1 -> wf_id b2 -> render b1 = Ok s -> render b2 = Ok s -> b1 = b2.
Proof. exact render_inj. Qed.
Print Assumptions C20_render_injective.

(* parsing never panics on any string *)
Theorem C20_parse_total : forall s, is_panic (parse s) = false /\ parse s <> OutOfFuel.
Proof. exact parse_total. Qed.
Print Assumptions C20_parse_total.

(* an accepted string yields 16 bytes denoting exactly the parsed magnitude,
   and magnitudes that do not fit in 16 bytes are rejected *)
Theorem C20_parse_exact : forall s n bs,
  parse_value s = Some n -> parse s = Ok bs -> wf_id bs /\ of_bytes_be bs = n.
Proof.
  intros s n bs Hv Hp. split; [exact (parse_ok_shape s bs Hp)|exact (parse_value_exact s n bs Hv Hp)].
Qed.
Print Assumptions C20_parse_exact.

Theorem C20_parse_rejects_big : forall s n,
  parse_value s = Some n -> 2 ^ 128 <= n -> is_err (parse s) = true.
Proof. exact parse_rejects_big. Qed.
Print Assumptions C20_parse_rejects_big.

(* hash-derived identifiers depend on (namespace, inputs) only, and only through
   their concatenation (so ("ab",["c"]) and ("a",["bc"]) coincide — within the
   property as written, recorded here so that nobody reads more into it) *)
Theorem C20_new_hash_pure : forall ns1 ins1 ns2 ins2,
  ns1 ++ concat ins1 = ns2 ++ concat ins2 -> new_hash ns1 ins1 = new_hash ns2 ins2.
Proof. exact new_hash_pure. Qed.
Print Assumptions C20_new_hash_pure.

(* the same as a statement about a PROCESS: the package-level state of lib/id62 is threaded through any
   sequence of NewHash calls; every call returns [new_hash] of its own arguments whatever was
   derived before, and leaves the state as it found it.  This is by construction of the model; what
   ties it to the code is the next theorem (and, on the running code, the hash-history stream) *)
Theorem C20_new_hash_history_independent : forall st calls,
  new_hash_seq st calls = (st, map (fun c => new_hash (fst c) (snd c)) calls).
Proof. exact new_hash_seq_spec. Qed.
Print Assumptions C20_new_hash_history_independent.

(* the tie: in the Go source NewHash, and every function of the package it calls, reads or writes no
   package-level variable and starts no goroutine; its calls are sha1.New / Reset / Write / Write / Sum /
   copy on objects it creates (regenerated table; a memo map, a shared hasher or digest buffer breaks this lemma at build time; on the running code: the hash-history and hash-concurrent streams) *)
Theorem C20_new_hash_stateless_in_code :
  Id62Gen.newhash_state_refs = [] /\
  Id62Gen.newhash_calls = ["call:sha1.New"; "call:h.Reset"; "call:h.Write"; "call:h.Write"; "call:h.Sum"; "call:copy"]%string.
Proof. exact newhash_is_stateless. Qed.
Print Assumptions C20_new_hash_stateless_in_code.

(* ---- the language Parse accepts (it is NOT a validator of the published pattern) ---------- *)
(* accepted = an optional sign, one or more base62 digits, magnitude below 2^128: any length, leading
   zeros, "+1", "-1" (the sign is dropped: Go's big.Int.Bytes is the absolute value) *)
Theorem C20_parse_accepted_language : forall s,
  (exists bs, parse s = Ok bs) <-> (exists n, parse_value s = Some n /\ n < 2 ^ 128).
Proof. exact parse_accepts_iff. Qed.
Print Assumptions C20_parse_accepted_language.

Theorem C20_parse_is_not_a_validator :
  let id1 := repeat 0 15 ++ [1] in
  parse [45; 49] = Ok id1 /\ parse [43; 49] = Ok id1 /\ parse [49] = Ok id1 /\
  parse (repeat 48 40 ++ [49]) = Ok id1 /\
  matches (id62_class, 22) [45; 49] = false /\ matches (id62_class, 22) (repeat 48 40 ++ [49]) = false /\
  render id1 = Ok (repeat 48 21 ++ [49]).
Proof. exact parse_not_a_validator. Qed.
Print Assumptions C20_parse_is_not_a_validator.

(* but on strings of the published shape (what a key:id62 rule lets through) Parse is the exact inverse
   of String: such a string parses to an identifier only if it is that identifier's rendering *)
Theorem C20_parse_inverse_on_pattern : forall s bs p,
  parse_pattern Id62Gen.pattern_string = Some p -> matches p s = true -> parse s = Ok bs -> render bs = Ok s.
Proof.
  intros s bs p Hp. rewrite pattern_parsed in Hp. injection Hp as <-. exact (parse_shaped_inverse s bs).
Qed.
Print Assumptions C20_parse_inverse_on_pattern.

(* ---- the pattern the compiler bakes in and the reader recognises ------------------------------ *)
(* compiler (j5convert/fields.go) and reader (j5schema/schema_from_proto.go) both refer to
   id62.PatternString and neither carries a literal copy of it *)
Theorem C20_pattern_single_source : pattern_single_source = true.
Proof. exact pattern_single_source_ok. Qed.
Print Assumptions C20_pattern_single_source.

(* the reader's table (regenerated, keys and values resolved) maps the published pattern — and no
   other pattern — to the id62 format *)
Theorem C20_reader_recognises_exactly_the_pattern : forall pat,
  reads_back_as Id62Gen.reader_patterns Id62Gen.reader_id62_format pat = true <-> pat = Id62Gen.pattern_string.
Proof.
  intros pat. split; [exact (reader_only_published pat)|intros ->; exact reader_recognises_published].
Qed.
Print Assumptions C20_reader_recognises_exactly_the_pattern.

(* ---- the property as one statement ---------------------------------------------------------- *)
Definition C20_full_statement : Prop :=
  (* every 16-byte identifier renders to exactly 22 characters matching the published pattern *)
  (forall bs, wf_id bs -> exists s p, render bs = Ok s /\ length s = 22%nat /\
                                       parse_pattern Id62Gen.pattern_string = Some p /\ matches p s = true) /\
  (* and parses back to the same 16 bytes, so distinct identifiers have distinct renderings *)
  (forall bs s, wf_id bs -> render bs = Ok s -> parse s = Ok bs) /\
  (forall b1 b2 s, wf_id b1 -> wf_id b2 -> render b1 = Ok s -> render b2 = Ok s -> b1 = b2) /\
  (* parsing never panics on any string *)
  (forall s, is_panic (parse s) = false /\ parse s <> OutOfFuel) /\
  (* and rejects values that do not fit in 16 bytes; what it accepts denotes exactly the bytes returned *)
  (forall s n, parse_value s = Some n -> 2 ^ 128 <= n -> is_err (parse s) = true) /\
  (forall s n bs, parse_value s = Some n -> parse s = Ok bs -> wf_id bs /\ of_bytes_be bs = n) /\
  (* hash-derived identifiers are a pure function of namespace and inputs: of the arguments only (through
     their concatenation), whatever was derived before *)
  (forall ns1 ins1 ns2 ins2, ns1 ++ concat ins1 = ns2 ++ concat ins2 -> new_hash ns1 ins1 = new_hash ns2 ins2) /\
  (forall st calls, new_hash_seq st calls = (st, map (fun c => new_hash (fst c) (snd c)) calls)).

Theorem C20_full : C20_full_statement.
Proof.
  unfold C20_full_statement. repeat split.
  - intros bs H. destruct (render_no_panic bs H) as [s Hs]. destruct (render_matches bs s H Hs) as [p [Hp Hm]].
    exists s, p. repeat split; try assumption. exact (render_len bs s H Hs).
  - exact parse_render.
  - exact render_inj.
  - apply parse_total.
  - apply parse_total.
  - exact parse_rejects_big.
  - exact (proj1 (parse_ok_shape s bs H0)).
  - exact (proj2 (parse_ok_shape s bs H0)).
  - exact (parse_value_exact s n bs H H0).
  - exact new_hash_pure.
  - exact new_hash_seq_spec.
Qed.
Print Assumptions C20_full.

(* non-vacuity: a concrete identifier meets the hypotheses and exercises padding *)
Example C20_example :
  let bs := [0;0;0;0;0;0;0;0;0;0;0;0;0;0;1;44] in
  wf_id bs /\ render bs = Ok [48;48;48;48;48;48;48;48;48;48;48;48;48;48;48;48;48;48;48;48;52;81]
  /\ parse [48;48;48;48;48;48;48;48;48;48;48;48;48;48;48;48;48;48;48;48;52;81] = Ok bs.
Proof.
  cbv zeta. split; [split; [reflexivity|repeat constructor]|]. split; vm_compute; reflexivity.
Qed.

(* C20 — id62 identifiers round-trip and have a fixed, pattern-conforming shape.
   Only statements, closed by [exact lemma], with Print Assumptions beneath. *)
From Coq Require Import String List NArith Bool.
From J5V.lib Require Import Radix Outcome.
From J5V.model Require Import Id62.
From J5V.gen Require Id62Gen.
From J5V.proofs Require Import Id62Proofs.
Import ListNotations.
Local Open Scope N_scope.

(* every 16-byte identifier renders, without the "too large" panic, to exactly 22 characters *)
Theorem C20_render_total : forall bs, wf_id bs -> exists s, render bs = Ok s.
Proof. exact render_no_panic. Qed.
Print Assumptions C20_render_total.

Theorem C20_render_22 : forall bs s, wf_id bs -> render bs = Ok s -> length s = 22%nat.
Proof. exact render_len. Qed.
Print Assumptions C20_render_22.

(* ... matching the pattern string that the Go source publishes (gen/Id62Gen.v) *)
Theorem C20_render_matches_pattern : forall bs s, wf_id bs -> render bs = Ok s ->
  exists p, parse_pattern Id62Gen.pattern_string = Some p /\ matches p s = true.
Proof. exact render_matches. Qed.
Print Assumptions C20_render_matches_pattern.

(* ... and parses back to the same 16 bytes; hence renderings are injective *)
Theorem C20_parse_render : forall bs s, wf_id bs -> render bs = Ok s -> parse s = Ok bs.
Proof. exact parse_render. Qed.
Print Assumptions C20_parse_render.

Theorem C20_render_injective : forall b1 b2 s,
  wf_id b1 -> wf_id b2 -> render b1 = Ok s -> render b2 = Ok s -> b1 = b2.
Proof. exact render_inj. Qed.
Print Assumptions C20_render_injective.

(* parsing never panics on any string *)
Theorem C20_parse_total : forall s, is_panic (parse s) = false /\ parse s <> OutOfFuel.
Proof. exact parse_total. Qed.
Print Assumptions C20_parse_total.

(* an accepted string yields 16 bytes denoting exactly the parsed magnitude,
   and magnitudes that do not fit in 16 bytes are rejected *)
Theorem C20_parse_exact : forall s n bs,
  parse_value s = Some n -> parse s = Ok bs -> wf_id bs /\ of_bytes_be bs = n.
Proof.
  intros s n bs Hv Hp. split; [exact (parse_ok_shape s bs Hp)|exact (parse_value_exact s n bs Hv Hp)].
Qed.
Print Assumptions C20_parse_exact.

Theorem C20_parse_rejects_big : forall s n,
  parse_value s = Some n -> 2 ^ 128 <= n -> is_err (parse s) = true.
Proof. exact parse_rejects_big. Qed.
Print Assumptions C20_parse_rejects_big.

(* hash-derived identifiers depend on (namespace, inputs) only, and only through
   their concatenation (so ("ab",["c"]) and ("a",["bc"]) coincide — within the
   property as written, recorded here so that nobody reads more into it) *)
Theorem C20_new_hash_pure : forall ns1 ins1 ns2 ins2,
  ns1 ++ concat ins1 = ns2 ++ concat ins2 -> new_hash ns1 ins1 = new_hash ns2 ins2.
Proof. exact new_hash_pure. Qed.
Print Assumptions C20_new_hash_pure.

(* non-vacuity: a concrete identifier meets the hypotheses and exercises padding *)
Example C20_example :
  let bs := [0;0;0;0;0;0;0;0;0;0;0;0;0;0;1;44] in
  wf_id bs /\ render bs = Ok [48;48;48;48;48;48;48;48;48;48;48;48;48;48;48;48;48;48;48;48;52;81]
  /\ parse [48;48;48;48;48;48;48;48;48;48;48;48;48;48;48;48;48;48;48;48;52;81] = Ok bs.
Proof.
  cbv zeta. split; [split; [reflexivity|repeat constructor]|]. split; vm_compute; reflexivity.
Qed.

(* C08 — every successful encoding is one well-formed JSON document in the documented
   J5 wire format.  Only statements, closed by [exact lemma], with Print Assumptions beneath. *)
From Coq Require Import String List NArith ZArith Bool Lia.
From J5V.lib Require Import Outcome Json JsonPrint Base64 Civil.
From J5V.model Require Import CodecTypes CodecEnc CodecEncSpec CodecEnvDerive.
From J5V.gen Require ReadmeGen EncSwitchGen.
From J5V.proofs Require Import CodecEncProofs CodecEncDecProofs CodecEncLex CodecEncEmbed CodecEncPresence CodecEncSpecDet CodecEncInner CodecEnvDeriveProofs CodecEncFuel.
Import ListNotations.
Local Open Scope N_scope.

(* The property at full strength: NO condition on the message.  Outside the model: the text strconv
   prints for a finite float is a JSON number; the inner encoding of an Any payload is a JSON
   document.  A stored j5_json text is embedded verbatim (ANY well-formed text: white space,
   non-canonical escapes) after the encoder has checked that it is one JSON value in valid UTF-8
   (CodecEnc.stored_json = the json.Valid && utf8.Valid guard of encodeAny, /repo fix); a text that is
   not makes the encoding fail (C08_any_stored_text_not_json_fails), which the property allows.
   Proved in proofs/CodecEncEmbed.v: the strict reader reads a standalone JSON text the same way inside
   a longer text, and the induction over the encoder is carried out with "the reader reads this text
   as J" in place of "this text is the compact print of J". *)
Theorem C08_full_statement :
  forall fmt_float any_inner env root m txt,
    float_text_ok fmt_float ->
    (forall tn pb t, any_inner tn pb = Ok t -> json_text t) ->
    oneofs_flat env ->
    encode fmt_float any_inner env root m = Ok txt ->
    exists J, strict_parse txt = Some J /\ wire_format fmt_float env root m J.
Proof.
  intros fmt_float any_inner env root m txt Hf Hi Hflat H.
  exact (encode_wellformed_full fmt_float any_inner env Hf Hi Hflat root m txt H).
Qed.
Print Assumptions C08_full_statement.
(* a standalone JSON text inside a longer text: the reader reads the same value and stops in
   front of what follows *)
Theorem C08_reader_embedded : forall t j rest f,
  strict_parse t = Some j -> rest_ok rest -> (length t < f)%nat ->
  exists r, sp_value f (t ++ rest) = Some (j, r ++ rest) /\ skip_ws (r ++ rest) = rest.
Proof. exact strict_parse_embedded. Qed.
Print Assumptions C08_reader_embedded.

(* The compact case (what the encoder itself produces for inner payloads and what the decoder
   stores, json.Compact): the output is exactly the compact print of the tree. *)
Theorem C08_encode_wellformed_partial :
  forall fmt_float any_inner env root m txt,
    float_text_ok fmt_float -> inner_ok any_inner -> oneofs_flat env ->
    encode fmt_float any_inner env root m = Ok txt -> raw_root env root m ->
    exists J, strict_parse txt = Some J /\ wire_format fmt_float env root m J.
Proof. intros; eapply encode_wellformed; eassumption. Qed.
Print Assumptions C08_encode_wellformed_partial.

(* ... in fact the output is the compact print of that tree: nothing else is emitted *)
Theorem C08_encode_is_print :
  forall fmt_float any_inner env root m txt,
    float_text_ok fmt_float -> inner_ok any_inner -> oneofs_flat env ->
    encode fmt_float any_inner env root m = Ok txt -> raw_root env root m ->
    exists J, wfb J = true /\ txt = print J /\ wire_format fmt_float env root m J.
Proof. intros; eapply encode_tree; eassumption. Qed.
Print Assumptions C08_encode_is_print.

(* the strict reader inverts the printer on every well-formed tree *)
Theorem C08_parse_print : forall j, wfb j = true -> strict_parse (print j) = Some j.
Proof. exact parse_print. Qed.
Print Assumptions C08_parse_print.

(* appendString: fails exactly on invalid UTF-8, otherwise writes a string literal that reads back *)
Theorem C08_escape : forall s,
  escape s = if valid_utf8 s then Ok (print (JStr s)) else Err "invalid UTF-8"%string.
Proof. exact escape_spec. Qed.
Print Assumptions C08_escape.

(* scalars, widened domain included: NaN / infinities and any date or timestamp give JSON *)
Theorem C08_scalar_wellformed : forall fmt_float k v txt,
  float_text_ok fmt_float -> enc_scalar fmt_float k v = Ok txt ->
  exists J, strict_parse txt = Some J /\ wire_scalar fmt_float k v J.
Proof.
  intros fmt_float k v txt Hf H. destruct (enc_scalar_tree fmt_float Hf k v txt H) as (J & Hw & -> & Hs).
  exists J. split; [apply parse_print; exact Hw|exact Hs].
Qed.
Print Assumptions C08_scalar_wellformed.

(* observe_at of the property: "re-read with a strict JSON tokenizer that keeps number/string
   distinction" — the decoder family's model of encoding/json's Decoder.Token (lib/Json.v lex, tied
   to the Go tokenizer by that family's CLex stream) reads the compact print of a well-formed tree
   as exactly the tokens of that tree, nothing left over *)
Theorem C08_tokenizer_reads_output : forall J, wfb J = true -> lex (print J) = (tokens_of J, false).
Proof. exact lex_print. Qed.
Print Assumptions C08_tokenizer_reads_output.

(* the tie to the normative text and to the Go switches (regenerated on every run) *)
Theorem C08_readme_table :
  forallb (fun k => match readme_class_of k with
                    | Some c => wclass_eqb c (spec_class k) && repr_class_ok (model_repr k) c
                    | None => false
                    end) all_scalar_kinds = true.
Proof. exact readme_agree. Qed.
Print Assumptions C08_readme_table.

Theorem C08_switch_arms :
  forallb (fun k => arm_repr_eqb (repr_from_tables EncSwitchGen.encode_scalar_arms EncSwitchGen.encoder_helpers k)
                                 (model_repr k)) all_scalar_kinds = true.
Proof. exact switch_repr_agree. Qed.
Print Assumptions C08_switch_arms.

Theorem C08_go_tables :
  EncSwitchGen.encode_scalar_arms = expected_encode_scalar_arms /\
  EncSwitchGen.encoder_helpers = expected_encoder_helpers /\
  EncSwitchGen.go_from_reflect_arms = expected_go_from_reflect_arms /\
  EncSwitchGen.date_format = "%04d-%02d-%02d"%string /\
  EncSwitchGen.time_layout = "time.RFC3339Nano"%string /\
  EncSwitchGen.base64_encoding = "base64.StdEncoding"%string.
Proof.
  exact (conj encode_scalar_arms_agree (conj encoder_helpers_agree (conj go_from_reflect_arms_agree
        (conj date_format_agree (conj time_layout_agree base64_encoding_agree))))).
Qed.
Print Assumptions C08_go_tables.

(* what the specification says, type by type *)
Theorem C08_int32_bare : forall f z j, wire_scalar f KInt32 (VInt z) j ->
  j = JNum (print_Z z) /\ valid_number (print_Z z) = true /\ parse_Z (print_Z z) = Some z.
Proof. exact spec_int32_bare. Qed.
Print Assumptions C08_int32_bare.
Theorem C08_uint32_bare : forall f z j, wire_scalar f KUint32 (VInt z) j ->
  j = JNum (print_Z z) /\ valid_number (print_Z z) = true /\ parse_Z (print_Z z) = Some z.
Proof. exact spec_uint32_bare. Qed.
Print Assumptions C08_uint32_bare.
Theorem C08_int64_quoted_digits : forall f z j, wire_scalar f KInt64 (VInt z) j ->
  j = JStr (print_Z z) /\ valid_number (print_Z z) = true /\ parse_Z (print_Z z) = Some z.
Proof. exact spec_int64_quoted. Qed.
Print Assumptions C08_int64_quoted_digits.
Theorem C08_uint64_quoted_digits : forall f z j, wire_scalar f KUint64 (VInt z) j ->
  j = JStr (print_Z z) /\ valid_number (print_Z z) = true /\ parse_Z (print_Z z) = Some z.
Proof. exact spec_uint64_quoted. Qed.
Print Assumptions C08_uint64_quoted_digits.
Theorem C08_float_bare : forall f is32 bits j, float_finite is32 bits = true ->
  wire_scalar f (if is32 then KFloat32 else KFloat64) (VFloat bits) j -> j = JNum (f is32 bits).
Proof. exact spec_float_bare. Qed.
Print Assumptions C08_float_bare.
Theorem C08_bool_bare : forall f b j, wire_scalar f KBool (VBool b) j -> j = JBool b.
Proof. exact spec_bool_bare. Qed.
Print Assumptions C08_bool_bare.
Theorem C08_bytes_padded_std : forall f s j, Forall is_byte s -> wire_scalar f KBytes (VBytes s) j ->
  j = JStr (b64_encode s) /\ (length (b64_encode s) mod 4 = 0)%nat /\ b64_std_decode (b64_encode s) = Some s.
Proof. exact spec_bytes_padded_std. Qed.
Print Assumptions C08_bytes_padded_std.
Theorem C08_decimal_quoted : forall f m j, wire_scalar f KDecimal (VMsg m) j -> j = JStr (sfield 1 m).
Proof. exact spec_decimal_quoted. Qed.
Print Assumptions C08_decimal_quoted.
Theorem C08_date_text : forall f m j, date_in_range (zfield 1 m) (zfield 2 m) (zfield 3 m) = true ->
  wire_scalar f KDate (VMsg m) j -> j = JStr (date_string (zfield 1 m) (zfield 2 m) (zfield 3 m)).
Proof. exact spec_date_text. Qed.
Print Assumptions C08_date_text.
Theorem C08_timestamp_text : forall f m j, ts_in_range (zfield 1 m) (zfield 2 m) = true ->
  wire_scalar f KTimestamp (VMsg m) j -> j = JStr (format_rfc3339nano (zfield 1 m) (zfield 2 m)).
Proof. exact spec_timestamp_text. Qed.
Print Assumptions C08_timestamp_text.
(* Independent readings of the two formatted kinds (not "equals the model's formatter"):
   a timestamp of the documented range is YYYY-MM-DDTHH:MM:SS[.1-9 digits]Z with explicit decimal
   digits, a real calendar day and time of day, the literal zone Z, and the UTC instant the fields
   denote is the encoded one; the RFC 3339 reader reads it back. *)
Theorem C08_timestamp_rfc3339_utc : forall s ns, ts_range s ns ->
  exists y mo d hh mi ss (frac : list N),
    (1 <= y <= 9999 /\ 1 <= mo <= 12 /\ 1 <= d <= days_in mo y /\
     0 <= hh <= 23 /\ 0 <= mi <= 59 /\ 0 <= ss <= 59)%Z /\
    (s = days_from_civil y mo d * 86400 + hh * 3600 + mi * 60 + ss)%Z /\
    format_rfc3339nano s ns =
      d4 y ++ [45] ++ d2 mo ++ [45] ++ d2 d ++ [84] ++ d2 hh ++ [58] ++ d2 mi ++ [58] ++ d2 ss ++ frac ++ [90] /\
    (frac = [] /\ ns = 0%Z \/
     exists ds, frac = 46 :: ds /\ ds <> [] /\ forallb is_digit ds = true /\ (length ds <= 9)%nat).
Proof. exact format_rfc3339_shape. Qed.
Print Assumptions C08_timestamp_rfc3339_utc.
Theorem C08_timestamp_reads_back : forall s ns, ts_range s ns ->
  parse_rfc3339 (format_rfc3339nano s ns) = Some (s, ns).
Proof. exact parse_format_rfc3339. Qed.
Print Assumptions C08_timestamp_reads_back.
(* a date is 4 digits, '-', 2 digits, '-', 2 digits (10 bytes), and reads back as the same numbers *)
Theorem C08_date_zero_padded : forall y m d, (0 <= y <= 9999)%Z -> (0 <= m <= 99)%Z -> (0 <= d <= 99)%Z ->
  exists a b c, date_string y m d = a ++ [45] ++ b ++ [45] ++ c /\
                length a = 4%nat /\ length b = 2%nat /\ length c = 2%nat /\
                forallb is_digit (a ++ b ++ c) = true /\ length (date_string y m d) = 10%nat.
Proof. exact date_string_shape. Qed.
Print Assumptions C08_date_zero_padded.
Theorem C08_date_reads_back : forall y m d, (0 <= y <= 9999 -> 1 <= m <= 12 -> 1 <= d <= days_in m y ->
  date_from_string (date_string y m d) = Some (y, m, d))%Z.
Proof. exact date_roundtrip. Qed.
Print Assumptions C08_date_reads_back.
(* the model's scalar arms realise the label table that the Go switch tables are proved to agree
   with (C08_switch_arms): the shape of every successful scalar output, per kind *)
Theorem C08_scalar_arms : forall fmt_float k v txt,
  enc_scalar fmt_float k v = Ok txt ->
  repr_holds fmt_float (model_repr k) (match k with KFloat32 => true | _ => false end) txt.
Proof. exact enc_scalar_repr. Qed.
Print Assumptions C08_scalar_arms.
Theorem C08_enum_short_name : forall f env r v j, wire_value f env (FEnum r) v j ->
  exists pre opts n name, lookup env r = Some (SEnum pre opts) /\ v = VEnum n /\
                          option_by_number opts n = Some name /\ j = JStr name.
Proof. exact spec_enum_short_name. Qed.
Print Assumptions C08_enum_short_name.
Theorem C08_oneof_type_plus_exactly_that_key : forall f env ps m j, wire_oneof f env ps m j ->
  j = JObj [] \/
  exists p v jv, In p ps /\ prop_present env p m = Some v /\
                 j = JObj [(txt_type, JStr (p_json p)); (p_json p, jv)] /\ wire_value f env (p_ty p) v jv.
Proof. exact spec_oneof_framing. Qed.
Print Assumptions C08_oneof_type_plus_exactly_that_key.
(* ... and for a j5 Any that stores JSON text, the value member is that text's JSON value *)
Theorem C08_any_type_value : forall f env pb v j, wire_value f env (FAny pb) v j ->
  exists m jv, v = VMsg m /\ j = JObj [(txt_type, JStr (any_type_name pb m)); (txt_value, jv)] /\
               (forall s, pb = false -> msg_get 3 m = Some (VBytes s) -> strict_parse s = Some jv).
Proof. exact spec_any_framing. Qed.
Print Assumptions C08_any_type_value.
(* the premise inner_ok of C08_encode_is_print / C01 is an instance of the theorem: when the inner
   encoding of an Any payload is the encoder itself on the payload message of a registered type
   (resolver and proto.Unmarshal abstract), nested to any depth, its outputs are compact JSON *)
Theorem C08_inner_encoding_is_compact : forall fmt_float,
  float_text_ok fmt_float -> forall reg unmarshal,
  (forall tn e root, reg tn = Some (e, root) -> oneofs_flat e) ->
  (forall tn pb e root m, reg tn = Some (e, root) -> unmarshal tn pb = Some m -> raw_root_gen e compact_json root m) ->
  forall n, inner_ok (inner_n fmt_float reg unmarshal n).
Proof. exact inner_n_ok. Qed.
Print Assumptions C08_inner_encoding_is_compact.

(* The full statement with the inner Any encoding being the encoder itself on the payload message
   (resolver reg and proto.Unmarshal abstract, Any values nested to depth n): no premise about
   any_inner and none about any message is left — only the strconv float text law and the structural
   condition oneofs_flat on the environments (decided per run). *)
Theorem C08_full_statement_inner_encoder : forall fmt_float,
  float_text_ok fmt_float -> forall reg unmarshal,
  (forall tn e root, reg tn = Some (e, root) -> oneofs_flat e) ->
  forall n env root m txt, oneofs_flat env ->
    encode fmt_float (inner_n fmt_float reg unmarshal n) env root m = Ok txt ->
    exists J, strict_parse txt = Some J /\ wire_format fmt_float env root m J.
Proof. exact encode_wellformed_inner. Qed.
Print Assumptions C08_full_statement_inner_encoder.
(* ... and the "value" member of an Any whose payload is stored as proto bytes is the J5 JSON of the
   payload message: the inner text reads as a tree satisfying the wire format of the payload type *)
Theorem C08_any_value_is_payload_wire_format : forall fmt_float,
  float_text_ok fmt_float -> forall reg unmarshal,
  (forall tn e root, reg tn = Some (e, root) -> oneofs_flat e) ->
  forall n tn pb t, inner_n fmt_float reg unmarshal n tn pb = Ok t ->
    exists e root pm J, reg tn = Some (e, root) /\ unmarshal tn pb = Some pm /\
      strict_parse t = Some J /\ wire_format fmt_float e root pm J.
Proof. exact inner_n_wire. Qed.
Print Assumptions C08_any_value_is_payload_wire_format.

(* The model's fuel never shows: for EVERY message and every environment with flat oneof schemas the
   encoder ends in Ok, Err (a Go error) or Panic (a Go panic), never in OutOfFuel — so the statements
   above about "every successful encoding" range over all runs of the modelled code, also for the
   widened domain (NaN, out-of-range dates, invalid UTF-8, ill-typed values). *)
Theorem C08_encoder_never_out_of_fuel : forall fmt_float any_inner env,
  oneofs_flat env -> (forall tn pb, any_inner tn pb <> OutOfFuel) ->
  forall root m, encode fmt_float any_inner env root m <> OutOfFuel.
Proof. exact encode_never_out_of_fuel. Qed.
Print Assumptions C08_encoder_never_out_of_fuel.
Theorem C08_inner_encoder_never_out_of_fuel : forall fmt_float reg unmarshal,
  (forall tn e root, reg tn = Some (e, root) -> oneofs_flat e) ->
  forall n tn pb, inner_n fmt_float reg unmarshal n tn pb <> OutOfFuel.
Proof. exact inner_nf. Qed.
Print Assumptions C08_inner_encoder_never_out_of_fuel.

(* The specification leaves no freedom inside the documented domain: for a value whose scalars are
   all in-domain and whose Any values store JSON text, at most one tree satisfies the wire format —
   so "the encoder's output satisfies wire_format" pins the output completely. *)
Theorem C08_wire_format_deterministic : forall fmt_float env root m j1 j2,
  (forall ps, lookup env root = Some (SObject ps) \/ lookup env root = Some (SOneof ps) -> pinned_props fmt_float env ps m) ->
  wire_format fmt_float env root m j1 -> wire_format fmt_float env root m j2 -> j1 = j2.
Proof. exact wire_format_deterministic. Qed.
Print Assumptions C08_wire_format_deterministic.

(* "unset members are omitted": what set means, independently of the encoder's walk — the proto path
   leads through populated message fields to a populated field; an exposed oneof is set when exactly
   one of its members is *)
Theorem C08_presence_is_has_along_the_path : forall path m v, present path m = Some v <-> reaches path m v.
Proof. exact present_reaches. Qed.
Print Assumptions C08_presence_is_has_along_the_path.
Theorem C08_exposed_oneof_presence : forall env p r qs m,
  p_path p = [] -> p_ty p = FOneof r -> lookup env r = Some (SOneof qs) ->
  (prop_present env p m = Some (VMsg m) <-> exists q v, members_present qs m = [(q, v)]) /\
  (prop_present env p m = None \/ prop_present env p m = Some (VMsg m)).
Proof. exact exposed_present. Qed.
Print Assumptions C08_exposed_oneof_presence.
Theorem C08_names_are_json_names : forall f env ps m ms, wire_members f env ps m ms ->
  map fst ms = map p_json (filter (fun p => match prop_present env p m with Some _ => true | None => false end) ps).
Proof. exact spec_members_names. Qed.
Print Assumptions C08_names_are_json_names.
Theorem C08_flatten_inlined : forall f env ps m ms p v, wire_members f env ps m ms ->
  In p ps -> prop_flattened p = true -> prop_present env p m = Some v -> In (p_json p) (map fst ms).
Proof. exact spec_flatten_inlined. Qed.
Print Assumptions C08_flatten_inlined.
Theorem C08_unset_omitted : forall f env ps m ms k, wire_members f env ps m ms ->
  In k (map fst ms) -> exists p v, In p ps /\ p_json p = k /\ prop_present env p m = Some v.
Proof. exact spec_unset_omitted. Qed.
Print Assumptions C08_unset_omitted.

(* ---------------------------------------------------------------- the reflector's derivation steps
   The environment the encoder works on is not only an input: its enum schemas and the client
   property lists of its objects are RECOMPUTED (model/CodecEnvDerive.v: buildEnum, ClientProperties /
   nestedClone) from the raw environment of the real reflector (ObjectSchema.Properties with the
   flatten marks, proto enum value names) and compared with the dump of the real ClientProperties /
   EnumSchema.Options on every root type of every run (case CEnv, env_derived_b). *)
Theorem C08_env_derived_decided : forall re e, env_derived_b re e = true ->
  forall name s, lookup e name = Some s -> exists rs, rlookup re name = Some rs /\ derive_schema re rs = Some s.
Proof. exact env_derived_sound. Qed.
Print Assumptions C08_env_derived_decided.

(* "enums as the short option name": the JSON value of enum number n is the name of the first proto
   value offered with that number (all values, or all but the first under no_default) minus the
   prefix, the prefix being the first value's name minus UNSPECIFIED *)
Theorem C08_enum_short_name_derived : forall fmt env r nodefault values v j,
  (exists s, lookup env r = Some s /\ derive_enum nodefault values = Some s) ->
  wire_value fmt env (FEnum r) v j ->
  exists pre n full z rest,
    values = (pre ++ txt_unspecified, z) :: rest /\ v = VEnum n /\
    option_by_number (offered nodefault values) n = Some full /\ j = JStr (trim_prefix pre full).
Proof. exact enum_short_name_derived. Qed.
Print Assumptions C08_enum_short_name_derived.

(* "flattened objects are inlined into their parent": the client properties of an object are exactly
   its own unflattened properties and, for each flattened one, the client properties of the child
   schema with the proto path prefixed ... *)
Theorem C08_client_properties_exact : forall f re ps,
  (forall p, In (p, false) ps -> In p (client_props (S f) re ps)) /\
  (forall p r cps q, In (p, true) ps -> p_ty p = FObject r -> rlookup re r = Some (RObject cps) ->
     In q (client_props f re cps) -> In (nest p q) (client_props (S f) re ps)) /\
  (forall x, In x (client_props (S f) re ps) ->
     (exists b, In (x, b) ps) \/
     (exists p r cps q, In (p, true) ps /\ p_ty p = FObject r /\ rlookup re r = Some (RObject cps) /\
                        x = nest p q /\ In q (client_props f re cps))).
Proof.
  intros f re ps. split; [intros p; apply client_props_kept|]. split; [intros p r cps q; apply client_props_hoisted|].
  intros x H. exact (client_props_only (S f) re ps x H).
Qed.
Print Assumptions C08_client_properties_exact.
(* ... so a populated property q of a flattened child is a member of the PARENT's JSON object, under
   q's own JSON name, read through the flattened field *)
Theorem C08_flatten_inlined_derived : forall fmt env re ps m ms f p r cps q v,
  wire_members fmt env (client_props (S f) re ps) m ms ->
  In (p, true) ps -> p_ty p = FObject r -> rlookup re r = Some (RObject cps) ->
  In q (client_props f re cps) ->
  prop_present env (nest p q) m = Some v ->
  In (p_json q) (map fst ms) /\ p_path (nest p q) = p_path p ++ p_path q.
Proof. exact flatten_inlined_derived. Qed.
Print Assumptions C08_flatten_inlined_derived.

(* non-vacuity of the derivation: enum KIND with values KIND_UNSPECIFIED, KIND_A, KIND_KIND_A (short
   names UNSPECIFIED, A, KIND_A); object R flattens field 2 (object C with a string and an exposed
   oneof), keeps field 1 *)
Definition dr_raw : rawenv :=
  [([82], RObject [(mkProp [101] [1] false false [] (FEnum [75]), false);
                   (mkProp [99] [2] false true [] (FObject [67]), true)]);
   ([67], RObject [(mkProp [115] [1] false false [] (FScalar KString), false);
                   (mkProp [120] [] false false [] (FOneof [88]), false)]);
   ([88], ROneof [mkProp [97] [2] false true [3] (FScalar KBool); mkProp [98] [3] false true [2] (FScalar KInt32)]);
   ([75], REnum false [([75;73;78;68;95;85;78;83;80;69;67;73;70;73;69;68], 0%Z); ([75;73;78;68;95;65], 1%Z);
                      ([75;73;78;68;95;75;73;78;68;95;65], 2%Z)])].
Example C08_derivation_example :
  derive_schema dr_raw (RObject [(mkProp [101] [1] false false [] (FEnum [75]), false);
                                 (mkProp [99] [2] false true [] (FObject [67]), true)]) =
    Some (SObject [mkProp [101] [1] false false [] (FEnum [75]);
                   mkProp [115] [2; 1] false false [] (FScalar KString);
                   mkProp [120] [2] false true [] (FOneof [88])]) /\
  derive_enum false [([75;73;78;68;95;85;78;83;80;69;67;73;70;73;69;68], 0%Z); ([75;73;78;68;95;65], 1%Z);
                     ([75;73;78;68;95;75;73;78;68;95;65], 2%Z)] =
    Some (SEnum [75;73;78;68;95] [([85;78;83;80;69;67;73;70;73;69;68], 0%Z); ([65], 1%Z); ([75;73;78;68;95;65], 2%Z)]).
Proof. split; vm_compute; reflexivity. Qed.

(* non-vacuity: a small environment (an object with an int64, a flattened string, a oneof
   wrapper and a date), a message for it, hypotheses that hold, and the encoding *)
Definition ex_env : env :=
  [([82], SObject [mkProp [105] [1] false false [] (FScalar KInt64);
                   mkProp [102] [2; 1] false false [] (FScalar KString);
                   mkProp [119] [3] false true [] (FOneof [87]);
                   mkProp [100] [4] false true [] (FScalar KDate)]);
   ([87], SOneof [mkProp [97] [1] false true [2] (FScalar KBool);
                  mkProp [98] [2] false true [1] (FScalar KFloat64)])].
Definition ex_msg : msg :=
  [(1, VInt (-42)%Z); (2, VMsg [(1, VStr [34; 233 - 38; 169])]); (3, VMsg [(2, VFloat 9221120237041090560)]);
   (4, VMsg [(1, VInt 5%Z); (2, VInt 1%Z); (3, VInt 2%Z)])].
Definition ex_fmt (is32 : bool) (bits : N) : bytes := [49; 46; 53].
Definition ex_inner (tn pb : bytes) : outcome bytes := Err "none".
Definition ex_txt : bytes := Eval vm_compute in
  match encode ex_fmt ex_inner ex_env [82] ex_msg with Ok t => t | _ => [] end.

Example C08_example :
  float_text_ok ex_fmt /\ inner_ok ex_inner /\ oneofs_flat ex_env /\ raw_root ex_env [82] ex_msg /\
  encode ex_fmt ex_inner ex_env [82] ex_msg = Ok ex_txt /\
  strict_parse ex_txt = Some (JObj [([105], JStr [45; 52; 50]); ([102], JStr [34; 195; 169]);
                                   ([119], JObj [(txt_type, JStr [98]); ([98], JStr txt_NaN)]);
                                   ([100], JStr [48; 48; 48; 53; 45; 48; 49; 45; 48; 50])]).
Proof.
  split; [intros is32 bits _; reflexivity|].
  split; [intros tn pb t H; discriminate|].
  split.
  { intros name ps H. cbn [lookup ex_env] in H.
    destruct (bytes_eqb [82] name); [discriminate|]. destruct (bytes_eqb [87] name); [|discriminate].
    injection H as <-. repeat constructor; discriminate. }
  split.
  { unfold raw_root_gen. change (lookup ex_env [82]) with (Some (SObject
      [mkProp [105] [1] false false [] (FScalar KInt64);
       mkProp [102] [2; 1] false false [] (FScalar KString);
       mkProp [119] [3] false true [] (FOneof [87]);
       mkProp [100] [4] false true [] (FScalar KDate)])).
    constructor. intros p v [<-|[<-|[<-|[<-|[]]]]] Hv; try constructor.
    intros ps m H1 H2. change (lookup ex_env [87]) with (Some (SOneof
      [mkProp [97] [1] false true [2] (FScalar KBool); mkProp [98] [2] false true [1] (FScalar KFloat64)])) in H1.
    injection H1 as <-. constructor. intros q w [<-|[<-|[]]] _; constructor. }
  split; vm_compute; reflexivity.
Qed.

(* non-vacuity of the full statement for an embedded text that is NOT compact: a j5 Any whose stored
   JSON has white space and a non-canonical escape ({ "a" : "\u0041" }); the output embeds it verbatim
   and still reads as one document whose value member is that text's JSON value *)
Definition ea_env : env := [([82], SObject [mkProp [97] [1] false true [] (FAny false)])].
Definition ea_json : bytes := [123; 32; 34; 97; 34; 32; 58; 32; 34; 92; 117; 48; 48; 52; 49; 34; 32; 125].
Definition ea_msg : msg := [(1, VMsg [(1, VStr [84]); (3, VBytes ea_json)])].
Definition ea_txt : bytes := Eval vm_compute in
  match encode ex_fmt ex_inner ea_env [82] ea_msg with Ok t => t | _ => [] end.
Definition ea_tree : jvalue := JObj [([97], JObj [(txt_type, JStr [84]); (txt_value, JObj [([97], JStr [65])])])].
Example C08_example_embedded_text :
  encode ex_fmt ex_inner ea_env [82] ea_msg = Ok ea_txt /\
  strict_parse ea_txt = Some ea_tree /\ ea_txt <> print ea_tree.
Proof.
  split; [vm_compute; reflexivity|]. split; [vm_compute; reflexivity|vm_compute; discriminate].
Qed.

(* Before the /repo fix encodeAny copied the stored j5_json bytes without looking at them: a j5 Any
   storing {not json made ProtoToJSON succeed with a text that is not JSON.  The unguarded encoder
   (enc_any_v0: the model before the fix) violates the property on that message; the guarded one fails. *)
Definition bad_json : bytes := [123; 110; 111; 116; 32; 106; 115; 111; 110].     (* {not json *)
Definition bad_msg : msg := [(1, VMsg [(1, VStr [84]); (3, VBytes bad_json)])].
Definition enc_any_v0_text : bytes :=     (* {"a":{"!type":"T","value":{not json}} — what the unguarded encoder wrote *)
  [123; 34; 97; 34; 58; 123; 34; 33; 116; 121; 112; 101; 34; 58; 34; 84; 34; 44; 34; 118; 97; 108; 117; 101; 34; 58]
  ++ bad_json ++ [125; 125].
Theorem C08_any_stored_text_v0_refuted : strict_parse enc_any_v0_text = None.
Proof. vm_compute. reflexivity. Qed.
Print Assumptions C08_any_stored_text_v0_refuted.
Theorem C08_any_stored_text_not_json_fails :
  forall fmt_float any_inner, exists e, encode fmt_float any_inner ea_env [82] bad_msg = Err e.
Proof. intros. eexists. vm_compute. reflexivity. Qed.
Print Assumptions C08_any_stored_text_not_json_fails.

(* non-vacuity of the closed statement: a schema with an enum, an array, a map, an exposed oneof (path
   []) and both Any flavours whose payloads are stored as proto bytes; the payload type T is
   registered (reg) and "unmarshals" (un) to a message that itself holds a j5 Any storing JSON text:
   the encoder runs on the payload (inner_n 2), the text reads as one document. *)
Definition cx_env : env :=
  [([82], SObject [mkProp [101] [1] false false [] (FEnum [69]);
                   mkProp [97] [2] false false [] (FArray (FScalar KInt32));
                   mkProp [109] [3] false false [] (FMap (FScalar KString));
                   mkProp [120] [] false false [] (FOneof [88]);
                   mkProp [121] [6] false true [] (FAny false);
                   mkProp [122] [7] false true [] (FAny true)]);
   ([88], SOneof [mkProp [120; 97] [4] false true [5] (FScalar KBool);
                  mkProp [120; 98] [5] false true [4] (FScalar KFloat64)]);
   ([69], SEnum [80; 95] [([85], 0%Z); ([65], 1%Z); ([80; 95; 65], 2%Z)])].
Definition cx_tenv : env := [([84], SObject [mkProp [105] [1] false false [] (FScalar KInt64);
                                            mkProp [106] [2] false true [] (FAny false)])].
Definition cx_reg (tn : bytes) : option (env * bytes) := if bytes_eqb tn [84] then Some (cx_tenv, [84]) else None.
Definition cx_un (tn pb : bytes) : option msg :=
  Some [(1, VInt 7%Z); (2, VMsg [(1, VStr [84]); (3, VBytes [123; 32; 34; 105; 34; 58; 34; 57; 34; 125])])].
Definition cx_msg : msg :=
  [(1, VEnum 2); (2, VList [VInt 1; VInt (-2)]); (3, VMap [([107], VStr [118])]); (5, VFloat 9221120237041090560);
   (6, VMsg [(1, VStr [84]); (2, VBytes [8; 7])]);
   (7, VMsg [(1, VStr (any_prefix ++ [84])); (2, VBytes [8; 7])])].
Definition cx_txt : bytes := Eval vm_compute in
  match encode ex_fmt (inner_n ex_fmt cx_reg cx_un 2) cx_env [82] cx_msg with Ok t => t | _ => [] end.
Example C08_example_closed :
  float_text_ok ex_fmt /\ oneofs_flat cx_env /\ (forall tn e root, cx_reg tn = Some (e, root) -> oneofs_flat e) /\
  encode ex_fmt (inner_n ex_fmt cx_reg cx_un 2) cx_env [82] cx_msg = Ok cx_txt /\
  (exists J, strict_parse cx_txt = Some J) /\ (200 < length cx_txt)%nat.
Proof.
  split; [intros is32 bits _; vm_compute; reflexivity|].
  split; [apply oneofs_flat_b_sound; vm_compute; reflexivity|].
  split.
  { intros tn e root H. unfold cx_reg in H. destruct (bytes_eqb tn [84]); [|discriminate]. injection H as <- _.
    apply oneofs_flat_b_sound. vm_compute. reflexivity. }
  split; [vm_compute; reflexivity|]. split; [eexists; vm_compute; reflexivity|vm_compute; lia].
Qed.


#!/usr/bin/env python3
"""Regenerate MANIFEST.json from pylib/props.py (single source of truth)."""
import json, os, subprocess, sys
sys.path.insert(0, os.path.dirname(os.path.abspath(__file__)))
from props import PROPS, NOT_APPLICABLE, MANIFEST_TEXT, DISABLED

VERIF = os.path.dirname(os.path.dirname(os.path.abspath(__file__)))
ids = [json.loads(l)["id"] for l in open(os.path.join(VERIF, "properties.jsonl"))]

def hook_commits():
    try:
        out = subprocess.run(["git", "-C", "/repo", "log", "--format=%H %s"], capture_output=True, text=True).stdout
        return [l.split()[0] for l in out.splitlines() if l.split(" ", 1)[1].startswith("verif-hook:")]
    except Exception:
        return []

checks = []
for pid in ids:
    if pid not in PROPS or pid in DISABLED:
        continue
    t = MANIFEST_TEXT[pid]
    checks.append({
        "property_id": pid,
        "quick_cmd": "./check %s quick" % pid,
        "thorough_cmd": "./check %s thorough" % pid,
        "evidence_file": "/verif/evidence/%s.json" % pid,
        "replay_cmd_template": "./check %s --replay {path}" % pid,
        "engine": "coq-model+correspondence",
        "level_claimed": {"category": PROPS[pid].get("level", "proof"), "text": t["text"], "design_ref": t.get("design_ref", "DESIGN.md section 4, " + pid)},
        "level_note": t["note"],
        "technique": t.get("technique", "machine-checked proof in Rocq/Coq 8.16 over a Gallina model + checked model/implementation correspondence"),
    })
na = [{"property_id": pid, "reason": NOT_APPLICABLE[pid]} for pid in ids if pid not in PROPS or pid in DISABLED]
m = {
    "version": 1,
    "setup_cmd": "./check --setup",
    "hooks": {
        "guard": "verif",
        "enable": "go build -tags verif (harness module /verif/harness with replace github.com/pentops/j5 => /repo); hook files are add-only //go:build verif packages",
        "baseline_off_cmd": "cd /repo && GOFLAGS=-mod=mod GOPROXY=off go test -vet=off -count=1 ./...",
        "source_commits": hook_commits(),
        "add_only": True,
    },
    "engines": [{
        "name": "coq-model+correspondence",
        "path": "/verif/check",
        "serves_properties": [c["property_id"] for c in checks],
        "kind_free_text": "Gallina models (coq/model) with theorems (coq/props), tables regenerated from /repo by a Go translator (harness/cmd/j5gen), and a differential correspondence check that evaluates the model inside Coq (vm_compute) on the inputs the real implementation ran (harness/cmd/j5run), plus a direct property oracle for replayable failing inputs",
    }],
    "checks": checks,
    "notes": "All checks share ./check --setup (translators, full Coq build, harness build). Known findings: /verif/KNOWN_FINDINGS.txt. Verdict protocol: DESIGN.md section 6.",
    "not_applicable": na,
}
json.dump(m, open(os.path.join(VERIF, "MANIFEST.json"), "w"), indent=1)
print("MANIFEST.json: %d checks, %d not_applicable" % (len(checks), len(na)))

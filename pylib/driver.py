"""Driver for the /verif checks. See ../check and DESIGN.md sections 6 and 8."""
import concurrent.futures as cf
import fcntl
import glob
import hashlib
import json
import os
import re
import shutil
import subprocess
import sys
import time

from props import PROPS

VERIF = os.path.dirname(os.path.dirname(os.path.abspath(__file__)))
REPO = os.environ.get("VERIF_REPO", "/repo")
BUILD = os.path.join(VERIF, ".build")
COQ = os.path.join(VERIF, "coq")
HARNESS = os.path.join(VERIF, "harness")
BIN = os.path.join(BUILD, "bin")
REPLAYS = os.path.join(VERIF, "replays")
EVIDENCE = os.path.join(VERIF, "evidence")
KNOWN = os.path.join(VERIF, "KNOWN_FINDINGS.txt")
NCPU = int(os.environ.get("VERIF_JOBS") or 0) or os.cpu_count() or 4
COQDIRS = ["lib", "gen", "model", "proofs", "props"]


def goenv():
    env = dict(os.environ)
    # On this repository GOTOOLCHAIN=local and GOSUMDB=off break the build
    # (go.mod needs the cached go1.24.1 toolchain, which must be verified).
    env.pop("GOTOOLCHAIN", None)
    env.pop("GOSUMDB", None)
    env["GOFLAGS"] = "-mod=mod"
    env["GOPROXY"] = "off"
    return env


def run(cmd, cwd=None, timeout=1800, env=None, stdin=None):
    """Run a command in its own process group; returns (rc, combined output). rc 124 on timeout
    (the whole group is killed, so worker subprocesses of a harness do not survive it)."""
    import signal
    p = subprocess.Popen(cmd, cwd=cwd, env=env, stdout=subprocess.PIPE, stderr=subprocess.STDOUT,
                         stdin=subprocess.PIPE if stdin is not None else None, start_new_session=True)
    try:
        out, _ = p.communicate(input=stdin, timeout=timeout)
        return p.returncode, out.decode("utf-8", "replace")
    except subprocess.TimeoutExpired:
        try:
            os.killpg(p.pid, signal.SIGKILL)
        except Exception:
            p.kill()
        try:
            out, _ = p.communicate(timeout=30)
        except Exception:
            out = b""
        return 124, (out or b"").decode("utf-8", "replace") + "\n[timeout after %ss]" % timeout


class Lock:
    """Serialises the shared build steps between concurrently launched checks."""

    def __init__(self):
        os.makedirs(BUILD, exist_ok=True)
        self.f = open(os.path.join(BUILD, "lock"), "w")

    def __enter__(self):
        fcntl.flock(self.f, fcntl.LOCK_EX)
        return self

    def __exit__(self, *a):
        fcntl.flock(self.f, fcntl.LOCK_UN)


# --------------------------------------------------------------------------- source gate

GATE_RE = re.compile(
    r"\b(Admitted|admit|Axiom|Axioms|Parameter|Parameters|Conjecture|Conjectures|Admit Obligations|"
    r"bypass_check|Unset Guard Checking|Unset Positivity Checking|Unset Universe Checking|"
    r"type-in-type|impredicative-set|native_compute)\b")


def strip_comments(src):
    out, depth, i = [], 0, 0
    while i < len(src):
        if src.startswith("(*", i):
            depth += 1
            i += 2
        elif src.startswith("*)", i) and depth > 0:
            depth -= 1
            i += 2
        else:
            if depth == 0:
                out.append(src[i])
            elif src[i] == "\n":
                out.append("\n")
            i += 1
    return "".join(out)


def source_gate():
    """No axioms, admits, switched-off checks; Variable/Hypothesis only inside a Section."""
    problems = []
    for d in COQDIRS:
        for path in sorted(glob.glob(os.path.join(COQ, d, "*.v"))):
            src = strip_comments(open(path, encoding="utf-8").read())
            depth = 0
            for ln, line in enumerate(src.split("\n"), 1):
                if re.match(r"\s*Section\b", line):
                    depth += 1
                if re.match(r"\s*End\b", line) and depth > 0:
                    depth -= 1
                m = GATE_RE.search(line)
                if m:
                    problems.append("%s:%d: %s" % (os.path.relpath(path, VERIF), ln, m.group(0)))
                if depth == 0 and re.match(r"\s*(Variable|Variables|Hypothesis|Hypotheses|Context)\b", line):
                    problems.append("%s:%d: %s outside a Section" % (os.path.relpath(path, VERIF), ln, line.strip()))
    for fl in ("_CoqProject",):
        p = os.path.join(COQ, fl)
        if os.path.exists(p) and re.search(r"type-in-type|impredicative-set", open(p).read()):
            problems.append("%s: forbidden flag" % fl)
    return problems


# --------------------------------------------------------------------------- build steps

def write_coqproject():
    lines = ["-Q %s J5V.%s" % (d, d) for d in COQDIRS]
    for d in COQDIRS:
        for path in sorted(glob.glob(os.path.join(COQ, d, "*.v"))):
            lines.append(os.path.relpath(path, COQ))
    body = "\n".join(lines) + "\n"
    p = os.path.join(COQ, "_CoqProject")
    old = open(p).read() if os.path.exists(p) else None
    if old != body or not os.path.exists(os.path.join(COQ, "Makefile")):
        open(p, "w").write(body)
        rc, out = run(["coq_makefile", "-f", "_CoqProject", "-o", "Makefile"], cwd=COQ, timeout=120)
        if rc != 0:
            raise RuntimeError("coq_makefile failed: " + out)


def go_build(which):
    os.makedirs(BIN, exist_ok=True)
    shutil.copyfile(os.path.join(REPO, "go.sum"), os.path.join(HARNESS, "go.sum"))
    return run(["go", "build", "-tags", "verif", "-o", os.path.join(BIN, which), "./cmd/" + which],
               cwd=HARNESS, env=goenv(), timeout=900)


def all_cmds(prefix):
    return sorted(os.path.basename(p) for p in glob.glob(os.path.join(HARNESS, "cmd", prefix + "*")) if os.path.isdir(p))


def step_gen(gens):
    """Translators: regenerate coq/gen/*.v from /repo. Returns (ok, text)."""
    os.makedirs(os.path.join(COQ, "gen"), exist_ok=True)
    ok, text = True, []
    for g in gens:
        rc, out = go_build(g)
        if rc != 0:
            ok = False
            text.append("building translator %s failed:\n%s" % (g, out))
            continue
        rc, out = run([os.path.join(BIN, g), "-repo", REPO, "-out", os.path.join(COQ, "gen")],
                      env=goenv(), timeout=600)
        text.append("%s: %s" % (g, out.strip()))
        ok = ok and rc == 0
    return ok, "\n".join(text)


def step_make(targets, timeout=3000):
    write_coqproject()
    rc, out = run(["make", "-j%d" % NCPU, "-k"] + targets, cwd=COQ, timeout=timeout)
    return rc, out


def coq_args():
    a = []
    for d in COQDIRS:
        a += ["-Q", os.path.join(COQ, d), "J5V." + d]
    return a


def print_assumptions(props_file, scratch):
    """Re-compile the property file alone and collect its Print Assumptions output."""
    dst = os.path.join(scratch, os.path.basename(props_file))
    shutil.copyfile(os.path.join(COQ, props_file), dst)
    rc, out = run(["coqc"] + coq_args() + ["-o", dst + "o", dst], cwd=scratch, timeout=900)
    closed = len(re.findall(r"Closed under the global context", out))
    axioms = []
    if "Axioms:" in out:
        for blk in re.findall(r"Axioms:\n((?:.+\n?)+?)(?=\n\S|\Z)", out):
            axioms.append(blk.strip())
    return rc, out, closed, axioms


def coqchk(props_file, timeout=2400):
    """Independent re-check of the compiled property file and everything it depends on (thorough tier)."""
    mod = "J5V." + props_file[:-2].replace("/", ".")
    cmd = ["coqchk", "-silent", "-o"] + coq_args() + [mod]
    rc, out = run(cmd, cwd=COQ, timeout=timeout)
    m = re.search(r"\* Axioms:\s*(.*?)\n\s*\n\* Constants/Inductives relying on type-in-type:\s*(.*?)\n\s*\n"
                  r"\* Constants/Inductives relying on unsafe \(co\)fixpoints:\s*(.*?)\n\s*\n\* Inductives whose positivity is assumed:\s*(.*?)\n", out, re.S)
    summary = {"rc": rc, "cmd": " ".join(cmd)}
    if m:
        summary.update({"axioms": " ".join(m.group(1).split()), "type_in_type": " ".join(m.group(2).split()),
                        "unsafe_fixpoints": " ".join(m.group(3).split()), "assumed_positivity": " ".join(m.group(4).split())})
    else:
        summary["raw_tail"] = out[-1500:]
    return rc, summary


def count_obligations(props_file):
    src = strip_comments(open(os.path.join(COQ, props_file), encoding="utf-8").read())
    names = re.findall(r"^\s*(?:Theorem|Lemma|Example|Corollary)\s+([A-Za-z0-9_']+)", src, re.M)
    return names


MISMATCH_RE = re.compile(r"MISMATCH\s*=\s*(\[[^\]]*\])", re.S)


def eval_shard(path):
    rc, out = run(["coqc"] + coq_args() + [path], cwd=os.path.dirname(path), timeout=1500)
    if rc != 0:
        return path, None, out[-2000:]
    m = MISMATCH_RE.search(out)
    if not m:
        return path, None, "no MISMATCH line in coqc output:\n" + out[-1000:]
    body = m.group(1).strip()[1:-1].strip()
    if not body:
        return path, [], ""
    idx = [int(re.sub(r"[^0-9]", "", x)) for x in body.split(";") if re.sub(r"[^0-9]", "", x) != ""]
    return path, idx, ""


def run_shards(outdir):
    shards = sorted(glob.glob(os.path.join(outdir, "*_[0-9]*.v")))
    mism, errors = [], []
    with cf.ThreadPoolExecutor(max_workers=NCPU) as ex:
        for path, idx, err in ex.map(eval_shard, shards):
            stem = os.path.splitext(os.path.basename(path))[0]
            if idx is None:
                errors.append((stem, err))
            else:
                mism += [(stem, i) for i in idx]
    return shards, mism, errors


# --------------------------------------------------------------------------- known findings

def load_known():
    known, fixed = [], []
    if not os.path.exists(KNOWN):
        return known, fixed
    for line in open(KNOWN, encoding="utf-8"):
        line = line.strip()
        if not line or line.startswith("#"):
            continue
        m = re.match(r"known:\s+property=(C\d+)\s+sig=\{([^}]*)\}\s*(.*)$", line)
        if m:
            known.append({"property": m.group(1), "sig": m.group(2), "what": m.group(3)})
            continue
        m = re.match(r"fixed:\s+property=(C\d+)\s+(\S+)\s+(.*)$", line)
        if m:
            fixed.append({"property": m.group(1), "commit": m.group(2), "what": m.group(3)})
    return known, fixed


# --------------------------------------------------------------------------- verdict

def write_replay(prop, payload):
    os.makedirs(REPLAYS, exist_ok=True)
    h = hashlib.sha256(json.dumps(payload, sort_keys=True, default=str).encode()).hexdigest()[:12]
    path = os.path.join(REPLAYS, "%s-%s.json" % (prop, h))
    with open(path, "w") as f:
        json.dump(payload, f, indent=1, default=str)
    return path


def harness_run(prop, tier, seed, outdir, n=0, timeout=None, mult=1):
    if timeout is None:
        # a regression that makes the implementation hang must not hang the check
        timeout = int(os.environ.get("VERIF_HARNESS_TIMEOUT") or (900 if tier == "quick" else 5400))
    os.makedirs(outdir, exist_ok=True)
    cmd = [os.path.join(BIN, PROPS[prop]["runner"]), "-prop", prop, "-tier", tier, "-seed", str(seed), "-out", outdir]
    if n:
        cmd += ["-n", str(n)]
    if mult and mult != 1:
        cmd += ["-mult", str(mult)]
    env = goenv()
    env["VERIF_REPO"] = REPO
    t0 = time.time()
    rc, out = run(cmd, cwd=outdir, env=env, timeout=timeout)
    res = None
    rp = os.path.join(outdir, "result.json")
    if rc == 0 and os.path.exists(rp):
        res = json.load(open(rp))
    return rc, out, res, time.time() - t0


def check_property(prop, tier, seed, replay=None):
    cfg = PROPS[prop]
    t0 = time.time()
    scratch = os.path.join(BUILD, "run-%s-%d" % (prop, os.getpid()))
    shutil.rmtree(scratch, ignore_errors=True)
    os.makedirs(scratch)
    log = []

    def say(s):
        print(s, flush=True)
        log.append(s)

    broken = []      # (kind, name, detail): proof obligations / tie elements that no longer check
    violations = []  # direct-oracle failures not covered by a known finding
    known, fixed = load_known()
    known = [k for k in known if k["property"] == prop]
    res = None
    mism = []
    shard_errors = []
    pa_closed, pa_axioms, pa_out = 0, [], ""
    chk = None
    obligations = count_obligations(cfg["props_file"])
    discharged = 0
    checker_cmd = "make -C coq -j%d %s (coq_makefile, full .vo build, Coq 8.16.1) && coqc %s" % (
        NCPU, " ".join(cfg["coq_targets"]), cfg["props_file"])
    try:
        gate = source_gate()
        if gate:
            broken.append(("gate", "source gate", "\n".join(gate)))
        with Lock():
            ok, gen_out = step_gen(cfg.get("gens", []))
            if not ok:
                broken.append(("translator", " ".join(cfg.get("gens", [])), gen_out[-3000:]))
            rc, make_out = step_make(cfg["coq_targets"])
            if rc != 0:
                errs = re.findall(r'File "\./([^"]+)", line (\d+)[^\n]*\n((?:.*\n){0,6})', make_out)
                detail = "\n".join("%s:%s: %s" % (f, l, t.strip()[:600]) for f, l, t in errs[:4]) or make_out[-3000:]
                first = errs[0][0] if errs else "?"
                broken.append(("proof", "coq build of %s (first failing file: %s)" % (cfg["props_file"], first), detail))
            rc_pa, pa_out, pa_closed, pa_axioms = (1, "", 0, [])
            if rc == 0:
                rc_pa, pa_out, pa_closed, pa_axioms = print_assumptions(cfg["props_file"], scratch)
                if rc_pa != 0:
                    broken.append(("proof", cfg["props_file"], pa_out[-2000:]))
                else:
                    discharged = len(obligations)
                    if tier == "thorough" and replay is None and not os.environ.get("VERIF_NO_COQCHK"):
                        rc_chk, chk = coqchk(cfg["props_file"])
                        bad = rc_chk != 0 or any(chk.get(k, "<none>") != "<none>" for k in
                                                 ("type_in_type", "unsafe_fixpoints", "assumed_positivity"))
                        allowed = cfg.get("allowed_axioms", [])
                        ax = chk.get("axioms", "<none>")
                        if ax != "<none>" and not all(any(a in part for a in allowed) for part in ax.split() if "." in part):
                            bad = True
                        if bad:
                            broken.append(("proof", "coqchk of %s" % cfg["props_file"], json.dumps(chk)[:3000]))
            rcb, build_out = go_build(cfg["runner"])
        if rcb != 0:
            broken.append(("tie", "harness build against /repo (-tags verif)", build_out[-3000:]))
        else:
            hdir = os.path.join(scratch, "h")
            rc, hout, res, hsec = harness_run(prop, tier, seed, hdir)
            if res is None:
                broken.append(("tie", "harness run", "exit %s\n%s" % (rc, hout[-3000:])))
            else:
                corr_ok = not any(b[0] == "proof" and "Corr" in b[1] for b in broken)
                shards, mism, shard_errors = run_shards(hdir)
                for stem, err in shard_errors:
                    broken.append(("tie", "correspondence shard %s does not evaluate" % stem, err))
                if mism:
                    recs = {(c["shard"], c["pos"]): c for c in res.get("cases", [])}
                    first = [recs.get(m, {"shard": m[0], "pos": m[1]}) for m in mism[:5]]
                    broken.append(("tie", "correspondence: model and implementation disagree on %d case(s)" % len(mism),
                                   json.dumps(first, default=str)[:3000]))

        # ---- direct oracle: split failures into known / new
        def split(failures):
            new, seen = [], {}
            for f in failures:
                k = next((k for k in known if k["sig"] == f["sig"]), None)
                if k:
                    seen.setdefault(k["sig"], []).append(f)
                else:
                    new.append(f)
            return new, seen

        failures = res["failures"] if res else []
        new, seen = split(failures)
        violations = new

        # ---- a broken proof/tie is not yet a violation: search for a failing input
        searched = None
        if broken and not violations and rcb == 0:
            budget = 60 if tier == "quick" else 600
            sdir = os.path.join(scratch, "search")
            rc, sout, sres, ssec = harness_run(prop, tier, seed + 7919, sdir,
                                               mult=cfg.get("mult_search", 4), timeout=budget)
            searched = {"seed": seed + 7919, "seconds": round(ssec, 1), "completed": sres is not None}
            if sres:
                snew, sseen = split(sres["failures"])
                violations = snew
                failures = failures + sres["failures"]  # the summary counts both runs (known <= failures)
                for k, v in sseen.items():
                    seen.setdefault(k, []).extend(v)

        # ---- report
        for k in known:
            if k["sig"] in seen:
                say("KNOWN-FINDING: property=%s %s [sig={%s}; %d input(s) this run]" % (
                    prop, k["what"], k["sig"], len(seen[k["sig"]])))
            else:
                say("KNOWN-FINDING: property=%s %s [sig={%s}; listed, not exercised by this run]" % (
                    prop, k["what"], k["sig"]))

        exit_code = 0
        replay_path = None
        if violations:
            v = violations[0]
            payload = {"property": prop, "kind": "failing-input", "tier": tier, "seed": seed if res and v in res["failures"] else seed + 7919,
                       "clause": v.get("clause"), "sig": v.get("sig"), "stream": v.get("stream"), "case": v.get("case"),
                       "input": v.get("input"), "got": v.get("got"), "want": v.get("want"),
                       "also_broken": [{"kind": b[0], "what": b[1], "detail": b[2][:1500]} for b in broken],
                       "other_failures": [{"sig": x.get("sig"), "input": x.get("input")} for x in violations[1:20]],
                       "how_to_replay": "./check %s --replay <this file>" % prop}
            replay_path = write_replay(prop, payload)
            sigs = sorted({x.get("sig", "?") for x in violations})
            say("failing input: %s clause=%r input=%s got=%s" % (v.get("sig"), v.get("clause"),
                json.dumps(v.get("input"), default=str)[:400], json.dumps(v.get("got"), default=str)[:400]))
            if len(sigs) > 1:
                say("distinct failure signatures this run: %s" % "; ".join(sigs[:10]))
            say("VIOLATION property=%s replay=%s" % (prop, replay_path))
            exit_code = 1
        elif broken:
            payload = {"property": prop, "kind": "no-failing-input-found", "tier": tier, "seed": seed,
                       "no_longer_checks": [{"kind": b[0], "what": b[1], "detail": b[2][:4000]} for b in broken],
                       "search": searched,
                       "note": "a proof obligation or the model/implementation correspondence no longer checks; "
                               "the direct oracle found no input on which the property itself fails"}
            replay_path = write_replay(prop, payload)
            for b in broken:
                say("no longer checks: [%s] %s" % (b[0], b[1]))
                say("  " + b[2][:1200].replace("\n", "\n  "))
            say("VIOLATION property=%s replay=%s no-failing-input-found" % (prop, replay_path))
            exit_code = 1

        if replay is not None:
            return exit_code, res, violations, broken

        # ---- evidence
        wall = time.time() - t0
        cov = {
            "obligations": len(obligations),
            "discharged": discharged,
            "obligation_names": obligations,
            "checker_cmd": checker_cmd,
            "trusted_base": cfg["trusted_base"] + ["Print Assumptions: %d of %d statements 'Closed under the global context'%s" % (
                pa_closed, len(re.findall(r"Print Assumptions", strip_comments(open(os.path.join(COQ, cfg["props_file"])).read()))),
                ("; axioms reported: " + " | ".join(pa_axioms)) if pa_axioms else "; no axioms reported")],
            "evaluations": res["evaluations"] if res else 0,
            "distinct_nontrivial": res["distinct_nontrivial"] if res else 0,
            "rule": res["rule"] if res else "",
            "samples": (res["samples"] if res else [])[:12],
            "distribution": res["distribution"] if res else {},
            "traces_validated_against_impl": len(res["cases"]) if res else 0,
            "correspondence_shards": len(res["shards"]) if res else 0,
            "disagreements_checked": len(mism),
            "direct_oracle_failures": len(failures),
            "known_findings_seen": {k: len(v) for k, v in seen.items()},
            "refuted_theorems": cfg.get("refuted", []),
            "partial_theorems": cfg.get("partial", []),
            "no_longer_checks": [{"kind": b[0], "what": b[1]} for b in broken],
            "notes": (res.get("notes") or []) if res else [],
        }
        if chk is not None:
            cov["coqchk"] = chk
        ev = {"property_id": prop, "tier": tier, "seed": seed, "level": cfg.get("level", "proof"),
              "coverage": cov, "assumptions": cfg["assumptions"], "wall_s": round(wall, 2),
              "violations": len(violations) + (1 if (broken and not violations) else 0)}
        os.makedirs(EVIDENCE, exist_ok=True)
        with open(os.path.join(EVIDENCE, "%s.json" % prop), "w") as f:
            json.dump(ev, f, indent=1, default=str)
        say("%s %s: obligations %d/%d, cases %d (model-vs-impl %d, mismatches %d), oracle failures %d (known %d), %.1fs -> %s" % (
            prop, tier, discharged, len(obligations), cov["evaluations"], cov["traces_validated_against_impl"], len(mism),
            len(failures), sum(len(v) for v in seen.values()), wall, "OK" if exit_code == 0 else "VIOLATION"))
        return exit_code, res, violations, broken
    finally:
        shutil.rmtree(scratch, ignore_errors=True)


def do_setup():
    t0 = time.time()
    with Lock():
        ok, out = step_gen(all_cmds("gen_"))
        print(out)
        if not ok:
            print("translator failed")
            return 1
        rc, out = step_make([], timeout=7000)
        for f, l, t in re.findall(r'File "\./([^"]+)", line (\d+)[^\n]*\n((?:.*\n){0,8})', out)[:10]:
            print("COQ ERROR %s:%s\n%s" % (f, l, t[:1500]))
        print(out[-3000:])
        if rc != 0:
            print("coq build failed")
            return 1
        for r in all_cmds("run_"):
            rc, out = go_build(r)
            print(r, out)
            if rc != 0:
                print("harness build failed")
                return 1
    gate = source_gate()
    if gate:
        print("source gate:\n" + "\n".join(gate))
        return 1
    print("setup ok in %.1fs" % (time.time() - t0))
    return 0


def main(argv):
    if not argv or argv[0] in ("-h", "--help"):
        print(__doc__ or "usage: check Cxx quick|thorough")
        return 2
    if argv[0] == "--setup":
        return do_setup()
    if argv[0] == "--gate":
        g = source_gate()
        print("\n".join(g) if g else "gate ok")
        return 1 if g else 0
    prop = argv[0]
    if prop not in PROPS:
        print("unknown property %s (have %s)" % (prop, " ".join(sorted(PROPS))))
        return 2
    seed = int(os.environ.get("VERIF_SEED", "1") or "1")
    if len(argv) >= 3 and argv[1] == "--replay":
        rp = json.load(open(argv[2]))
        tier = rp.get("tier", "quick")
        seed = int(rp.get("seed", seed))
        print("replaying %s: tier=%s seed=%d kind=%s" % (argv[2], tier, seed, rp.get("kind")))
        code, res, violations, broken = check_property(prop, tier, seed, replay=rp)
        if rp.get("kind") == "failing-input":
            same = [v for v in violations if v.get("sig") == rp.get("sig") and v.get("input") == rp.get("input")]
            print("replayed input %s: %s" % (json.dumps(rp.get("input"))[:300],
                  "STILL FAILS: " + json.dumps(same[0].get("got"), default=str)[:400] if same else "no longer fails"))
            return 1 if same else 0
        return code
    tier = argv[1] if len(argv) > 1 else "quick"
    tier = os.environ.get("VERIF_TIER") or tier
    if tier not in ("quick", "thorough"):
        print("tier must be quick or thorough")
        return 2
    code, _, _, _ = check_property(prop, tier, seed)
    return code

"""Per-property configuration: one module per property under pylib/propcfg/Cxx.py,
each defining CONFIG (for the driver) and MANIFEST (text for MANIFEST.json)."""
import importlib
import os
import pkgutil
import sys

KERNEL = "Coq 8.16.1 kernel (Debian build), full .vo compilation through coq_makefile/make; vm_compute used in computed-agreement lemmas, refutation witnesses and correspondence evaluation; native_compute not used"
HARNESS = "Go correspondence harness (/verif/harness): generators, canonicalisers, comparators; its generator quality bounds the tie"
TRANSLATOR = "translator (harness/cmd/gen_*, go/ast): trusted to report Go tables faithfully; output is human-readable coq/gen/*.v"
CORR = "correspondence evaluated inside Coq: cases_*.v written by the harness, model run by vm_compute, no extraction"

_here = os.path.dirname(os.path.abspath(__file__))
PROPS, MANIFEST_TEXT = {}, {}
# pylib/disabled.txt: "<Cxx> <reason>" per line — a property whose check exists but is not claimed yet
DISABLED = {}
_dis = os.path.join(_here, "disabled.txt")
if os.path.exists(_dis):
    for _l in open(_dis):
        _l = _l.strip()
        if _l and not _l.startswith("#"):
            _k, _, _r = _l.partition(" ")
            DISABLED[_k] = _r or "check under construction"
for _m in sorted(pkgutil.iter_modules([os.path.join(_here, "propcfg")]), key=lambda m: m.name):
    if not _m.name.startswith("C"):
        continue
    mod = importlib.import_module("propcfg." + _m.name)
    PROPS[_m.name] = mod.CONFIG
    MANIFEST_TEXT[_m.name] = mod.MANIFEST

_PENDING = "check not built yet; the property is within reach of the technique (DESIGN.md section 4) and is not claimed until its model, theorems and correspondence exist"
NOT_APPLICABLE = {("C%02d" % i): _PENDING for i in range(1, 21)}
for _k, _r in DISABLED.items():
    NOT_APPLICABLE[_k] = "check built but not claimed yet: " + _r

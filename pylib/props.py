"""Per-property configuration for the check driver."""

KERNEL = "Coq 8.16.1 kernel (Debian build), full .vo compilation through coq_makefile/make; vm_compute used in computed-agreement lemmas, refutation witnesses and correspondence evaluation; native_compute not used"
HARNESS = "Go correspondence harness (/verif/harness): generators, canonicalisers, comparators; its generator quality bounds the tie"
TRANSLATOR = "translator harness/cmd/j5gen (go/ast): trusted to report Go tables faithfully; output is human-readable coq/gen/*.v"
CORR = "correspondence evaluated inside Coq: cases_*.v written by the harness, model run by vm_compute, no extraction"

PROPS = {
    "C20": {
        "props_file": "props/C20.v",
        "coq_targets": ["props/C20.vo", "model/Id62Corr.vo"],
        "level": "proof",
        "trusted_base": [
            KERNEL, TRANSLATOR + " (Id62Gen.v: PatternString literal, references from fields.go and schema_from_proto.go)", CORR, HARNESS,
            "modelled, not verified: math/big SetBytes/Text(62)/SetString(62)/Bytes, fmt %022s padding, regexp for the one pattern form ^[ranges]{n}$, crypto/sha1 (lib/Sha1.v, checked against FIPS vector and crypto/sha1 by correspondence)",
        ],
        "assumptions": [
            "model/Id62.v is the hand-written model of lib/id62/uuid62.go; it is tied to the code by the correspondence stream of this run and by the regenerated pattern string",
            "identifiers are byte lists of length 16 with every byte < 256 (wf_id), strings are byte lists",
        ],
        "mult_search": 4,
    },
}

# properties not (yet) claimed, with the reason shown in MANIFEST.json
_PENDING = "check not built yet in this round; the property is within reach of the technique (see DESIGN.md section 4) and is not claimed until its model, theorems and correspondence exist"
NOT_APPLICABLE = {("C%02d" % i): _PENDING for i in range(1, 21)}

MANIFEST_TEXT = {
    "C20": {
        "text": "Theorems over a Gallina model of base62String/parseBase62/Pattern/NewHash, for all 2^128 identifiers and all strings: render is total and yields 22 characters matching the pattern string read from the Go source; parse(render b) = b, hence injectivity; parse never panics, returns exactly the denoted magnitude, and rejects magnitudes >= 2^128; NewHash depends only on the concatenation of its arguments. The model is tied to the code by re-reading PatternString on every run and by evaluating model and implementation on the same identifiers/strings.",
        "note": "Trusted: Coq kernel; the translator; the correspondence harness; math/big, fmt padding, regexp and crypto/sha1 are modelled, not verified. All C20 theorems are closed under the global context (no axioms).",
        "technique": "Rocq/Coq proof (radix round-trip by induction) + regenerated pattern table + in-Coq differential correspondence",
    },
}

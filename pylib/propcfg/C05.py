from props import KERNEL, HARNESS, TRANSLATOR, CORR

CONFIG = {
    "props_file": "props/C05.v",
    "coq_targets": ["props/C05.vo", "model/ProtoPrintCorr.vo"],
    "runner": "run_tool",
    "gens": ["gen_tool"],
    "level": "proof",
    "trusted_base": [
        KERNEL,
        TRANSLATOR + " (PrintGen.v: short-escape table, escape-condition and indexNeedEscape literals, outputASCII, marshalSingular kind arms, the contextRefName loop guard, the options field numbers of OptionsFor against descriptor.proto)",
        CORR, HARNESS,
        "harness descriptor comparison (normalisation through the wire format with the global extension registry, empty options = no options, default json_name filled in, extension declaration order ignored, imports compared as a set) is trusted",
        "modelled, not verified: Go utf8.DecodeRuneInString (model/ProtoPrintLit.v utf8_decode, tied by the literal stream over all byte values), strconv.FormatInt/FormatUint, protocompile's string lexer (lex_step, tied by lexing every printed literal with the real lexer) and relative-name resolution (resolve, tied by the scope stream against the real linker)",
    ],
    "assumptions": [
        "model/ProtoPrintLit.v + model/ProtoPrint.v model the literal layer (prototextString, marshalSingular integers/bools, identifiers) and contextRefName, and stand in for protocompile's lexer and relative-name resolver on the emitted subset; they are tied to the code by the literal and scope correspondence streams of this run and by the regenerated tables",
        "the layout layer of the printer (element order, comments, blank lines, inline vs block options, Simplify) is not modelled: it is covered by the round-trip oracle on the real printer and parser only (character layer partial)",
        "floats in option values (fFloat) are not modelled",
    ],
    "mult_search": 3,
    "refuted": ["C05_scope_shadow_refuted (known finding: nested type shadows)", "C05_scope_cross_package_refuted (known finding: package name captured)",
                "C05_scope_snapshot_refuted (snapshot code, repaired by fix d554404)"],
    "partial": ["C05_scope_same_package_partial / C05_scope_other_package_partial: the scope-shortening lemma under explicit no-capture hypotheses; C05_scope_full_statement (no hypotheses) is false for the code as it is",
                "whole-descriptor statement parse(print D) ~ D: literal and scope layers proved, layout/character layer covered by the oracle only"],
}

MANIFEST = {
    "text": "Theorems over a Gallina model of the printer's literal layer and scope shortening: for all byte strings (incl. invalid UTF-8) the literal written by prototextString is pure ASCII and is read back by the text-format lexer as the same bytes, also in front of arbitrary following text; integers, booleans and dotted identifiers round-trip; a type name shortened by contextRefName resolves, from the scope it is printed in, to the type it was written for whenever no nested type or package captures its first component (proved for all symbol tables; refuted without the hypothesis by concrete tables). Tied to the code by regenerated escape/arm tables, by evaluating the model printer, the model lexer and the model resolver against prototextString, marshalSingular, contextRefName, the real protocompile lexer and the real protocompile linker, and by the end-to-end oracle PrintFile -> protocompile parse+link -> descriptor comparison (every field, option and extension value, leading comments) -> PrintFile again byte-equal on every .proto of the repository and on the files compiled from generated j5s packages.",
    "note": "Level: proof for the literal layer (full) and the scope-shortening lemma (partial: under no-capture hypotheses, refuted without); the layout/character layer is checked by the round-trip oracle only. Known findings: options on map entry value fields are not printed (map:key:id62 degrades to map<string,string>), nested types that shadow / package names that are captured make a shortened name resolve wrongly or not at all, a trailing comment printed after a closing brace is lost on re-parse. Fixed in this round: empty type name for self-referencing fields, json_name not printed.",
    "technique": "Rocq/Coq proof (UTF-8 decode/encode round trip, escape inverse pairs, radix round trip, scope-resolution lemma by induction on the scope chain) + regenerated escape tables + in-Coq differential correspondence against the real printer, lexer and linker + end-to-end round-trip oracle",
}

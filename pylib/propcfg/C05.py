from props import KERNEL, HARNESS, TRANSLATOR, CORR

CONFIG = {
    "props_file": "props/C05.v",
    "coq_targets": ["props/C05.vo", "model/ProtoPrintCorr.vo", "model/ProtoPrintFileCorr.vo"],
    "runner": "run_tool",
    "gens": ["gen_tool"],
    "level": "proof",
    "trusted_base": [
        KERNEL,
        TRANSLATOR + " (PrintGen.v: short-escape table, escape-condition and indexNeedEscape literals, outputASCII, marshalSingular kind arms, the contextRefName loop guard, the options field numbers of OptionsFor against descriptor.proto)",
        CORR, HARNESS,
        "harness descriptor comparison (normalisation through the wire format with the global extension registry, empty options = no options, default json_name filled in, extension declaration order ignored, imports compared as a set) is trusted",
        "modelled, not verified: Go utf8.DecodeRuneInString (model/ProtoPrintLit.v utf8_decode, tied by the literal stream over all byte values), strconv.FormatInt/FormatUint, protocompile's string lexer (lex_step, tied by lexing every printed literal with the real lexer) and relative-name resolution (resolve, tied by the scope stream against the real linker)",
    ],
    "assumptions": [
        "model/ProtoPrintLit.v + model/ProtoPrint.v model the literal layer (prototextString, marshalSingular integers/bools, identifiers) and contextRefName, and stand in for protocompile's lexer and relative-name resolver on the emitted subset; they are tied to the code by the literal and scope correspondence streams of this run and by the regenerated tables",
        "option values are modelled at token level (print_val/print_raw, parse_raw; tied by tokenising the text the real option printer writes for every option of every element of the files in the run); the layout layer of the printer (element order, comments, blank lines, inline vs block options, Simplify) is not modelled: it is covered by the round-trip oracle on the real printer and parser only (character layer partial)",
        "floats in option values (fFloat) are not modelled",
    ],
    "mult_search": 3,
    "refuted": ["C05_scope_shadow_previous_refuted, C05_scope_cross_package_previous_refuted (the printer before fix bb3e43d)",
                "C05_scope_snapshot_refuted (snapshot code, repaired by fix d554404)"],
    "partial": ["C05 as stated (parse(print D) ~ D and print again = same text, for whole descriptors) has NO theorem yet: the theorems are about three helper layers (one literal, one type reference, one option value). A file-layer model exists (model/ProtoPrintFile.v: descriptor -> element order / option order / Simplify / json_name -> token list; model/ProtoParseFile.v: token parser for the emitted subset + descriptor building) and is tied to PrintFile + the protocompile lexer/parser by the file correspondence stream, but its round-trip theorem is not proved in this tree; characters between tokens (indentation, blank lines, inline vs block option forms) and trailing comments are oracle-only",
                "scope theorem: message-field / rpc type references against a symbol table of messages and enums only (services, extension names in option names, extendees are printed through the same function but are outside the theorem); parse_raw is the printer's own inverse on the emitted token subset, not protocompile's message-literal grammar; floats in option values, strconv.Quote of json_name and the unescaped file-level string options are not modelled",
                "C05_scope_same_package_previous_partial / C05_scope_other_package_previous_partial: the lemma for the previous printer under explicit no-capture hypotheses (kept as the route to C05_scope_full)"],
}

MANIFEST = {
    "text": "Theorems over a Gallina model of the printer's literal layer and scope shortening: for all byte strings (incl. invalid UTF-8) the literal written by prototextString is pure ASCII and is read back by the text-format lexer as the same bytes, also in front of arbitrary following text; integers, booleans and dotted identifiers round-trip; for every option value tree the parser of the emitted token subset reads back the tree that was printed and printing it again gives the same tokens (idempotence at token level); the name contextRefName prints for a type reference (shortened, or fully qualified with a leading dot when a nested type or a package would capture it) resolves, from the scope it is printed in, to the type it was written for — for all symbol tables and nestings (the previous printer: proved under no-capture hypotheses, refuted without them by concrete tables). Tied to the code by regenerated escape/arm tables, by evaluating the model printer, the model lexer and the model resolver against prototextString, marshalSingular, contextRefName, the real protocompile lexer and the real protocompile linker, and by the end-to-end oracle PrintFile -> protocompile parse+link -> descriptor comparison (every field, option and extension value, leading comments) -> PrintFile again byte-equal on every .proto of the repository and on the files compiled from generated j5s packages.",
    "note": "Level: proof for three helper layers only (literal, type-reference scope, option-value tokens; all inputs); the property as stated (whole descriptors) is covered by the file-layer correspondence (model printer/parser vs PrintFile + protocompile) and the round-trip oracle, not by a theorem (partial). Known findings: options on map entry value fields are not printed (map:key:id62 degrades to map<string,string>). Fixed in this round: trailing comment of an empty element, empty type name for self-referencing fields, json_name not printed, shortened/cross-package names captured by nested types or packages.",
    "technique": "Rocq/Coq proof (UTF-8 decode/encode round trip, escape inverse pairs, radix round trip, scope-resolution lemma by induction on the scope chain) + regenerated escape tables + in-Coq differential correspondence against the real printer, lexer and linker + end-to-end round-trip oracle",
}

from props import KERNEL, HARNESS, TRANSLATOR, CORR

CONFIG = {
    "props_file": "props/C17.v",
    "coq_targets": ["props/C17.vo", "model/EntityCorr.vo", "model/EntityStrcaseCorr.vo", "proofs/StrcaseProofs.vo"],
    "runner": "run_ent",           # harness/cmd/run_ent (streams: entity declarations, strcase)
    "gens": ["gen_ent"],           # harness/cmd/gen_ent -> coq/gen/EntityGen.v
    "level": "proof",
    "trusted_base": [
        KERNEL,
        TRANSLATOR + " (EntityGen.v: entityNode.run call order, componentName/innerRef literals per function, strcase calls on concatenations, Sprintf formats, property names, EntityPart constants, schemaRefField packages, implicitImports, strcase version, ConfigureAcronym occurrences)",
        CORR, HARNESS,
        "modelled, not verified: github.com/iancoleman/strcase v0.3.0 (lib/Strcase.v, byte-exact incl. strings.TrimSpace on bytes; checked against the real library on every run), path.Join for clean operands, the BCL parser and the rest of j5convert (field type conversion) are exercised through the real compiler only",
    ],
    "assumptions": [
        "model/Entity.v is the hand-written model of sourcewalk/entity.go (entityNode.run, accept*), of the service/topic expansion in sourcewalk/{service,topic}.go and of the j5convert steps that decide names, numbers, required/flatten/psm/list options and http paths; it is tied to the code by the regenerated tables (proofs/EntityGenProofs.v) and by compiling every generated declaration with the real compiler and comparing the canonical descriptor dump line by line",
        "user-declared fields are scalars (9 types) or key fields (id62/uuid/plain, primary/tenant); other field types pass through entity.go untouched and belong to C02",
        "declarations are admissible: distinct field/event/method/summary names (after ToSnake/ToCamel), clean relative command paths whose parameters are request fields; the walker errors (unknown default status, duplicate summary) are modelled and exercised by the malformed stream",
        "'the same entity annotation': psm and service options carry ToSnake(name), topics carry <package>.ToCamel(name); the Status enum and the EventType oneof have no annotation slot (there is no EntityPart for them)",
    ],
    "mult_search": 4,
    "refuted": ["C17_legacy_naming_refuted (the pre-fix naming of State/EventType/Event; repaired by fix d657973, kept as documentation)"],
    "partial": [],
}

MANIFEST = {
    "text": "Theorems over a Gallina model of entityNode.run and the service/topic/descriptor steps it drives, for ALL entity declarations (any name bytes, any number of keys/data/statuses/events/commands/summaries, any query settings): the emitted components are exactly Keys, Data, Status, State, EventType, Event, the query service with Get/List/Events and their messages, each declared command service, the publish topic and one upsert topic per summary, in that order and named from ToCamel(name) / ToCamel(ToSnake(name)); every reference resolves inside the expansion or the implicit imports (closed), hence compile = expand; all psm/service annotations equal ToSnake(name) and all topic annotations <pkg>.ToCamel(name); State/Event shapes; event oneof <-> events bijection with nested messages; primary keys required, keys in declaration order, Get/Events paths are <base>/{k}.. over the primary+shard keys in order; statuses numbered 1..n after UNSPECIFIED. lib/Strcase.v is a byte-exact model of strcase v0.3.0 with proved laws (camel suffix stability iff the name does not end in a capital, ToLowerCamel.ToSnake on lowerCamel names, ToSnake idempotence). Defect #16 (entity FooS: 'type FooSState not found') was repaired in /repo (fix d657973); the theorems hold without a camel-stability hypothesis and the pre-fix naming is kept as a refuted lemma. Tie: EntityGen.v tables regenerated from entity.go/topic.go/file.go/imports.go/go.mod + every generated declaration compiled by the real compiler (lib/verifshim/compile) and its descriptors compared with the model's expansion; direct oracle re-states the property clauses on the real descriptors.",
    "note": "Trusted: Coq kernel; the translator; the harness (generator, j5s printer, descriptor dump). strcase, path.Join and field-type conversion are modelled/exercised, not verified. All C17 theorems are closed under the global context. Observation (not a finding): the query service and its methods are named ToCamel(ToSnake(name)) while all other parts use ToCamel(name); these differ for names such as 'ABc' (AbcState vs ABcQueryService).",
    "technique": "Rocq/Coq proof (structural, all declarations) + regenerated code tables + in-Coq differential correspondence against the real compiler's descriptors",
}

from props import KERNEL, HARNESS, TRANSLATOR, CORR

CONFIG = {
    "props_file": "props/C07.v",
    "coq_targets": ["props/C07.vo", "model/CmpbFieldsCorr.vo"],
    "runner": "run_cmpb",          # harness/cmd/run_cmpb
    "gens": ["gen_cmpb"],          # harness/cmd/gen_cmpb -> coq/gen/{SetExtGen,MapRangeGen,PanicGen}.v
    "level": "proof",
    "trusted_base": [
        KERNEL,
        TRANSLATOR + " (SetExtGen.v by go/types: every proto.SetExtension call of internal/j5s/j5convert with static value/destination types, ensureImport calls in the enclosing blocks, setJ5Ext calls; extension tables read from the generated *.pb.go; descriptor field tables of j5.ext.v1 / j5.schema.v1 Ext messages; import constants. Output cached under .build/gencache keyed by the sha256 of the analysed sources, go.mod, go.sum and the translator binary)",
        CORR, HARNESS,
        "modelled, not verified: protocompile's link step is represented by one requirement (an extension / type name resolves only through an imported file, linker.go markOptionImportsUsed), tied by the real link succeeding or failing on every isolation case; protobuf-go SetExtension/Set/Mutable panic conditions (value Go type, extendee, cardinality, message kind)",
        "not modelled (explored by the malformed and semantic-error streams under recover() with a fatal-crash-isolating child process): the BCL walker's reflection mechanics, sourcewalk's entity/service/topic expansion, protobuild package loading; the lexer/parser are C11's",
    ],
    "assumptions": [
        "model/CmpbFields.v is the hand-written model of the decision core of buildProperty/buildField/setJ5Ext/resolveType/ensureImport (fields.go, conversion.go, builders.go as repaired by the fix: commits listed in KNOWN_FINDINGS.txt); it is tied to the code by the call-site agreement lemma over the regenerated SetExtGen.v and by the full isolation matrix of this run (verdict, import list, extension set, proto type, label, proto3_optional)",
        "the abstract field space is finite by construction; theorems quantify over all of it (47 544 properties, including shapes no source text produces) by a complete enumeration with a completeness lemma",
        "names are not modelled: the acceptance theorem does not cover name collisions (e.g. an inline type whose default name equals its parent's, C02's recorded finding)",
        "the documented language is in_language (model/CmpbFields.v), written from README.md and schema.proto",
    ],
    "mult_search": 3,
    "refuted": ["C07_language_refuted (float rules; list rules on an informal key)", "C07_setext_typed_refuted (list_request extends MessageOptions but is set on MethodOptions: panic)", "C07_service_refuted (a method with a list request panics)"],
    "partial": ["C07_language_accepted_partial (documented language minus float rules and informal-key list rules)", "C07_setext_typed_partial (all SetExtension sites but the list_request one)", "C07_service_total_links_partial / C07_service_accepted_partial (services without list requests)"],
}

MANIFEST = {
    "text": "Theorems over a Gallina model of the j5s converter's field core (buildProperty/buildField/setJ5Ext/resolveType/ensureImport) for every abstract field: no Go panic site (SetExtension with a wrong Go type or extendee, reflection copy in setJ5Ext, nil result dereference, ensureImport on a bad path) is reachable; a file holding one property never fails to link and every extension set has its defining file among the ensured imports; everything in the documented language except two recorded combinations is accepted, and rejections happen only outside it and record an error. For declarations of unbounded size (model/CmpbDecls.v, induction over the lists): a top-level enum with any number of options, with or without info, is accepted and links alone; a service with any number of methods and no list request never panics, always links, and is accepted when in the language; with a list request it panics (refutation = recorded finding); topics of every type and object/oneof shells are accepted and link alone. The field types and their rule/list-rule/ext/format parts are the schema descriptors' (regenerated; agreement lemma with a reviewed ignored list), and every field type has a converter arm. The SetExtension call sites, extension Go types/extendees/files, import constants and the descriptor tables setJ5Ext copies between are regenerated from /repo on every run and checked by computed lemmas. The tie runs the full isolation matrix and generated enums/services alone in a file (every field type x rule kind x wrapper in a file with nothing else) through the real compiler and compares verdict, imports and extensions with the model; declaration matrix, random bytes, token mutations and semantic-error files go through Compile, LintFile and LintAll under recover() in a crash-isolated child, checking that every error leaf carries a position inside a source file.",
    "note": "Proved for the converter's decision core; partial for the property as a whole: the BCL walker, entity/service/topic expansion and package loading are explored, not modelled; lexer/parser totality is C11. Refuted parts are recorded findings (float rules, informal key + list rules, list_request panic, link-stage and package-loading errors without a source position, LintFile reporting under the generated file name). Trusted: Coq kernel; the go/types translator; the correspondence harness; protocompile and protobuf-go behaviour as modelled. All C07 theorems are closed under the global context (no axioms).",
    "technique": "Rocq/Coq proof (complete enumeration of a finite abstract field space with a completeness lemma, vm_compute) + regenerated call-site/extension/descriptor tables with computed agreement lemmas + in-Coq differential correspondence on the full isolation matrix + direct oracle on malformed and semantic-error streams",
}

from props import KERNEL, HARNESS, TRANSLATOR, CORR

CONFIG = {
    "props_file": "props/C09.v",
    "coq_targets": ["props/C09.vo", "model/BclFmtCorr.vo"],
    "runner": "run_bcl",
    "gens": ["gen_bcl"],
    "level": "proof",
    "trusted_base": [
        KERNEL,
        TRANSLATOR + " (TokensGen.v, UnicodeGen.v as for C11; unicode.IsSpace also drives strings.Fields / TrimSpace in the re-flow)",
        CORR, HARNESS,
        "modelled, not verified: strings.NewReplacer / ReplaceAll / Fields / TrimSpace / TrimRight / Repeat / Join, len() of strings (UTF-8 length), fmt.Sprintf with %s, []rune conversion",
        "add-only hooks: internal/bcl/internal/parser/verif_export.go, internal/bcl/verifbcl, lib/verifshim/bcl (build tag verif)",
    ],
    "assumptions": [
        "model/BclFmt.v is the hand-written model of fmt.go and description.go as they are after the fix: commits listed in KNOWN_FINDINGS.txt (tokenSource with the lexer's own escapes, Fields-based re-flow, bare '|' for an empty description), on top of the C11 models; tied to the code by byte-exact comparison of Fmt output (or its rejection) on every generated file, and of tokenSource / reformatDescription on random literals",
        "the full statement (C09_full_statement) is a Definition and is NOT proved; its clauses 'output accepted' and 'same document' are proved for all inputs (C09_accepted_same_document), over the walker's flat fragment list with nesting as the sequence of opening headers and closing braces; 'idempotent' is decided on each run's inputs by the direct oracle only (proved only for the description re-flow)",
    ],
    "mult_search": 4,
    "refuted": [],
    "partial": ["C09_full_statement is a Definition only; proved for all inputs: every clause except idempotence (C09_accepted_same_document = fmt succeeds, output accepted by the parser, output's fragments have the same documents; also C09_output_accepted, C09_same_document). NOT proved: fmt_runes out = Ok out (formatting twice changes nothing) — only its description part (C09_reflow_fixed_point); the blank lines depend on token positions in the output, which no theorem computes. Component theorems: totality, tokenSource/lexer inverse pairs, C09_token_roundtrip, C09_sequence_relex, C09_line_relex, C09_fragments_renderable, C09_walk_back, C09_reflow_same_paragraphs"],
}

MANIFEST = {
    "text": "Theorems over a Gallina model of the formatter (tokenSource, fmter, reformatDescription, Fmt) on top of the proved lexer/walker models, for all inputs (rune lists): Fmt never panics or exhausts fuel; for every file the parser accepts, Fmt succeeds, the parser accepts the output, and the output's fragments (read again by lexer and walker) have the same documents as the input's: block types, tags with marks, qualifiers, nesting (sequence of opening headers / closing braces), assignment keys, operators and literal values (type and literal of every token), comments, and descriptions with the same words and paragraph breaks (C09_accepted_same_document). Built from: every token the lexer emits is read back from tokenSource's text when followed by text that cannot extend it; every line the formatter writes lexes to the fragment's canonical tokens; the whole output lexes to the canonical stream (description blocks incl. the bare | line, blank lines, indentation); adjacent description blocks are separated by an empty source line; the walker rebuilds the fragments from the canonical stream; the re-flow keeps words and paragraph breaks and is a fixed point. NOT proved: idempotence of the whole formatter (Fmt(Fmt x) = Fmt x) — stated in C09_full_statement, evaluated by the direct oracle on every generated file; Fmt's output is compared byte for byte with the model's.",
    "note": "PARTIAL: C09_full_statement is a Definition, not a theorem. Proved for all inputs: formatter succeeds on accepted files, output accepted, same document (C09_accepted_same_document). Not proved: formatting twice changes nothing (only the description re-flow part, C09_reflow_fixed_point); oracle-checked per run. 'Same document' is over the walker's fragment list (comments included, nesting as open/close sequence); values compare token type and literal, so x = a.b and x = \"a.b\" are the same value as in the parser. The proofs are for the code after fixes ab323ff (tokenSource used %q and did not re-double '/'), 4c24869 (re-flow not a fixed point), 266986b (empty description printed as an empty line) and e44da54 (spurious blank line after a brace-less header with a trailing comment). Trusted: Coq kernel, translator, harness; Go string functions modelled.",
    "technique": "Rocq/Coq proof (inverse-pair lemmas tokenSource/lexer by induction on the literal; line- and file-level relex by explicit construction of the NextToken run; walker run constructed from the canonical stream; lexer/walker position invariants for the description gap; word-level machines for the re-flow) + byte-exact in-Coq differential correspondence of Fmt, tokenSource and reformatDescription + direct oracle (re-parse, position-free document comparison, format twice)",
}

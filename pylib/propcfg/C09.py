from props import KERNEL, HARNESS, TRANSLATOR, CORR

CONFIG = {
    "props_file": "props/C09.v",
    "coq_targets": ["props/C09.vo", "model/BclFmtCorr.vo", "proofs/BclFmtGenProofs.vo", "proofs/BclPanicSitesProofs.vo"],
    "runner": "run_bcl",
    "gens": ["gen_bcl"],
    "level": "proof",
    "trusted_base": [
        KERNEL,
        TRANSLATOR + " (TokensGen.v, UnicodeGen.v as for C11; unicode.IsSpace also drives strings.Fields / TrimSpace in the re-flow)",
        CORR, HARNESS,
        "modelled, not verified: strings.NewReplacer / ReplaceAll / Fields / TrimSpace / TrimRight / Repeat / Join, len() of strings (UTF-8 length), fmt.Sprintf with %s, []rune conversion",
        "add-only hooks: internal/bcl/internal/parser/verif_export.go, internal/bcl/verifbcl, lib/verifshim/bcl, cmd/j5/internal/cli/verif_export.go + cmd/j5/verifcli (runs runJ5sFmt: j5 j5s fmt --file/--dir --write), lib/verifshim/bcl FmtPublic (internal/bcl.Fmt, the wrapper the command calls) (build tag verif)",
    ],
    "assumptions": [
        "model/BclFmt.v is the hand-written model of fmt.go and description.go as they are after the fix: commits listed in KNOWN_FINDINGS.txt (tokenSource with the lexer's own escapes, Fields-based re-flow, bare '|' for an empty description), on top of the C11 models; tied to the code by byte-exact comparison of Fmt output (or its rejection) on every generated file, and of tokenSource / reformatDescription on random literals",
        "the full statement C09_full_statement is proved (C09_full) for the model, at rune level: input and output are rune lists ([]rune of the Go strings); the byte level adds only that decoding the UTF-8 encoding of decoded runes gives the runes back (modelled, not verified)",
        "'same document' is stated twice: over the walker's flat fragment list (comments included; nesting as the sequence of opening headers and closing braces, on which alone fragmentsToFile's diagnostics depend — to_file_ok_iff) in C09_full, and over the nested tree ParseFile returns (comments dropped by fragmentsToFile) in C09_same_tree; values are compared by token type and literal, so x = a.b and x = \"a.b\" are the same value exactly as popValue makes them",
    ],
    "mult_search": 4,
    "refuted": [],
    "partial": [],
}

MANIFEST = {
    "text": "C09_full_statement is proved (C09_full) over a Gallina model of the formatter (tokenSource, fmter, reformatDescription, Fmt) on top of the proved lexer/walker models, for all rune lists: for every file the parser accepts, Fmt succeeds, the parser accepts the output, the output's fragments (read again by lexer and walker) have the same documents as the input's — block types, tags with marks, qualifiers, nesting (sequence of opening headers / closing braces), assignment keys, operators and literal values (type and literal of every token), comments, descriptions with the same words and paragraph breaks — and formatting the output again returns it unchanged (C09_idempotent holds for every input Fmt accepts). Built from: every token the lexer emits is read back from tokenSource's text when followed by text that cannot extend it; every line the formatter writes lexes to the fragment's canonical tokens; the whole output lexes to the canonical stream (description blocks incl. the bare | line, blank lines, indentation); adjacent description blocks are separated by an empty source line; the walker rebuilds the fragments from the canonical stream; the text of a line is a function of the document; the re-flow keeps words and paragraph breaks and is a fixed point; exact line numbers of the tokens and fragments of the output reproduce the blank-line decisions. Fmt never panics or exhausts fuel. Fmt's output is compared byte for byte with the model's on every generated file, and the direct oracle re-parses, compares documents and formats twice. The write path of `j5 j5s fmt --write` (file system, outside the model) is checked by the direct oracle only: on temporary files that are longer, shorter and equal to the formatted text, in --file and --dir mode, the file left on disk must be exactly Fmt's output and a second run must leave it unchanged.",
    "note": "Full statement proved for the model (C09_full), rune level. 'Same document' is over the walker's fragment list (comments included, nesting as open/close sequence); values compare token type and literal, so x = a.b and x = \"a.b\" are the same value as in the parser. The proofs are for the code after fixes ab323ff (tokenSource used %q and did not re-double '/'), 4c24869 (re-flow not a fixed point), 266986b (empty description printed as an empty line), e44da54 (spurious blank line after a brace-less header with a trailing comment), e710ab8 (nesting bound) and 4713d1d (fmt --dir --write crashed). Trusted: Coq kernel, translator, harness, the hand-written model tied by byte-exact correspondence; Go string functions modelled.",
    "technique": "Rocq/Coq proof (inverse-pair lemmas tokenSource/lexer by induction on the literal; line- and file-level relex by explicit construction of the NextToken run; walker run constructed from the canonical stream; lexer/walker position invariants for the description gap; word-level machines for the re-flow) + byte-exact in-Coq differential correspondence of Fmt, tokenSource and reformatDescription + direct oracle (re-parse, position-free document comparison, format twice)",
}

from props import KERNEL, HARNESS, TRANSLATOR, CORR

CONFIG = {
    "props_file": "props/C09.v",
    "coq_targets": ["props/C09.vo", "model/BclFmtCorr.vo"],
    "runner": "run_bcl",
    "gens": ["gen_bcl"],
    "level": "proof",
    "trusted_base": [
        KERNEL,
        TRANSLATOR + " (TokensGen.v, UnicodeGen.v as for C11; unicode.IsSpace also drives strings.Fields / TrimSpace in the re-flow)",
        CORR, HARNESS,
        "modelled, not verified: strings.NewReplacer / ReplaceAll / Fields / TrimSpace / TrimRight / Repeat / Join, len() of strings (UTF-8 length), fmt.Sprintf with %s, []rune conversion",
        "add-only hooks: internal/bcl/internal/parser/verif_export.go, internal/bcl/verifbcl, lib/verifshim/bcl (build tag verif)",
    ],
    "assumptions": [
        "model/BclFmt.v is the hand-written model of fmt.go and description.go as they are after the fix: commits listed in KNOWN_FINDINGS.txt (tokenSource with the lexer's own escapes, Fields-based re-flow, bare '|' for an empty description), on top of the C11 models; tied to the code by byte-exact comparison of Fmt output (or its rejection) on every generated file, and of tokenSource / reformatDescription on random literals",
        "the theorems are the literal / token level and totality; the full statement (C09_full_statement) is NOT proved: the clauses 'output accepted', 'same document', 'idempotent' are decided on each run's inputs by the direct oracle only",
    ],
    "mult_search": 4,
    "refuted": [],
    "partial": ["C09_full_statement is not proved; proved: totality, formatter accepts what the parser accepts, tokenSource/lexer inverse pairs for STRING, REGEX, DESCRIPTION, COMMENT, BLOCK_COMMENT, separation lemmas for identifiers and integers, token round trip for every token the lexer can emit (C09_token_roundtrip), line-level relex for every renderable single-line fragment (C09_line_relex, C09_fragments_renderable), fixed-point property of the description re-flow"],
}

MANIFEST = {
    "text": "Theorems over a Gallina model of the formatter (tokenSource, fmter, reformatDescription, Fmt) on top of the proved lexer/walker models: Fmt never panics or exhausts fuel; it accepts every file the parser accepts; for every literal token kind, lexing the text tokenSource renders, followed by anything that cannot extend the token (the stated separation condition), returns the same token type and literal and stops right after it — strings for ALL rune lists (escapes \\\\ \\\" and escaped newline), regexes (// for /), descriptions, line comments, block comments (no */ inside), and identifiers / integers as their own source; the description re-flow is a fixed point (reformat(join(reformat x)) = reformat x for every text and width). The full property (output accepted by the parser, same document, idempotent) is stated as C09_full_statement and is not proved; its clauses are evaluated by the direct oracle on every generated file, and Fmt's output is compared byte for byte with the model's.",
    "note": "PARTIAL: literal and token level + totality only. Not proved: fragment-level round trip (walk(lex(render fs)) = fs up to positions) and idempotence of the whole formatter (its description part, the re-flow fixed point, is proved). The proofs are for the code after fixes ab323ff (tokenSource used %q and did not re-double '/'), 4c24869 (re-flow not a fixed point), 266986b (empty description printed as an empty line) and e44da54 (spurious blank line after a brace-less header with a trailing comment). Trusted: Coq kernel, translator, harness; Go string functions modelled.",
    "technique": "Rocq/Coq proof (inverse-pair lemmas between tokenSource and each lexer routine by induction on the literal) + byte-exact in-Coq differential correspondence of Fmt, tokenSource and reformatDescription + direct oracle (re-parse, position-free document comparison, format twice)",
}

from props import KERNEL, HARNESS, TRANSLATOR, CORR

CONFIG = {
    "props_file": "props/C12.v",
    "coq_targets": ["props/C12.vo", "model/RulesCorr.vo", "proofs/RulesGenProofs.vo"],
    "runner": "run_scha",
    "gens": ["gen_scha", "gen_id62"],
    "level": "proof",
    "trusted_base": [
        KERNEL,
        TRANSLATOR + " (RulesGen.v: per integer format the lt/lte/gt/gte field each branch of fields.go assigns and the condition on the exclusive flag; the array-rules condition; the id62 pattern use; Id62Gen.v: the pattern string)",
        CORR, HARNESS,
        "modelled, not verified: bufbuild/protovalidate-go v0.9.2 (field.go required / ignore-empty / zero-value handling and the CEL expressions of the rule fields j5 emits) as model/Validate.v validate_sem; it is compared on every run with the real validator's verdict on dynamic messages of the compiled type",
        "regular expressions are a Section variable re_match (hypothesis: it decides the published id62 pattern as C20's matcher does); the correspondence instantiates it with the ^[ranges]{n}$ matcher of model/Id62.v and only generates patterns of that form",
    ],
    "assumptions": [
        "model/RulesWrite.v is the hand-written model of fields.go buildField/buildProperty and summary.go mapValues; tied to the code by the regenerated switch tables and by comparing its output with the annotations the real compiler emits for every generated declaration",
        "model/Validate.v rule_sem is the declared meaning: bounds inclusive unless exclusive* = true, string length in characters, bytes length in bytes, enum membership by option name, uuid = canonical 8-4-4-4-12 text, id62 = the published pattern, required = populated (for an implicit-presence scalar: non-zero), rules apply to the value a field has (an unpopulated implicit-presence field has its zero value)",
        "three quarters of the compile units go through j5s text (integer bounds non-negative: BCL has no negative literal), one quarter through the source AST (lib/verifshim/scha), which also carries negative bounds and present-but-empty rules messages; the theorems quantify over all of Z",
        "the only hypothesis on the declaration is that it compiles; on the enum, that its value names are pairwise different (protobuf requires it). Integer rules with a bound outside the format's range or minimum > maximum are compile errors since 43e9b7b (before, the full statement was refuted by them)",
        "float fields and the contents of message-typed fields are outside the modelled value domain (j5 emits no constraint for them); map keys are unconstrained strings",
    ],
    "mult_search": 3,
    "refuted": [],
    "partial": [],
}

MANIFEST = {
    "text": "Theorem C12_full (for all declarations the compiler accepts; for all values: all of Z, all strings, all byte strings, all lists and maps; plain / required / optional / array / map): the (buf.validate.field) constraint the modelled writer emits is accepted by the modelled validator iff the value satisfies the declared rules (integer bounds with inclusivity, string length + pattern, key formats uuid / id62 / custom, bytes length, bool const, enum defined-only / in / not-in by option name, array item counts + uniqueness + per-item rules, map pair counts + per-value rules, required presence incl. primary keys). The writer model is tied to fields.go by regenerated switch tables and by comparing emitted annotations for every generated declaration; the validator model is tied to protovalidate-go by comparing verdicts on values around every boundary; the direct oracle compares the declared meaning (in Go, with Go regexp) with the real verdict.",
    "note": "Full statement proved on the model. protovalidate-go and regexp are modelled, not verified (regular expressions are a section variable with the single hypothesis that the engine decides the published id62 pattern as C20's matcher does); floats and the contents of message-typed fields are outside the value domain. Eight defects found by this check were repaired in /repo (KNOWN_FINDINGS.txt fixed: lines), among them the two that refuted the full statement (minimum > maximum, bounds outside the format's range: now compile errors). All theorems closed under the global context.",
    "technique": "Rocq/Coq proof (case analysis + linear arithmetic over Z, list induction) over Gallina models of the annotation writer and of the protovalidate subset + regenerated switch tables + in-Coq differential correspondence against the real compiler and the real validator",
}

from props import KERNEL, HARNESS, TRANSLATOR, CORR

CONFIG = {
    "props_file": "props/C01.v",
    "coq_targets": ["props/C01.vo", "model/CodecEncCorr.vo"],
    "runner": "run_codecenc",
    "gens": ["gen_codecenc"],
    "level": "proof",
    "trusted_base": [
        KERNEL,
        TRANSLATOR + " (EncSwitchGen.v: arms of encodeScalarField / scalarGoFromReflect, DateString verb, time layout, base64 encoding)",
        CORR, HARNESS,
        "section hypothesis float_roundtrip: strconv.ParseFloat(strconv.FormatFloat(f,'g',-1,bits), bits) = f for finite f (Go's documented shortest-representation guarantee; exercised on 20 000 / 2 000 000 floats per run against strconv)",
        "section hypothesis time_parse_extends: time.Parse(time.RFC3339, s) agrees with its fast path parseRFC3339 (modelled as Civil.parse_rfc3339) wherever the fast path accepts (exercised per run against time.Parse)",
        "modelled, not verified: protoreflect Has/Set/Mutable/Append (CodecTypes), the reflector's ClientProperties (environment dumped from the real reflector), strconv integer functions, encoding/base64, time, fmt, shopspring/decimal NewFromString/String (lib/Decimal.v) — each with its own correspondence stream",
    ],
    "assumptions": [
        "model/CodecEnc.v (encoder) and model/CodecEncDec.v (decoder acting on a JSON tree) are hand-written models of internal/codec and lib/j5reflect; both are compared with the real codec on the generated (schema, message) pairs of the run (CRound: encode, then decode of the real output, message for message; the same case also evaluates the decoder family's Go-tied token-level model CodecDec.decode_bytes on the document and demands the same message). Documents over 2600 bytes are checked by the direct oracle only (model_skipped_large_document); messages holding a protobuf Any only check that both sides refuse them under the default codec",
        "the decoder in the theorems is CodecEncDec.decode_tree, this family's tree-level model of decoder.go; no lemma connects it to the decoder family's CodecDec / CodecDecTree — the link is the per-case cross-check above, on encoder output only",
        "schemas of the run: 5 compiled message types of /repo's test schema and 3 messages of one hand-built dynamic descriptor file (verif.wide.v1: every scalar kind, arrays/maps of scalars, enums, objects and oneofs, flatten, exposed oneof, Any); schemas are NOT generated randomly and none comes from compiling generated j5s text — the theorem quantifies over all environments, the tie to Go does not",
        "representable = valid UTF-8, finite floats, defined enum numbers, years 0001-9999 with real calendar days, timestamps 0001-9999 with nanos in [0, 1e9), decimals accepted by decimal.NewFromString with exponent within +-1000",
        "equality of the decoded message: exact, except decimals (normalised text; dec_parse of both texts succeeds and the values are numerically equal, lib/Decimal.v dec_normalise_numeric), empty flattened sub-objects (absent), Any values (type name and payload)",
    ],
    "mult_search": 3,
    "refuted": [],
    "partial": ["C01_full_statement is proved (encode succeeds + parses + decodes to an equivalent message) for j5 messages without protobuf Any values (they decode only with WithProtoToAny and are outside rep_value), with the decode half stated for documents within the decoder's 10000-level nesting bound, and over this family's own decoder model CodecEncDec.decode_tree (cross-checked per case against the decoder family's Go-tied CodecDec.decode_bytes, not proved equal to it)"],
}

MANIFEST = {
    "text": "Theorems over Gallina models of the J5 JSON encoder and decoder. Full statement (C01_full_statement = C01_encode_succeeds + C01_codec_roundtrip), for all schema environments and all representable messages: encode m = Ok txt (no error, no panic, the fuel 4 per message level suffices), txt parses (strict RFC 8259 reader) to a tree J, and decoding J into a fresh message (decodeObjectInner / decodeOneofInner / decodeValue arms / decodeAny / CreateField with its already-set and oneof-conflict guards / protoreflect Set-Mutable-Append through the presence algebra, flattened paths and exposed oneofs included) succeeds within the decoder's nesting bound and yields a message equal to m property by property (decimals as normalised text, Any as type + JSON payload, empty flattened sub-message = absent, maps in encoder order); proved by strong induction on encoder fuel with a message/path algebra and a loop invariant over the leaf properties. Scalar layer: for every scalar kind and every value of its documented domain the printed token is read back by the matching arm of scalarReflectFromGo to the same value (integers over Z with the int32/int64/uint32/uint64 ranges, strings through appendString and the strict JSON reader, bytes through padded std base64 and the lenient decoder, timestamps through RFC3339Nano formatting and the RFC 3339 fast path for all instants of years 0001-9999 — proleptic Gregorian calendar round trip proved for every day —, dates through %04d-%02d-%02d and DateFromString, decimals to their normalised text). Tied to the code by re-reading the Go switch tables and by a round-trip correspondence stream (real encode, real decode, both models) on generated messages of fixed and dynamically built descriptors; a direct round-trip oracle compares decode(encode m) with m on the real code.",
    "note": "The message-level theorem (C01_full_statement: encoding succeeds, the text parses, decoding gives an equivalent message) is stated over this family's own decoder model (cross-checked per case against the decoder family's model, not proved equal). Generated inputs range over 8 fixed message types, not over generated schemas. The float law of strconv and 'time.Parse extends its RFC 3339 fast path' are explicit premises (exercised every run). protobuf Any values with a proto payload decode only with the WithProtoToAny option (the oracle uses it for such messages). Message nesting beyond 10000 property levels encodes but is refused by the decoder (documented bound).",
    "technique": "Rocq/Coq proof (radix and calendar round trips, the latter by exhaustive evaluation of one 400-year era lifted to all days; print/parse inverses) + in-Coq differential correspondence of encoder and decoder models against the real codec + direct round-trip oracle",
}

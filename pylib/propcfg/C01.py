from props import KERNEL, HARNESS, TRANSLATOR, CORR

CONFIG = {
    "props_file": "props/C01.v",
    "coq_targets": ["props/C01.vo", "model/CodecEncCorr.vo"],
    "runner": "run_codecenc",
    "gens": ["gen_codecenc"],
    "level": "proof",
    "trusted_base": [
        KERNEL,
        TRANSLATOR + " (EncSwitchGen.v: arms of encodeScalarField / scalarGoFromReflect, DateString verb, time layout, base64 encoding)",
        CORR, HARNESS,
        "section hypothesis float_roundtrip: strconv.ParseFloat(strconv.FormatFloat(f,'g',-1,bits), bits) = f for finite f (Go's documented shortest-representation guarantee; exercised on 20 000 / 2 000 000 floats per run against strconv)",
        "section hypothesis time_parse_extends: time.Parse(time.RFC3339, s) agrees with its fast path parseRFC3339 (modelled as Civil.parse_rfc3339) wherever the fast path accepts (exercised per run against time.Parse)",
        "modelled, not verified: protoreflect Has/Set/Mutable/Append (CodecTypes), the reflector's ClientProperties (environment dumped from the real reflector), strconv integer functions, encoding/base64, time, fmt, shopspring/decimal NewFromString/String (lib/Decimal.v) — each with its own correspondence stream",
    ],
    "assumptions": [
        "model/CodecEnc.v (encoder) and model/CodecEncDec.v (decoder acting on a JSON tree) are hand-written models of internal/codec and lib/j5reflect; both are compared with the real codec on every generated (schema, message) pair of the run (CRound: encode, then decode of the real output, message for message)",
        "representable = valid UTF-8, finite floats, defined enum numbers, years 0001-9999 with real calendar days, timestamps 0001-9999 with nanos in [0, 1e9), decimals accepted by decimal.NewFromString with exponent within +-1000",
        "equality of the decoded message: exact, except decimals (normalised text, numerically equal), empty flattened sub-objects (absent), Any values (type name and payload)",
    ],
    "mult_search": 3,
    "refuted": [],
    "partial": ["C01_codec_roundtrip is conditional on 'encode = Ok txt' (C01_full_statement also asserts that encoding a representable message succeeds; checked by the direct oracle on every generated message, not yet proved); protobuf Any values are outside rep_value (they decode only with WithProtoToAny)"],
}

MANIFEST = {
    "text": "Theorems over Gallina models of the J5 JSON encoder and decoder. Structural round trip (C01_codec_roundtrip), for all schema environments and all representable messages: if encode m = Ok txt then txt parses (strict RFC 8259 reader) to a tree J, and decoding J into a fresh message (decodeObjectInner / decodeOneofInner / decodeValue arms / decodeAny / CreateField with its already-set and oneof-conflict guards / protoreflect Set-Mutable-Append through the presence algebra, flattened paths and exposed oneofs included) succeeds within the decoder's nesting bound and yields a message equal to m property by property (decimals as normalised text, Any as type + JSON payload, empty flattened sub-message = absent, maps in encoder order); proved by strong induction on encoder fuel with a message/path algebra and a loop invariant over the leaf properties. Scalar layer: for every scalar kind and every value of its documented domain the printed token is read back by the matching arm of scalarReflectFromGo to the same value (integers over Z with the int32/int64/uint32/uint64 ranges, strings through appendString and the strict JSON reader, bytes through padded std base64 and the lenient decoder, timestamps through RFC3339Nano formatting and the RFC 3339 fast path for all instants of years 0001-9999 — proleptic Gregorian calendar round trip proved for every day —, dates through %04d-%02d-%02d and DateFromString, decimals to their normalised text). Tied to the code by re-reading the Go switch tables and by a round-trip correspondence stream (real encode, real decode, both models) on generated messages of fixed and dynamically built descriptors; a direct round-trip oracle compares decode(encode m) with m on the real code.",
    "note": "The float law of strconv and 'time.Parse extends its RFC 3339 fast path' are explicit premises (exercised every run). protobuf Any values with a proto payload decode only with the WithProtoToAny option (the oracle uses it for such messages). Message nesting beyond 10000 property levels encodes but is refused by the decoder (documented bound).",
    "technique": "Rocq/Coq proof (radix and calendar round trips, the latter by exhaustive evaluation of one 400-year era lifted to all days; print/parse inverses) + in-Coq differential correspondence of encoder and decoder models against the real codec + direct round-trip oracle",
}
